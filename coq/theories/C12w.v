(* C12 non-vacuity: the hypotheses of the C12 theorems are met, with a toy digest (the first two bytes of the
   stream, tagged with the algorithm) and the proved hexadecimal encoder of H14. *)
From Coq Require Import List Ascii String Bool Arith ZArith Lia.
Require Import GS H12 H13 H14.
Import ListNotations.

Definition tag (a : alg) : ascii := match a with MD5 => "m" | SHA1 => "1" | SHA256 => "2" | SHA512 => "5" end%char.
Definition toyH (a : alg) (x : str) : str := tag a :: firstn 2 x.
Definition toy_int (x : str) : option Z := if str_eqb x (s "3") then Some 3%Z else None.

Example C12w_writers : exists st, run_writers [s "md5"; s "sha256"] [s "ab"; s "c"] = Some st /\
  w_target st = s "abc" /\ map (hasher_sum toyH) (w_hashers st) = [s "mab"; s "2ab"] /\ map h_size (w_hashers st) = [3%Z; 3%Z].
Proof. eexists. split; [vm_compute; reflexivity|]. vm_compute. repeat split. Qed.
Example C12w_same_stream_other_chunks : List.concat [s "ab"; s "c"] = List.concat [s "a"; []; s "bc"].
Proof. reflexivity. Qed.
Example C12w_accept : verify toyH {| f_alg := s "sha256"; f_hash := hex_encode (s "2ab"); f_size := 3; f_name := s "x" |} [s "a"; s "bc"] = Accept.
Proof. vm_compute. reflexivity. Qed.
Example C12w_reject : verify toyH {| f_alg := s "sha512"; f_hash := hex_encode (s "2ab"); f_size := 3; f_name := s "x" |} [s "a"; s "bc"] = Reject.
Proof. vm_compute. reflexivity. Qed.
Example C12w_parsed : unmarshal_hash toy_int (s "sha256") (s "326162 3 name") =
  Some {| f_alg := s "sha256"; f_hash := s "326162"; f_size := 3; f_name := s "name" |}.
Proof. vm_compute. reflexivity. Qed.
Example C12w_best : let e := {| f_alg := s "sha512"; f_hash := s "356162"; f_size := 3; f_name := s "n" |} in
  In e (best_checksums [] [e]) /\ Forall (fun e => f_alg e = s "sha512") [e] /\ verify toyH e [s "abc"] = Accept.
Proof. cbn. repeat split; [now left|repeat constructor]. Qed.
