From Coq Require Import List Ascii String ZArith NArith Lia Bool Arith.
Import ListNotations.
Open Scope Z_scope.

Definition str := list ascii.
Definition code (c : ascii) : Z := Z.of_N (N_of_ascii c).

Definition is_digit (c : ascii) : bool := (48 <=? code c) && (code c <=? 57).
Definition is_alpha (c : ascii) : bool :=
  ((97 <=? code c) && (code c <=? 122)) || ((65 <=? code c) && (code c <=? 90)).
Definition order (c : ascii) : Z :=
  if is_digit c then 0
  else if is_alpha c then code c
  else if code c =? 126 then -1
  else if code c =? 0 then 0 else code c + 256.

(* ---------- model of verrevcmp (cursor = suffix) ---------- *)
Definition nd_head (s : str) : bool := match s with c :: _ => negb (is_digit c) | [] => false end.
Definition d_head (s : str) : bool := match s with c :: _ => is_digit c | [] => false end.
Definition ord_head (s : str) : Z := match s with c :: _ => order c | [] => 0 end.

Fixpoint nondigit_phase (fuel : nat) (a b : str) : Z + (str * str) :=
  match fuel with
  | O => inr (a, b)
  | S f => if nd_head a || nd_head b then
             if ord_head a =? ord_head b then nondigit_phase f (tl a) (tl b)
             else inl (ord_head a - ord_head b)
           else inr (a, b)
  end.

Fixpoint skip_zeros (s : str) : str :=
  match s with c :: r => if code c =? 48 then skip_zeros r else s | [] => [] end.

Fixpoint digit_phase (a b : str) (fd : Z) : str * str * Z :=
  match a, b with
  | ca :: a', cb :: b' =>
      if is_digit ca && is_digit cb
      then digit_phase a' b' (if fd =? 0 then code ca - code cb else fd)
      else (a, b, fd)
  | _, _ => (a, b, fd)
  end.

Fixpoint verrevcmp_fuel (fuel : nat) (a b : str) : option Z :=
  match fuel with
  | O => None
  | S f =>
      match a, b with
      | [], [] => Some 0
      | _, _ =>
          match nondigit_phase (List.length a + List.length b) a b with
          | inl r => Some r
          | inr (a1, b1) =>
              let '(a2, b2, fd) := digit_phase (skip_zeros a1) (skip_zeros b1) 0 in
              if d_head a2 then Some 1
              else if d_head b2 then Some (-1)
              else if fd =? 0 then verrevcmp_fuel f a2 b2 else Some fd
          end
      end
  end.

Definition verrevcmp (a b : str) : option Z := verrevcmp_fuel (S (List.length a + List.length b)) a b.

(* ---------- token key ---------- *)
Definition tok := (Z * N)%type.
Definition dval (c : ascii) : N := Z.to_N (code c - 48).

Fixpoint toks_aux (acc : option N) (s : str) : list tok :=
  match s with
  | [] => match acc with Some n => [(0, n)] | None => [] end
  | c :: r =>
      if is_digit c
      then toks_aux (Some (10 * (match acc with Some n => n | None => 0 end) + dval c)%N) r
      else (match acc with Some n => [(0, n)] | None => [] end) ++ (order c, 0%N) :: toks_aux None r
  end.
Definition toks (s : str) := toks_aux None s.

Definition tok_cmp (x y : tok) : comparison :=
  match Z.compare (fst x) (fst y) with Eq => N.compare (snd x) (snd y) | c => c end.

Fixpoint lexpad_nil_l (l2 : list tok) : comparison :=
  match l2 with [] => Eq | y :: r => match tok_cmp (0,0%N) y with Eq => lexpad_nil_l r | c => c end end.
Fixpoint lexpad (l1 l2 : list tok) : comparison :=
  match l1 with
  | [] => lexpad_nil_l l2
  | x :: r1 =>
      match l2 with
      | [] => match tok_cmp x (0,0%N) with Eq => lexpad r1 [] | c => c end
      | y :: r2 => match tok_cmp x y with Eq => lexpad r1 r2 | c => c end
      end
  end.

Definition csgn (c : comparison) : Z := match c with Eq => 0 | Lt => -1 | Gt => 1 end.

Definition s (x : string) : str := list_ascii_of_string x.
Eval vm_compute in (verrevcmp (s "1.0~rc1") (s "1.0"), verrevcmp (s "1.0") (s "1.0+b1"),
                    verrevcmp (s "9") (s "10"), verrevcmp (s "007") (s "7a"), verrevcmp (s "a0") (s "a")).
Eval vm_compute in (lexpad (toks (s "1.0~rc1")) (toks (s "1.0")), lexpad (toks (s "1.0")) (toks (s "1.0+b1")),
                    lexpad (toks (s "9")) (toks (s "10")), lexpad (toks (s "007")) (toks (s "7a")), lexpad (toks (s "a0")) (toks (s "a"))).


(* ================= proofs ================= *)
Definition nonul (s : str) : Prop := Forall (fun c => code c <> 0) s.

Lemma code_range c : 0 <= code c < 256.
Proof. unfold code. pose proof (N_ascii_bounded c). lia. Qed.

Lemma order_nz c : code c <> 0 -> is_digit c = false -> order c <> 0.
Proof.
  intros Hn Hd. unfold order. rewrite Hd.
  destruct (is_alpha c) eqn:Ha.
  - unfold is_alpha in Ha. lia.
  - destruct (code c =? 126) eqn:E1; [lia|].
    destruct (code c =? 0) eqn:E0; [lia|]. pose proof (code_range c). lia.
Qed.

Lemma order_digit c : is_digit c = true -> order c = 0.
Proof. intros H. unfold order. now rewrite H. Qed.

(* --- digits_val and toks unfolding --- *)
Fixpoint digits_val (acc : N) (s : str) : N * str :=
  match s with
  | c :: r => if is_digit c then digits_val (10 * acc + dval c)%N r else (acc, s)
  | [] => (acc, [])
  end.

Lemma toks_aux_some n s :
  toks_aux (Some n) s = (0, fst (digits_val n s)) :: toks_aux None (snd (digits_val n s)).
Proof.
  revert n. induction s as [|c r IH]; intros n; cbn [toks_aux digits_val].
  - reflexivity.
  - destruct (is_digit c) eqn:Hd.
    + apply IH.
    + cbn [fst snd toks_aux]. rewrite Hd. reflexivity.
Qed.

Lemma toks_nd c r : is_digit c = false -> toks (c :: r) = (order c, 0%N) :: toks r.
Proof. intros H. unfold toks. cbn [toks_aux]. now rewrite H. Qed.

Lemma toks_d s : d_head s = true ->
  toks s = (0, fst (digits_val 0 s)) :: toks (snd (digits_val 0 s)).
Proof.
  destruct s as [|c r]; [discriminate|]. cbn [d_head]. intros H.
  unfold toks. cbn [toks_aux digits_val]. rewrite H. rewrite toks_aux_some.
  reflexivity.
Qed.


Lemma digits_val_rest acc s : d_head (snd (digits_val acc s)) = false.
Proof.
  revert acc. induction s as [|c r IH]; intros acc; cbn [digits_val].
  - reflexivity.
  - destruct (is_digit c) eqn:H; [apply IH|]. cbn. now rewrite H.
Qed.

Lemma digits_val_len acc s : (List.length (snd (digits_val acc s)) <= List.length s)%nat.
Proof.
  revert acc. induction s as [|c r IH]; intros acc; cbn [digits_val]; [cbn; lia|].
  destruct (is_digit c); cbn [snd List.length]; [specialize (IH (10*acc + dval c)%N); lia | lia].
Qed.

Lemma digits_val_nonul acc s : nonul s -> nonul (snd (digits_val acc s)).
Proof.
  revert acc. induction s as [|c r IH]; intros acc H; cbn [digits_val]; [constructor|].
  destruct (is_digit c); [apply IH; now inversion H | exact H].
Qed.

(* --- lexpad padding lemmas --- *)
Lemma lexpad_nil_l_eq l : lexpad [] l = lexpad_nil_l l.
Proof. reflexivity. Qed.

Lemma lexpad_nil_r_pad l : lexpad l [] = lexpad l [(0,0%N)].
Proof.
  destruct l as [|x r]; cbn.
  - reflexivity.
  - destruct (tok_cmp x (0,0%N)); try reflexivity; destruct r; reflexivity.
Qed.

Lemma lexpad_nil_l_pad l : lexpad [] l = lexpad [(0,0%N)] l.
Proof.
  destruct l as [|y r]; cbn.
  - reflexivity.
  - destruct (tok_cmp (0,0%N) y); reflexivity.
Qed.

(* key of a string whose head is a digit or that is empty, uniformly *)
Definition dkey (s : str) : list tok := (0, fst (digits_val 0 s)) :: toks (snd (digits_val 0 s)).

Lemma lexpad_dkey a b : nd_head a = false -> nd_head b = false ->
  lexpad (toks a) (toks b) = lexpad (dkey a) (dkey b).
Proof.
  intros Ha Hb.
  assert (Ka : a = [] \/ d_head a = true).
  { destruct a; [now left|right]. cbn in *. now destruct (is_digit a). }
  assert (Kb : b = [] \/ d_head b = true).
  { destruct b; [now left|right]. cbn in *. now destruct (is_digit a0). }
  destruct Ka as [->|Ka], Kb as [->|Kb].
  - reflexivity.
  - rewrite (toks_d b Kb). fold (dkey b). unfold dkey at 1. cbn [digits_val fst snd].
    change (toks []) with (@nil tok). rewrite lexpad_nil_l_pad. reflexivity.
  - rewrite (toks_d a Ka). fold (dkey a). unfold dkey at 2. cbn [digits_val fst snd].
    change (toks []) with (@nil tok). rewrite lexpad_nil_r_pad. reflexivity.
  - now rewrite (toks_d a Ka), (toks_d b Kb).
Qed.

Lemma lexpad_dkey_cmp a b :
  lexpad (dkey a) (dkey b) =
  match N.compare (fst (digits_val 0 a)) (fst (digits_val 0 b)) with
  | Eq => lexpad (toks (snd (digits_val 0 a))) (toks (snd (digits_val 0 b)))
  | c => c end.
Proof. unfold dkey. cbn [lexpad]. unfold tok_cmp. cbn [fst snd]. reflexivity. Qed.

(* --- comparison helpers --- *)
Lemma csgn_Zcompare x y : csgn (Z.compare x y) = Z.sgn (x - y).
Proof. destruct (Z.compare_spec x y); cbn; lia. Qed.

Lemma cmp_ne_keep {A} (c : comparison) (k : A -> comparison) (e : comparison) :
  c <> Eq -> match c with Eq => e | Lt => Lt | Gt => Gt end = c.
Proof. destruct c; congruence. Qed.

Lemma nd_head_false_cases s : nd_head s = false -> s = [] \/ d_head s = true.
Proof. destruct s as [|c r]; [now left|right]. cbn in *. now destruct (is_digit c). Qed.

Lemma head_cases (s : str) :
  s = [] \/ (exists c r, s = c :: r /\ is_digit c = true) \/ (exists c r, s = c :: r /\ is_digit c = false).
Proof. destruct s as [|c r]; [now left|right]. destruct (is_digit c) eqn:H; [left|right]; eauto. Qed.

Lemma toks_d_cons c r : is_digit c = true -> exists m t, toks (c :: r) = (0, m) :: t.
Proof. intros H. rewrite toks_d by (cbn; exact H). eauto. Qed.

Lemma nonul_tl s : nonul s -> nonul (tl s).
Proof. destruct s; cbn; [auto|]. intros H; now inversion H. Qed.

Lemma step_eq a b : nonul a -> nonul b ->
  nd_head a || nd_head b = true -> ord_head a = ord_head b ->
  lexpad (toks a) (toks b) = lexpad (toks (tl a)) (toks (tl b)).
Proof.
  intros Na Nb Hh He.
  destruct (head_cases a) as [->|[(ca&ra&->&Da)|(ca&ra&->&Da)]];
  destruct (head_cases b) as [->|[(cb&rb&->&Db)|(cb&rb&->&Db)]];
  cbn [nd_head ord_head tl] in *; rewrite ?Da, ?Db in Hh; cbn in Hh; try discriminate;
  try (inversion Na; subst); try (inversion Nb; subst);
  repeat match goal with
  | H : is_digit ?c = true |- _ => rewrite (order_digit c H) in He
  end;
  try (exfalso; match goal with
       | Hc : code ?c <> 0, Hd : is_digit ?c = false |- _ => apply (order_nz c Hc Hd); lia end).
  (* only case left: both non-digit, equal order *)
  rewrite (toks_nd ca ra Da), (toks_nd cb rb Db). cbn [lexpad]. unfold tok_cmp. cbn [fst snd].
  rewrite He, Z.compare_refl. reflexivity.
Qed.

Lemma step_ne a b : nonul a -> nonul b ->
  nd_head a || nd_head b = true -> ord_head a <> ord_head b ->
  Z.sgn (ord_head a - ord_head b) = csgn (lexpad (toks a) (toks b)).
Proof.
  intros Na Nb Hh He.
  destruct (head_cases a) as [->|[(ca&ra&->&Da)|(ca&ra&->&Da)]];
  destruct (head_cases b) as [->|[(cb&rb&->&Db)|(cb&rb&->&Db)]];
  cbn [nd_head ord_head tl] in *; rewrite ?Da, ?Db in Hh; cbn in Hh; try discriminate;
  try (inversion Na; subst); try (inversion Nb; subst);
  repeat match goal with
  | H : is_digit ?c = true |- _ => rewrite (order_digit c H) in *
  end.
  - (* a = [], b nondigit *)
    rewrite (toks_nd cb rb Db). change (toks []) with (@nil tok). cbn [lexpad lexpad_nil_l].
    unfold tok_cmp; cbn [fst snd]. destruct (Z.compare_spec 0 (order cb)); cbn; lia.
  - (* a digit, b nondigit *)
    destruct (toks_d_cons ca ra Da) as (m&t&->). rewrite (toks_nd cb rb Db). cbn [lexpad].
    unfold tok_cmp; cbn [fst snd]. destruct (Z.compare_spec 0 (order cb)); cbn; lia.
  - (* a nondigit, b = [] *)
    rewrite (toks_nd ca ra Da). change (toks []) with (@nil tok). cbn [lexpad].
    unfold tok_cmp; cbn [fst snd]. destruct (Z.compare_spec (order ca) 0); cbn; lia.
  - (* a nondigit, b digit *)
    destruct (toks_d_cons cb rb Db) as (m&t&->). rewrite (toks_nd ca ra Da). cbn [lexpad].
    unfold tok_cmp; cbn [fst snd]. destruct (Z.compare_spec (order ca) 0); cbn; lia.
  - (* both nondigit *)
    rewrite (toks_nd ca ra Da), (toks_nd cb rb Db). cbn [lexpad].
    unfold tok_cmp; cbn [fst snd]. destruct (Z.compare_spec (order ca) (order cb)); cbn; lia.
Qed.

Lemma nondigit_phase_spec : forall fuel a b,
  (List.length a + List.length b <= fuel)%nat -> nonul a -> nonul b ->
  match nondigit_phase fuel a b with
  | inl r => r <> 0 /\ Z.sgn r = csgn (lexpad (toks a) (toks b))
  | inr (a1, b1) =>
      nd_head a1 = false /\ nd_head b1 = false /\
      lexpad (toks a) (toks b) = lexpad (toks a1) (toks b1) /\
      nonul a1 /\ nonul b1 /\
      (nd_head a || nd_head b = true -> (List.length a1 + List.length b1 < List.length a + List.length b)%nat) /\
      (nd_head a || nd_head b = false -> a1 = a /\ b1 = b)
  end.
Proof.
  induction fuel as [|f IH]; intros a b Hlen Na Nb.
  - destruct a; [|cbn in Hlen; lia]. destruct b; [|cbn in Hlen; lia]. cbn.
    split; [reflexivity|]. split; [reflexivity|]. split; [reflexivity|].
    split; [exact Na|]. split; [exact Nb|]. split; [discriminate|]. intros _. split; reflexivity.
  - cbn [nondigit_phase]. destruct (nd_head a || nd_head b) eqn:Hh.
    + destruct (Z.eqb_spec (ord_head a) (ord_head b)) as [He|He].
      * assert (Hl : (List.length (tl a) + List.length (tl b) <= f)%nat /\
                     (List.length (tl a) + List.length (tl b) < List.length a + List.length b)%nat).
        { destruct a, b; cbn in *; try discriminate; lia. }
        destruct Hl as [Hl1 Hl2].
        specialize (IH (tl a) (tl b) Hl1 (nonul_tl _ Na) (nonul_tl _ Nb)).
        rewrite (step_eq a b Na Nb Hh He).
        destruct (nondigit_phase f (tl a) (tl b)) as [r|[a1 b1]].
        -- exact IH.
        -- destruct IH as (H1&H2&H3&H4&H5&H6&H7).
           split; [exact H1|]. split; [exact H2|]. split; [exact H3|].
           split; [exact H4|]. split; [exact H5|]. split.
           ++ intros _. destruct (nd_head (tl a) || nd_head (tl b)) eqn:E.
              ** specialize (H6 eq_refl). lia.
              ** destruct (H7 eq_refl) as [-> ->]. lia.
           ++ discriminate.
      * split; [lia|]. apply step_ne; auto.
    + pose proof Hh as Hh'. apply orb_false_iff in Hh'. destruct Hh' as [Ha Hb].
      split; [exact Ha|]. split; [exact Hb|]. split; [reflexivity|].
      split; [exact Na|]. split; [exact Nb|]. split; [discriminate|]. intros _. split; reflexivity.
Qed.

(* --- digit phase --- *)
Lemma dval_digit c : is_digit c = true -> (dval c <= 9)%N /\ (code c <> 48 -> (1 <= dval c)%N)
   /\ Z.of_N (dval c) = code c - 48.
Proof. unfold is_digit, dval. intros H. lia. Qed.

Lemma digits_val_mono v s : (v <= fst (digits_val v s))%N.
Proof.
  revert v. induction s as [|c r IH]; intros v; cbn [digits_val]; [cbn; lia|].
  destruct (is_digit c); [|cbn; lia]. specialize (IH (10 * v + dval c)%N). lia.
Qed.

Lemma digits_val_lb v c r : is_digit c = true -> (10 * v + dval c <= fst (digits_val v (c :: r)))%N.
Proof. intros H. cbn [digits_val]. rewrite H. apply digits_val_mono. Qed.

Lemma digits_val_nodigit v s : d_head s = false -> digits_val v s = (v, s).
Proof. destruct s as [|c r]; cbn; [reflexivity|]. now intros ->. Qed.

Definition hnz (s : str) : Prop := match s with c :: _ => code c <> 48 | [] => True end.

Lemma digit_phase_spec : forall a b fd va vb P,
  (1 <= P)%N -> (va < P)%N -> (vb < P)%N ->
  (P = 1%N -> hnz a /\ hnz b) ->
  ((1 < P)%N -> (P <= 10 * va)%N /\ (P <= 10 * vb)%N) ->
  (fd = 0 -> va = vb) -> (0 < fd -> (vb < va)%N) -> (fd < 0 -> (va < vb)%N) ->
  let '(a2, b2, fd') := digit_phase a b fd in
  let na := fst (digits_val va a) in let nb := fst (digits_val vb b) in
  (d_head a2 = true -> (nb < na)%N) /\
  (d_head a2 = false -> d_head b2 = true -> (na < nb)%N) /\
  (d_head a2 = false -> d_head b2 = false ->
     a2 = snd (digits_val va a) /\ b2 = snd (digits_val vb b) /\
     (fd' = 0 -> na = nb) /\ (0 < fd' -> (nb < na)%N) /\ (fd' < 0 -> (na < nb)%N)).
Proof.
  induction a as [|ca a' IH]; intros b fd va vb P HP Hva Hvb H1 Hgt F0 Fp Fn.
  - (* a = [] *)
    cbn [digit_phase digits_val fst snd d_head].
    split; [discriminate|]. split.
    + intros _ Hb. destruct b as [|cb b']; [discriminate|]. cbn [d_head] in Hb.
      pose proof (digits_val_lb vb cb b' Hb) as L. destruct (dval_digit cb Hb) as (D1&D2&_).
      destruct (N.eq_dec P 1) as [->|Hne].
      * destruct (H1 eq_refl) as [_ Hz]. cbn in Hz. specialize (D2 Hz). lia.
      * destruct Hgt as [G1 G2]; lia.
    + intros _ Hb. rewrite (digits_val_nodigit vb b Hb). cbn [fst snd]. auto.
  - destruct b as [|cb b'].
    + (* b = [] *)
      cbn [digit_phase]. cbn [d_head].
      split.
      * intros Ha. pose proof (digits_val_lb va ca a' Ha) as L. destruct (dval_digit ca Ha) as (D1&D2&_).
        change (digits_val vb []) with (vb, @nil ascii). cbn [fst].
        destruct (N.eq_dec P 1) as [->|Hne].
        -- destruct (H1 eq_refl) as [Hz _]. cbn in Hz. specialize (D2 Hz). lia.
        -- destruct Hgt as [G1 G2]; lia.
      * split; [discriminate|]. intros Ha _. change (digits_val vb []) with (vb, @nil ascii).
        assert (E : digits_val va (ca :: a') = (va, ca :: a')) by (apply digits_val_nodigit; exact Ha).
        rewrite E. cbn [digits_val fst snd]. auto.
    + cbn [digit_phase]. destruct (is_digit ca) eqn:Da; destruct (is_digit cb) eqn:Db; cbn [andb].
      * (* both digits: recurse *)
        destruct (dval_digit ca Da) as (A1&A2&A3). destruct (dval_digit cb Db) as (B1&B2&B3).
        specialize (IH b' (if fd =? 0 then code ca - code cb else fd)
                       (10 * va + dval ca)%N (10 * vb + dval cb)%N (10 * P)%N).
        cbn [digits_val]. rewrite Da, Db.
        apply IH; clear IH; try lia.
        -- destruct (N.eq_dec P 1) as [->|Hne].
           ++ destruct (H1 eq_refl) as [Hz1 Hz2]. cbn in Hz1, Hz2. specialize (A2 Hz1). specialize (B2 Hz2). lia.
           ++ lia.
        -- destruct (Z.eqb_spec fd 0); intros; [specialize (F0 e); lia | lia].
        -- destruct (Z.eqb_spec fd 0); intros; [specialize (F0 e); lia | lia].
        -- destruct (Z.eqb_spec fd 0); intros; [specialize (F0 e); lia | lia].
      * (* ca digit, cb not *)
        cbn [d_head]. rewrite Da, Db. split.
        -- intros _. pose proof (digits_val_lb va ca a' Da) as L. destruct (dval_digit ca Da) as (D1&D2&_).
           rewrite (digits_val_nodigit vb (cb :: b')) by (cbn; exact Db). cbn [fst].
           destruct (N.eq_dec P 1) as [->|Hne].
           ++ destruct (H1 eq_refl) as [Hz _]. cbn in Hz. specialize (D2 Hz). lia.
           ++ lia.
        -- split; discriminate.
      * (* ca not digit, cb digit *)
        cbn [d_head]. rewrite Da, Db. split; [discriminate|]. split.
        -- intros _ _. pose proof (digits_val_lb vb cb b' Db) as L. destruct (dval_digit cb Db) as (D1&D2&_).
           rewrite (digits_val_nodigit va (ca :: a')) by (cbn; exact Da). cbn [fst].
           destruct (N.eq_dec P 1) as [->|Hne].
           ++ destruct (H1 eq_refl) as [_ Hz]. cbn in Hz. specialize (D2 Hz). lia.
           ++ lia.
        -- discriminate.
      * (* neither *)
        cbn [d_head]. rewrite Da, Db. split; [discriminate|]. split; [discriminate|]. intros _ _.
        rewrite (digits_val_nodigit va (ca :: a')) by (cbn; exact Da).
        rewrite (digits_val_nodigit vb (cb :: b')) by (cbn; exact Db). cbn [fst snd]. auto.
Qed.

(* --- skip_zeros --- *)
Lemma code48_digit c : code c = 48 -> is_digit c = true /\ dval c = 0%N.
Proof. unfold is_digit, dval. intros ->. split; reflexivity. Qed.

Lemma skip_zeros_val s : digits_val 0 (skip_zeros s) = digits_val 0 s.
Proof.
  induction s as [|c r IH]; cbn [skip_zeros]; [reflexivity|].
  destruct (Z.eqb_spec (code c) 48) as [E|E]; [|reflexivity].
  destruct (code48_digit c E) as [D V]. cbn [digits_val]. rewrite D, V. exact IH.
Qed.
Lemma skip_zeros_hnz s : hnz (skip_zeros s).
Proof.
  induction s as [|c r IH]; cbn [skip_zeros]; [exact I|].
  destruct (Z.eqb_spec (code c) 48) as [E|E]; [exact IH|exact E].
Qed.

Lemma digits_val_strict v s : d_head s = true -> (List.length (snd (digits_val v s)) < List.length s)%nat.
Proof.
  destruct s as [|c r]; [discriminate|]. cbn [d_head digits_val]. intros ->.
  pose proof (digits_val_len (10 * v + dval c)%N r). cbn [List.length]. lia.
Qed.

(* --- main theorem --- *)
Theorem verrevcmp_fuel_spec : forall fuel a b,
  (List.length a + List.length b < fuel)%nat -> nonul a -> nonul b ->
  exists z, verrevcmp_fuel fuel a b = Some z /\ Z.sgn z = csgn (lexpad (toks a) (toks b)).
Proof.
  induction fuel as [|f IH]; intros a b Hf Na Nb; [lia|].
  cbn [verrevcmp_fuel].
  assert (Hmain :
    (exists z, match nondigit_phase (List.length a + List.length b) a b with
    | inl r => Some r
    | inr (a1, b1) =>
        let '(a2, b2, fd) := digit_phase (skip_zeros a1) (skip_zeros b1) 0 in
        if d_head a2 then Some 1 else if d_head b2 then Some (-1)
        else if fd =? 0 then verrevcmp_fuel f a2 b2 else Some fd
    end = Some z /\ Z.sgn z = csgn (lexpad (toks a) (toks b)))
    \/ (a = [] /\ b = [])).
  { destruct a as [|ca ra] eqn:Ea; destruct b as [|cb rb] eqn:Eb; [right; auto| | |];
    rewrite <- Ea, <- Eb in *; left.
    all: pose proof (nondigit_phase_spec (List.length a + List.length b) a b (le_n _) Na Nb) as NP;
         destruct (nondigit_phase (List.length a + List.length b) a b) as [r|[a1 b1]];
         [ exists r; split; [reflexivity|exact (proj2 NP)] | ].
    all: destruct NP as (H1&H2&H3&N1&N2&H6&H7).
    all: rewrite H3, (lexpad_dkey a1 b1 H1 H2), lexpad_dkey_cmp.
    all: pose proof (digit_phase_spec (skip_zeros a1) (skip_zeros b1) 0 0%N 0%N 1%N) as DP.
    all: rewrite !skip_zeros_val in DP.
    all: destruct (digit_phase (skip_zeros a1) (skip_zeros b1) 0) as [[a2 b2] fd].
    all: cbv zeta in DP.
    all: assert (DP' := DP ltac:(lia) ltac:(lia) ltac:(lia)
                          (fun _ => conj (skip_zeros_hnz a1) (skip_zeros_hnz b1))
                          ltac:(lia) ltac:(reflexivity) ltac:(lia) ltac:(lia)); clear DP.
    all: destruct DP' as (D1&D2&D3).
    all: destruct (d_head a2) eqn:Ha2.
    all: try (specialize (D1 eq_refl); exists 1; split; [reflexivity|];
              apply N.compare_gt_iff in D1; rewrite D1; reflexivity).
    all: destruct (d_head b2) eqn:Hb2.
    all: try (specialize (D2 eq_refl eq_refl); exists (-1); split; [reflexivity|];
              apply N.compare_lt_iff in D2; rewrite D2; reflexivity).
    all: destruct (D3 eq_refl eq_refl) as (Ra&Rb&F0&Fp&Fn).
    all: destruct (Z.eqb_spec fd 0) as [Efd|Efd].
    all: try (exists fd; split; [reflexivity|];
              destruct (Z.lt_total fd 0) as [L|[L|L]]; [ | lia | ];
              [ specialize (Fn L); apply N.compare_lt_iff in Fn; rewrite Fn; cbn; lia
              | specialize (Fp L); apply N.compare_gt_iff in Fp; rewrite Fp; cbn; lia ]).
    (* recursive case: fd = 0 *)
    all: specialize (F0 Efd); rewrite F0, N.compare_refl.
    all: subst a2 b2.
    all: apply IH;
         [ | apply digits_val_nonul; exact N1 | apply digits_val_nonul; exact N2 ].
    all: pose proof (digits_val_len 0 a1); pose proof (digits_val_len 0 b1).
    all: destruct (nd_head a || nd_head b) eqn:Hh;
         [ specialize (H6 eq_refl); lia | destruct (H7 eq_refl) as [-> ->] ].
    all: apply orb_false_iff in Hh; destruct Hh as [Hha Hhb].
    all: destruct (nd_head_false_cases _ Hha) as [Za|Za]; destruct (nd_head_false_cases _ Hhb) as [Zb|Zb];
         try (rewrite Za in Ea; discriminate); try (rewrite Zb in Eb; discriminate).
    all: try (pose proof (digits_val_strict 0 _ Za)); try (pose proof (digits_val_strict 0 _ Zb)); try lia.
    all: subst; cbn in *; try lia. }
  destruct Hmain as [Hm|[-> ->]].
  - destruct a, b; try exact Hm. exists 0. split; reflexivity.
  - exists 0. split; reflexivity.
Qed.

Theorem verrevcmp_key a b : nonul a -> nonul b ->
  exists z, verrevcmp a b = Some z /\ Z.sgn z = csgn (lexpad (toks a) (toks b)).
Proof. intros. apply verrevcmp_fuel_spec; auto. Qed.
Print Assumptions verrevcmp_key.
