(* C05 - Rendering a parsed dependency and re-parsing it loses nothing.
   Property theorems only.  Model: D3.parse (dependency/parser.go, transliterated function by function
   with explicit fuel 4*len+8), D3.dep_string (string.go), A1.parse_arch / A1.arch_string (arch.go). *)
From Coq Require Import List Ascii String ZArith NArith Lia Bool Arith.
Require A1.
Require Import D3 D4 D5 D6 D7 D8.
Import ListNotations.

(* for EVERY byte string the parser accepts, the rendering is accepted and parses to the same value (since repair
   "ParseArch rejects a name with an empty component" there is no exception left: the architecture spelled "--",
   which used to parse to the triple ("","","") and to render as the empty string, is refused) *)
Theorem C05_dep_roundtrip : forall x d, parse x = Ok d -> parse (dep_string d) = Ok d.
Proof. exact D8.C05_dep_roundtrip. Qed.
Print Assumptions C05_dep_roundtrip.

Theorem C05_fixpoint : forall x d, parse x = Ok d ->
  forall d2, parse (dep_string d) = Ok d2 -> dep_string d2 = dep_string d.
Proof. exact D8.C05_fixpoint. Qed.
Print Assumptions C05_fixpoint.

(* the fuel never runs out: OutOfFuel is not an outcome of parse *)
Theorem C05_parse_total : forall x, parse x <> OutOfFuel.
Proof. exact C18_dep_terminates. Qed.
Print Assumptions C05_parse_total.

(* a single architecture name: whatever ParseArch accepts renders to a name that ParseArch accepts and that parses to
   the same (abi, os, cpu); names with an empty component ("", "-", "linux-", "--") are refused *)
Theorem C05_arch_roundtrip : forall x a, A1.parse_arch_opt x = Some a -> A1.parse_arch_opt (A1.arch_string a) = Some a.
Proof. exact A1.arch_opt_roundtrip. Qed.
Print Assumptions C05_arch_roundtrip.
(* the blanks AROUND a name do not matter (a folded field arrives as "linux-any\n": repair 54cb699 of the r13 finding - the name used
   to be split untrimmed, the CPU became "any\n", and the wildcard rendered as "any"), and a name has no blank INSIDE *)
Theorem C05_arch_blanks_around_the_name : forall w1 x w2,
  Forall (fun c => A1.is_ws4 c = true) w1 -> Forall (fun c => A1.is_ws4 c = true) w2 -> A1.clean4 x ->
  A1.parse_arch_opt (w1 ++ x ++ w2) = A1.parse_arch_core x.
Proof. exact A1.arch_opt_trims. Qed.
Theorem C05_empty_components_refused : A1.parse_arch_opt (A1.s "--") = None /\ A1.parse_arch_opt (A1.s "linux-") = None /\
  A1.parse_arch_opt [] = None /\ A1.parse_arch_opt (A1.s "-amd64") = None /\ A1.parse_arch_opt (A1.s "a--b") = None /\
  A1.parse_arch_opt (A1.s "linux-any") <> None.
Proof. exact A1.empty_components_rejected. Qed.

Example C05_wildcards_kept :
  A1.arch_string (A1.parse_arch (A1.s "linux-any")) = A1.s "linux-any" /\
  A1.arch_string (A1.parse_arch (A1.s "any-amd64")) = A1.s "any-amd64" /\
  A1.arch_string (A1.parse_arch (A1.s "musl-linux-amd64")) = A1.s "musl-linux-amd64" /\
  ~ A1.zero_arch (A1.parse_arch (A1.s "linux-any")).
Proof. repeat split; try reflexivity. intros (H&_). discriminate H. Qed.
Example C05_nonvacuous : (exists d, parse (s "foo:any (>= 1.0) [!amd64 !i386] <!a b> <c> | ${x:Y}, bar") = Ok d) /\
  parse (s "foo [--]") = Err /\ parse (s "foo: (>= 1)") = Err.
Proof. vm_compute. split; [eexists; reflexivity|split; reflexivity]. Qed.
