(* C04, more rejection classes lifted to Parse for the first alternative of a field: after name[:arch] and any valid
   clauses, (1) a further name without a separator, (2) an unknown operator, (3) a version clause that is never
   closed.  Each is the local fact of D15 pushed through D16r's clauses_then / parse_err_first. *)
From Coq Require Import List Ascii String Bool Arith NArith Lia.
Require Import A1 D3 D4 D5 D6 D14 D9 D10 D15 D16r.
Import ListNotations.

(* the version clause fails when its operator or its number does *)
Lemma controllers_version_err f p w rest : all_ws w -> p_ver p = None ->
  parse_version (ch 40 :: rest) = Err -> controllers (S f) p (w ++ ch 40 :: rest) = Err.
Proof.
  intros Hw Hn E. cbn [controllers]. rewrite (eat_ws_app w _ Hw). cbn [eat_ws]. change (is_ws (ch 40)) with false. cbv iota.
  cbn [peek]. change (eqc (ch 40) 44 || eqc (ch 40) 124 || eqc (ch 40) 0) with false. change (eqc (ch 40) 40) with true.
  cbv iota. rewrite Hn. now rewrite E.
Qed.

Lemma parse_version_bad_operator rest : parse_operator rest = Err -> parse_version (ch 40 :: rest) = Err.
Proof.
  intros E. unfold parse_version. cbn [eat_ws]. change (is_ws (ch 40)) with false. cbv iota. cbn [adv tl]. now rewrite E.
Qed.

Lemma numc_suffix : forall w, forallb numc w = true -> forallb numc (eat_ws w) = true.
Proof.
  induction w as [|c w IH]; intros H; [reflexivity|]. cbn [eat_ws]. destruct (is_ws c); [|exact H].
  cbn [forallb] in H. apply andb_true_iff in H as [_ H]. now apply IH.
Qed.

Lemma parse_version_open op rest x : In op ops -> opnext (rest ++ x) = true -> forallb numc rest = true -> bad_in_number (peek x) = true ->
  parse_version (ch 40 :: op ++ rest ++ x) = Err.
Proof.
  intros Ho Hn Hr B. unfold parse_version. cbn [eat_ws]. change (is_ws (ch 40)) with false. cbv iota. cbn [adv tl].
  rewrite (parse_operator_op op (rest ++ x) Ho Hn). cbv iota beta.
  assert (Hx : is_ws (peek x) = false) by (destruct x as [|c r]; [reflexivity|]; cbn [peek] in *; now apply bad_number_facts).
  rewrite (eat_ws_keeps rest x Hx).
  now rewrite (reject_open_paren (eat_ws rest) [] x (numc_suffix rest Hr) B).
Qed.

Section First.
  Variables (name : str) (q : option arch) (cl : list (str * clause)).
  Hypothesis Hne : name <> [].
  Hypothesis Hc : forallb namec name = true.
  Hypothesis Hd : eqc (peek name) 36 = false.
  Hypothesis Ha : match q with None => True | Some a => forallb mac (arch_string a) = true /\ parse_arch (arch_string a) = a /\ arch_ok (arch_string a) = true end.
  Hypothesis W : clauses_ok (base name q) cl.
  Hypothesis NE : cl <> [].

  (* "foo (>= 1) bar": two names without a separator *)
  Theorem C04_reject_two_names w c x : all_ws w -> is_ws c = false ->
    eqc c 44 || eqc c 124 || eqc c 0 = false -> eqc c 40 = false -> eqc c 91 = false -> eqc c 60 = false ->
    parse (name ++ qual_text q ++ clauses_text cl ++ w ++ c :: x) = Err.
  Proof.
    intros Hw Nw N1 N2 N3 N4. apply parse_err_first; try assumption.
    - now apply (clauses_head cl (base name q)).
    - apply clauses_then; [exact W|]. exists 1%nat. intros [|f] Hf; [lia|]. now apply reject_stray.
  Qed.

  (* "foo [amd64] (== 1)", "(> 1)", "(=> 1)": an unknown operator in the version clause *)
  Theorem C04_reject_unknown_operator w rest : all_ws w -> p_ver (result name q cl) = None ->
    parse_operator rest = Err ->
    parse (name ++ qual_text q ++ clauses_text cl ++ w ++ ch 40 :: rest) = Err.
  Proof.
    intros Hw Hv E. apply parse_err_first; try assumption.
    - now apply (clauses_head cl (base name q)).
    - apply clauses_then; [exact W|]. exists 1%nat. intros [|f] Hf; [lia|].
      apply controllers_version_err; [exact Hw|exact Hv|now apply parse_version_bad_operator].
  Qed.

  (* "foo [amd64] (>= 1.0", "foo (>= 1.0, bar (>= 2.0)": a version clause that is not closed before the end of the
     input (x = []), the next separator or the next '(' - whatever x holds behind that *)
  Theorem C04_reject_unterminated_version w op rest x : all_ws w -> p_ver (result name q cl) = None ->
    In op ops -> opnext (rest ++ x) = true -> forallb numc rest = true -> bad_in_number (peek x) = true ->
    parse (name ++ qual_text q ++ clauses_text cl ++ w ++ ch 40 :: op ++ rest ++ x) = Err.
  Proof.
    intros Hw Hv Ho Hn Hr B. apply parse_err_first; try assumption.
    - now apply (clauses_head cl (base name q)).
    - apply clauses_then; [exact W|]. exists 1%nat. intros [|f] Hf; [lia|].
      apply controllers_version_err; [exact Hw|exact Hv|now apply parse_version_open].
  Qed.
End First.
Print Assumptions C04_reject_two_names.
Print Assumptions C04_reject_unknown_operator.
Print Assumptions C04_reject_unterminated_version.
