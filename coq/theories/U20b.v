(* C20, continued: Move leaves the control file at its source on failure; Remove deletes it last *)
From Coq Require Import List Ascii String Bool Arith Lia.
Require Import GS U20.
Import ListNotations.

Section Upload2.
  Variable fault : nat -> bool.
  Notation st := U20.st.
  Notation rename_file := (rename_file fault).
  Notation remove_file := (remove_file fault).
  Notation each := U20.each.

  Lemma entry_neq_snd d1 d2 a b : a <> b -> entry_eqb (d1, a) (d2, b) = false.
  Proof.
    intros H. unfold entry_eqb. cbn [fst snd]. destruct (str_eqb_spec a b); [contradiction|]. apply andb_false_r.
  Qed.

  (* ---------- rename ---------- *)
  Lemma rename_frame src dst x x' ok e : rename_file src dst x = (x', ok) ->
    entry_eqb src e = false -> entry_eqb dst e = false -> fs_get e (fs x') = fs_get e (fs x).
  Proof.
    unfold U20.rename_file, step. cbn [fs log tick]. destruct (fs_get src (fs x)); [|intros E; now inversion E].
    destruct (fault (tick x)); intros E Hs Hd; inversion E; subst; cbn [fs]; [reflexivity|].
    rewrite get_put_other by exact Hd. now apply get_del_other.
  Qed.
  Lemma rename_fail src dst x x' : rename_file src dst x = (x', false) -> fs x' = fs x.
  Proof.
    unfold U20.rename_file, step. cbn [fs log tick]. destruct (fs_get src (fs x)); [|intros E; now inversion E].
    destruct (fault (tick x)); intros E; inversion E; subst; reflexivity.
  Qed.
  Lemma each_rename_frame : forall names dir dest x x' ok e, each rename_file dir dest names x = (x', ok) ->
    (forall n, In n names -> entry_eqb (dir, n) e = false /\ entry_eqb (dest, n) e = false) ->
    fs_get e (fs x') = fs_get e (fs x).
  Proof.
    induction names as [|n r IH]; intros dir dest x x' ok e E H; cbn [U20.each] in E; [now inversion E|].
    destruct (rename_file (dir, n) (dest, n) x) as [x1 ok1] eqn:C.
    destruct (H n (or_introl eq_refl)) as [H1 H2].
    pose proof (rename_frame _ _ _ _ _ e C H1 H2) as F1. destruct ok1.
    - rewrite (IH _ _ _ _ _ e E); [exact F1|]. intros m Hm. apply H. now right.
    - inversion E; subst. exact F1.
  Qed.

  (* C20: a failed Move leaves the control file where it was, and does not put it in the destination *)
  Theorem C20_move_fail h dest x x' : ~ In (h_file h) (h_listed h) ->
    do_move fault h dest x = (x', false) ->
    fs_get (h_dir h, h_file h) (fs x') = fs_get (h_dir h, h_file h) (fs x) /\
    fs_get (dest, h_file h) (fs x') = fs_get (dest, h_file h) (fs x).
  Proof.
    intros Hnot. unfold do_move, transfer. destruct (negb (listed_ok h)); [intros E; inversion E; subst; now split|].
    destruct (each rename_file (h_dir h) dest (h_listed h) x) as [x1 ok1] eqn:EA.
    assert (F : forall d, fs_get (d, h_file h) (fs x1) = fs_get (d, h_file h) (fs x)).
    { intros d. apply (each_rename_frame _ _ _ _ _ _ _ EA). intros n Hn.
      split; apply entry_neq_snd; intros ->; contradiction. }
    destruct ok1.
    - intros C. rewrite (rename_fail _ _ _ _ C). split; apply F.
    - intros E. inversion E; subst. split; apply F.
  Qed.

  (* C20: after a successful Move the control file is in the destination with the content it had at the source *)
  Theorem C20_move_success h dest x x' : do_move fault h dest x = (x', true) ->
    exists x1, fs_get (dest, h_file h) (fs x') = fs_get (h_dir h, h_file h) (fs x1) /\ fs_get (h_dir h, h_file h) (fs x1) <> None.
  Proof.
    unfold do_move, transfer. destruct (negb (listed_ok h)); [discriminate|].
    destruct (each rename_file (h_dir h) dest (h_listed h) x) as [x1 ok1]; destruct ok1; [|discriminate].
    unfold U20.rename_file, step. cbn [fs log tick]. intros C. exists x1.
    destruct (fs_get (h_dir h, h_file h) (fs x1)) as [content|]; [|discriminate].
    destruct (fault (tick x1)); [discriminate|]. inversion C; subst. cbn [fs]. rewrite get_put. split; [reflexivity|discriminate].
  Qed.

  (* ---------- remove ---------- *)
  Lemma remove_log e x x' ok : remove_file e x = (x', ok) ->
    exists ext, log x' = log x ++ ext /\ (forall ev, In ev ext -> ev = EvRemove e) /\ (ok = true -> In (EvRemove e) ext) /\
      (ok = false -> fs x' = fs x).
  Proof.
    unfold U20.remove_file, step. cbn [fs log tick]. destruct (fs_get e (fs x)).
    2:{ intros E. inversion E; subst. exists []. rewrite app_nil_r. repeat split; try discriminate; auto. contradiction. }
    destruct (fault (tick x)); intros E; inversion E; subst; cbn [log fs].
    - exists []. rewrite app_nil_r. repeat split; try discriminate; auto. contradiction.
    - exists [EvRemove e]. repeat split; try discriminate; auto.
      + intros ev [<-|[]]. reflexivity.
      + intros _. now left.
  Qed.
  Lemma remove_frame e x x' ok e' : remove_file e x = (x', ok) -> entry_eqb e e' = false -> fs_get e' (fs x') = fs_get e' (fs x).
  Proof.
    unfold U20.remove_file, step. cbn [fs log tick]. destruct (fs_get e (fs x)); [|intros E; now inversion E].
    destruct (fault (tick x)); intros E H; inversion E; subst; cbn [fs]; [reflexivity|]. now apply get_del_other.
  Qed.

  Notation rm := (fun (src _ : entry) => remove_file src).
  Lemma each_remove : forall names dir x x' ok, each rm dir [] names x = (x', ok) ->
    exists ext, log x' = log x ++ ext /\
      (forall ev, In ev ext -> exists n, In n names /\ ev = EvRemove (dir, n)) /\
      (ok = true -> forall n, In n names -> In (EvRemove (dir, n)) ext) /\
      (forall e', (forall n, In n names -> entry_eqb (dir, n) e' = false) -> fs_get e' (fs x') = fs_get e' (fs x)).
  Proof.
    induction names as [|n r IH]; intros dir x x' ok E; cbn [U20.each] in E.
    - inversion E; subst. exists []. rewrite app_nil_r. repeat split; auto; contradiction.
    - destruct (remove_file (dir, n) x) as [x1 ok1] eqn:O. destruct (remove_log _ _ _ _ O) as (e1&L1&A1&C1&_).
      destruct ok1.
      + destruct (IH dir x1 x' ok E) as (e2&L2&A2&C2&F2). exists (e1 ++ e2). rewrite L2, L1, <- app_assoc.
        repeat split; auto.
        * intros ev Hin. apply in_app_or in Hin as [Hin|Hin].
          -- exists n. split; [now left|]. now apply A1.
          -- destruct (A2 ev Hin) as (m&Hm&->). exists m. split; [now right|reflexivity].
        * intros -> m [<-|Hm]; apply in_or_app; [left; now apply C1|right; now apply C2].
        * intros e' H. rewrite F2 by (intros m Hm; apply H; now right).
          apply (remove_frame _ _ _ _ e' O). apply H. now left.
      + inversion E; subst. exists e1. repeat split; auto; try discriminate.
        * intros ev Hin. exists n. split; [now left|]. now apply A1.
        * intros e' H. apply (remove_frame _ _ _ _ e' O). apply H. now left.
  Qed.

  (* C20: Remove deletes the control file last, and a failed Remove leaves it in place *)
  Theorem C20_remove_last h x x' ok : ~ In (h_file h) (h_listed h) -> do_remove fault h x = (x', ok) ->
    exists ext, log x' = log x ++ ext /\
      (forall pre post, ext = pre ++ EvRemove (h_dir h, h_file h) :: post ->
         forall n, In n (h_listed h) -> In (EvRemove (h_dir h, n)) pre) /\
      (ok = false -> fs_get (h_dir h, h_file h) (fs x') = fs_get (h_dir h, h_file h) (fs x)).
  Proof.
    intros Hnot. unfold do_remove. destruct (negb (listed_ok h)).
    { intros E. inversion E; subst. exists []. rewrite app_nil_r. repeat split; auto. intros [|? ?] ? E2; discriminate. }
    destruct (each rm (h_dir h) [] (h_listed h) x) as [x1 ok1] eqn:EA.
    destruct (each_remove _ _ _ _ _ EA) as (e1&L1&A1&C1&F1).
    assert (FC : fs_get (h_dir h, h_file h) (fs x1) = fs_get (h_dir h, h_file h) (fs x)).
    { apply F1. intros n Hn. apply entry_neq_snd. intros ->. contradiction. }
    assert (NotIn1 : ~ In (EvRemove (h_dir h, h_file h)) e1).
    { intros Hin. destruct (A1 _ Hin) as (m&Hm&Em). inversion Em; subst. contradiction. }
    destruct ok1.
    - intros O. destruct (remove_log _ _ _ _ O) as (e2&L2&A2&_&Ff). exists (e1 ++ e2). rewrite L2, L1, <- app_assoc.
      split; [reflexivity|]. split.
      + intros pre post E n Hn.
        assert (Hpre : exists q, pre = e1 ++ q).
        { clear -E NotIn1. revert pre E. induction e1 as [|a e1 IH]; intros pre E; [now exists pre|].
          destruct pre as [|b pre].
          - cbn in E. inversion E; subst. exfalso. apply NotIn1. now left.
          - cbn in E. inversion E; subst. destruct (IH (fun Hin => NotIn1 (or_intror Hin)) pre H1) as (q&->). now exists q. }
        destruct Hpre as (q&->). apply in_or_app. left. now apply C1.
      + intros ->. rewrite (Ff eq_refl). exact FC.
    - intros E. inversion E; subst. exists e1. split; [exact L1|]. split.
      + intros pre post E2. exfalso. apply NotIn1. rewrite E2. apply in_or_app. right. now left.
      + intros _. exact FC.
  Qed.
End Upload2.
Print Assumptions C20_move_fail.
Print Assumptions C20_move_success.
Print Assumptions C20_remove_last.
