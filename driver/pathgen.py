"""Inputs for the path functions the library relies on (path.Clean, path.Join, filepath.Base / Dir / Ext), whose Gallina
model is coq/theories/PATH.v: all strings over {a . /} up to length 7, and random paths over realistic components."""
import itertools
import posixpath

COMPS = [b"", b".", b"..", b"a", b"control", b"x_1.0-1.dsc", b"data.tar.gz", b"...", b".hidden", b"b.", b"sub dir", b"\xc3\xa9", b"a.b.c", b"..x"]


def paths(rng, n):
    out = [b"".join(w) for k in range(0, 8) for w in itertools.product([b"a", b".", b"/"], repeat=k)]
    for _ in range(n):
        k = rng.randrange(0, 7)
        p = b"/".join(rng.choice(COMPS) for _ in range(k))
        if rng.random() < 0.4:
            p = b"/" + p
        if rng.random() < 0.2:
            p += b"/"
        out.append(p)
    return out


def py_clean(p):
    """Go's path.Clean, stated independently (Python's normpath keeps a leading '//' and differs on '')"""
    if p == b"":
        return b"."
    rooted = p.startswith(b"/")
    st = []
    for c in p.split(b"/"):
        if c in (b"", b"."):
            continue
        if c == b"..":
            if st and st[-1] != b"..":
                st.pop()
            elif not rooted:
                st.append(c)
        else:
            st.append(c)
    out = b"/".join(st)
    return b"/" + out if rooted else (out or b".")


def stream(chk, which):
    """run the named ops (subset of pclean pjoin pbase pdir pext) on the inputs: implementation vs model (a correspondence
    about the standard library the models lean on) and vs the independent statement above"""
    rng = chk.rng
    ps = paths(rng, chk.n(1500, 30000))
    cases = []
    for p in ps:
        for op in which:
            if op == "pjoin":
                continue
            cases.append((op, [p]))
    if "pjoin" in which:
        for _ in range(chk.n(1500, 30000)):
            a, b = rng.choice(ps), rng.choice(ps)
            if rng.random() < 0.5:
                b = rng.choice(COMPS + [b"../outside/canary", b"/etc/hostname", b"a/../../x"])
            cases.append(("pjoin", [a, b]))
    impl, model = chk.run_both(cases)
    chk.compare("path-functions-vs-model", cases, impl, model, nontrivial=lambda c, r: True, spec=False)
    hx = lambda b: "x" + b.hex()
    for c, i in zip(cases, impl):
        want = None
        if c[0] == "pclean":
            want = py_clean(c[1][0])
        elif c[0] == "pjoin":
            a, b = c[1]
            want = b"" if a == b"" and b == b"" else py_clean(b if a == b"" else a + b"/" + b)
        elif c[0] == "pbase":
            want = posixpath.basename(c[1][0].rstrip(b"/")) or (b"/" if c[1][0] else b".")
        elif c[0] == "pext":
            last = c[1][0].rsplit(b"/", 1)[-1]
            want = (b"." + last.rsplit(b".", 1)[1]) if b"." in last else b""
        if want is not None and i != hx(want):
            raise_lib = __import__("lib")
            raise raise_lib.Infra("the driver's statement of %s disagrees with Go on %r: %s vs %s" % (c[0], c[1], i, hx(want)))
