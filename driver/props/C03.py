"""C03 - version strings parse to their parts and render back without loss."""
import lib
import gen

UP = b"0123456789abcxyzABZ.+~"
WS = [b"", b" ", b"\t", b"\n", b"\r\n", b"  ", b"\xc2\xa0", b"\xe2\x80\x83", b"\xc2\x85", b"\xe3\x80\x80", b" \xe2\x80\xa8\t",
      b"\x0b", b"\x0c", b"\xe1\x9a\x80", b"\xe2\x81\x9f", b"\xe2\x80\xaf"]
EDIT = [bytes([c]) for c in b"0123456789aZ.+~:-_ /\t\n!@"] + [b"\xc3\xa9", b"\x80", b"\xc2\xa0", b"\x00", b"\xe2\x80\x83", b"\xff", b"\xe2", b"\xc2"]
# non-ASCII characters that LOOK like members of the Policy alphabet: Unicode decimal digits (Nd), other numerics (No, Nl),
# letters, and look-alikes of + . ~ : - ; every one of them is outside the alphabet and must be rejected
NONASCII = [u.encode("utf-8") for u in ["\u0663", "\u0967", "\uff11", "\U0001d7d8", "\u06f0", "\u00b2", "\u2167", "\u00bd", "\u00e9", "\uff21",
                                         "\u0430", "\u03b1", "\uff0b", "\uff0e", "\uff5e", "\u02dc", "\uff1a", "\u2010", "\u2011", "\u2013", "\u2212", "\u00ad"]]
EXH = [b"0", b"1", b"a", b":", b"-", b"~", b"+", b".", b" ", b"\xc2", b"\xa0", b"\x80", b"_", b"\t"]


def rand_triple(rng):
    e = rng.choice([0, 0, 0, 1, 2, 10, 2**31, 2**63 - 1, 2**63, 2**64 - 1, rng.randrange(2**63), rng.randrange(2**64)])
    n = rng.randrange(1, 12)
    alpha = UP + (b":" if rng.random() < 0.3 else b"") + (b"-" if rng.random() < 0.3 else b"")
    up = bytes([rng.choice(b"0123456789")]) + bytes(rng.choice(alpha) for _ in range(n - 1))
    rv = bytes(rng.choice(UP) for _ in range(rng.randrange(0, 6))) if rng.random() < 0.7 else b""
    return e, up, rv


def renderings(rng, e, up, rv):
    """all textual renderings the grammar allows for the triple"""
    outs = []
    bodies = []
    if rv or b"-" in up:
        bodies.append(up + b"-" + rv)
    else:
        bodies.append(up)
        # an explicit empty revision is legal only when... "1.0-" parses as upstream 1.0 revision "": same triple
        bodies.append(up + b"-")
    for body in bodies:
        eps = [str(e).encode(), b"0" * rng.randrange(1, 3) + str(e).encode()]
        if e == 0 and b":" not in up:
            outs.append(body)
        for ep in eps:
            outs.append(ep + b":" + body)
    return outs


def show(e, up, rv):
    return "ok %d x%s x%s" % (e, up.hex(), rv.hex())


def run(chk):
    rng = chk.rng
    # 1. grammar renderings x whitespace: the triple itself is the oracle
    cases, want = [], []
    for _ in range(chk.n(2500, 50000)):
        e, up, rv = rand_triple(rng)
        for t in renderings(rng, e, up, rv):
            w1, w2 = rng.choice(WS), rng.choice(WS)
            cases.append(("vparse", [w1 + t + w2]))
            want.append(show(e, up, rv))
    impl, model = chk.run_both(cases)
    chk.compare("grammar-renderings", cases, impl, model)
    for c, i, w in zip(cases, impl, want):
        if i != w:
            chk.violate({"kind": "property", "case": lib.show_case(c), "impl": i, "expected": w,
                         "explanation": "a well-formed version string did not parse to its (epoch, upstream, revision)"})
    # 1b. an epoch is a run of digits: the same renderings with a SIGN in front of the epoch ("+1:", "-0:", "+0:" - what
    # strconv.ParseInt would take) and with an epoch beyond the Epoch field are not version strings
    cases = []
    for _ in range(chk.n(400, 8000)):
        e, up, rv = rand_triple(rng)
        body = up + b"-" + rv if (rv or b"-" in up) else up
        w1, w2 = rng.choice(WS), rng.choice(WS)
        for ep in (b"+" + str(e).encode(), b"-" + str(e).encode(), b"-0", b"+0", b"+", b"-", str(2**64 + e).encode(), b"0" + str(2**64).encode()):
            cases.append(("vparse", [w1 + ep + b":" + body + w2]))
    impl, model = chk.run_both(cases)
    chk.compare("signed-and-oversized-epochs", cases, impl, model)
    for c, i in zip(cases, impl):
        if i != "err":
            chk.violate({"kind": "property", "case": lib.show_case(c), "impl": i, "expected": "err",
                         "explanation": "a version string with a signed (non-numeric) or oversized epoch was accepted"})
    # 1c. the same parser where uint has 32 bits (the harness built for GOARCH=386): an epoch either comes back with exactly
    # its value or is refused - never reduced modulo 2^32
    exe386 = lib.build_harness_386()
    if exe386 is None:
        chk.notes.append("no 32-bit harness could be built or run here: the GOARCH=386 epoch stream was skipped")
    else:
        cases = []
        for _ in range(chk.n(300, 6000)):
            e, up, rv = rand_triple(rng)
            body = up + b"-" + rv if (rv or b"-" in up) else up
            for ee in (e, e % 2**32, 2**32 + e % 1000, 2**32 - 1, 2**32, 2**31, 2**33 + 1, 2**32 * (1 + e % 7) + e % 3):
                cases.append(("vparse", [str(ee).encode() + b":" + body]))
        got = lib.run_lines(exe386, cases)
        chk.record("epochs-on-a-32-bit-platform", cases, got)
        for c, g in zip(cases, got):
            ee = int(c[1][0].split(b":")[0])
            if g != "err" and not g.startswith("ok %d " % ee):
                chk.violate({"kind": "property", "case": lib.show_case(c), "impl": g, "platform": "GOARCH=386", "expected": "err, or ok %d ..." % ee,
                             "explanation": "on a platform with a 32-bit uint an oversized epoch was accepted with another value than the one written"})
            if ee < 2**32 and g == "err":
                chk.violate({"kind": "property", "case": lib.show_case(c), "impl": g, "platform": "GOARCH=386",
                             "explanation": "a well-formed version string whose epoch fits the Epoch field was refused"})
    # 1d. the parsed value handed to encoding/json BY VALUE (Parse returns a value), alone, in a struct and in a map: the marshalled
    # text is the version text and reads back as the same value
    jc = [("vjsonvalue", [c[1][0]]) for c in cases[::9]] if False else []
    for _ in range(chk.n(400, 8000)):
        e, up, rv = rand_triple(rng)
        jc.append(("vjsonvalue", [rng.choice(renderings(rng, e, up, rv))]))
    ji = chk.run_impl(jc)
    chk.record("json-of-a-version-held-by-value", jc, ji, lambda c, r: r.startswith("same"))
    for c, r in zip(jc, ji):
        if not r.startswith("same "):
            chk.violate({"kind": "property", "case": lib.show_case(c), "impl": r[:300],
                         "explanation": "a parsed Version marshalled by value (json.Marshal of the value, of a struct and of a map holding it) does not read back as the same value"})
    # 2. exhaustive short strings
    ws = gen.words(EXH, 3 if chk.tier == "quick" else 4)
    cases = [("vparse", [w]) for w in ws]
    impl, model = chk.run_both(cases)
    chk.compare("exhaustive-short", cases, impl, model)
    chk.extra["exhaustive_short_strings"] = {"alphabet": [a.hex() for a in EXH], "maxlen": 3 if chk.tier == "quick" else 4, "strings": len(ws)}
    # 3. near misses: one or two edits of a valid rendering
    cases = []
    for _ in range(chk.n(12000, 240000)):
        e, up, rv = rand_triple(rng)
        t = rng.choice(renderings(rng, e, up, rv))
        t = gen.mutate(rng, t, EDIT)
        if rng.random() < 0.3:
            t = gen.mutate(rng, t, EDIT)
        if rng.random() < 0.3:
            t = rng.choice(WS) + t + rng.choice(WS)
        cases.append(("vparse", [t]))
    # the listed classes, literally
    for t in [b"a:0-0", b"-1:0-1", b"9223372036854775808:0-1", b"9223372036854775807:0-1", b"1:", b"0:0 0-1", b"a1", b"0:abc3-0",
              b"1.0_2", b"1.0-1_2", b"0:0-0:0", b"-", b"1:-", b"", b" ", b":", b"1:2:", b"+:1", b"-:1", b"1\xc2\xa02", b"\xc2\xa01\xc2\xa0",
              b"18446744073709551616:1", b"1_000:1", b"0x1:1", b" 1 : 2", b"1:\xc2\xa02"]:
        cases.append(("vparse", [t]))
    impl, model = chk.run_both(cases)
    chk.compare("near-misses", cases, impl, model)
    # 3b. one non-ASCII look-alike (Unicode digit, letter, punctuation) at every position of a valid rendering:
    # such a character is outside the Policy alphabet wherever it stands, so the string must be rejected
    cases = []
    for _ in range(chk.n(120, 2400)):
        e, up, rv = rand_triple(rng)
        t = rng.choice(renderings(rng, e, up, rv))
        for pos in range(len(t) + 1):
            u = rng.choice(NONASCII)
            cases.append(("vparse", [t[:pos] + u + t[pos:]]))
            if pos < len(t) and rng.random() < 0.3:
                cases.append(("vparse", [t[:pos] + u + t[pos + 1:]]))
    for u in NONASCII:
        for t in [b"1" + u, b"1." + u + b"-1", b"1-" + u, b"1-1" + u, u + b":1", b"1" + u + b":1", u, u + b"1", b"1:" + u, b"1:1" + u + b"-1", b"0" + u + b"0"]:
            cases.append(("vparse", [t]))
    impl, model = chk.run_both(cases)
    chk.compare("non-ascii-lookalikes", cases, impl, model)
    for c, i in zip(cases, impl):
        if i != "err":
            chk.violate({"kind": "property", "case": lib.show_case(c), "impl": i, "expected": "err",
                         "explanation": "a version string with a non-ASCII character (outside the Policy alphabet) was accepted"})
    # 4. raw bytes
    cases = [("vparse", [gen.rand_bytes(rng, 12)]) for _ in range(chk.n(3000, 60000))]
    cases += [("vparse", [gen.rand_bytes(rng, 10, EDIT)]) for _ in range(chk.n(6000, 120000))]
    impl, model = chk.run_both(cases)
    chk.compare("raw-bytes", cases, impl, model)
    # 5. round trips on everything accepted so far: String, control text, marshalled text, JSON
    acc = [c for c, i in zip(cases, impl) if i.startswith("ok")]
    for _ in range(chk.n(4000, 80000)):
        e, up, rv = rand_triple(rng)
        acc.append(("vparse", [rng.choice(renderings(rng, e, up, rv))]))
    rt = [("vroundtrip", c[1]) for c in acc]
    fm = [("vforms", c[1]) for c in acc]
    pv = chk.run_impl([("vparse", c[1]) for c in acc])
    ri, rm = chk.run_both(rt)
    chk.compare("roundtrip-string", rt, ri, rm)
    fi, fmm = chk.run_both(fm)
    chk.compare("roundtrip-control-text-json", fm, fi, fmm)
    for c, p, r, f in zip(acc, pv, ri, fi):
        if not p.startswith("ok"):
            continue
        val = p[3:]
        parts = r.split(" ", 2)
        if len(parts) < 3 or parts[2] != "ok " + val:
            chk.violate({"kind": "property", "case": lib.show_case(c), "parsed": p, "roundtrip": r,
                         "explanation": "Parse(String(Parse(x))) differs from Parse(x)"})
        toks = f.split(" [ ", 1)
        ok = len(toks) == 2 and toks[1].rstrip(" ]") == " ".join([val] * 4)
        if not ok:
            chk.violate({"kind": "property", "case": lib.show_case(c), "parsed": p, "forms": f,
                         "explanation": "control-field text / marshalled text / JSON of an accepted version does not parse back to it"})
    # 6. String() of directly constructed values vs the model
    cases = []
    for _ in range(chk.n(3000, 60000)):
        e, up, rv = rand_triple(rng)
        cases.append(("vstring", [e, up, rv]))
    impl, model = chk.run_both(cases)
    chk.compare("string", cases, impl, model, nontrivial=lambda c, r: True)
    # 7. the small accessors on directly constructed values, and Parse / StringWithoutEpoch / Parse
    cases = []
    for _ in range(chk.n(1500, 30000)):
        e, up, rv = rand_triple(rng)
        if rng.random() < 0.1:
            e, up, rv = rng.choice([(0, b"", b""), (0, b"", b"1"), (1, b"", b""), (0, b"1-2", b""), (0, b"-", b""), (5, b"1:2", b"")])
        cases.append(("vacc", [e, up, rv]))
    impl, model = chk.run_both(cases)
    chk.compare("accessors", cases, impl, model, nontrivial=lambda c, r: True)
    for c, i in zip(cases, impl):
        e, up, rv = c[1]
        body = up + (b"-" + rv if (rv or b"-" in up) else b"")
        want = "x%s %s %s" % (body.hex(), "T" if not rv else "F", "T" if (e == 0 and not up and not rv) else "F")
        if i != want:
            chk.violate({"kind": "property", "case": lib.show_case(c), "impl": i, "expected": want,
                         "explanation": "StringWithoutEpoch / IsNative / Empty of a constructed version differ from their definition"})
    ne = [("vnoepoch", c[1]) for c in acc]
    ni, nm = chk.run_both(ne)
    chk.compare("without-epoch-reparse", ne, ni, nm)
    for c, p, r in zip(acc, pv, ni):
        if not p.startswith("ok"):
            continue
        e, uph, rvh = p[3:].split(" ")
        if b":" in bytes.fromhex(uph[1:]):
            continue          # the text without epoch then starts with what reads as an epoch: outside the claim
        parts = r.split(" ", 2)
        if len(parts) < 3 or parts[2] != "ok 0 %s %s" % (uph, rvh):
            chk.violate({"kind": "property", "case": lib.show_case(c), "parsed": p, "without_epoch_reparsed": r,
                         "explanation": "Parse(StringWithoutEpoch(Parse(x))) is not Parse(x) with epoch 0"})
    chk.assumptions += ["epoch values above 2^64-1 cannot come out of Parse (strconv.ParseUint(.., 0) on the 64-bit build the tie runs); the model's N is unbounded",
                        "error messages are not compared, only accept/reject and the three parts"]


def replay(chk, d):
    c = lib.case_from_replay(d)
    if d.get("platform") == "GOARCH=386":
        exe = lib.build_harness_386()
        i = lib.run_lines(exe, [c])[0] if exe else "no-32-bit-harness"
        ee = int(c[1][0].split(b":")[0])
        print("impl (GOARCH=386):", i)
        return 0 if (i == "err" and ee >= 2**32) or i.startswith("ok %d " % ee) else 1
    i, m = chk.run_both([c])
    print("impl:", i[0], "model:", m[0])
    return 1 if i[0] != m[0] else 0
