(* C04 (part): a whole alternative — name, optional :arch qualifier, then clauses in any order with any blanks *)
From Coq Require Import List Ascii String Bool Arith NArith Lia.
Require Import A1 D3 D4 D14 D9.
Import ListNotations.

Definition base (name : str) (q : option arch) : possi :=
  {| p_name := name; p_arch := q; p_archs := Some {| a_not := false; a_list := [] |};
     p_stages := []; p_ver := None; p_subst := false |}.
Definition qual_text (q : option arch) : str := match q with Some a => ch 58 :: arch_string a | None => [] end.
Definition result (name : str) (q : option arch) (cl : list (str * clause)) : possi :=
  fold_left apply_clause (map snd cl) (base name q).

Lemma apply_name p c : p_name (apply_clause p c) = p_name p.
Proof. destruct c; reflexivity. Qed.
Lemma fold_name : forall l p, p_name (fold_left apply_clause l p) = p_name p.
Proof. induction l as [|c l IH]; intros p; [reflexivity|]. cbn [fold_left]. now rewrite IH, apply_name. Qed.

(* what hands over from the name to the clause parser: a blank, or - without any blank - '(' , '[' or '<' *)
Definition ctlhead (c : ascii) : bool := is_ws c || eqc c 40 || eqc c 91 || eqc c 60.
Lemma clauses_head cl p rest : clauses_ok p cl -> cl <> [] -> ctlhead (peek (clauses_text cl ++ rest)) = true.
Proof.
  intros W NE. destruct cl as [|[w c] cl]; [congruence|]. inversion W as [|? ? ? ? Hw _ _]; subst.
  unfold clauses_text. cbn [map List.concat fst snd]. destruct w as [|x w].
  - destruct c; reflexivity.
  - inversion Hw; subst. cbn [app peek]. unfold ctlhead. now replace (is_ws x) with true.
Qed.
Lemma ctlhead_facts c : ctlhead c = true -> eqc c 58 = false /\ multiarch_stop c = true.
Proof.
  pose proof (by_enum (fun c => negb (ctlhead c) || (negb (eqc c 58) && multiarch_stop c)) eq_refl c) as F. cbv beta in F.
  intros H. rewrite H in F. cbn in F. apply andb_true_iff in F as [F1 F2]. apply negb_true_iff in F1. auto.
Qed.

Theorem possi_any_order name q cl rel rest rest' :
  name <> [] -> forallb namec name = true -> eqc (peek name) 36 = false ->
  (match q with None => True | Some a => forallb mac (arch_string a) = true /\ parse_arch (arch_string a) = a /\ arch_ok (arch_string a) = true end) ->
  clauses_ok (base name q) cl -> tail_ok rest rest' ->
  evOk (fun f => parse_possibility f rel (name ++ qual_text q ++ clauses_text cl ++ rest))
       (rel ++ [result name q cl], rest').
Proof.
  intros Hne Hc Hd Ha W T.
  (* the end of the alternative *)
  assert (Hend : forall f p, p_name p <> [] -> possi_loop (S f) p rel rest' = Ok (rel ++ [p], rest')).
  { intros f p Hq. cbn [possi_loop]. pose proof (tail_ok_stop rest rest' T) as St.
    pose proof (by_enum (fun c => negb (stop3 c) || (negb (eqc c 58) && negb (ctlhead c))) eq_refl (peek rest')) as F.
    cbv beta in F. rewrite St in F. cbn in F. apply andb_true_iff in F as [F1 F2].
    apply negb_true_iff in F1, F2. rewrite F1. fold (ctlhead (peek rest')). rewrite F2. unfold stop3 in St. rewrite St.
    destruct (p_name p); [congruence|reflexivity]. }
  assert (Rn : p_name (result name q cl) <> []) by (unfold result; rewrite fold_name; exact Hne).
  (* after name and qualifier *)
  destruct (controllers_any_order cl (base name q) rest rest' W T) as (f1&H1).
  assert (Fin : evOk (fun f => possi_loop f (base name q) rel (clauses_text cl ++ rest)) (rel ++ [result name q cl], rest')).
  { assert (Via : ctlhead (peek (clauses_text cl ++ rest)) = true ->
            forall f, (S (S f1) <= f)%nat -> possi_loop f (base name q) rel (clauses_text cl ++ rest) = Ok (rel ++ [result name q cl], rest')).
    { intros Hw [|[|f]] Hf; try lia. cbn [possi_loop].
      destruct (ctlhead_facts _ Hw) as [C58 _].
      rewrite C58. fold (ctlhead (peek (clauses_text cl ++ rest))). rewrite Hw. rewrite (H1 (S f) ltac:(lia)). apply Hend. exact Rn. }
    destruct cl as [|wc cl'].
    - cbn [clauses_text map List.concat app] in *. destruct (tail_ok_head rest rest' T) as [[Hw Er]|[Hs Er]].
      + exists (S (S f1)). apply Via. unfold ctlhead. now rewrite Hw.
      + subst rest'. exists 1%nat. intros [|f] Hf; [lia|]. apply Hend. exact Hne.
    - exists (S (S f1)). apply Via. apply (clauses_head _ _ _ W). discriminate. }
  destruct Fin as (f2&H2).
  destruct name as [|c0 n0] eqn:En; [congruence|].
  assert (Hc0 : namec c0 = true) by (cbn in Hc; now apply andb_true_iff in Hc as [? _]).
  destruct (namec_head_facts c0 Hc0) as (W0&S0&_&_).
  exists (List.length (c0 :: n0) + S (S f2))%nat. intros f Hf.
  replace f with (List.length (c0 :: n0) + (f - List.length (c0 :: n0)))%nat by lia.
  set (g := (f - List.length (c0 :: n0))%nat). assert (Hg : (S (S f2) <= g)%nat) by (subst g; lia).
  unfold parse_possibility.
  rewrite eat_ws_id by (unfold headok; cbn; exact W0). cbn [app peek]. cbn in Hd. rewrite Hd.
  change (c0 :: n0 ++ qual_text q ++ clauses_text cl ++ rest) with ((c0 :: n0) ++ qual_text q ++ clauses_text cl ++ rest).
  rewrite (possi_loop_name (c0 :: n0) g fresh rel _ Hc). cbn [p_name fresh app].
  destruct q as [a|].
  - destruct Ha as (Hm&Hrt&Hok). destruct g as [|g]; [lia|]. cbn [qual_text app possi_loop peek].
    change (eqc (ch 58) 58) with true. cbv iota. unfold parse_multiarch. cbn [adv tl].
    assert (Hstop : multiarch_stop (peek (clauses_text cl ++ rest)) = true).
    { destruct cl as [|wc cl'].
      - cbn [clauses_text map List.concat app]. destruct (tail_ok_head rest rest' T) as [[Hw _]|[Hst _]].
        + unfold multiarch_stop. rewrite Hw. now rewrite !orb_true_r.
        + unfold multiarch_stop, stop3 in *. apply orb_true_iff in Hst as [Hst|Hst]; [apply orb_true_iff in Hst as [Hst|Hst]|]; rewrite Hst; cbn; now rewrite ?orb_true_r.
      - pose proof (clauses_head _ _ rest W ltac:(discriminate)) as Hw. now destruct (ctlhead_facts _ Hw). }
    rewrite (multiarch_word (arch_string a) [] _ Hm Hstop). cbn [app]. rewrite (arch_named_ok _ _ Hok), Hrt.
    replace (set_arch (with_name fresh (c0 :: n0)) a) with (base (c0 :: n0) (Some a)) by reflexivity.
    rewrite H2 by lia. apply guard_added.
  - cbn [qual_text app]. replace (with_name fresh (c0 :: n0)) with (base (c0 :: n0) None) by reflexivity.
    rewrite H2 by lia. apply guard_added.
Qed.
Print Assumptions possi_any_order.
