(* C04, rejections: the local facts behind each malformed class (for every context they occur in) *)
From Coq Require Import List Ascii String Bool Arith NArith Lia.
Require Import A1 D3 D4 D14 D9.
Import ListNotations.

(* a second version clause *)
Theorem reject_second_version f p w x v0 : p_ver p = Some v0 -> all_ws w -> controllers (S f) p (w ++ ch 40 :: x) = Err.
Proof.
  intros Hv Hw. cbn [controllers]. rewrite (eat_ws_app w _ Hw). cbn [eat_ws]. change (is_ws (ch 40)) with false. cbv iota.
  cbn [peek]. change (eqc (ch 40) 44 || eqc (ch 40) 124 || eqc (ch 40) 0) with false. change (eqc (ch 40) 40) with true.
  cbv iota. now rewrite Hv.
Qed.

(* a second architecture clause *)
Theorem reject_second_archs f p w x : a_list (archs_of p) <> [] -> all_ws w -> controllers (S f) p (w ++ ch 91 :: x) = Err.
Proof.
  intros Ha Hw. cbn [controllers]. rewrite (eat_ws_app w _ Hw). cbn [eat_ws]. change (is_ws (ch 91)) with false. cbv iota.
  cbn [peek]. change (eqc (ch 91) 44 || eqc (ch 91) 124 || eqc (ch 91) 0) with false. change (eqc (ch 91) 40) with false.
  change (eqc (ch 91) 91) with true. cbv iota. destruct (a_list (archs_of p)); [congruence|reflexivity].
Qed.

(* anything else after a name and a blank: two names without a separator, a stray character *)
Theorem reject_stray f p w c x : all_ws w -> is_ws c = false ->
  eqc c 44 || eqc c 124 || eqc c 0 = false -> eqc c 40 = false -> eqc c 91 = false -> eqc c 60 = false ->
  controllers (S f) p (w ++ c :: x) = Err.
Proof.
  intros Hw Nw N1 N2 N3 N4. cbn [controllers]. rewrite (eat_ws_app w _ Hw). cbn [eat_ws]. rewrite Nw. cbn [peek].
  now rewrite N1, N2, N3, N4.
Qed.

(* an unterminated clause: before its closing character comes the end of the input (x = [], or a NUL), a separator
   ',' '|' or a further opening character of the clause's own kind (the D3.bad_in predicates): whatever stands behind that
   character, the clause is an error - it does not swallow the separator and what follows *)
Lemma bad_head_nil : bad_in_number (peek []) = true /\ bad_in_arch (peek []) = true /\ bad_in_stage (peek []) = true /\ bad_in_substvar (peek []) = true.
Proof. repeat split. Qed.
(* an unterminated version *)
Theorem reject_open_paren : forall w num x, forallb numc w = true -> bad_in_number (peek x) = true -> number_loop num (w ++ x) = Err.
Proof.
  induction w as [|c w IH]; intros num x H B.
  - cbn [app]. destruct x as [|c r]; [reflexivity|]. cbn [peek] in B. cbn [number_loop]. now rewrite B.
  - cbn [forallb] in H. apply andb_true_iff in H as [Hc Hw].
    unfold numc in Hc. apply negb_true_iff in Hc. apply orb_false_iff in Hc as [C1 C2]. cbn [app number_loop]. rewrite C1, C2. now apply IH.
Qed.

(* an unterminated ${substvar *)
Theorem reject_open_substvar : forall w name x, forallb subc w = true -> bad_in_substvar (peek x) = true -> substvar_loop name (w ++ x) = Err.
Proof.
  induction w as [|c w IH]; intros name x H B.
  - cbn [app]. destruct x as [|c r]; [reflexivity|]. cbn [peek] in B. cbn [substvar_loop]. now rewrite B.
  - cbn [forallb] in H. apply andb_true_iff in H as [Hc Hw].
    unfold subc in Hc. apply negb_true_iff in Hc. apply orb_false_iff in Hc as [C1 C2]. cbn [app substvar_loop]. rewrite C1, C2. now apply IH.
Qed.

(* an unterminated architecture name: no ']' or blank before the end *)
Theorem reject_open_bracket : forall w name x, forallb archc w = true -> bad_in_arch (peek x) = true -> arch_name_loop name (w ++ x) = Err.
Proof.
  induction w as [|c w IH]; intros name x H B.
  - cbn [app]. destruct x as [|c r]; [reflexivity|]. cbn [peek] in B. cbn [arch_name_loop]. now rewrite B.
  - cbn [forallb] in H. apply andb_true_iff in H as [Hc Hw].
    unfold archc in Hc. apply negb_true_iff in Hc. apply orb_false_iff in Hc as [Hc C4]. apply orb_false_iff in Hc as [Hc C3].
    apply orb_false_iff in Hc as [C1 C2]. cbn [app arch_name_loop]. rewrite C1, C2, C3, C4. cbn [orb]. now apply IH.
Qed.
(* an unterminated build-profile name *)
Theorem reject_open_stage : forall w st x, forallb stagec w = true -> bad_in_stage (peek x) = true -> stage_loop st (w ++ x) = Err.
Proof.
  induction w as [|c w IH]; intros st x H B.
  - cbn [app]. destruct x as [|c r]; [reflexivity|]. cbn [peek] in B. cbn [stage_loop]. now rewrite B.
  - cbn [forallb] in H. apply andb_true_iff in H as [Hc Hw].
    unfold stagec in Hc. apply negb_true_iff in Hc. apply orb_false_iff in Hc as [Hc C4]. apply orb_false_iff in Hc as [Hc C3].
    apply orb_false_iff in Hc as [C1 C2]. cbn [app stage_loop]. rewrite C1, C2, C3, C4. cbn [orb]. now apply IH.
Qed.
(* the characters that end a clause with an error are not blanks, and not the clause's closing character *)
Lemma bad_number_facts c : bad_in_number c = true -> is_ws c = false /\ eqc c 41 = false.
Proof.
  intros B. pose proof (by_enum (fun c => negb (bad_in_number c) || (negb (is_ws c) && negb (eqc c 41))) eq_refl c) as F. cbv beta in F.
  rewrite B in F. cbn [negb orb] in F. apply andb_true_iff in F as [F1 F2]. now apply negb_true_iff in F1, F2.
Qed.
Lemma bad_arch_facts c : bad_in_arch c = true -> is_ws c = false /\ eqc c 93 = false /\ eqc c 33 = false.
Proof.
  intros B. pose proof (by_enum (fun c => negb (bad_in_arch c) || (negb (is_ws c) && negb (eqc c 93) && negb (eqc c 33))) eq_refl c) as F. cbv beta in F.
  rewrite B in F. cbn [negb orb] in F. apply andb_true_iff in F as [F F3]. apply andb_true_iff in F as [F1 F2]. now apply negb_true_iff in F1, F2, F3.
Qed.
Lemma eat_ws_keeps w x : is_ws (peek x) = false -> eat_ws (w ++ x) = eat_ws w ++ x.
Proof.
  intros Hx. induction w as [|c w IH]; cbn [app eat_ws].
  - destruct x as [|c r]; [reflexivity|]. cbn [peek] in Hx. cbn [eat_ws]. now rewrite Hx.
  - destruct (is_ws c); [exact IH|reflexivity].
Qed.

(* mixed negation inside one architecture list *)
Theorem reject_mixed_negation set x : a_list set <> [] -> is_ws (peek x) = false ->
  Bool.eqb (a_not set) (eqc (peek x) 33) = false -> parse_one_arch set x = Err.
Proof.
  intros Ha Hw Hm. unfold parse_one_arch. rewrite (eat_ws_id x Hw). destruct (a_list set); [congruence|]. now rewrite Hm.
Qed.

(* an operator that is not one of = >= <= << >> *)
Theorem reject_unknown_operator c1 c2 x : is_ws c1 = false -> eqc c1 61 = false ->
  (eqc c1 62 && eqc c2 61) || (eqc c1 60 && eqc c2 61) || (eqc c1 60 && eqc c2 60) || (eqc c1 62 && eqc c2 62) = false ->
  parse_operator (c1 :: c2 :: x) = Err.
Proof.
  intros Hw H1 H2. unfold parse_operator. cbn [eat_ws]. rewrite Hw. cbn [peek adv tl]. rewrite H1.
  destruct (eqc c1 0 || eqc c2 0); [reflexivity|]. now rewrite H2.
Qed.
(* "==", "=<", "=>" *)
Theorem reject_double_operator c2 x : eqc c2 61 || eqc c2 60 || eqc c2 62 = true -> parse_operator ("="%char :: c2 :: x) = Err.
Proof.
  intros H. unfold parse_operator. cbn [eat_ws]. change (is_ws "="%char) with false. cbv iota. cbn [peek adv tl].
  change (eqc "="%char 61) with true. cbv iota. now rewrite H.
Qed.
Print Assumptions reject_second_version.
Print Assumptions reject_mixed_negation.
