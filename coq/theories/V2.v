From Coq Require Import List Ascii String ZArith NArith Lia Bool Arith.
Require Import V1.
Import ListNotations.
Open Scope Z_scope.

Definition pad0 : tok := (0, 0%N).

Lemma tok_cmp_refl x : tok_cmp x x = Eq.
Proof. unfold tok_cmp. now rewrite Z.compare_refl, N.compare_refl. Qed.
Lemma tok_cmp_eq x y : tok_cmp x y = Eq -> x = y.
Proof.
  destruct x as [a n], y as [b m]. unfold tok_cmp. cbn [fst snd].
  destruct (Z.compare_spec a b) as [E|E|E]; try discriminate. intros H. apply N.compare_eq in H. now subst.
Qed.
Lemma tok_cmp_antisym x y : tok_cmp y x = CompOpp (tok_cmp x y).
Proof.
  destruct x as [a n], y as [b m]. unfold tok_cmp. cbn [fst snd].
  rewrite (Z.compare_antisym a b), (N.compare_antisym n m).
  destruct (a ?= b); cbn; reflexivity.
Qed.
Lemma tok_cmp_lt_trans x y z : tok_cmp x y = Lt -> tok_cmp y z = Lt -> tok_cmp x z = Lt.
Proof.
  destruct x as [a n], y as [b m], z as [c k]. unfold tok_cmp. cbn [fst snd].
  destruct (Z.compare_spec a b) as [E1|E1|E1], (Z.compare_spec b c) as [E2|E2|E2];
    try discriminate; intros H1 H2; subst.
  - rewrite Z.compare_refl. exact (N.lt_trans _ _ _ H1 H2).
  - now apply Z.compare_lt_iff in E2 as ->.
  - now apply Z.compare_lt_iff in E1 as ->.
  - assert (E3 : a < c) by lia. now apply Z.compare_lt_iff in E3 as ->.
Qed.

(* padding is invisible *)
Lemma lexpad_snoc_l l1 l2 : lexpad (l1 ++ [pad0]) l2 = lexpad l1 l2.
Proof.
  revert l2. induction l1 as [|x r IH]; intros l2.
  - cbn [app]. symmetry. apply lexpad_nil_l_pad.
  - cbn [app lexpad]. destruct l2 as [|y r2]; now rewrite IH.
Qed.
Lemma lexpad_snoc_r l1 l2 : lexpad l1 (l2 ++ [pad0]) = lexpad l1 l2.
Proof.
  revert l1. induction l2 as [|y r IH]; intros l1.
  - cbn [app]. symmetry. apply lexpad_nil_r_pad.
  - destruct l1 as [|x r1].
    + cbn [app]. change (lexpad [] (y :: r ++ [pad0])) with
        (match tok_cmp pad0 y with Eq => lexpad [] (r ++ [pad0]) | c => c end).
      rewrite IH. reflexivity.
    + cbn [app lexpad]. now rewrite IH.
Qed.
Lemma lexpad_pad_l k l1 l2 : lexpad (l1 ++ repeat pad0 k) l2 = lexpad l1 l2.
Proof.
  revert l1. induction k as [|k IH]; intros l1; cbn [repeat].
  - now rewrite app_nil_r.
  - change (pad0 :: repeat pad0 k) with ([pad0] ++ repeat pad0 k). rewrite app_assoc, IH. apply lexpad_snoc_l.
Qed.
Lemma lexpad_pad_r k l1 l2 : lexpad l1 (l2 ++ repeat pad0 k) = lexpad l1 l2.
Proof.
  revert l2. induction k as [|k IH]; intros l2; cbn [repeat].
  - now rewrite app_nil_r.
  - change (pad0 :: repeat pad0 k) with ([pad0] ++ repeat pad0 k). rewrite app_assoc, IH. apply lexpad_snoc_r.
Qed.

Definition padto (n : nat) (l : list tok) := l ++ repeat pad0 (n - List.length l).
Lemma padto_len n l : (List.length l <= n)%nat -> List.length (padto n l) = n.
Proof. intros. unfold padto. rewrite app_length, repeat_length. lia. Qed.
Lemma lexpad_padto n l1 l2 : lexpad (padto n l1) (padto n l2) = lexpad l1 l2.
Proof. unfold padto. now rewrite lexpad_pad_l, lexpad_pad_r. Qed.

(* laws on equal-length lists *)
Lemma lex_refl l : lexpad l l = Eq.
Proof. induction l as [|x r IH]; [reflexivity|]. cbn [lexpad]. now rewrite tok_cmp_refl. Qed.

Lemma lex_eq : forall l1 l2, List.length l1 = List.length l2 -> lexpad l1 l2 = Eq -> l1 = l2.
Proof.
  induction l1 as [|x r IH]; intros [|y r2] Hl H; try discriminate; [reflexivity|].
  cbn [lexpad] in H. destruct (tok_cmp x y) eqn:E; try discriminate.
  apply tok_cmp_eq in E. subst. f_equal. apply IH; [cbn in Hl; lia|exact H].
Qed.

Lemma lex_antisym : forall l1 l2, List.length l1 = List.length l2 -> lexpad l2 l1 = CompOpp (lexpad l1 l2).
Proof.
  induction l1 as [|x r IH]; intros [|y r2] Hl; try discriminate; [reflexivity|].
  cbn [lexpad]. rewrite (tok_cmp_antisym x y). destruct (tok_cmp x y); cbn; auto.
Qed.

Lemma lex_lt_trans : forall l1 l2 l3, List.length l1 = List.length l2 -> List.length l2 = List.length l3 ->
  lexpad l1 l2 = Lt -> lexpad l2 l3 = Lt -> lexpad l1 l3 = Lt.
Proof.
  induction l1 as [|x r IH]; intros [|y r2] [|z r3] H12 H23 A B; try discriminate.
  cbn [lexpad] in *.
  destruct (tok_cmp x y) eqn:E1; try discriminate; destruct (tok_cmp y z) eqn:E2; try discriminate.
  - apply tok_cmp_eq in E1. apply tok_cmp_eq in E2. subst. rewrite tok_cmp_refl.
    apply (IH r2 r3); [cbn in H12; lia | cbn in H23; lia | exact A | exact B].
  - apply tok_cmp_eq in E1. subst. now rewrite E2.
  - apply tok_cmp_eq in E2. subst. now rewrite E1.
  - now rewrite (tok_cmp_lt_trans x y z E1 E2).
Qed.

(* lifted to arbitrary lists through padding *)
Definition kle (a b : list tok) := lexpad a b <> Gt.

Lemma max3 (a b c : list tok) : exists n, (List.length a <= n /\ List.length b <= n /\ List.length c <= n)%nat.
Proof. exists (List.length a + List.length b + List.length c)%nat. lia. Qed.

Theorem lexpad_refl a : lexpad a a = Eq.
Proof. apply lex_refl. Qed.

Theorem lexpad_antisym a b : lexpad b a = CompOpp (lexpad a b).
Proof.
  destruct (max3 a b []) as (n&Ha&Hb&_).
  rewrite <- (lexpad_padto n b a), <- (lexpad_padto n a b). apply lex_antisym.
  now rewrite !padto_len.
Qed.

Theorem lexpad_eq_congr a b c : lexpad a b = Eq -> lexpad a c = lexpad b c.
Proof.
  destruct (max3 a b c) as (n&Ha&Hb&Hc). intros H.
  rewrite <- (lexpad_padto n a b) in H. apply lex_eq in H; [|now rewrite !padto_len].
  rewrite <- (lexpad_padto n a c), <- (lexpad_padto n b c). now rewrite H.
Qed.

Theorem lexpad_lt_trans a b c : lexpad a b = Lt -> lexpad b c = Lt -> lexpad a c = Lt.
Proof.
  destruct (max3 a b c) as (n&Ha&Hb&Hc).
  rewrite <- (lexpad_padto n a b), <- (lexpad_padto n b c), <- (lexpad_padto n a c).
  apply lex_lt_trans; now rewrite !padto_len.
Qed.

Theorem kle_trans a b c : kle a b -> kle b c -> kle a c.
Proof.
  unfold kle. intros H1 H2.
  destruct (lexpad a b) eqn:E1; try congruence.
  - rewrite (lexpad_eq_congr a b c E1). exact H2.
  - destruct (lexpad b c) eqn:E2; try congruence.
    + assert (E3 : lexpad c b = Eq) by (rewrite lexpad_antisym, E2; reflexivity).
      pose proof (lexpad_eq_congr c b a E3) as K. rewrite !(lexpad_antisym a) in K.
      rewrite E1 in K. cbn in K. destruct (lexpad a c); cbn in K; congruence.
    + rewrite (lexpad_lt_trans a b c E1 E2). congruence.
Qed.

(* consequences for the model *)
Theorem verrevcmp_refl a : nonul a -> verrevcmp a a = Some 0.
Proof.
  intros H. destruct (verrevcmp_key a a H H) as (z&E&S). rewrite lexpad_refl in S. cbn in S.
  rewrite E. f_equal. lia.
Qed.
Theorem verrevcmp_antisym a b x y : nonul a -> nonul b ->
  verrevcmp a b = Some x -> verrevcmp b a = Some y -> Z.sgn y = - Z.sgn x.
Proof.
  intros Ha Hb E1 E2.
  destruct (verrevcmp_key a b Ha Hb) as (z1&F1&S1). destruct (verrevcmp_key b a Hb Ha) as (z2&F2&S2).
  rewrite E1 in F1. rewrite E2 in F2. inversion F1; inversion F2; subst.
  rewrite S1, S2, (lexpad_antisym (toks a) (toks b)). destruct (lexpad (toks a) (toks b)); reflexivity.
Qed.
Theorem verrevcmp_trans a b c x y : nonul a -> nonul b -> nonul c ->
  verrevcmp a b = Some x -> verrevcmp b c = Some y -> x <= 0 -> y <= 0 ->
  exists z, verrevcmp a c = Some z /\ z <= 0.
Proof.
  intros Ha Hb Hc E1 E2 Lx Ly.
  destruct (verrevcmp_key a b Ha Hb) as (z1&F1&S1). destruct (verrevcmp_key b c Hb Hc) as (z2&F2&S2).
  destruct (verrevcmp_key a c Ha Hc) as (z3&F3&S3).
  rewrite E1 in F1. rewrite E2 in F2. inversion F1; inversion F2; subst.
  exists z3. split; [exact F3|].
  assert (K : kle (toks a) (toks c)).
  { apply (kle_trans _ (toks b)); unfold kle; intros G.
    - rewrite G in S1. cbn in S1. lia.
    - rewrite G in S2. cbn in S2. lia. }
  unfold kle in K. destruct (lexpad (toks a) (toks c)); cbn in S3; try congruence; lia.
Qed.
Print Assumptions verrevcmp_trans.
