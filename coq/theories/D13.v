(* C04: whole fields with any blanks around ',' and '|' and clauses in any order *)
From Coq Require Import List Ascii String Bool Arith NArith Lia.
Require Import A1 D3 D4 D5 D6 D14 D9 D10 D12.
Import ListNotations.

Lemma stop3_facts c : stop3 c = true -> is_ws c = false /\ eqc c 36 = false /\ eqc c 58 = false /\ eqc c 40 = false.
Proof.
  pose proof (by_enum (fun c => negb (stop3 c) || (negb (is_ws c) && negb (eqc c 36) && negb (eqc c 58) && negb (eqc c 40))) eq_refl c) as F.
  cbv beta in F. intros H. rewrite H in F. cbn [negb orb] in F.
  apply andb_true_iff in F as [F F4]. apply andb_true_iff in F as [F F3]. apply andb_true_iff in F as [F1 F2].
  apply negb_true_iff in F1, F2, F3, F4. repeat split; assumption.
Qed.
Lemma ws_facts c : is_ws c = true -> eqc c 0 = false /\ eqc c 44 = false /\ eqc c 124 = false.
Proof.
  pose proof (by_enum (fun c => negb (is_ws c) || (negb (eqc c 0) && negb (eqc c 44) && negb (eqc c 124))) eq_refl c) as F.
  cbv beta in F. intros H. rewrite H in F. cbn [negb orb] in F.
  apply andb_true_iff in F as [F F3]. apply andb_true_iff in F as [F1 F2].
  apply negb_true_iff in F1, F2, F3. repeat split; assumption.
Qed.

(* blanks in front of ',' '|' or the end, seen by the relation loop itself *)
Lemma relation_skip_ws rel d w rest' f : all_ws w -> w <> [] -> stop3 (peek rest') = true ->
  relation_loop (S (S f)) rel d (w ++ rest') = relation_loop (S f) rel d rest'.
Proof.
  intros Hw Hne St. destruct (stop3_facts _ St) as (Nw&N36&N58&N40).
  pose proof (ws_head w rest' Hw Hne) as Hh. destruct (ws_facts _ Hh) as (C0&C44&C124).
  rewrite (relation_loop_S (S f)). rewrite C0, C44, C124. cbn [orb].
  unfold parse_possibility. rewrite (eat_ws_app w rest' Hw), (eat_ws_id rest' Nw), N36.
  cbn [possi_loop]. rewrite N58, Nw, N40. cbn [orb].
  assert (N91 : eqc (peek rest') 91 || eqc (peek rest') 60 = false).
  { pose proof (by_enum (fun c => negb (stop3 c) || negb (eqc c 91 || eqc c 60)) eq_refl (peek rest')) as F. cbv beta in F. rewrite St in F. cbn [negb orb] in F. now apply negb_true_iff in F. }
  apply orb_false_iff in N91 as [N91 N60]. rewrite N91, N60. cbn [orb].
  pose proof St as St'. unfold stop3 in St'. rewrite St'. cbn [p_name fresh]. rewrite guard_same. reflexivity.
Qed.

Record alt_ok2 (t : str) (p : possi) : Prop := {
  alt_rel2 : forall rel d we rest' x, all_ws we -> stop3 (peek rest') = true ->
    evOk (fun f => relation_loop f (rel ++ [p]) d rest') x -> evOk (fun f => relation_loop f rel d (t ++ we ++ rest')) x;
  alt_head2 : exists c t', t = c :: t' /\ is_ws c = false /\ eqc c 0 = false /\ eqc c 44 = false /\ eqc c 124 = false }.

Lemma alt_free2 name q cl : name <> [] -> forallb namec name = true -> eqc (peek name) 36 = false ->
  (match q with None => True | Some a => forallb mac (arch_string a) = true /\ parse_arch (arch_string a) = a /\ arch_ok (arch_string a) = true end) ->
  clauses_ok (base name q) cl -> alt_ok2 (name ++ qual_text q ++ clauses_text cl) (result name q cl).
Proof.
  intros Hne Hc Hd Ha W.
  assert (Hd0 : exists c0 n0, name = c0 :: n0 /\ is_ws c0 = false /\ eqc c0 0 = false /\ eqc c0 44 = false /\ eqc c0 124 = false).
  { destruct name as [|c0 n0]; [congruence|]. exists c0, n0.
    assert (Hc0 : namec c0 = true) by (cbn in Hc; now apply andb_true_iff in Hc as [? _]).
    destruct (namec_head_facts c0 Hc0) as (W0&S0&_&_).
    unfold stop3 in S0. apply orb_false_iff in S0 as [S0 Z]. apply orb_false_iff in S0 as [A B]. auto. }
  destruct Hd0 as (c0&n0&En&W0&Z&A&B).
  constructor.
  - intros rel d we rest' x Hwe St (f2&H2).
    pose proof (possi_any_order_ws name q cl rel we rest' Hne Hc Hd Ha W Hwe St) as (f1&H1).
    exists (S (f1 + f2)). intros [|f] Hf; [lia|]. rewrite relation_loop_S.
    assert (Pk : peek ((name ++ qual_text q ++ clauses_text cl) ++ we ++ rest') = c0) by (rewrite En; reflexivity).
    rewrite Pk, Z, A, B. cbn [orb]. rewrite <- !app_assoc. rewrite (H1 f ltac:(lia)). apply H2. lia.
  - exists c0, (n0 ++ qual_text q ++ clauses_text cl). rewrite En. cbn [app]. auto.
Qed.

Lemma alt_subst2 p : wf_subst p -> alt_ok2 (possi_string p) p.
Proof.
  intros W. constructor.
  - intros rel d we rest' x Hwe St (f2&H2).
    destruct (possi_head_facts p (we ++ rest') (or_intror W)) as (C0&C44&C124).
    assert (Ee : eat_ws (we ++ rest') = rest').
    { rewrite (eat_ws_app we rest' Hwe). apply eat_ws_id. unfold headok. now apply stop3_not_ws. }
    exists (S (S (S f2))). intros [|[|[|f]]] Hf; try lia. rewrite relation_loop_S, C0, C44, C124. cbn [orb].
    rewrite (subst_render p rel (we ++ rest') W) by (now rewrite Ee). rewrite Ee. apply H2. lia.
  - destruct (possi_string_cons p (or_intror W)) as (c&t&E). exists c, t. split; [exact E|].
    pose proof (possi_string_headok p [] (or_intror W)) as Hh. destruct (possi_head_facts p [] (or_intror W)) as (A&B&C).
    rewrite app_nil_r in *. unfold headok in Hh. rewrite E in *. cbn [peek] in *. auto.
Qed.

Lemma alt_headok2 t p rest : alt_ok2 t p -> headok (t ++ rest).
Proof. intros [_ (c&t'&->&H&_)]. exact H. Qed.

(* ---- a relation ---- *)
Definition item2 : Type := str * str * str * possi.        (* blanks before '|', blanks after '|', text, value *)
Definition item2_p (it : item2) : possi := snd it.
Definition item2_text (it : item2) : str := let '(wb, wa, t, _) := it in wb ++ ch 124 :: wa ++ t.
Definition item2_ok (it : item2) : Prop := let '(wb, wa, t, p) := it in all_ws wb /\ all_ws wa /\ alt_ok2 t p.
Definition more2_text (more : list item2) : str := List.concat (map item2_text more).

Lemma rel_gen2 : forall more t p rel d we rest, alt_ok2 t p -> Forall item2_ok more -> all_ws we ->
  (eqc (peek rest) 0 || eqc (peek rest) 44 = true) ->
  evOk (fun f => relation_loop f rel d (t ++ more2_text more ++ we ++ rest)) (d ++ [rel ++ p :: map item2_p more], rest).
Proof.
  induction more as [|[[[wb wa] t2] p2] more IH]; intros t p rel d we rest At W Hwe Hstop.
  - cbn [more2_text map List.concat app].
    assert (St : stop3 (peek rest) = true).
    { unfold stop3. apply orb_true_iff in Hstop as [H|H]; rewrite H; now rewrite ?orb_true_r. }
    apply (alt_rel2 t p At rel d we rest _ Hwe St).
    exists 1%nat. intros [|f] Hf; [lia|]. rewrite relation_loop_S, Hstop. destruct (rel ++ [p]) eqn:E; [destruct rel; discriminate|].
    rewrite <- E. reflexivity.
  - inversion W as [|? ? Wit Wm]; subst. unfold item2_ok in Wit. destruct Wit as (Hwb&Hwa&At2).
    set (J := t2 ++ more2_text more ++ we ++ rest).
    assert (Next : evOk (fun f => relation_loop f (rel ++ [p]) d (ch 124 :: wa ++ J)) (d ++ [rel ++ p :: p2 :: map item2_p more], rest)).
    { destruct (IH t2 p2 (rel ++ [p]) d we rest At2 Wm Hwe Hstop) as (f0&H0).
      exists (S f0). intros [|f] Hf; [lia|]. rewrite relation_loop_S. cbn [peek].
      change (eqc (ch 124) 0 || eqc (ch 124) 44) with false. change (eqc (ch 124) 124) with true. cbv iota.
      cbn [adv tl]. rewrite (eat_ws_app wa J Hwa). subst J. rewrite (eat_ws_id _ (alt_headok2 t2 p2 _ At2)).
      rewrite (H0 f ltac:(lia)). now rewrite <- app_assoc. }
    cbn [map item2_p snd].
    assert (Tx : more2_text ((wb, wa, t2, p2) :: more) ++ we ++ rest = wb ++ ch 124 :: wa ++ J).
    { subst J. unfold more2_text. cbn [map List.concat item2_text]. rewrite <- !app_assoc. cbn [app]. now rewrite <- !app_assoc. }
    match goal with |- evOk (fun f => relation_loop f rel d (t ++ ?m)) _ =>
      replace m with (wb ++ ch 124 :: wa ++ J) by (symmetry; exact Tx) end.
    apply (alt_rel2 t p At rel d wb (ch 124 :: wa ++ J) _ Hwb eq_refl). exact Next.
Qed.

(* ---- the field ---- *)
Definition lrel2 : Type := str * possi * list item2 * str.          (* first alternative, the others, blanks at the end *)
Definition lrel2_ok (r : lrel2) : Prop := let '(t, p, more, we) := r in alt_ok2 t p /\ Forall item2_ok more /\ all_ws we.
Definition lrel2_text (r : lrel2) : str := let '(t, _, more, we) := r in t ++ more2_text more ++ we.
Definition lrel2_val (r : lrel2) : relation := let '(_, p, more, _) := r in p :: map item2_p more.
Definition tail2_text (more : list (str * lrel2)) : str :=
  List.concat (map (fun wr => ch 44 :: fst wr ++ lrel2_text (snd wr)) more).

Lemma dep_gen2 : forall more r0 d, lrel2_ok r0 -> Forall (fun wr => all_ws (fst wr) /\ lrel2_ok (snd wr)) more ->
  evOk (fun f => dependency_loop f d (lrel2_text r0 ++ tail2_text more))
       (d ++ lrel2_val r0 :: map (fun wr => lrel2_val (snd wr)) more).
Proof.
  induction more as [|[w r1] more IH]; intros [[[t p] its] we] d (At&Wi&Hwe) W.
  - cbn [tail2_text map List.concat]. rewrite app_nil_r. cbn [lrel2_text lrel2_val].
    destruct (rel_gen2 its t p [] d we [] At Wi Hwe eq_refl) as (f1&H1). rewrite app_nil_r in H1.
    exists (S (S f1)). intros [|[|f]] Hf; try lia. rewrite dependency_loop_S.
    pose proof At as [_ (c&t'&Et&Hws&C0&C44&_)].
    assert (Pk : peek (t ++ more2_text its ++ we) = c) by (rewrite Et; reflexivity). rewrite Pk, C0, C44.
    pose proof (alt_headok2 t p (more2_text its ++ we) At) as HO. rewrite (eat_ws_id _ HO).
    rewrite (H1 (S f) ltac:(lia)). cbn [app]. reflexivity.
  - inversion W as [|? ? Wit Wm]; subst. cbn [fst snd] in Wit. destruct Wit as [Hw Wr1].
    set (J := lrel2_text r1 ++ tail2_text more).
    assert (Tx : lrel2_text (t, p, its, we) ++ tail2_text ((w, r1) :: more) = t ++ more2_text its ++ we ++ ch 44 :: w ++ J).
    { subst J. unfold tail2_text. cbn [lrel2_text map List.concat fst snd]. cbn [app]. now rewrite <- !app_assoc. }
    match goal with |- evOk (fun f => dependency_loop f d ?m) _ =>
      replace m with (t ++ more2_text its ++ we ++ ch 44 :: w ++ J) by (symmetry; exact Tx) end.
    cbn [lrel2_val].
    destruct (rel_gen2 its t p [] d we (ch 44 :: w ++ J) At Wi Hwe eq_refl) as (f1&H1).
    destruct (IH r1 (d ++ [p :: map item2_p its]) Wr1 Wm) as (f2&H2).
    exists (S (S (f1 + f2))). intros [|[|f]] Hf; try lia. rewrite dependency_loop_S.
    pose proof At as [_ (c&t'&Et&Hws&C0&C44&_)].
    assert (Pk : peek (t ++ more2_text its ++ we ++ ch 44 :: w ++ J) = c) by (rewrite Et; reflexivity). rewrite Pk, C0, C44.
    pose proof (alt_headok2 t p (more2_text its ++ we ++ ch 44 :: w ++ J) At) as HO. rewrite (eat_ws_id _ HO).
    cbn [app] in H1. rewrite (H1 (S f) ltac:(lia)).
    rewrite dependency_loop_S. cbn [peek]. change (eqc (ch 44) 0) with false. change (eqc (ch 44) 44) with true. cbv iota.
    cbn [adv tl]. rewrite (eat_ws_app w J Hw).
    assert (HJ : headok J).
    { subst J. destruct r1 as [[[t1 p1] its1] we1]. destruct Wr1 as (At1&_&_). cbn [lrel2_text]. rewrite <- app_assoc. now apply (alt_headok2 t1 p1). }
    rewrite (eat_ws_id _ HJ). subst J. pose proof (H2 f ltac:(lia)) as K. rewrite <- app_assoc in K. cbn [app] in K.
    rewrite K. cbn [map snd]. reflexivity.
Qed.

(* C04: blanks anywhere between tokens at field, relation and alternative level; clauses in any order *)
Theorem C04_field_free w0 r0 more : all_ws w0 -> lrel2_ok r0 -> Forall (fun wr => all_ws (fst wr) /\ lrel2_ok (snd wr)) more ->
  parse (w0 ++ lrel2_text r0 ++ tail2_text more) = Ok (lrel2_val r0 :: map (fun wr => lrel2_val (snd wr)) more).
Proof.
  intros Hw W0 Wm. destruct (dep_gen2 more r0 [] W0 Wm) as (f0&H0). cbn [app] in H0.
  set (x := w0 ++ lrel2_text r0 ++ tail2_text more).
  pose proof (C18_dep_terminates x) as NF. unfold parse in *.
  assert (E : eat_ws x = lrel2_text r0 ++ tail2_text more).
  { subst x. rewrite (eat_ws_app w0 _ Hw). apply eat_ws_id. destruct r0 as [[[t p] its] we]. destruct W0 as (At&_&_).
    cbn [lrel2_text]. rewrite <- app_assoc. now apply (alt_headok2 t p). }
  rewrite E in *. set (N := (4 * List.length x + 8)%nat) in *.
  set (F := fun f => dependency_loop f [] (lrel2_text r0 ++ tail2_text more)) in *.
  assert (M : mono F) by (intros f r; apply dependency_loop_mono).
  destruct (Nat.le_ge_cases N f0) as [L|L].
  - pose proof (mono_ge F M N f0 (F N) L eq_refl NF) as K. pose proof (H0 f0 (le_n _)) as K2.
    change (F N = Ok (lrel2_val r0 :: map (fun wr => lrel2_val (snd wr)) more)). rewrite <- K. exact K2.
  - exact (H0 N L).
Qed.
Print Assumptions C04_field_free.
