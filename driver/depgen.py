"""Dependency-field ASTs, their renderings under a layout, and their denotation (the spec side of C04).

AST:  dep  = [relation]; relation = [alt] (>= 1)
      alt  = ("pkg", name, qual|None, ver|None, archs|None, groups) | ("subst", name)
      ver  = (op, number); archs = (neg, [archname] >= 1); groups = [[(neg, profile)] >= 1]
The denotation is written in the canonical text of coq/theories/Show.v so it can be compared with the
implementation's answer directly; it is computed here, independently of both model and implementation.
"""
import itertools

BLANKS = [b" ", b"\t", b"\n", b" \n ", b"\r\n", b"  ", b"\n\t"]
OPS = [b">=", b"<=", b"<<", b">>", b"="]
PKG = [b"foo", b"libc6", b"g++", b"lib-x.y", b"a", b"debhelper-compat", b"x2", b"python3.11"]
ARCHN = [b"amd64", b"i386", b"linux-any", b"any-amd64", b"kfreebsd-amd64", b"any", b"musl-linux-arm64", b"hurd-i386", b"all", b"gnu-any-any"]
QUAL = [b"any", b"native", b"amd64", b"i386", b"all", b"kfreebsd-amd64", b"linux-any", b"any-amd64", b"musl-linux-arm64", b"hurd-i386"]
PROF = [b"nocheck", b"cross", b"stage1", b"pkg.foo.bar", b"nodoc"]
NUMS = [b"1.0", b"2:1.0-1~rc1", b"0", b"9.20160101", b"1.0+b1", b"${source:Version}", b"1.2.3-4"]


def name_to_triple(n):
    p = n.split(b"-", 2)
    if len(p) == 1:
        if p[0] in (b"all", b"any"):
            return (p[0],) * 3
        return (b"gnu", b"linux", p[0])
    if len(p) == 2:
        return ((b"any" if b"any" in p else b"gnu"), p[0], p[1])
    return tuple(p)


def hx(b):
    return "x" + b.hex()


def show_list(items):
    return "[]" if not items else "[ " + " ".join(items) + " ]"


def show_arch(n):
    return " ".join(hx(c) for c in name_to_triple(n))


def denote_alt(a):
    if a[0] == "subst":
        return "{ %s - - [] - T }" % hx(a[1])
    _, name, qual, ver, archs, groups = a
    q = "-" if qual is None else "( " + show_arch(qual) + " )"
    if archs is None:
        s = "( F [] )"
    else:
        s = "( %s %s )" % ("T" if archs[0] else "F", show_list(["( " + show_arch(x) + " )" for x in archs[1]]))
    g = show_list([show_list(["( %s %s )" % ("T" if n else "F", hx(p)) for n, p in grp]) for grp in groups])
    v = "-" if ver is None else "( %s %s )" % (hx(ver[0]), hx(ver[1]))
    return "{ %s %s %s %s %s F }" % (hx(name), q, s, g, v)


def denote(dep):
    return "ok " + show_list([show_list([denote_alt(a) for a in rel]) for rel in dep])


class Layout:
    """source of blanks; 'canon' gives the canonical spacing of String()"""
    def __init__(self, rng, mode):
        self.rng = rng
        self.mode = mode      # "canon" | "tight" | "free"

    def ws(self, minimum=0, canon=b""):
        if self.mode == "canon":
            return canon
        if self.mode == "tight":
            return b" " * minimum
        k = self.rng.randrange(0, 3)
        if k < minimum:
            k = minimum
        return b"".join(self.rng.choice(BLANKS) for _ in range(k))


def render_alt(a, ly):
    if a[0] == "subst":
        return b"${" + a[1] + b"}"
    _, name, qual, ver, archs, groups = a
    out = name
    if qual is not None:
        out += b":" + qual
    clauses = []
    if archs is not None:
        neg, lst = archs
        body = b""
        for i, x in enumerate(lst):
            body += (ly.ws(0) if i == 0 else ly.ws(1, b" ")) + (b"!" if neg else b"") + x
        clauses.append(("a", b"[" + body + ly.ws(0) + b"]"))
    if ver is not None:
        clauses.append(("v", b"(" + ly.ws(0) + ver[0] + ly.ws(0, b" ") + ver[1] + ly.ws(0) + b")"))
    for grp in groups:
        body = b""
        for i, (n, p) in enumerate(grp):
            body += (ly.ws(0) if i == 0 else ly.ws(1, b" ")) + (b"!" if n else b"") + p
        clauses.append(("g", b"<" + body + ly.ws(0) + b">"))
    if ly.mode == "free":
        # any order, profile groups keep their relative order
        gs = [c for c in clauses if c[0] == "g"]
        others = [c for c in clauses if c[0] != "g"]
        ly.rng.shuffle(others)
        merged = []
        gi = 0
        slots = sorted(ly.rng.randrange(len(gs) + 1) for _ in others)
        oi = 0
        for pos in range(len(gs) + 1):
            while oi < len(others) and slots[oi] == pos:
                merged.append(others[oi]); oi += 1
            if pos < len(gs):
                merged.append(gs[pos])
        clauses = merged
    first = True
    for kind, text in clauses:
        # no blank is needed in front of a restriction: "foo[amd64]", "foo<x>" and "foo(>= 1)" are "foo [amd64]", ... (as for
        # dpkg; until repair 4dd4cdf a name swallowed '[' and '<', and this generator had learned to put a blank there)
        out += ly.ws(0, b" ")
        out += text
        first = False
    return out


def render(dep, ly):
    rels = []
    for rel in dep:
        alts = [render_alt(a, ly) for a in rel]
        t = alts[0]
        for x in alts[1:]:
            t += ly.ws(0, b" ") + b"|" + ly.ws(0, b" ") + x
        rels.append(t)
    out = ly.ws(0) + rels[0]
    for r in rels[1:]:
        out += ly.ws(0) + b"," + ly.ws(0, b" ") + r
    return out + ly.ws(0)


def rand_alt(rng, rich=0.5):
    if rng.random() < 0.12:
        return ("subst", rng.choice([b"misc:Depends", b"shlibs:Depends", b"x", b"a:b-c"]))
    name = rng.choice(PKG)
    qual = rng.choice(QUAL) if rng.random() < rich * 0.5 else None
    ver = (rng.choice(OPS), rng.choice(NUMS)) if rng.random() < rich else None
    archs = None
    if rng.random() < rich * 0.7:
        archs = (rng.random() < 0.4, [rng.choice(ARCHN) for _ in range(rng.randrange(1, 4))])
    groups = []
    if rng.random() < rich * 0.6:
        for _ in range(rng.randrange(1, 3)):
            groups.append([(rng.random() < 0.5, rng.choice(PROF)) for _ in range(rng.randrange(1, 3))])
    return ("pkg", name, qual, ver, archs, groups)


def rand_dep(rng, maxrel=4, maxalt=3, rich=0.5):
    return [[rand_alt(rng, rich) for _ in range(rng.randrange(1, maxalt + 1))] for _ in range(rng.randrange(1, maxrel + 1))]


def small_alts():
    """every presence/absence combination of the optional parts, 1-2 list elements"""
    out = [("subst", b"misc:Depends")]
    for qual in (None, b"any"):
        for ver in (None, (b">=", b"1.0-1")):
            for archs in (None, (False, [b"amd64"]), (True, [b"amd64", b"linux-any"])):
                for groups in ([], [[(True, b"nocheck")]], [[(False, b"a"), (True, b"b")], [(False, b"c")]]):
                    out.append(("pkg", b"foo", qual, ver, archs, groups))
    return out


def malformed(rng):
    """fields of the malformed classes the property lists; each must be rejected"""
    ly = Layout(rng, "free")
    # a valid neighbour without any closing character, so that the defect is not repaired by what follows
    good = rng.choice(PKG) + rng.choice([b"", b":any", b" | " + rng.choice(PKG)])
    name = rng.choice(PKG)
    sp = ly.ws(1)
    out = []
    out.append(("unterminated-paren", name + sp + b"(" + rng.choice(OPS) + b" " + rng.choice(NUMS)))
    out.append(("unterminated-paren", name + sp + b"(" + rng.choice(OPS) + b" " + rng.choice(NUMS) + b", " + good))
    out.append(("unterminated-bracket", name + sp + b"[" + rng.choice(ARCHN) + rng.choice([b"", b" ", b" i386"])))
    out.append(("unterminated-bracket", good + b", " + name + sp + b"[" + rng.choice(ARCHN)))
    out.append(("unterminated-profile", name + sp + b"<" + rng.choice(PROF) + rng.choice([b"", b" ", b" !x"])))
    out.append(("unterminated-substvar", rng.choice([b"${misc:Depends", b"${", b"foo | ${x", good + b", ${shlibs"])))
    a, b = rng.choice(ARCHN), rng.choice(ARCHN)
    out.append(("mixed-negation", name + sp + b"[!" + a + b" " + b + b"]"))
    out.append(("mixed-negation", name + sp + b"[" + a + b" !" + b + b"]"))
    out.append(("second-version", name + sp + b"(>= 1)" + ly.ws(0) + b"(<< 2)"))
    out.append(("second-version", name + sp + b"(>= 1)" + sp + b"[" + a + b"]" + ly.ws(0) + b"(<< 2)"))
    out.append(("second-archs", name + sp + b"[" + a + b"]" + ly.ws(0) + b"[" + b + b"]"))
    out.append(("second-archs", name + sp + b"[" + a + b"]" + sp + b"<x>" + ly.ws(0) + b"[" + b + b"]"))
    out.append(("unknown-operator", name + sp + b"(" + rng.choice([b"==", b">", b"<", b"!=", b"~", b"=>", b"=<", b"<>", b"eq"]) + b" 1.0)"))
    # a known operator with a third operator character behind it is no operator either
    out.append(("unknown-operator", name + sp + b"(" + rng.choice([b">=", b"<=", b"<<", b">>"]) + rng.choice([b"=", b"<", b">"]) + rng.choice([b" ", b""]) + b"1.0)"))
    out.append(("two-names", name + sp + rng.choice(PKG)))
    out.append(("two-names", name + sp + b"(>= 1)" + sp + rng.choice(PKG)))
    out.append(("two-names", good + b"," + name + sp + rng.choice(PKG) + b", " + good))
    # ... the first of the two being a substvar (a substvar is a whole alternative), or the second, or both
    sv = rng.choice([b"${misc:Depends}", b"${a}", b"${shlibs:Depends}"])
    out.append(("two-names", sv + ly.ws(rng.randrange(2)) + rng.choice(PKG)))
    out.append(("two-names", sv + ly.ws(rng.randrange(2)) + rng.choice([b"${b}", b"(>= 1)", b"[amd64]", b"<x>", b":any"])))
    out.append(("two-names", name + sp + sv))
    out.append(("two-names", good + b", " + sv + sp + rng.choice(PKG) + b" | " + good))
    return out
