(* C17: parsing a rendered changelog returns exactly the entries written *)
From Coq Require Import List Ascii String Bool Arith Lia.
Require Import GS R2 CL.
Import ListNotations.
Arguments ROk {A}. Arguments REof {A}. Arguments RErr {A}.

(* ---------- ctrim ---------- *)
Definition cclean_l (x : str) : Prop := match x with c :: _ => cut c = false | [] => True end.
Definition cclean_r (x : str) : Prop := cclean_l (rev x).
Definition all_cut (w : str) : Prop := Forall (fun c => cut c = true) w.

Lemma ctrim_left_ws w x : all_cut w -> ctrim_left (w ++ x) = ctrim_left x.
Proof. induction 1 as [|c w Hc _ IH]; [reflexivity|]. cbn [app ctrim_left]. now rewrite Hc. Qed.
Lemma ctrim_left_id x : cclean_l x -> ctrim_left x = x.
Proof. destruct x as [|c r]; [reflexivity|]. cbn. now intros ->. Qed.
Lemma all_cut_rev w : all_cut w -> all_cut (rev w).
Proof. intros H. apply Forall_rev. exact H. Qed.
Lemma ctrim_left_all w : all_cut w -> ctrim_left w = [].
Proof. intros H. rewrite <- (app_nil_r w). now rewrite ctrim_left_ws. Qed.

Lemma cclean_l_app x y : x <> [] -> cclean_l x -> cclean_l (x ++ y).
Proof. destruct x; [congruence|]. auto. Qed.

Lemma ctrim_pad w1 x w2 : all_cut w1 -> all_cut w2 -> cclean_l x -> cclean_r x -> ctrim (w1 ++ x ++ w2) = x.
Proof.
  intros H1 H2 Hl Hr. unfold ctrim. rewrite ctrim_left_ws by exact H1.
  destruct x as [|c r].
  - cbn [app]. rewrite (ctrim_left_all w2 H2). reflexivity.
  - assert (L : ctrim_left ((c :: r) ++ w2) = (c :: r) ++ w2) by (apply ctrim_left_id; exact Hl).
    rewrite L, rev_app_distr. rewrite ctrim_left_ws by (now apply all_cut_rev).
    rewrite ctrim_left_id by exact Hr. apply rev_involutive.
Qed.
Lemma ctrim_id x : cclean_l x -> cclean_r x -> ctrim x = x.
Proof. intros Hl Hr. pose proof (ctrim_pad [] x [] (Forall_nil _) (Forall_nil _) Hl Hr) as E. cbn [app] in E. now rewrite app_nil_r in E. Qed.

(* ---------- partition ---------- *)
Lemma partition_char_on c : forall a cur b, free c a ->
  partition_on [c] cur (a ++ c :: b) = (rev cur ++ a, b).
Proof.
  induction a as [|x a IH]; intros cur b F.
  - cbn [app partition_on is_prefix]. destruct (ceq_spec c c); [|congruence]. cbn. now rewrite app_nil_r.
  - inversion F; subst. cbn [app partition_on is_prefix]. destruct (ceq_spec c x); [congruence|]. cbn [andb].
    rewrite IH by assumption. cbn [rev]. now rewrite <- app_assoc.
Qed.
Lemma partition_char c a b : free c a -> partition (a ++ c :: b) [c] = (a, b).
Proof. intros F. unfold partition. now rewrite partition_char_on. Qed.

Fixpoint single_sp (w : str) : bool :=
  match w with
  | [] => true
  | c :: r => (if ceq c sp then match r with [] => false | c2 :: _ => negb (ceq c2 sp) end else true) && single_sp r
  end.
Lemma partition_dsp_on : forall w cur rest, single_sp w = true ->
  partition_on [sp; sp] cur (w ++ sp :: sp :: rest) = (rev cur ++ w, rest).
Proof.
  induction w as [|c r IH]; intros cur rest H.
  - cbn [app partition_on is_prefix]. destruct (ceq_spec sp sp); [|congruence]. cbn. now rewrite app_nil_r.
  - cbn [single_sp] in H. apply andb_true_iff in H. destruct H as [H1 H2].
    cbn [app partition_on].
    assert (P : is_prefix [sp; sp] (c :: r ++ sp :: sp :: rest) = false).
    { cbn [is_prefix]. destruct (ceq_spec sp c) as [<-|Hc]; [|reflexivity]. cbn [andb].
      destruct (ceq_spec sp sp); [|congruence]. destruct r as [|c2 r']; [discriminate|].
      cbn [app]. destruct (ceq_spec c2 sp) as [->|Hc2]; [discriminate|]. destruct (ceq_spec sp c2); [congruence|reflexivity]. }
    rewrite P, IH by exact H2. cbn [rev]. now rewrite <- app_assoc.
Qed.

Definition semi : ascii := ";"%char.
Definition lparen : ascii := "("%char.
Definition rparen : ascii := ")"%char.
Definition comma : ascii := ","%char.
Definition equals : ascii := "="%char.
Definition dash : ascii := "-"%char.

Definition clean (x : str) : Prop := x <> [] /\ cclean_l x /\ cclean_r x.

Lemma cclean_r_app x y : y <> [] -> cclean_r y -> cclean_r (x ++ y).
Proof. intros NE H. unfold cclean_r in *. rewrite rev_app_distr. apply cclean_l_app; [|exact H]. intros E. apply NE. now rewrite <- (rev_involutive y), E. Qed.

Lemma ctrim_clean w1 x w2 : all_cut w1 -> all_cut w2 -> clean x -> ctrim (w1 ++ x ++ w2) = x.
Proof. intros H1 H2 (_&Hl&Hr). now apply ctrim_pad. Qed.

Lemma cut_sp : cut sp = true. Proof. reflexivity. Qed.
Lemma cut_nl : cut nl = true. Proof. reflexivity. Qed.
Lemma ac_sp : all_cut [sp]. Proof. repeat constructor. Qed.
Lemma ac_nl : all_cut [nl]. Proof. repeat constructor. Qed.
Lemma ac_nil : all_cut []. Proof. constructor. Qed.

Section Render.
  Variables V T : Type.
  Variable parse_version : str -> option V.
  Variable parse_date : str -> option T.
  Notation parse_one := (CL.parse_one V T parse_version parse_date).
  Notation parse_fuel := (CL.parse_fuel V T parse_version parse_date).

  Record rentry := { r_blanks : nat; r_source : str; r_vstr : str; r_v : V; r_target : str; r_args : list (str * str);
                     r_body : list str; r_whom : str; r_date : str; r_t : T }.

  Definition arg_text (kv : str * str) : str := sp :: fst kv ++ equals :: snd kv.
  Definition hA (e : rentry) : str := (r_source e ++ [sp]) ++ lparen :: (r_vstr e ++ rparen :: sp :: r_target e).
  Definition hJ (e : rentry) : str := join [comma] (map arg_text (r_args e)).
  Definition header_line (e : rentry) : str := hA e ++ semi :: hJ e.
  Definition trailer_line (e : rentry) : str := sp :: dash :: dash :: (sp :: r_whom e) ++ sp :: sp :: r_date e.
  Definition elines (e : rentry) : list str := repeat [] (r_blanks e) ++ header_line e :: r_body e ++ [trailer_line e].

  (* the human-readable shape of the two lines *)
  Lemma header_line_text e : header_line e =
    r_source e ++ s " (" ++ r_vstr e ++ s ") " ++ r_target e ++ s ";" ++ hJ e.
  Proof. unfold header_line, hA. repeat (rewrite <- app_assoc || rewrite <- app_comm_cons). reflexivity. Qed.
  Lemma trailer_line_text e : trailer_line e = s " -- " ++ r_whom e ++ s "  " ++ r_date e.
  Proof. unfold trailer_line. repeat (rewrite <- app_assoc || rewrite <- app_comm_cons). reflexivity. Qed.

  Definition arg_ok (kv : str * str) : Prop :=
    clean (fst kv) /\ clean (snd kv) /\ free equals (fst kv) /\ free comma (fst kv) /\ free comma (snd kv).
  Definition body_line_ok (l : str) : Prop := (starts_sp l = true \/ l = []) /\ is_prefix (s " -- ") l = false.
  Definition rentry_ok (e : rentry) : Prop :=
    clean (r_source e) /\ free semi (r_source e) /\ free lparen (r_source e) /\
    clean (r_vstr e) /\ free semi (r_vstr e) /\ free rparen (r_vstr e) /\ parse_version (r_vstr e) = Some (r_v e) /\
    clean (r_target e) /\ free semi (r_target e) /\
    Forall arg_ok (r_args e) /\                       (* zero or more options *)
    Forall body_line_ok (r_body e) /\
    clean (r_whom e) /\ single_sp (sp :: r_whom e) = true /\
    clean (r_date e) /\ parse_date (r_date e) = Some (r_t e).

  Definition entry_val (e : rentry) : CL.entry V T :=
    {| e_source := r_source e; e_version := r_v e; e_target := r_target e; e_args := r_args e;
       e_body := List.concat (map lf (r_body e)); e_by := r_whom e; e_when := r_t e |}.

  (* ---- options ---- *)
  Definition argf (e : str) : str * str := let (k, v) := partition (ctrim e) [equals] in (ctrim k, ctrim v).
  Lemma argf_text kv w : arg_ok kv -> all_cut w -> argf (arg_text kv ++ w) = kv.
  Proof.
    destruct kv as [k v]. intros ((Kn&Kl&Kr)&(Vn&Vl&Vr)&Fe&_&_) Hw. cbn [fst snd] in *. unfold argf, arg_text. cbn [fst snd].
    assert (C : ctrim ((sp :: k ++ equals :: v) ++ w) = k ++ equals :: v).
    { change ((sp :: k ++ equals :: v) ++ w) with ([sp] ++ (k ++ equals :: v) ++ w).
      apply ctrim_pad; [apply ac_sp|exact Hw| |].
      - now apply cclean_l_app.
      - change (equals :: v) with ([equals] ++ v). rewrite app_assoc. now apply cclean_r_app. }
    rewrite C, (partition_char equals k v Fe). now rewrite !ctrim_id.
  Qed.
  Lemma arg_text_free kv : arg_ok kv -> free comma (arg_text kv).
  Proof.
    destruct kv as [k v]. intros (_&_&_&Fk&Fv). cbn [fst snd] in *. unfold arg_text. cbn [fst snd].
    constructor; [discriminate|]. apply Forall_app. split; [exact Fk|]. constructor; [discriminate|exact Fv].
  Qed.
  Lemma join_cons2 d (x y : str) r : join d (x :: y :: r) = x ++ d ++ join d (y :: r).
  Proof. reflexivity. Qed.
  Definition keep (e : str) : bool := negb (str_eqb (ctrim e) []).
  Lemma keep_arg kv w : arg_ok kv -> all_cut w -> keep (arg_text kv ++ w) = true.
  Proof.
    destruct kv as [k v]. intros ((Kn&Kl&Kr)&(Vn&Vl&Vr)&Fe&_&_) Hw. cbn [fst snd] in *. unfold keep, arg_text. cbn [fst snd].
    assert (C : ctrim ((sp :: k ++ equals :: v) ++ w) = k ++ equals :: v).
    { change ((sp :: k ++ equals :: v) ++ w) with ([sp] ++ (k ++ equals :: v) ++ w).
      apply ctrim_pad; [apply ac_sp|exact Hw| |].
      - now apply cclean_l_app.
      - change (equals :: v) with ([equals] ++ v). rewrite app_assoc. now apply cclean_r_app. }
    rewrite C. destruct (str_eqb_spec (k ++ equals :: v) []) as [E|_]; [destruct k; discriminate|reflexivity].
  Qed.
  Lemma parse_args_text_ne : forall args, args <> [] -> Forall arg_ok args ->
    map argf (filter keep (split comma (join [comma] (map arg_text args) ++ [nl]))) = args.
  Proof.
    induction args as [|a r IH]; intros NE W; [congruence|]. inversion W as [|? ? Wa Wr]; subst. destruct r as [|b r'].
    - cbn [map join]. rewrite split_one.
      + cbn [filter]. rewrite (keep_arg a [nl] Wa ac_nl). cbn [map]. now rewrite (argf_text a [nl] Wa ac_nl).
      + apply Forall_app. split; [now apply arg_text_free|]. constructor; [discriminate|constructor].
    - cbn [map]. rewrite join_cons2. rewrite <- !app_assoc. cbn [app].
      rewrite split_cons by (now apply arg_text_free). cbn [filter].
      pose proof (keep_arg a [] Wa ac_nil) as K. rewrite app_nil_r in K. rewrite K. cbn [map].
      f_equal.
      + pose proof (argf_text a [] Wa ac_nil) as E. now rewrite app_nil_r in E.
      + apply (IH ltac:(discriminate) Wr).
  Qed.
  (* ... and a header that writes no option at all has none (zero or more items) *)
  Lemma parse_args_text : forall args, Forall arg_ok args ->
    map argf (filter keep (split comma (join [comma] (map arg_text args) ++ [nl]))) = args.
  Proof.
    intros [|a r] W; [|apply parse_args_text_ne; [discriminate|exact W]].
    cbn [map join app]. rewrite split_one by (constructor; [discriminate|constructor]). reflexivity.
  Qed.

  (* ---- loops ---- *)
  Lemma header_loop_skip n h rest : ctrim h <> [] -> starts_sp h = false ->
    header_loop (repeat [] n ++ h :: rest) = ROk (lf h) rest.
  Proof.
    intros NE S. induction n as [|n IH]; cbn [repeat app header_loop].
    - destruct (str_eqb_spec (ctrim h) []); [contradiction|]. now rewrite S.
    - exact IH.
  Qed.
  (* a line whose first character is no white space is not a separator line *)
  Lemma ctrim_head_ne c r : cut c = false -> ctrim (c :: r) <> [].
  Proof. intros Hc E. apply ctrim_nil in E. cbn in E. rewrite Hc in E. discriminate. Qed.

  Lemma body_loop_lines : forall bl acc tr rest, Forall body_line_ok bl ->
    starts_sp tr = true -> is_prefix (s " -- ") tr = true ->
    body_loop acc (bl ++ tr :: rest) = ROk (acc ++ List.concat (map lf bl), lf tr) rest.
  Proof.
    induction bl as [|l bl IH]; intros acc tr rest W S P.
    - cbn [app body_loop map List.concat]. rewrite S, P. cbn [negb andb]. now rewrite app_nil_r.
    - inversion W as [|? ? (Hl&Hp) Wb]; subst. cbn [app body_loop]. rewrite Hp.
      assert (G : negb (starts_sp l) && negb (str_eqb (ctrim (lf l)) []) = false).
      { destruct Hl as [->| ->]; [reflexivity|]. reflexivity. }
      rewrite G. rewrite (IH (acc ++ lf l) tr rest Wb S P). cbn [map List.concat]. now rewrite <- app_assoc.
  Qed.

  Lemma clean_not_sp x : clean x -> starts_sp x = false /\ x <> [].
  Proof.
    intros (NE&Hl&_). split; [|exact NE]. destruct x as [|c r]; [congruence|]. cbn in *.
    destruct (ceq_spec c sp) as [->|]; [rewrite cut_sp in Hl; discriminate|reflexivity].
  Qed.

  Lemma free_app2 d x y : free d x -> free d y -> free d (x ++ y).
  Proof. intros. apply Forall_app. now split. Qed.

  (* C17, one entry *)
  Theorem parse_one_render e rest : rentry_ok e -> parse_one (elines e ++ rest) = ROk (entry_val e) rest.
  Proof.
    intros (Sc&Ss&Sl&Vc&Vs&Vr&Vp&Tc&Ts&Aw&Bw&Wc&Ws&Dc&Dp).
    unfold CL.parse_one, elines. rewrite <- app_assoc. cbn [app].
    destruct (clean_not_sp _ Sc) as [S0 S1].
    assert (Hh : ctrim (header_line e) <> [] /\ starts_sp (header_line e) = false).
    { destruct Sc as (_&Scl&_). unfold header_line, hA. destruct (r_source e) as [|c r]; [congruence|]. split; [|exact S0].
      cbn [app]. apply ctrim_head_ne. exact Scl. }
    destruct Hh as [Hne Hsp]. rewrite (header_loop_skip _ _ _ Hne Hsp).
    (* header *)
    assert (FA : free semi (hA e)).
    { unfold hA. apply free_app2; [apply free_app2; [exact Ss|constructor; [discriminate|constructor]]|].
      constructor; [discriminate|]. apply free_app2; [exact Vs|]. constructor; [discriminate|]. constructor; [discriminate|exact Ts]. }
    assert (E1 : partition (lf (header_line e)) (s ";") = (hA e, hJ e ++ [nl])).
    { unfold lf, header_line. rewrite <- app_assoc. cbn [app]. apply (partition_char semi); exact FA. }
    rewrite E1.
    assert (E2 : partition (hA e) (s "(") = (r_source e ++ [sp], r_vstr e ++ rparen :: sp :: r_target e)).
    { unfold hA. apply (partition_char lparen). apply free_app2; [exact Sl|constructor; [discriminate|constructor]]. }
    rewrite E2.
    assert (E3 : partition (r_vstr e ++ rparen :: sp :: r_target e) (s ")") = (r_vstr e, sp :: r_target e)).
    { apply (partition_char rparen). exact Vr. }
    rewrite E3.
    destruct Vc as (Vn&Vl&Vrr). rewrite (ctrim_id _ Vl Vrr), Vp.
    (* body and trailer *)
    assert (TS : starts_sp (trailer_line e) = true) by reflexivity.
    assert (TP : is_prefix (s " -- ") (trailer_line e) = true) by reflexivity.
    rewrite <- app_assoc. cbn [app].
    rewrite (body_loop_lines (r_body e) [] (trailer_line e) rest Bw TS TP). cbn [app].
    assert (E4 : partition (lf (trailer_line e)) (s "--") = ([sp], (sp :: r_whom e) ++ sp :: sp :: (r_date e ++ [nl]))).
    { unfold lf, trailer_line. cbn [app]. unfold partition. cbn [partition_on is_prefix s list_ascii_of_string].
      destruct (ceq_spec dash sp) as [X|_]; [discriminate X|]. cbn [andb].
      destruct (ceq_spec dash dash) as [_|X]; [|congruence]. cbn [andb skipn List.length rev app].
      rewrite <- app_assoc. reflexivity. }
    rewrite E4.
    assert (E5 : partition ((sp :: r_whom e) ++ sp :: sp :: (r_date e ++ [nl])) (s "  ") = (sp :: r_whom e, r_date e ++ [nl])).
    { unfold partition. change (s "  ") with [sp; sp]. rewrite (partition_dsp_on _ [] _ Ws). reflexivity. }
    rewrite E5.
    pose proof (ctrim_clean [] (r_date e) [nl] ac_nil ac_nl Dc) as E6. cbn [app] in E6. rewrite E6, Dp.
    (* fields *)
    unfold entry_val. f_equal. f_equal.
    - pose proof (ctrim_clean [] (r_source e) [sp] ac_nil ac_sp Sc) as E. exact E.
    - pose proof (ctrim_clean [sp] (r_target e) [] ac_sp ac_nil Tc) as E. rewrite app_nil_r in E. exact E.
    - unfold CL.parse_args. fold argf. change (map (fun e0 => let (k, v) := partition (ctrim e0) (s "=") in (ctrim k, ctrim v))) with (map argf).
      change (filter (fun e0 => negb (str_eqb (ctrim e0) []))) with (filter keep).
      apply (parse_args_text _ Aw).
    - pose proof (ctrim_clean [sp] (r_whom e) [] ac_sp ac_nil Wc) as E. rewrite app_nil_r in E. exact E.
  Qed.

  (* ---- whole changelogs ---- *)
  Definition doc (es : list rentry) (k : nat) : list str := List.concat (map elines es) ++ repeat [] k.

  Lemma header_loop_blank k : header_loop (repeat [] k) = REof.
  Proof. induction k as [|k IH]; [reflexivity|exact IH]. Qed.

  Theorem C17_parse_render : forall es k fuel, Forall rentry_ok es -> (List.length es < fuel)%nat ->
    parse_fuel fuel (doc es k) = Some (map entry_val es).
  Proof.
    induction es as [|e es IH]; intros k fuel W Hf; (destruct fuel as [|fuel]; [cbn in Hf; lia|]); cbn [CL.parse_fuel].
    - unfold doc. cbn [map List.concat app]. unfold CL.parse_one. rewrite header_loop_blank. reflexivity.
    - inversion W as [|? ? We Wes]; subst. unfold doc. cbn [map List.concat]. rewrite <- app_assoc.
      rewrite (parse_one_render e _ We). fold (doc es k). rewrite (IH k fuel Wes) by (cbn in Hf; lia). reflexivity.
  Qed.

  Lemma doc_len es k : (List.length es <= List.length (doc es k))%nat.
  Proof.
    unfold doc. rewrite app_length. induction es as [|e es IH]; cbn [map List.concat List.length]; [lia|].
    rewrite app_length. unfold elines at 1. rewrite app_length. cbn [List.length]. lia.
  Qed.

  (* the text with a final newline *)
  Theorem C17_parse_text es k : Forall rentry_ok es -> Forall (free nl) (doc es k) ->
    CL.parse V T parse_version parse_date (unlines (doc es k)) = Some (map entry_val es).
  Proof.
    intros W F. unfold CL.parse. rewrite (lines_of_unlines _ F). apply C17_parse_render; [exact W|].
    pose proof (doc_len es k). lia.
  Qed.
End Render.
Print Assumptions C17_parse_render.
Print Assumptions C17_parse_text.
Check parse_one_render.
