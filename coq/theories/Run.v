(* One entry point for the correspondence check: [run op args] evaluates a model (or spec)
   function on hex-encoded arguments and renders the result canonically (Show.v).
   It is extracted to OCaml (ocaml/modelrun) and also evaluated inside Coq by vm_compute on
   a sample of every run (the in-kernel sample), so the extraction itself is checked. *)
From Coq Require Import List Ascii String Bool Arith NArith ZArith.
Require Import Show.
Require V1 V5 V6 V3 V11 V13 A1 D3 M6 M6b GS R2 R2u PU ACC2 PATH AR AR2 AR3 ARu CL DATE C9 TS3 CX SchemaDefs Schema_gen H12 H13 S11 D16 DEB U20 U20d U20L ARM.
Import ListNotations.
Open Scope string_scope.
Open Scope list_scope.

Definition nth_arg (n : nat) (args : list str) : str := nth n args [].

(* ---- version: C01 C02 C03 ---- *)
Definition mkv6 (e u r : str) : V6.version :=
  {| V6.epoch := arg_N e; V6.upstream := u; V6.revision := r |}.
Definition mkv3 (e u r : str) : V3.version :=
  {| V3.epoch := arg_N e; V3.upstream := u; V3.revision := r |}.
Definition show_v3 (v : V3.version) : str :=
  unwords [show_N (V3.epoch v); hx (V3.upstream v); hx (V3.revision v)].

Definition show_v6 (v : V6.version) : str :=
  unwords [show_N (V6.epoch v); hx (V6.upstream v); hx (V6.revision v)].
Fixpoint triples (a : list str) : list V6.version :=
  match a with e :: u :: r :: rest => mkv6 e u r :: triples rest | _ => [] end.
Fixpoint nondecreasing (l : list V6.version) : bool :=
  match l with
  | a :: ((b :: _) as r) => (V6.compare a b <=? 0)%Z && nondecreasing r
  | _ => true
  end.

Definition run_version (op : string) (a : list str) : option str :=
  let g n := nth_arg n a in
  if op =? "vcmp" then Some (show_sgn (V6.compare (mkv6 (g 0) (g 1) (g 2)) (mkv6 (g 3) (g 4) (g 5))))
  else if op =? "vless" then Some (show_bool (V6.less (mkv6 (g 0) (g 1) (g 2)) (mkv6 (g 3) (g 4) (g 5))))
  else if op =? "vkey" then Some (show_cmp (V6.key_cmp (mkv6 (g 0) (g 1) (g 2)) (mkv6 (g 3) (g 4) (g 5))))
  else if op =? "vpolicy" then
    Some (show_cmp (V5.policy_cmp (S (List.length (g 0) + List.length (g 1))) (g 0) (g 1)))
  else if op =? "vrevcmp" then Some (show_sgn (V6.vcmp (g 0) (g 1)))
  else if op =? "vparse" then
    Some (match V11.parse_u (g 0) with Some v => lit "ok " ++ show_v3 v | None => lit "err" end)
  else if op =? "vstring" then Some (hx (V3.to_string (mkv3 (g 0) (g 1) (g 2))))
  else if op =? "vacc" then
    (let v := mkv3 (g 0) (g 1) (g 2) in
     Some (unwords [hx (V3.without_epoch v); show_bool (V13.is_native v); show_bool (V13.is_empty v)]))
  else if op =? "vnoepoch" then
    Some (match V11.parse_u (g 0) with
          | None => lit "err"
          | Some v => let t := V3.without_epoch v in
                      lit "ok " ++ hx t ++ sp1 ++
                      match V11.parse_u t with Some w => lit "ok " ++ show_v3 w | None => lit "err" end
          end)
  else if op =? "vroundtrip" then
    Some (match V11.parse_u (g 0) with
          | None => lit "err"
          | Some v => let t := V3.to_string v in
                      lit "ok " ++ hx t ++ sp1 ++
                      match V11.parse_u t with Some w => lit "ok " ++ show_v3 w | None => lit "err" end
          end)
  else if op =? "vforms" then
    Some (match V11.parse_u (g 0) with
          | None => lit "err"
          | Some v => let t := V3.to_string v in
                      let back := match V11.parse_u t with Some w => show_v3 w | None => lit "err" end in
                      lit "ok " ++ hx t ++ sp1 ++ hx t ++ sp1 ++ show_list (fun x => x) [back; back; back; back]
          end)
  else if op =? "vparse_ascii" then
    Some (match V3.parse (g 0) with Some v => lit "ok " ++ show_v3 v | None => lit "err" end)
  else if op =? "vsort" then Some (show_list (fun v => lit "( " ++ show_v6 v ++ lit " )") (V6.VSort.sort (triples a)))
  else if op =? "vsorted" then Some (show_bool (nondecreasing (triples a)))
  else None.

(* ---- dependency: C04 C05 C06 ---- *)
Definition show_arch (a : A1.arch) : str := unwords [hx (A1.abi a); hx (A1.os a); hx (A1.cpu a)].
Definition show_archset (a : D3.archset) : str :=
  unwords [show_bool (D3.a_not a); show_list (fun x => lit "( " ++ show_arch x ++ lit " )") (D3.a_list a)].
Definition show_stage (st : D3.stage) : str := lit "( " ++ show_bool (D3.s_not st) ++ sp1 ++ hx (D3.s_name st) ++ lit " )".
Definition show_vrel (v : D3.vrel) : str := unwords [hx (D3.v_op v); hx (D3.v_num v)].
Definition show_possi (p : D3.possi) : str :=
  unwords [lit "{"; hx (D3.p_name p); show_opt show_arch (D3.p_arch p); show_opt show_archset (D3.p_archs p);
           show_list (show_list show_stage) (D3.p_stages p); show_opt show_vrel (D3.p_ver p);
           show_bool (D3.p_subst p); lit "}"].
Definition show_dep (d : D3.dep) : str := show_list (show_list show_possi) d.
Definition show_dres (r : D3.outcome D3.dep) : str :=
  match r with D3.Ok d => lit "ok " ++ show_dep d | D3.Err => lit "err" | D3.OutOfFuel => lit "out-of-fuel" end.

Definition any_s : str := lit "any".
Definition all_s : str := lit "all".
Definition m6arch (a b c : str) : M6.arch str := {| M6.abi := a; M6.os := b; M6.cpu := c |}.
Definition m6_of (a : A1.arch) : M6.arch str := m6arch (A1.abi a) (A1.os a) (A1.cpu a).
Definition m6set (a : D3.archset) : M6b.archset str :=
  {| M6b.a_not := D3.a_not a; M6b.a_list := map m6_of (D3.a_list a) |}.
Definition m6possi (p : D3.possi) : M6b.possi str D3.possi :=
  {| M6b.p_name := p; M6b.p_archs := m6set (D3.archs_of p); M6b.p_subst := D3.p_subst p |}.
Fixpoint arch_triples (a : list str) : list (M6.arch str) :=
  match a with x :: y :: z :: r => m6arch x y z :: arch_triples r | _ => [] end.
Definition op_of (o : str) : M6b.op :=
  if D3.seq o (lit ">=") then M6b.OGe else if D3.seq o (lit "<=") then M6b.OLe
  else if D3.seq o (lit ">>") then M6b.OGt else if D3.seq o (lit "<<") then M6b.OLt
  else if D3.seq o (lit "=") then M6b.OEq else M6b.OUnknown.
Definition v3_to_v6 (v : V3.version) : V6.version :=
  {| V6.epoch := V3.epoch v; V6.upstream := V3.upstream v; V6.revision := V3.revision v |}.

Definition run_dep (op : string) (a : list str) : option str :=
  let g n := nth_arg n a in
  if op =? "dparse" then Some (show_dres (D3.parse (g 0)))
  else if op =? "dstring" then
    Some (match D3.parse (g 0) with D3.Ok d => lit "ok " ++ hx (D3.dep_string d) | _ => lit "err" end)
  else if op =? "drt" then
    Some (match D3.parse (g 0) with
          | D3.Ok d => lit "ok " ++ hx (D3.dep_string d) ++ sp1 ++ show_dres (D3.parse (D3.dep_string d))
          | _ => lit "err" end)
  else if op =? "aparse" then Some (match A1.parse_arch_opt (g 0) with Some x => show_arch x | None => lit "err" end)
  else if op =? "alist" then
    (* dependency.ParseArchitectures: split on single blanks, trim " \t\n\r", skip empty items *)
    (let els := filter (fun x => negb (D3.seq x []))
               (map (CX.trim_set [" "%char; ascii_of_nat 9; ascii_of_nat 10; ascii_of_nat 13]) (GS.split " "%char (g 0))) in
     Some (if forallb (fun x => match A1.parse_arch_opt x with Some _ => true | None => false end) els
           then lit "ok " ++ show_list (fun x => lit "( " ++ match A1.parse_arch_opt x with Some a => show_arch a | None => [] end ++ lit " )") els
           else lit "err"))
  else if op =? "astring" then Some (hx (A1.arch_string (A1.mk (g 0) (g 1) (g 2))))
  else if op =? "art" then
    Some (match A1.parse_arch_opt (g 0) with
          | None => lit "err"
          | Some x => let t := A1.arch_string x in
                      unwords [show_arch x; hx t; match A1.parse_arch_opt t with Some y => show_arch y | None => lit "err" end]
          end)
  else if op =? "ais" then
    Some (show_bool (M6.arch_is str D3.seq any_s all_s (m6arch (g 0) (g 1) (g 2)) (m6arch (g 3) (g 4) (g 5))))
  else if op =? "awild" then Some (show_bool (M6.is_wildcard str D3.seq any_s all_s (m6arch (g 0) (g 1) (g 2))))
  else if op =? "amatch" then
    (* not-flag, target triple, then the list's triples *)
    let set := {| M6b.a_not := arg_bool (g 0); M6b.a_list := arch_triples (skipn 4 a) |} in
    Some (show_bool (M6b.set_matches str D3.seq any_s all_s set (m6arch (g 1) (g 2) (g 3))))
  else if op =? "dposs" then
    Some (match D3.parse (g 0) with
          | D3.Ok d => lit "ok " ++ show_list (fun p => show_possi (M6b.p_name str D3.possi p))
                         (M6b.get_possibilities str D3.seq any_s all_s D3.possi (map (map m6possi) d) (m6arch (g 1) (g 2) (g 3)))
          | _ => lit "err" end)
  else if op =? "dall" then
    Some (match D3.parse (g 0) with
          | D3.Ok d => lit "ok " ++ show_list show_possi (filter (fun p => negb (D3.p_subst p)) (List.concat d))
          | _ => lit "err" end)
  else if op =? "dsubst" then
    Some (match D3.parse (g 0) with
          | D3.Ok d => lit "ok " ++ show_list show_possi (filter D3.p_subst (List.concat d))
          | _ => lit "err" end)
  else if op =? "vsat" then
    (* operator, number text, then the version (e,u,r) *)
    Some (show_bool (M6b.satisfied_by V6.version
            (fun l => option_map v3_to_v6 (V11.parse_u (map ascii_of_nat l))) V6.compare
            (op_of (g 0)) (map nat_of_ascii (g 1)) (mkv6 (g 2) (g 3) (g 4))))
  else None.

(* ---- deb822 reader / writer: C07 C08 ---- *)
Definition show_para (p : R2.para) : str :=
  unwords [lit "("; show_list hx (R2.order p); show_list (fun k => hx (R2.lookup k (R2.values p))) (R2.order p);
           show_nat (List.length (R2.values p)); lit ")"].
Definition show_paras (ps : list R2.para) : str := show_list show_para ps.
(* the Next loop: every paragraph returned before the end or the first error *)
Fixpoint next_loop (fuel : nat) (ls : list str) (acc : list R2.para) : list R2.para * bool :=
  match fuel with
  | O => (acc, false)
  | S f => match R2u.next_u R2.empty_para [] ls with
           | R2.REOF => (acc, true)
           | R2.RErr => (acc, false)
           | R2.RPara p rest => next_loop f rest (acc ++ [p])
           end
  end.
(* Paragraph.Set *)
Definition pset := PU.pset.
Fixpoint para_of_args (a : list str) (p : R2.para) : R2.para :=
  match a with k :: v :: r => para_of_args r (pset p k v) | _ => p end.
(* Encoder.Encode once per paragraph *)
Fixpoint enc_paras (ps : list R2.para) : str :=
  match ps with
  | [] => []
  | [p] => R2u.write_para_u p
  | p :: r => R2u.write_para_u p ++ GS.nl :: enc_paras r
  end.

Definition run_deb822 (op : string) (a : list str) : option str :=
  let g n := nth_arg n a in
  if (op =? "rall") || (op =? "rslice") || (op =? "rdecode") then
    Some (match R2u.read_all_u (g 0) with Some ps => lit "ok " ++ show_paras ps | None => lit "err" end)
  else if op =? "rnext" then
    let ls := GS.lines_of (g 0) in
    let '(ps, eof) := next_loop (S (List.length ls)) ls [] in
    Some (show_paras ps ++ (if eof then lit " eof" else lit " err"))
  else if op =? "tondemand" then
    (let fields := if D3.seq (g 0) (lit "binary_index")
                   then [lit "Depends"; lit "Pre-Depends"; lit "Suggests"; lit "Breaks"; lit "Replaces"; lit "Conflicts"; lit "Built-Using"]
                   else [lit "Build-Depends"; lit "Build-Depends-Arch"; lit "Build-Depends-Indep"] in
     Some (match R2u.read_all_u (g 1) with
           | Some (p :: _) => lit "ok " ++ unwords (map (fun f => f ++ lit "=" ++ show_dep (ACC2.get_optional_dep f p)) fields)
           | _ => lit "err" end))
  else if op =? "pclean" then Some (hx (PATH.clean (g 0)))
  else if op =? "pjoin" then Some (hx (PATH.join2 (g 0) (g 1)))
  else if op =? "pbase" then Some (hx (PATH.base (g 0)))
  else if op =? "pdir" then Some (hx (PATH.dir (g 0)))
  else if op =? "pext" then Some (hx (PATH.ext (g 0)))
  else if op =? "pistar" then Some (show_bool (PATH.is_tarfile (g 0)))
  else if op =? "pset" then Some (show_para (para_of_args a R2.empty_para))
  else if op =? "pupdate" then
    (let n := arg_nat (g 0) in
     let rest := tl a in
     let p := para_of_args (firstn (2 * n) rest) R2.empty_para in
     let q := para_of_args (skipn (2 * n) rest) R2.empty_para in
     Some (show_para (PU.update p q)))
  else if op =? "wpara" then Some (hx (R2u.write_para_u (para_of_args a R2.empty_para)))
  else if op =? "wcycle" then
    Some (match R2u.read_all_u (g 0) with
          | None => lit "err"
          | Some ps =>
              let t1 := enc_paras ps in
              match R2u.read_all_u t1 with
              | None => lit "ok " ++ hx t1 ++ lit " err"
              | Some ps2 =>
                  let t2 := enc_paras ps2 in
                  lit "ok " ++ hx t1 ++ sp1 ++ hx t2 ++ sp1 ++
                  match R2u.read_all_u t2 with Some ps3 => show_paras ps3 | None => lit "err" end
              end
          end)
  else if op =? "wgroups" then
    (* Encoder.Encode called with slices / structs / pointers in any grouping (second argument, ignored here):
       the text is that of the paragraphs written one after another *)
    Some (match R2u.read_all_u (g 0) with
          | None => lit "err"
          | Some ps => let t1 := enc_paras ps in
                       lit "ok " ++ hx t1 ++ sp1 ++ match R2u.read_all_u t1 with Some ps2 => show_paras ps2 | None => lit "err" end
          end)
  else None.

(* ---- ar reader: C13 C15 ---- *)
Definition show_entry (buf : str) (e : AR.entry) : str :=
  let d := show_data (AR.data_of buf e) in
  unwords [lit "("; hx (AR.e_name e); show_Z (AR.e_ts e); show_Z (AR.e_uid e); show_Z (AR.e_gid e);
           hx (AR.e_mode e); show_Z (AR.e_size e); d; lit "re"; d; lit ")"].
Definition ar_open_z (buf : str) : option (list AR.entry * bool) :=
  if GS.has_prefix AR2.magic buf then ARu.iterate_u (S (List.length buf)) buf 8 else None.
Definition run_ar (op : string) (a : list str) : option str :=
  let g n := nth_arg n a in
  if op =? "ariter" then
    Some (match ar_open_z (g 0) with
          | None => lit "notar"
          | Some (es, clean) => show_list (show_entry (g 0)) es ++ (if clean then lit " eof" else lit " err")
          end)
  else None.

(* ---- changelog: C17 ---- *)
(* byte-wise lexicographic order, for printing the options map sorted by key *)
Fixpoint str_ltb (a b : str) : bool :=
  match a, b with
  | _, [] => false
  | [], _ :: _ => true
  | x :: a', y :: b' => (N_of_ascii x <? N_of_ascii y)%N || ((N_of_ascii x =? N_of_ascii y)%N && str_ltb a' b')
  end.
Fixpoint ins_pair (kv : str * str) (l : list (str * str)) : list (str * str) :=
  match l with
  | [] => [kv]
  | h :: t => if D3.seq (fst kv) (fst h) then kv :: t          (* a later duplicate replaces the earlier one *)
              else if str_ltb (fst kv) (fst h) then kv :: l else h :: ins_pair kv t
  end.
Definition sort_args (l : list (str * str)) : list (str * str) := fold_left (fun acc kv => ins_pair kv acc) l [].
Fixpoint table_of (a : list str) : list (str * str) :=
  match a with k :: v :: r => (k, v) :: table_of r | _ => [] end.
Definition date_oracle (tbl : list (str * str)) (x : str) : option str :=
  match find (fun kv => D3.seq (fst kv) x) tbl with
  | Some (_, v) => if D3.seq v (lit "err") then None else Some v
  | None => None
  end.
Definition show_centry (e : CL.entry V3.version str) : str :=
  unwords [lit "("; hx (CL.e_source _ _ e); show_v3 (CL.e_version _ _ e); hx (CL.e_target _ _ e);
           show_list (fun kv => lit "( " ++ hx (fst kv) ++ sp1 ++ hx (snd kv) ++ lit " )") (sort_args (CL.e_args _ _ e));
           hx (CL.e_body _ _ e); hx (CL.e_by _ _ e); CL.e_when _ _ e; lit ")"].
(* the text handed to time.Parse for a trailer line *)
Definition when_of (l : str) : str :=
  let (_, so) := CL.partition (CL.lf l) (lit "--") in let (_, w) := CL.partition so (lit "  ") in CL.ctrim w.
Definition run_changelog (op : string) (a : list str) : option str :=
  let g n := nth_arg n a in
  if op =? "cldates" then
    Some (show_list hx (map when_of (filter (fun l => CL.is_prefix (lit " -- ") l) (GS.lines_of (g 0)))))
  else if op =? "tparse" then
    (* the trailer date, computed by the model (DATE.v) - no oracle *)
    Some (match DATE.parse_when (g 0) with Some (u, o) => C9.itoa_z u ++ lit "/" ++ C9.itoa_z o | None => lit "err" end)
  else if op =? "clparse1" then
    Some (match CL.parse V3.version str V11.parse_u
                  (fun w => match DATE.parse_when w with Some (u, o) => Some (C9.itoa_z u ++ lit "/" ++ C9.itoa_z o) | None => None end) (g 0) with
          | Some es => lit "ok " ++ show_list show_centry es
          | None => lit "err" end)
  else if op =? "clparse" then
    Some (match CL.parse V3.version str V11.parse_u (date_oracle (table_of (tl a))) (g 0) with
          | Some es => lit "ok " ++ show_list show_centry es
          | None => lit "err" end)
  else None.

(* ---- build ordering: C19 ---- *)
Definition run_order (op : string) (a : list str) : option str :=
  let g n := nth_arg n a in
  if op =? "dscorder" then
    (* abi os cpu, then one .dsc text per argument *)
    Some (match TS3.order_texts (m6arch (g 0) (g 1) (g 2)) (skipn 3 a) with
          | TS3.OOrder names => lit "ok " ++ show_list hx names
          | TS3.OCycle => lit "err"
          | TS3.OParseError => lit "parse-error"
          | TS3.OFuel => lit "out-of-fuel"
          end)
  else None.

(* ---- struct codec and typed documents: C09 C10 ---- *)
Definition show_v3p (v : V3.version) : str := lit "( " ++ show_v3 v ++ lit " )".
Fixpoint show_xval (v : CX.xval) : str :=
  match v with
  | CX.XS x => hx x
  | CX.XI z => show_Z z
  | CX.XU n => show_N n
  | CX.XB b => show_bool b
  | CX.XVer v => show_v3p v
  | CX.XDep d => show_dep d
  | CX.XArch a => lit "( " ++ show_arch a ++ lit " )"
  | CX.XHash alg h sz name bh => unwords [lit "("; hx alg; hx h; show_Z sz; hx name; hx bh; lit ")"]
  | CX.XChg h sz comp prio name => unwords [lit "("; hx h; show_Z sz; hx comp; hx prio; hx name; lit ")"]
  | CX.XList l => show_list show_xval l
  | CX.XUnsupported => lit "?"
  end.
Definition show_record (r : list CX.cval) : str :=
  unwords (map (fun v => SchemaDefs.go_name (fst v) ++ lit "=" ++ show_xval (snd v)) r).
Definition schema_named (name : str) : option (SchemaDefs.schema * bool) :=
  match find (fun e => D3.seq (fst e) name) Schema_gen.all_schemas with Some (_, x) => Some x | None => None end.
(* field values as the driver passes them: see harness/cmd/implrun/codec.go for the same conventions *)
Definition us : ascii := ascii_of_nat 31.
Definition rs : ascii := ascii_of_nat 30.
Definition arg_Z (x : str) : Z :=
  match x with c :: r => if (N_of_ascii c =? 45)%N then (- Z.of_N (arg_N r))%Z else Z.of_N (arg_N x) | [] => 0%Z end.
Fixpoint items_of (x : str) (cur : str) : list str :=
  match x with
  | [] => []
  | c :: r => if GS.ceq c rs then rev cur :: items_of r [] else items_of r (c :: cur)
  end.
Fixpoint value_of_arg (k : SchemaDefs.fkind) (x : str) : CX.xval :=
  match k with
  | SchemaDefs.KString => CX.XS x
  | SchemaDefs.KInt => CX.XI (arg_Z x)
  | SchemaDefs.KUint => CX.XU (arg_N x)
  | SchemaDefs.KBool => CX.XB (arg_bool x)
  | SchemaDefs.KStruct name =>
      let p := GS.split us x in
      if D3.seq name (lit "pault.ag/go/debian/version.Version") then
        CX.XVer {| V3.epoch := arg_N (nth 0 p []); V3.upstream := nth 1 p []; V3.revision := nth 2 p [] |}
      else if D3.seq name (lit "pault.ag/go/debian/dependency.Dependency") then
        CX.XDep (match D3.parse x with D3.Ok d => d | _ => [] end)
      else if D3.seq name (lit "pault.ag/go/debian/dependency.Arch") then CX.XArch (A1.mk (nth 0 p []) (nth 1 p []) (nth 2 p []))
      else match CX.struct_alg name with
           | Some alg => CX.XHash alg (nth 0 p []) (arg_Z (nth 1 p [])) (nth 2 p []) (CX.byhash_of alg)
           | None => CX.XUnsupported end
  | SchemaDefs.KSlice k' => CX.XList (map (value_of_arg k') (items_of x []))
  | _ => CX.XUnsupported
  end.
Fixpoint record_of_args (sch : list CX.fd) (a : list str) : list CX.cval :=
  match sch, a with
  | f :: sch', x :: a' => (f, value_of_arg (SchemaDefs.kind f) x) :: record_of_args sch' a'
  | _, _ => []
  end.
Fixpoint decode_paras (sch : SchemaDefs.schema) (ps : list R2.para) : option (list (list CX.cval)) :=
  match ps with
  | [] => Some []
  | p :: r => match CX.decode_para sch p, decode_paras sch r with Some x, Some xs => Some (x :: xs) | _, _ => None end
  end.
Definition run_codec (op : string) (a : list str) : option str :=
  let g n := nth_arg n a in
  if op =? "cunmarshal" then
    Some (match schema_named (g 0) with
          | None => lit "no-such-type"
          | Some (sch, _) => match CX.decode_text sch (g 1) with Some r => lit "ok " ++ show_record r | None => lit "err" end
          end)
  else if op =? "cmarshal" then
    (* type, number n of (key, value) pairs of the embedded paragraph, the pairs, then one argument per active field *)
    Some (match schema_named (g 0) with
          | None => lit "no-such-type"
          | Some (sch, hp) =>
              let n := arg_nat (g 1) in
              let found := para_of_args (firstn (2 * n) (skipn 2 a)) R2.empty_para in
              let r := record_of_args (CX.active sch) (skipn (2 + 2 * n) a) in
              match CX.marshal_text sch hp found r with Some t => lit "ok " ++ hx t | None => lit "err" end
          end)
  else if op =? "tindex" then
    Some (match schema_named (g 0) with
          | None => lit "no-such-type"
          | Some (sch, _) =>
              match R2u.read_all_u (g 1) with
              | None => lit "err"
              | Some ps => match decode_paras sch ps with Some rs => lit "ok " ++ show_list (fun r => lit "<< " ++ show_record r ++ lit " >>") rs | None => lit "err" end
              end
          end)
  else if op =? "tcontrol" then
    Some (match schema_named (lit "source_par"), schema_named (lit "binary_par") with
          | Some (ssch, _), Some (bsch, _) =>
              match R2u.next_u R2.empty_para [] (GS.lines_of (g 0)) with
              | R2.RPara p rest =>
                  match CX.decode_para ssch p, R2u.all_fuel_u (S (List.length rest)) rest with
                  | Some sr, Some ps =>
                      match decode_paras bsch ps with
                      | Some rs => lit "ok << " ++ show_record sr ++ lit " >> " ++ show_list (fun r => lit "<< " ++ show_record r ++ lit " >>") rs
                      | None => lit "err" end
                  | _, _ => lit "err"
                  end
              | _ => lit "err"
              end
          | _, _ => lit "no-such-type"
          end)
  else if op =? "croundtrip" then
    Some (match schema_named (g 0) with
          | None => lit "no-such-type"
          | Some (sch, hp) =>
              let n := arg_nat (g 1) in
              let found := para_of_args (firstn (2 * n) (skipn 2 a)) R2.empty_para in
              let r := record_of_args (CX.active sch) (skipn (2 + 2 * n) a) in
              match CX.marshal_text sch hp found r with
              | Some t => lit "ok " ++ hx t ++ sp1 ++
                          match CX.decode_text sch t with Some r2 => lit "ok " ++ show_record r2 | None => lit "err" end
              | None => lit "err" end
          end)
  else None.

(* ---- hashio and checksum verification: C12 (the digest oracle H comes in as an argument) ---- *)
Definition names_of (x : str) : list str := if D3.seq x (lit "-") then [] else GS.split ","%char x.
Definition show_vres (r : H12.vres) : str :=
  match r with H12.Accept => lit "accept" | H12.Reject => lit "reject" | H12.VError => lit "error" end.
Definition run_hash (op : string) (a : list str) : option str :=
  let g n := nth_arg n a in
  if (op =? "hwrite") || (op =? "hread") then
    (* the bytes every hasher has seen are printed; the driver turns them into digests with an independent
       implementation of the algorithms *)
    Some (match H12.run_writers (names_of (g 0)) (tl a) with
          | None => lit "err"
          | Some st => lit "ok " ++ show_data (H12.w_target st) ++ sp1 ++
              show_list (fun h => unwords [lit "("; hx (H12.h_name h); show_Z (H12.h_size h); hx (H12.h_buf h); lit ")"]) (H12.w_hashers st)
          end)
  else if op =? "hverify" then
    let fh := {| H12.f_alg := g 0; H12.f_hash := g 1; H12.f_size := 0; H12.f_name := [] |} in
    Some (show_vres (H12.verify (fun _ _ => g 2) fh (skipn 3 a)))
  else if op =? "hparsed" then
    Some (match H13.unmarshal_hash CX.parse_int (g 0) (g 1) with
          | None => lit "parse-error"
          | Some fh => unwords [lit "("; hx (H12.f_alg fh); hx (H12.f_hash fh); show_Z (H12.f_size fh); hx (H12.f_name fh); lit ")";
                                show_vres (H12.verify (fun _ _ => g 2) fh (skipn 3 a))]
          end)
  else None.

(* ---- clearsigned input: C11 (clearsign.Decode and the signature check come in as oracle answers) ---- *)
Definition run_clearsign (op : string) (a : list str) : option str :=
  let g n := nth_arg n a in
  if op =? "csmodel" then
    (* keyring given (1/0), input, decoded (1/0), body, verified (1/0), signer id, length of the rest clearsign.Decode handed back *)
    let cs_decode := fun i : str => if arg_bool (g 2) then Some (g 3, tt, skipn (List.length i - arg_nat (g 6)) i) else None in
    let verify := fun (_ : unit) (_ : str) (_ : unit) => if arg_bool (g 4) then Some (g 5) else None in
    Some (match S11.new_reader unit str unit cs_decode verify (if arg_bool (g 0) then Some tt else None) (g 1) with
          | S11.RErr _ => lit "err"
          | S11.ROk _ r =>
              match R2u.read_all_u (S11.r_text _ r) with
              | None => lit "ok-then-read-error"
              | Some ps => lit "ok signer=" ++ (match S11.r_signer _ r with Some e => hx e | None => lit "-" end) ++ sp1 ++ show_paras ps
              end
          end)
  else if op =? "armorok" then
    Some (if ARM.armor_ok (g 0) then lit "ok" else lit "malformed")
  else if op =? "b64dec4" then
    Some (match g 0 with
          | [a0; b0; c0; d0] => match ARM.decode4 a0 b0 c0 d0 with Some n => show_nat n | None => lit "err" end
          | _ => lit "bad-length"
          end)
  else if op =? "armorcrc" then
    Some (hx (ARM.checksum_line (map N_of_ascii (g 0))))
  else None.

(* ---- .deb loading and debsig: C14 C16 (tar, the decompressors and the signature check come in as oracle answers
   computed by the harness with the libraries directly; path.Clean, filepath.Ext and IsTarfile are the model PATH.v - the
   is-tar / extension columns of the oracle table are no longer read) ---- *)
Record omember := { om_name : str; om_istar : bool; om_ext : str; om_decok : bool; om_untarok : bool;
                    om_files : list (str * str * str) }.       (* raw tar entry name, content, printed form *)
Fixpoint take_files (n : nat) (a : list str) : list (str * str * str) * list str :=
  match n, a with
  | S n', x :: y :: z :: r => let '(fs, rest) := take_files n' r in ((x, y, z) :: fs, rest)
  | _, _ => ([], a)
  end.
Fixpoint parse_oracle (fuel : nat) (a : list str) : list omember :=
  match fuel, a with
  | S f, nm :: it :: ex :: dk :: uk :: k :: r =>
      let '(fs, rest) := take_files (arg_nat k) r in
      {| om_name := nm; om_istar := arg_bool it; om_ext := ex; om_decok := arg_bool dk; om_untarok := arg_bool uk; om_files := fs |}
      :: parse_oracle f rest
  | _, _ => []
  end.
Definition find_om (tbl : list omember) (name : str) : option omember := find (fun o => D3.seq (om_name o) name) tbl.
(* the oracles as lookups: a member's (decompressed) tar stream is represented by the member's name *)
Definition deb_record (tbl : list omember) (buf : str) (pick : list D16.member -> option D16.member) : option (D16.deb (list CX.cval)) :=
  match ar_open_z buf with
  | Some (es, true) =>
      let ms := DEB.members_of buf es in
      let name_of_data := fun d : str =>
        match find (fun m => D3.seq (snd m) d && match find_om tbl (fst m) with Some _ => true | None => false end) ms with
        | Some m => fst m | None => [] end in
      D16.load_deb (list CX.cval)
        (fun token => match find_om tbl token with
                      | Some o => if om_untarok o then Some (map (fun f => (fst (fst f), snd (fst f))) (om_files o)) else None
                      | None => None end)
        (fun ext d => match find_om tbl (name_of_data d) with Some o => if om_decok o then Some (om_name o) else None | None => None end)
        PATH.clean           (* path.Clean: the model, on the raw tar entry names the oracle lists *)
        (fun text => match schema_named (lit "deb_control") with Some (sch, _) => CX.decode_text sch text | None => None end)
        PATH.ext             (* filepath.Ext and ArEntry.IsTarfile: the model, on the member names *)
        PATH.is_tarfile
        pick ms
  | _ => None
  end.
Definition first_pick (l : list D16.member) : option D16.member := hd_error l.
Definition show_files (tbl : list omember) : str :=
  (* the data tar listing, in the printed form the oracle supplied (the data member is unique when loading succeeds) *)
  match find (fun o => D16.has_prefix_s (lit "data.") (om_name o)) tbl with
  | Some o => show_list (fun f => lit "( " ++ hx (PATH.clean (fst (fst f))) ++ sp1 ++ snd f ++ lit " )") (om_files o)
  | None => lit "[]"
  end.
Definition run_debpkg (op : string) (a : list str) : option str :=
  let g n := nth_arg n a in
  if op =? "debmembers" then
    Some (match ar_open_z (g 0) with
          | None => lit "notar"
          | Some (es, clean) => show_list (fun e => lit "( " ++ hx (AR.e_name e) ++ sp1 ++ hx (AR.data_of (g 0) e) ++ lit " )") es
                                 ++ (if clean then lit " eof" else lit " err")
          end)
  else if op =? "debload" then
    let tbl := parse_oracle (List.length a) (tl a) in
    Some (match deb_record tbl (g 0) first_pick with
          | None => lit "err"
          | Some d =>
              lit "ok " ++ show_record (D16.d_control _ d) ++ lit " | " ++ hx (D16.d_control_ext _ d) ++ sp1 ++ hx (D16.d_data_ext _ d) ++ sp1 ++
              show_list (fun kv => lit "( " ++ hx (fst kv) ++ sp1 ++ snd kv ++ lit " )")
                        (sort_args (map (fun m => (fst m, show_nat (List.length (snd m)))) (D16.d_members _ d))) ++ sp1 ++
              show_files tbl
          end)
  else if op =? "debsig" then
    (* buf, role, verified (1/0), signer, then the oracle table *)
    let tbl := parse_oracle (List.length a) (skipn 4 a) in
    Some (match deb_record tbl (g 0) first_pick with
          | None => lit "loaderr"
          | Some d =>
              match D16.check_debsig unit str (list CX.cval)
                      (fun _ _ _ => if arg_bool (g 2) then Some (g 3) else None) first_pick tt (g 1) d with
              | Some e => lit "ok " ++ hx e ++ sp1 ++ show_nat (List.length (D16.d_data_files _ d))
              | None => lit "err"
              end
          end)
  else None.

(* ---- upload Copy / Move / Remove: C20 (the OS is the fault oracle: the driver says which primitive call fails) ---- *)
Definition SRC : str := lit "S".
Definition DST : str := lit "D".
Definition DST2 : str := lit "D2".
Fixpoint fs_of_args (a : list str) : U20.fsys :=
  match a with d :: n :: c :: r => ((d, n), c) :: fs_of_args r | _ => [] end.
Definition show_event (ev : U20.event) : str :=
  let e2 (t : string) (e : U20.entry) := lit t ++ hx (fst e) ++ lit "/" ++ hx (snd e) in
  match ev with
  | U20.EvCreate e => e2 "c:" e | U20.EvDone e => e2 "w:" e | U20.EvRemove e => e2 "d:" e
  | U20.EvRename a b => e2 "m:" a ++ lit ">" ++ hx (fst b) ++ lit "/" ++ hx (snd b)
  end.
Definition show_fs (f : U20.fsys) : str :=
  show_list (fun kv => lit "( " ++ hx (fst kv) ++ sp1 ++ hx (snd kv) ++ lit " )")
            (sort_args (map (fun kv => (fst (fst kv) ++ lit "/" ++ snd (fst kv), snd kv)) f)).
(* a file system with links (U20L): (dir, name, "F", content) / (dir, name, "L", "dir/name") *)
Fixpoint lfs_of_args (a : list str) : U20L.lfsys :=
  match a with
  | d :: n :: k :: c :: r =>
      ((d, n), if D3.seq k (lit "L")
               then (match GS.split "/"%char c with [td; tn] => U20L.Link (td, tn) | _ => U20L.File c end)
               else U20L.File c) :: lfs_of_args r
  | _ => []
  end.
Definition show_lfs (f : U20L.lfsys) : str :=
  show_list (fun kv => lit "( " ++ hx (fst kv) ++ sp1 ++ snd kv ++ lit " )")
            (sort_args (map (fun kv => (fst (fst kv) ++ lit "/" ++ snd (fst kv),
                                        match snd kv with
                                        | U20L.File c => lit "F " ++ hx c
                                        | U20L.Link t => lit "L " ++ hx (fst t ++ lit "/" ++ snd t)
                                        end)) f)).
Definition run_upload (op : string) (a : list str) : option str :=
  let g n := nth_arg n a in
  if op =? "copylinks" then
    (* control file name, number n of listed names, the names, then the initial file system with links: Copy into D *)
    let n := arg_nat (g 1) in
    let listed := firstn n (skipn 2 a) in
    let f0 := lfs_of_args (skipn (2 + n) a) in
    let '(f1, ok) := U20L.copies 40 SRC DST (listed ++ [g 0]) f0 in
    Some (unwords [if ok then lit "ok" else lit "err"; show_lfs f1])
  else if op =? "movelinks" then
    let n := arg_nat (g 1) in
    let listed := firstn n (skipn 2 a) in
    let f0 := lfs_of_args (skipn (2 + n) a) in
    let '(f1, ok) := U20L.moves 40 SRC DST (listed ++ [g 0]) f0 in
    Some (unwords [if ok then lit "ok" else lit "err"; show_lfs f1])
  else if op =? "upload" then
    (* operation, control file name, failing primitive call (number, or "-"), number n of listed names, the names,
       then the initial file system as (dir, name, content) triples *)
    let n := arg_nat (g 3) in
    let listed := firstn n (skipn 4 a) in
    let fs0 := fs_of_args (skipn (4 + n) a) in
    let fault := fun t : nat => if D3.seq (g 2) (lit "-") then false else Nat.eqb t (arg_nat (g 2)) in
    let h := {| U20.h_dir := SRC; U20.h_file := g 1; U20.h_listed := listed |} in
    let x0 := {| U20.fs := fs0; U20.log := []; U20.tick := 0 |} in
    let run1 (o : str) (h : U20.handle) (dest : str) (x : U20.st) :=
      if D3.seq o (lit "copy") then U20.do_copy fault h dest x
      else if D3.seq o (lit "move") then U20.do_move fault h dest x
      else U20.do_remove fault h x in
    match GS.split "+"%char (g 0) with
    | [o1; o2] =>
        (* a history: the second operation goes through the same handle, which follows a successful first one *)
        let '(x1, ok1) := run1 o1 h DST x0 in
        if ok1 then
          let '(x2, ok2) := run1 o2 (U20d.after h DST true) DST2 x1 in
          Some (unwords [if ok2 then lit "ok+ok" else lit "ok+err"; show_fs (U20.fs x2); show_list show_event (U20.log x2)])
        else Some (unwords [lit "err"; show_fs (U20.fs x1); show_list show_event (U20.log x1)])
    | _ =>
        let '(x, ok) := run1 (g 0) h DST x0 in
        Some (unwords [if ok then lit "ok" else lit "err"; show_fs (U20.fs x); show_list show_event (U20.log x)])
    end
  else None.

Definition run (op : string) (hexargs : list str) : str :=
  let a := map unhex hexargs in
  match run_version op a with Some r => r | None =>
  match run_dep op a with Some r => r | None =>
  match run_deb822 op a with Some r => r | None =>
  match run_ar op a with Some r => r | None =>
  match run_changelog op a with Some r => r | None =>
  match run_order op a with Some r => r | None =>
  match run_codec op a with Some r => r | None =>
  match run_hash op a with Some r => r | None =>
  match run_clearsign op a with Some r => r | None =>
  match run_debpkg op a with Some r => r | None =>
  match run_upload op a with Some r => r | None =>
  lit "unknown-op" end end end end end end end end end end end.
