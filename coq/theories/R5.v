(* C07: reading a rendered field / paragraph under layout freedom *)
From Coq Require Import List Ascii String Bool Arith Lia.
Require Import GS R2 R3.
Import ListNotations.

(* blanks that may be sprinkled inside a line: space, tab, CR (never newline, never ':' ) *)
Definition pad_ok (w : str) : Prop := all_space w /\ free nl w /\ free colon w.

Lemma starts_app_ne c k t : k <> [] -> starts c (k ++ t) = starts c k.
Proof. destruct k; [congruence|reflexivity]. Qed.

Lemma trim_space_pad_both w1 x w2 : all_space w1 -> all_space w2 -> no_lead x -> no_trail x ->
  trim_space (w1 ++ x ++ w2) = x.
Proof.
  intros H1 H2 Hl Ht. unfold trim_space. rewrite trim_left_ws by exact H1.
  destruct x as [|c r].
  - cbn [app]. rewrite trim_left_all by exact H2. reflexivity.
  - assert (L : trim_left ((c :: r) ++ w2) = (c :: r) ++ w2) by (apply trim_left_id; exact Hl).
    rewrite L. rewrite trim_right_ws by exact H2. now apply trim_right_id.
Qed.

(* ---- key line with arbitrary padding around the colon and at the end ---- *)
Lemma next_keyline_gen p last k w0 w1 l0 w2 rest :
  key_ok k -> mem k (values p) = false -> pad_ok w0 -> all_space w1 -> all_space w2 -> no_lead l0 -> no_trail l0 ->
  next p last ((k ++ w0 ++ [colon] ++ w1 ++ l0 ++ w2) :: rest) =
  next {| order := order p ++ [k]; values := values p ++ [(k, l0)] |} k rest.
Proof.
  intros Hk Hm (P0&_&C0) P1 P2 Hl Ht. pose proof Hk as [Hne Hcol Hnl Hlead Htrail Hhash Hdash].
  set (X := k ++ w0 ++ [colon] ++ w1 ++ l0 ++ w2).
  assert (C : cut_colon [] X = Some (k ++ w0, w1 ++ l0 ++ w2)).
  { subst X. rewrite app_assoc. apply (cut_colon_word (k ++ w0) [] (w1 ++ l0 ++ w2)). now apply free_app. }
  destruct k as [|c k']; [congruence|]. cbn [no_lead] in Hlead. cbn [starts] in Hhash, Hdash.
  assert (HX : X = c :: (k' ++ w0 ++ [colon] ++ w1 ++ l0 ++ w2)) by reflexivity.
  assert (B : is_blank_line X = false).
  { rewrite HX. unfold is_blank_line. destruct (str_eqb_spec (c :: k' ++ w0 ++ [colon] ++ w1 ++ l0 ++ w2) []); [discriminate|].
    destruct (str_eqb_spec (c :: k' ++ w0 ++ [colon] ++ w1 ++ l0 ++ w2) [cr]) as [E|]; [|reflexivity].
    inversion E; subst. discriminate Hlead. }
  assert (H1 : starts hash X = false) by (rewrite HX; exact Hhash).
  assert (H2 : starts sp X = false) by (rewrite HX; cbn [starts]; destruct (ceq_spec c sp); [subst; discriminate Hlead|reflexivity]).
  assert (H3 : starts tab X = false) by (rewrite HX; cbn [starts]; destruct (ceq_spec c tab); [subst; discriminate Hlead|reflexivity]).
  cbn [next]. rewrite B, H1, H2, H3, C. cbn [orb].
  assert (TK : trim_space ((c :: k') ++ w0) = c :: k').
  { rewrite <- (app_nil_l ((c :: k') ++ w0)). apply (trim_space_pad_both [] (c :: k') w0); auto. constructor. }
  rewrite TK, (trim_space_pad_both w1 l0 w2 P1 P2 Hl Ht). cbn [starts]. rewrite Hhash, Hdash, Hm. reflexivity.
Qed.

(* ---- continuation line: marker (space or tab), content ("." for an empty line), trailing blanks ---- *)
Definition marker (m : ascii) : Prop := m = sp \/ m = tab.
Lemma next_cont_gen p last m c w rest : marker m -> all_space w -> order p <> [] -> mem last (values p) = true ->
  next p last ((m :: c ++ w) :: rest) =
  next {| order := order p; values := setv last (cont_value (lookup last (values p)) (norm_cont c)) (values p) |} last rest.
Proof.
  intros Hm Hw Ho Hmem. cbn [next].
  assert (B : is_blank_line (m :: c ++ w) = false).
  { unfold is_blank_line. destruct (str_eqb_spec (m :: c ++ w) []); [discriminate|].
    destruct (str_eqb_spec (m :: c ++ w) [cr]) as [E|]; [|reflexivity]. inversion E; subst. destruct Hm; discriminate. }
  rewrite B. assert (H1 : starts hash (m :: c ++ w) = false) by (destruct Hm; subst; reflexivity).
  assert (H2 : starts sp (m :: c ++ w) || starts tab (m :: c ++ w) = true) by (destruct Hm; subst; reflexivity).
  rewrite H1, H2. destruct (order p) as [|o os]; [congruence|]. cbn [tl].
  rewrite trim_right_ws by exact Hw. reflexivity.
Qed.

Lemma next_comment p last x rest : next p last ((hash :: x) :: rest) = next p last rest.
Proof.
  cbn [next]. assert (B : is_blank_line (hash :: x) = false).
  { unfold is_blank_line. destruct (str_eqb_spec (hash :: x) []); [discriminate|].
    destruct (str_eqb_spec (hash :: x) [cr]) as [E|]; [inversion E|reflexivity]. }
  rewrite B. reflexivity.
Qed.

(* ---- a rendered field: key line, then continuation lines, with comment lines anywhere in between ---- *)
Inductive item := Cont (m : ascii) (c : str) (w : str) | Comment (x : str).
Definition item_line (it : item) : str :=
  match it with
  | Cont m c w => m :: (if str_eqb c [] then [dot] else c) ++ w
  | Comment x => hash :: x
  end.
Definition item_ok (it : item) : Prop :=
  match it with Cont m c w => marker m /\ all_space w /\ wf_cont' c | Comment _ => True end.
Fixpoint conts (its : list item) : list str :=
  match its with [] => [] | Cont _ c _ :: r => c :: conts r | Comment _ :: r => conts r end.

Lemma norm_enc c : wf_cont' c -> norm_cont (if str_eqb c [] then [dot] else c) = c.
Proof.
  intros (Hf&Ht&Hd). destruct (str_eqb_spec c []) as [->|Hne]; [reflexivity|].
  unfold norm_cont. rewrite Ht. destruct (str_eqb_spec c [dot]); [contradiction|reflexivity].
Qed.

Lemma next_items : forall its p last rest, Forall item_ok its -> order p <> [] -> mem last (values p) = true ->
  next p last (map item_line its ++ rest) =
  next {| order := order p; values := setv last (read_conts (lookup last (values p)) (conts its)) (values p) |} last rest.
Proof.
  induction its as [|it its IH]; intros p last rest W Ho Hm.
  - cbn [map app conts read_conts fold_left]. rewrite setv_lookup_id by exact Hm. destruct p; reflexivity.
  - inversion W as [|? ? Wit Wits]; subst. cbn [map app]. destruct it as [m c w|x].
    + destruct Wit as (Hmk&Hw&Hc). cbn [item_line]. rewrite (next_cont_gen p last m _ w _ Hmk Hw Ho Hm).
      assert (NE : norm_cont (if str_eqb c [] then [dot] else c) = c) by (apply norm_enc; exact Hc).
      match goal with |- context [cont_value ?v (norm_cont ?t)] => replace (norm_cont t) with c by (symmetry; exact NE) end.
      set (p' := {| order := order p; values := setv last (cont_value (lookup last (values p)) c) (values p) |}).
      rewrite (IH p' last rest Wits); [ | subst p'; exact Ho | subst p'; cbn; apply mem_setv ].
      subst p'. cbn [order values conts]. rewrite lookup_setv, setv_setv.
      destruct (wf_cont_of c Hc) as [_ Hn]. rewrite read_conts_cons, Hn. reflexivity.
    + cbn [item_line conts]. rewrite next_comment. now apply IH.
Qed.

(* C07, one field: whatever the padding, markers and interleaved comments, the reader recovers (k, value) *)
Theorem C07_field p last k w0 w1 l0 w2 its rest :
  key_ok k -> mem k (values p) = false -> pad_ok w0 -> all_space w1 -> all_space w2 ->
  no_lead l0 -> no_trail l0 -> Forall item_ok its ->
  next p last ((k ++ w0 ++ [colon] ++ w1 ++ l0 ++ w2) :: map item_line its ++ rest) =
  next {| order := order p ++ [k]; values := values p ++ [(k, read_conts l0 (conts its))] |} k rest.
Proof.
  intros Hk Hm P0 P1 P2 Hl Ht W. rewrite next_keyline_gen by assumption.
  rewrite next_items; [ | exact W | cbn; destruct (order p); discriminate | cbn; apply mem_app_new ].
  cbn [order values]. now rewrite (lookup_app_new k l0 (values p) Hm), (setv_app_new k l0 _ (values p) Hm).
Qed.
Print Assumptions C07_field.
