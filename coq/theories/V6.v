(* C01 / C02 on whole versions: Compare, total preorder, sorting *)
From Coq Require Import List Ascii String ZArith NArith Lia Bool Arith Permutation Sorted Mergesort Orders.
Require Import V1 V2 V5.
Import ListNotations.
Open Scope Z_scope.

Record version := { epoch : N; upstream : str; revision : str }.
Definition vnonul (v : version) : Prop := nonul (upstream v) /\ nonul (revision v).

Definition vcmp (a b : str) : Z := match verrevcmp a b with Some z => z | None => 0 end.
(* version.Compare *)
Definition compare (a b : version) : Z :=
  if (epoch b <? epoch a)%N then 1
  else if (epoch a <? epoch b)%N then -1
  else let rc := vcmp (upstream a) (upstream b) in
       if rc =? 0 then vcmp (revision a) (revision b) else rc.
Definition less (a b : version) : bool := compare a b <? 0.       (* Slice.Less *)

(* the order of Debian Policy 5.6.12 on the key (epoch, upstream tokens, revision tokens) *)
Definition key_cmp (a b : version) : comparison :=
  match N.compare (epoch a) (epoch b) with
  | Eq => match lexpad (toks (upstream a)) (toks (upstream b)) with
          | Eq => lexpad (toks (revision a)) (toks (revision b))
          | c => c end
  | c => c end.

Lemma vcmp_key a b : nonul a -> nonul b -> Z.sgn (vcmp a b) = csgn (lexpad (toks a) (toks b)).
Proof. intros Na Nb. unfold vcmp. destruct (verrevcmp_key a b Na Nb) as (z&E&S). now rewrite E. Qed.

Theorem C01_compare a b : vnonul a -> vnonul b -> Z.sgn (compare a b) = csgn (key_cmp a b).
Proof.
  intros [Ua Ra] [Ub Rb]. unfold compare, key_cmp.
  destruct (N.compare_spec (epoch a) (epoch b)) as [E|E|E].
  - rewrite E, N.ltb_irrefl. pose proof (vcmp_key _ _ Ua Ub) as K1. pose proof (vcmp_key _ _ Ra Rb) as K2.
    destruct (Z.eqb_spec (vcmp (upstream a) (upstream b)) 0) as [Z0|Z0].
    + rewrite Z0 in K1. cbn in K1. destruct (lexpad (toks (upstream a)) (toks (upstream b))); try discriminate. exact K2.
    + rewrite K1. destruct (lexpad (toks (upstream a)) (toks (upstream b))); try reflexivity. cbn in K1. lia.
  - destruct (N.ltb_spec (epoch b) (epoch a)); [lia|]. destruct (N.ltb_spec (epoch a) (epoch b)); [reflexivity|lia].
  - destruct (N.ltb_spec (epoch b) (epoch a)); [reflexivity|lia].
Qed.

(* with the Policy comparison of V5 for each part *)
Corollary C01_compare_policy a b : vnonul a -> vnonul b ->
  Z.sgn (compare a b) = csgn (match N.compare (epoch a) (epoch b) with
    | Eq => match policy_cmp (S (List.length (upstream a) + List.length (upstream b))) (upstream a) (upstream b) with
            | Eq => policy_cmp (S (List.length (revision a) + List.length (revision b))) (revision a) (revision b)
            | c => c end
    | c => c end).
Proof.
  intros Ha Hb. rewrite (C01_compare a b Ha Hb). unfold key_cmp. destruct Ha as [Ua Ra], Hb as [Ub Rb].
  rewrite !policy_is_key by (auto; lia). reflexivity.
Qed.

(* ---- key_cmp is a total preorder (no hypothesis on the strings) ---- *)
Section Lex.
  Variable A : Type.
  Record preo (cmp : A -> A -> comparison) : Prop := {
    p_refl : forall a, cmp a a = Eq;
    p_anti : forall a b, cmp b a = CompOpp (cmp a b);
    p_eqc : forall a b c, cmp a b = Eq -> cmp a c = cmp b c;
    p_ltt : forall a b c, cmp a b = Lt -> cmp b c = Lt -> cmp a c = Lt }.

  Lemma p_eqc_r cmp : preo cmp -> forall a b c, cmp b c = Eq -> cmp a b = cmp a c.
  Proof.
    intros P a b c E. assert (E' : cmp c b = Eq) by (rewrite (p_anti cmp P b c), E; reflexivity).
    pose proof (p_eqc cmp P c b a E') as K. rewrite (p_anti cmp P a c), (p_anti cmp P a b) in K.
    destruct (cmp a b), (cmp a c); cbn in K; congruence.
  Qed.

  Variables c1 c2 : A -> A -> comparison.
  Definition lex2 (a b : A) : comparison := match c1 a b with Eq => c2 a b | c => c end.
  Lemma lex2_preo : preo c1 -> preo c2 -> preo lex2.
  Proof.
    intros P1 P2. constructor; unfold lex2.
    - intros a. now rewrite (p_refl c1 P1), (p_refl c2 P2).
    - intros a b. rewrite (p_anti c1 P1 a b), (p_anti c2 P2 a b). destruct (c1 a b); reflexivity.
    - intros a b c H. destruct (c1 a b) eqn:E1; try discriminate.
      rewrite (p_eqc c1 P1 a b c E1). destruct (c1 b c); try reflexivity. now apply (p_eqc c2 P2).
    - intros a b c H1 H2. destruct (c1 a b) eqn:E1; try discriminate.
      + rewrite (p_eqc c1 P1 a b c E1). destruct (c1 b c) eqn:E2; try discriminate; [|reflexivity].
        now apply (p_ltt c2 P2 a b c).
      + destruct (c1 b c) eqn:E2; try discriminate.
        * rewrite <- (p_eqc_r c1 P1 a b c E2). now rewrite E1.
        * now rewrite (p_ltt c1 P1 a b c E1 E2).
  Qed.

  Lemma preo_le_trans cmp : preo cmp -> forall a b c, cmp a b <> Gt -> cmp b c <> Gt -> cmp a c <> Gt.
  Proof.
    intros P a b c H1 H2. destruct (cmp a b) eqn:E1; try congruence.
    - now rewrite (p_eqc cmp P a b c E1).
    - destruct (cmp b c) eqn:E2; try congruence.
      + rewrite <- (p_eqc_r cmp P a b c E2). congruence.
      + rewrite (p_ltt cmp P a b c E1 E2). congruence.
  Qed.
End Lex.

Lemma preo_N : preo version (fun a b => N.compare (epoch a) (epoch b)).
Proof.
  constructor.
  - intros. apply N.compare_refl.
  - intros. apply N.compare_antisym.
  - intros a b c E. apply N.compare_eq in E. now rewrite E.
  - intros a b c H1 H2. exact (N.lt_trans _ _ _ H1 H2).
Qed.
Lemma preo_toks (f : version -> str) : preo version (fun a b => lexpad (toks (f a)) (toks (f b))).
Proof.
  constructor.
  - intros. apply lexpad_refl.
  - intros. apply lexpad_antisym.
  - intros a b c E. now apply lexpad_eq_congr.
  - intros a b c. apply lexpad_lt_trans.
Qed.
Lemma key_preo : preo version key_cmp.
Proof.
  change key_cmp with (lex2 version (fun a b => N.compare (epoch a) (epoch b))
                        (lex2 version (fun a b => lexpad (toks (upstream a)) (toks (upstream b)))
                                      (fun a b => lexpad (toks (revision a)) (toks (revision b))))).
  apply lex2_preo; [apply preo_N|]. apply lex2_preo; apply preo_toks.
Qed.
Lemma key_refl a : key_cmp a a = Eq. Proof. apply (p_refl _ _ key_preo). Qed.
Lemma key_antisym a b : key_cmp b a = CompOpp (key_cmp a b). Proof. apply (p_anti _ _ key_preo). Qed.
Definition kle (a b : version) : Prop := key_cmp a b <> Gt.
Lemma kle_trans a b c : kle a b -> kle b c -> kle a c.
Proof. apply (preo_le_trans _ _ key_preo). Qed.

(* C02 for Compare *)
Theorem C02_refl a : vnonul a -> compare a a = 0.
Proof. intros H. pose proof (C01_compare a a H H) as K. rewrite key_refl in K. cbn in K. lia. Qed.
Theorem C02_antisym a b : vnonul a -> vnonul b -> Z.sgn (compare b a) = - Z.sgn (compare a b).
Proof. intros Ha Hb. rewrite (C01_compare b a Hb Ha), (C01_compare a b Ha Hb), key_antisym. destruct (key_cmp a b); reflexivity. Qed.
Theorem C02_trans a b c : vnonul a -> vnonul b -> vnonul c -> compare a b <= 0 -> compare b c <= 0 -> compare a c <= 0.
Proof.
  intros Ha Hb Hc H1 H2. pose proof (C01_compare a b Ha Hb) as K1. pose proof (C01_compare b c Hb Hc) as K2.
  pose proof (C01_compare a c Ha Hc) as K3.
  assert (L : kle a c).
  { apply (kle_trans a b c); unfold kle; intros G; [rewrite G in K1; cbn in K1; lia|rewrite G in K2; cbn in K2; lia]. }
  unfold kle in L. destruct (key_cmp a c); cbn in K3; try congruence; lia.
Qed.

(* ---- sorting: stdlib merge sort over the same order ---- *)
Module VOrder <: TotalLeBool.
  Definition t := version.
  Definition leb (a b : version) : bool := match key_cmp a b with Gt => false | _ => true end.
  Theorem leb_total : forall a b, leb a b = true \/ leb b a = true.
  Proof. intros a b. unfold leb. rewrite (key_antisym a b). destruct (key_cmp a b); cbn; auto. Qed.
End VOrder.
Module VSort := Sort VOrder.

Theorem C02_sort l : Permutation l (VSort.sort l) /\ StronglySorted (fun a b => VOrder.leb a b = true) (VSort.sort l).
Proof.
  split; [apply VSort.Permuted_sort|]. apply VSort.StronglySorted_sort.
  intros a b c. unfold VOrder.leb. intros H1 H2.
  assert (K : kle a c) by (apply (kle_trans a b c); unfold kle; [destruct (key_cmp a b)|destruct (key_cmp b c)]; congruence).
  unfold kle in K. destruct (key_cmp a c); congruence.
Qed.
(* on NUL-free versions leb is exactly "not (Compare b a < 0)", i.e. the order sort.Sort sees through Slice.Less *)
Theorem leb_is_not_less a b : vnonul a -> vnonul b -> VOrder.leb a b = negb (less b a).
Proof.
  intros Ha Hb. unfold VOrder.leb, less. pose proof (C01_compare b a Hb Ha) as K. rewrite key_antisym in K.
  destruct (key_cmp a b); cbn in K; destruct (Z.ltb_spec (compare b a) 0); try reflexivity; lia.
Qed.
Print Assumptions C01_compare_policy.
Print Assumptions C02_trans.
Print Assumptions C02_sort.
