(* C02, completed: equal versions are interchangeable; Less is a strict weak order *)
From Coq Require Import List Ascii String Bool Arith NArith ZArith Lia.
Require Import V1 V2 V5 V6.
Import ListNotations.
Local Open Scope Z_scope.

Lemma sgn_key a b : vnonul a -> vnonul b -> Z.sgn (compare a b) = csgn (key_cmp a b).
Proof. apply C01_compare. Qed.

(* versions that compare equal behave identically against any third version, on either side *)
Theorem C02_eq_congr a b c : vnonul a -> vnonul b -> vnonul c -> compare a b = 0 ->
  Z.sgn (compare a c) = Z.sgn (compare b c) /\ Z.sgn (compare c a) = Z.sgn (compare c b).
Proof.
  intros Ha Hb Hc E. pose proof (sgn_key a b Ha Hb) as K. rewrite E in K. cbn in K.
  assert (Ek : key_cmp a b = Eq) by (destruct (key_cmp a b); cbn in K; congruence).
  rewrite !sgn_key by assumption. split.
  - now rewrite (p_eqc _ _ key_preo a b c Ek).
  - now rewrite (p_eqc_r _ _ key_preo c a b Ek).
Qed.

Lemma less_key a b : vnonul a -> vnonul b -> (less a b = true <-> key_cmp a b = Lt).
Proof.
  intros Ha Hb. unfold less. pose proof (sgn_key a b Ha Hb) as K. split.
  - intros H. apply Z.ltb_lt in H. destruct (key_cmp a b); cbn in K; try reflexivity; lia.
  - intros H. rewrite H in K. cbn in K. apply Z.ltb_lt. lia.
Qed.

(* Slice.Less: irreflexive, asymmetric, transitive, and incomparability is transitive *)
Theorem C02_less_irrefl a : vnonul a -> less a a = false.
Proof. intros H. unfold less. now rewrite (C02_refl a H). Qed.
Theorem C02_less_asym a b : vnonul a -> vnonul b -> less a b = true -> less b a = false.
Proof.
  intros Ha Hb H. apply (less_key a b Ha Hb) in H. destruct (less b a) eqn:E; [|reflexivity].
  apply (less_key b a Hb Ha) in E. rewrite key_antisym, H in E. discriminate.
Qed.
Theorem C02_less_trans a b c : vnonul a -> vnonul b -> vnonul c -> less a b = true -> less b c = true -> less a c = true.
Proof.
  intros Ha Hb Hc H1 H2. apply (less_key a b Ha Hb) in H1. apply (less_key b c Hb Hc) in H2.
  apply (less_key a c Ha Hc). exact (p_ltt _ _ key_preo a b c H1 H2).
Qed.
Theorem C02_incomparable_trans a b c : vnonul a -> vnonul b -> vnonul c ->
  less a b = false -> less b a = false -> less b c = false -> less c b = false ->
  less a c = false /\ less c a = false.
Proof.
  intros Ha Hb Hc H1 H2 H3 H4.
  assert (Eab : key_cmp a b = Eq).
  { destruct (key_cmp a b) eqn:E; [reflexivity| |].
    - apply (less_key a b Ha Hb) in E. congruence.
    - assert (E' : key_cmp b a = Lt) by (rewrite key_antisym, E; reflexivity). apply (less_key b a Hb Ha) in E'. congruence. }
  assert (Ebc : key_cmp b c = Eq).
  { destruct (key_cmp b c) eqn:E; [reflexivity| |].
    - apply (less_key b c Hb Hc) in E. congruence.
    - assert (E' : key_cmp c b = Lt) by (rewrite key_antisym, E; reflexivity). apply (less_key c b Hc Hb) in E'. congruence. }
  assert (Eac : key_cmp a c = Eq) by (rewrite (p_eqc _ _ key_preo a b c Eab); exact Ebc).
  split.
  - destruct (less a c) eqn:E; [|reflexivity]. apply (less_key a c Ha Hc) in E. congruence.
  - destruct (less c a) eqn:E; [|reflexivity]. apply (less_key c a Hc Ha) in E. rewrite key_antisym, Eac in E. discriminate.
Qed.
Print Assumptions C02_eq_congr.
Print Assumptions C02_incomparable_trans.
