module verif/harness

go 1.19

require (
	github.com/kjk/lzma v0.0.0-20161016003348-3fd93898850d
	github.com/klauspost/compress v1.16.5
	github.com/xi2/xz v0.0.0-20171230120015-48954b6210f8
	golang.org/x/crypto v0.9.0
	pault.ag/go/debian v0.0.0
)

require pault.ag/go/topsort v0.1.1 // indirect

replace pault.ag/go/debian => /repo
