(* C19 glue: control.OrderDSCForBuild on top of the topsort model *)
From Coq Require Import List Ascii String Bool Arith Lia Permutation.
Require Import GS TS.
Import ListNotations.

(* what OrderDSCForBuild reads from a parsed .dsc: the binaries it builds and the names picked from its three
   build-dependency fields for the build architecture (GetPossibilities, C06_select), in field order *)
Record src := { binaries : list str; picked : list str }.
Definition no_src : src := {| binaries := []; picked := [] |}.
Definition builds (b : str) (x : src) : bool := existsb (str_eqb b) (binaries x).

(* sourceMapping[binary] = source: a map filled in input order, so the last provider wins *)
Fixpoint src_of_from (b : str) (base : nat) (l : list src) (acc : option nat) : option nat :=
  match l with [] => acc | x :: r => src_of_from b (S base) r (if builds b x then Some base else acc) end.

Lemma src_of_from_spec b t : forall l base acc, src_of_from b base l acc = Some t ->
  acc = Some t \/ (base <= t < base + List.length l /\ builds b (nth (t - base) l no_src) = true).
Proof.
  induction l as [|x l IH]; intros base acc; cbn [src_of_from List.length]; [auto|].
  intros E. apply IH in E. destruct E as [E|(R&Bd)].
  - destruct (builds b x) eqn:Bx; [|now left]. inversion E; subst. right. split; [lia|].
    replace (t - t) with 0 by lia. exact Bx.
  - right. split; [lia|]. replace (t - base) with (S (t - S base)) by lia. exact Bd.
Qed.

Section Order.
  Variable srcs : list src.           (* sources in input order; a source is identified by its position (names are distinct) *)
  Definition src_of (b : str) : option nat := src_of_from b 0 srcs None.
  Definition nth_src (i : nat) : src := nth i srcs no_src.
  Definition edges_into (i : nat) : list nat :=
    flat_map (fun b => match src_of b with Some t => [t] | None => [] end) (picked (nth_src i)).
  Definition build_graph : graph := {| nodes := seq 0 (List.length srcs); preds := edges_into |}.
  Definition order_dscs : sres := sort build_graph.

  Lemma edges_spec i t : In t (edges_into i) <-> exists b, In b (picked (nth_src i)) /\ src_of b = Some t.
  Proof.
    unfold edges_into. rewrite in_flat_map. split.
    - intros (b&Hb&Ht). exists b. split; [exact Hb|]. destruct (src_of b); [destruct Ht as [->|[]]; reflexivity|contradiction].
    - intros (b&Hb&E). exists b. split; [exact Hb|]. rewrite E. now left.
  Qed.

  (* the provider recorded for a binary is a source of the input that builds it *)
  Lemma src_of_spec b t : src_of b = Some t -> t < List.length srcs /\ builds b (nth_src t) = true.
  Proof.
    unfold src_of, nth_src. intros E. apply src_of_from_spec in E. destruct E as [E|(R&Bd)]; [discriminate|].
    rewrite Nat.sub_0_r in Bd. split; [lia|exact Bd].
  Qed.

  (* C19: the order is a permutation of the input, and every source comes after the provider of each binary it
     picked from its build-dependency fields *)
  Theorem C19_order l : order_dscs = SOk l ->
    Permutation l (seq 0 (List.length srcs)) /\
    forall l1 i l2, l = l1 ++ i :: l2 -> forall b t, In b (picked (nth_src i)) -> src_of b = Some t ->
      In t l1 /\ builds b (nth_src t) = true.
  Proof.
    intros E. destruct (sort_sound build_graph l (seq_NoDup _ _) E) as [P O]. split; [exact P|].
    intros l1 i l2 El b t Hb Hs. split; [|now apply src_of_spec].
    apply (O l1 i l2 El). cbn [preds build_graph]. apply edges_spec. eauto.
  Qed.

  (* a dependency cycle gives an error, never an order: no arrangement of the sources satisfies the constraints *)
  Theorem C19_cycle : order_dscs = SCycle -> forall t, ~ topological build_graph t.
  Proof.
    apply sort_cycle. intros n p _ Hp. cbn [preds build_graph] in Hp. apply edges_spec in Hp as (b&_&E).
    apply src_of_spec in E as [Hlt _]. cbn [nodes build_graph]. apply in_seq. lia.
  Qed.

  Theorem C19_terminates : order_dscs <> SFuel.
  Proof. apply sort_terminates. apply seq_NoDup. Qed.
End Order.
Print Assumptions C19_order.
Print Assumptions C19_cycle.
