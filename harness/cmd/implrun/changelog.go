package main

import (
	"bufio"
	"fmt"
	"io"
	"io/ioutil"
	"os"
	"sort"
	"strings"
	"syscall"
	"testing/iotest"
	"time"

	"pault.ag/go/debian/changelog"
)

func init() {
	// the date oracle: time.Parse asked directly, not through the code under test
	ops["tparse"] = func(a []string) string {
		// the library's whenLayout since repair 1324060: RFC1123Z with a day of one or two digits
		t, err := time.Parse("Mon, 2 Jan 2006 15:04:05 -0700", arg(a, 0))
		if err != nil {
			return "err"
		}
		_, off := t.Zone()
		return fmt.Sprintf("%d/%d", t.Unix(), off)
	}
	ops["clparse"] = func(a []string) string {
		es, err := changelog.Parse(strings.NewReader(arg(a, 0)))
		return showEntries(es, err)
	}
	// clsrc variant text: the changelog arrives through a source that chunks it differently (one byte per Read, half reads,
	// data with EOF, 7-byte chunks, one LINE per Read as a pipe fed by a line-buffered writer does, a caller-made
	// bufio.Reader of 16 bytes): Parse must give what it gives for the plain in-memory reader
	ops["clsrc"] = func(a []string) string {
		var src io.Reader = strings.NewReader(arg(a, 1))
		switch arg(a, 0) {
		case "onebyte":
			src = iotest.OneByteReader(src)
		case "half":
			src = iotest.HalfReader(src)
		case "dataerr":
			src = iotest.DataErrReader(src)
		case "chunk7":
			src = &chunkReader{r: src, n: 7}
		case "lines":
			src = &lineReader{rest: arg(a, 1)}
		case "bufio16":
			src = bufio.NewReaderSize(src, 16)
		}
		return showEntries(changelog.Parse(src))
	}
	// clbufio text: the CALLER's *bufio.Reader (Parse uses a reader of that type as it is).  The caller parses, resets its
	// reader onto the same text and parses again - its reader stays its own: both passes give what clparse gives
	ops["clbufio"] = func(a []string) string {
		br := bufio.NewReader(strings.NewReader(arg(a, 0)))
		first := showEntries(changelog.Parse(br))
		br.Reset(strings.NewReader(arg(a, 0)))
		second := showEntries(changelog.Parse(br))
		if first != second {
			return "differ " + first + " | " + second
		}
		return first
	}
	// clloop text: the caller's own loop - ParseOne again and again on ONE bufio.Reader until io.EOF - is Parse
	ops["clloop"] = func(a []string) string {
		br := bufio.NewReader(strings.NewReader(arg(a, 0)))
		es := changelog.ChangelogEntries{}
		for i := 0; ; i++ {
			e, err := changelog.ParseOne(br)
			if err == io.EOF {
				return showEntries(es, nil)
			}
			if err != nil {
				if e != nil {
					return "err-with-value"
				}
				return "err"
			}
			if e == nil {
				return "nil-without-error"
			}
			es = append(es, *e)
			if i > len(arg(a, 0))+2 {
				return "timeout"
			}
		}
	}
	// clfifo text: ParseFile / ParseFileOne on a path that is a FIFO (a named pipe fed by another process, /dev/stdin, a
	// process substitution): a file that can be read once, front to back, and cannot seek
	ops["clfifo"] = func(a []string) string {
		dir, err := ioutil.TempDir("/var/tmp", "verif-fifo-")
		if err != nil {
			return "harness-error"
		}
		defer os.RemoveAll(dir)
		feed := func(p string) {
			if err := syscall.Mkfifo(p, 0600); err != nil {
				return
			}
			go func() {
				f, err := os.OpenFile(p, os.O_WRONLY, 0)
				if err != nil {
					return
				}
				f.WriteString(arg(a, 0))
				f.Close()
			}()
		}
		ref := showEntries(changelog.Parse(strings.NewReader(arg(a, 0))))
		feed(dir + "/a")
		if got := showEntries(changelog.ParseFile(dir + "/a")); got != ref {
			return "diff ParseFile " + got
		}
		feed(dir + "/b")
		one, err := changelog.ParseFileOne(dir + "/b")
		s1 := "err"
		if err == nil && one != nil {
			s1 = showEntries(changelog.ChangelogEntries{*one}, nil)
		}
		want, err := changelog.ParseOne(bufio.NewReader(strings.NewReader(arg(a, 0))))
		s2 := "err"
		if err == nil && want != nil {
			s2 = showEntries(changelog.ChangelogEntries{*want}, nil)
		}
		if s1 != s2 {
			return "diff ParseFileOne " + s1
		}
		return "same"
	}
	// clparse2 first second: Parse(first) - whatever it gives - and then Parse(second) in the same process, at once
	ops["clparse2"] = func(a []string) string {
		changelog.Parse(strings.NewReader(arg(a, 0)))
		return showEntries(changelog.Parse(strings.NewReader(arg(a, 1))))
	}
	// clvariants text: ParseFile on a real file, and ParseOne / ParseFileOne for the first entry, against Parse
	ops["clvariants"] = func(a []string) string {
		text := arg(a, 0)
		ref := showEntries(changelog.Parse(strings.NewReader(text)))
		f, err := ioutil.TempFile("/var/tmp", "verif-changelog-*")
		if err != nil {
			return "harness-error"
		}
		name := f.Name()
		defer os.Remove(name)
		f.WriteString(text)
		f.Close()
		if got := showEntries(changelog.ParseFile(name)); got != ref {
			return "diff ParseFile " + got
		}
		one, err1 := changelog.ParseOne(bufio.NewReader(strings.NewReader(text)))
		fone, err2 := changelog.ParseFileOne(name)
		s1, s2 := "err", "err"
		if err1 == nil && one != nil {
			s1 = showEntries(changelog.ChangelogEntries{*one}, nil)
		}
		if err2 == nil && fone != nil {
			s2 = showEntries(changelog.ChangelogEntries{*fone}, nil)
		}
		if s1 != s2 {
			return "diff ParseFileOne " + s2 + " ParseOne " + s1
		}
		// the first entry alone is the first entry of the whole file (when the whole file parses)
		if strings.HasPrefix(ref, "ok [ ") && s1 != "err" {
			es, _ := changelog.Parse(strings.NewReader(text))
			if first := showEntries(es[:1], nil); first != s1 {
				return "diff ParseOne " + s1 + " first-of-Parse " + first
			}
		}
		return "same"
	}
}

// lineReader hands out one line (up to and including its newline) per Read
type lineReader struct{ rest string }

func (l *lineReader) Read(p []byte) (int, error) {
	if l.rest == "" {
		return 0, io.EOF
	}
	k := strings.IndexByte(l.rest, '\n') + 1
	if k == 0 || k > len(l.rest) {
		k = len(l.rest)
	}
	if k > len(p) {
		k = len(p)
	}
	n := copy(p, l.rest[:k])
	l.rest = l.rest[n:]
	return n, nil
}

func showEntries(es changelog.ChangelogEntries, err error) string {
	{
		if err != nil {
			if len(es) != 0 {
				return "err-with-value"
			}
			return "err"
		}
		items := []string{}
		for _, e := range es {
			keys := []string{}
			for k := range e.Arguments {
				keys = append(keys, k)
			}
			sort.Strings(keys)
			args := []string{}
			for _, k := range keys {
				args = append(args, "( "+hx(k)+" "+hx(e.Arguments[k])+" )")
			}
			_, off := e.When.Zone()
			items = append(items, fmt.Sprintf("( %s %s %s %s %s %s %d/%d )", hx(e.Source), showV(e.Version), hx(e.Target),
				showList(args), hx(e.Changelog), hx(e.ChangedBy), e.When.Unix(), off))
		}
		return "ok " + showList(items)
	}
}
