"""Constants of the models, re-read from /repo's SOURCE TEXT on every run and emitted as coq/gen/Consts_gen.v.
The lemmas of coq/theories/SRC_*.v (one file per model) state that each dispatch table of the hand-written models (which bytes end a package
name, which end a qualifier, what is a blank, where the columns of an ar header lie, the changelog date layout, the
format version of a .deb) is the table the source has today.  An edit of one of those tables breaks the SRC_ file of that model before any
case is run.  This is a translator for tables only - the control flow around them is tied by the correspondence."""
import os
import re

ESC = {"t": 9, "n": 10, "r": 13, "\\": 92, "'": 39, "0": 0, "v": 11, "f": 12, "a": 7, "b": 8}


def func_body(src, name):
    m = re.search(r"^func (?:\([^)]*\) )?%s\(" % re.escape(name), src, re.M)
    if not m:
        return ""
    rest = src[m.start():]
    n = re.search(r"^}\n", rest, re.M)
    return rest[:n.end()] if n else rest


def lit_bytes(text):
    """the byte values of a comma-separated list of Go rune / integer literals"""
    out = []
    for tok in re.findall(r"'(?:\\.|[^'\\])'|0x[0-9a-fA-F]+|\b\d+\b", text):
        if tok.startswith("'"):
            body = tok[1:-1]
            out.append(ESC[body[1]] if body.startswith("\\") else ord(body))
        else:
            out.append(int(tok, 0))
    return out


def cases(body):
    return [lit_bytes(m) for m in re.findall(r"^\s*case ([^:\n]*(?:':'[^:\n]*)?):\s*(?:/\*.*)?$", body, re.M)]


def extract(repo):
    """every area on its own: a source file the extractor cannot read any more loses its own constants (the definitions are then
    missing from Consts_gen.v and the SRC_ file of that model no longer compiles), not those of the other models"""
    rd = lambda p: open(os.path.join(repo, p)).read()
    c = {}

    def area(f):
        try:
            c.update(f())
        except Exception:
            pass

    def dep():
        parser = rd("dependency/parser.go")
        return {"blank": sorted(sum(cases(func_body(parser, "eatWhitespace")), [])),
                "possi_cases": cases(func_body(parser, "parsePossibility")),                     # [[':'], [blank ( [ <], [, | 0]]
                "multiarch_stop": sorted(sum(cases(func_body(parser, "parseMultiarch")), [])),
                "controllers_cases": cases(func_body(parser, "parsePossibilityControllers")),
                # the four clause loops: which bytes end the clause with an error, which close it
                "number_cases": cases(func_body(parser, "parsePossibilityNumber")),
                "arch_cases": cases(func_body(parser, "parsePossibilityArch")),
                "stage_cases": cases(func_body(parser, "parsePossibilityStage")),
                "substvar_cases": cases(func_body(parser, "parseSubstvar"))}

    def arf():
        arb = func_body(rd("deb/ar.go"), "parseArEntry")
        cols = [(int(a), int(b)) for a, b in re.findall(r"line\[(\d+):(\d+)\]", arb)]
        return {"ar_columns": sorted(set(cols)),
                "ar_magic": [(int(i), int(v, 0)) for i, v in re.findall(r"line\[(\d+)\] != (0x[0-9A-Fa-f]+|\d+)", arb)],
                "ar_header_len": [int(x) for x in re.findall(r"len\(line\) != (\d+)", arb)]}

    def clf():
        m = re.search(r'const whenLayout = (?:"([^"]*)"|time\.(\w+))', rd("changelog/changelog.go"))
        return {"when_layout": (m.group(1) if m and m.group(1) is not None else ("time." + m.group(2) if m else ""))}

    def debf():
        return {"deb_versions": re.findall(r'case "([^"]*)":\s*\n\s*return loadDeb2', func_body(rd("deb/deb.go"), "loadDeb"))}

    def cpf():
        # internal.Copy: how the destination is opened, and whether the name is removed (after an Lstat) before that
        cp = func_body(rd("internal/copy.go"), "Copy")
        m = re.search(r"os\.OpenFile\(dest,\s*([^,]+),", cp)
        opened = m.start() if m else len(cp)
        return {"copy_open_flags": [f.strip().replace("os.", "") for f in m.group(1).split("|")] if m else (["os.Create"] if "os.Create(dest)" in cp else []),
                "copy_removes_first": bool(re.search(r"os\.Lstat\(dest\)", cp[:opened]) and re.search(r"os\.Remove\(dest\)", cp[:opened]))}

    for f in (dep, arf, clf, debf, cpf):
        area(f)
    return c


def coq_list(xs):
    return "[" + "; ".join(str(x) for x in xs) + "]"


def coq_str(s):
    return '"' + s.replace('"', '""') + '"'


def render(c):
    go_unescape = lambda s: s.encode().decode("unicode_escape")
    lol = lambda xs: "[%s]" % "; ".join(coq_list(x) for x in xs)
    pairs = lambda xs: "[%s]" % "; ".join("(%d, %d)" % p for p in xs)
    shape = [("blank", "list N", coq_list), ("possi_cases", "list (list N)", lol), ("multiarch_stop", "list N", coq_list),
             ("controllers_cases", "list (list N)", lol), ("number_cases", "list (list N)", lol), ("arch_cases", "list (list N)", lol),
             ("stage_cases", "list (list N)", lol), ("substvar_cases", "list (list N)", lol), ("ar_columns", "list (N * N)", pairs),
             ("ar_magic", "list (N * N)", pairs), ("ar_header_len", "list N", coq_list),
             ("when_layout", "string", lambda v: coq_str(v) + "%string"),
             ("deb_versions", "list (list N)", lambda vs: lol([list(go_unescape(v).encode("latin1")) for v in vs])),
             ("copy_open_flags", "list string", lambda fs: "[%s]" % "; ".join(coq_str(f) + "%string" for f in fs)),
             ("copy_removes_first", "bool", lambda b: "true" if b else "false")]
    lines = ["(* GENERATED on every run by driver/srcconsts.py from the source text of /repo - do not edit *)",
             "From Coq Require Import List String NArith.", "Import ListNotations.", "Open Scope N_scope.", ""]
    for name, ty, show in shape:
        if name in c:
            lines.append("Definition %s : %s := %s." % (name, ty, show(c[name])))
        else:
            lines.append("(* %s: could not be read from the source *)" % name)
    lines.append("")
    return "\n".join(lines)


if __name__ == "__main__":
    import sys
    print(render(extract(sys.argv[1] if len(sys.argv) > 1 else "/repo")))
