(* C09 end to end for scalar kinds: Marshal (struct -> paragraph -> text) then Unmarshal (text -> paragraph -> struct) *)
From Coq Require Import List Ascii String Bool Arith NArith ZArith Lia.
Require Import GS V3 R2 R3 C9.
Import ListNotations.

Definition line_ok (v : str) : Prop := v <> [] /\ free nl v /\ no_lead v /\ no_trail v.
Definition to_r2 (p : C9.para) : R2.para := {| R2.order := C9.order p; R2.values := C9.values p |}.
Definition as_field (kv : str * str) : str * (str * list str) := (fst kv, (snd kv, [])).

Lemma own_nodup : forall sch r, keys_distinct sch -> NoDup (map fst (own sch r)).
Proof.
  induction sch as [|f sch IH]; intros [|v r] D; cbn [own map]; try constructor.
  inversion D as [|? ? Hnot D']; subst. destruct (_ && _); [now apply IH|]. cbn [map fst]. constructor; [|now apply IH].
  intros I. apply Hnot. eapply own_keys; eauto.
Qed.

Lemma filter_all {A} (f : A -> bool) l : (forall x, f x = true) -> filter f l = l.
Proof. intros H. induction l as [|x l IH]; [reflexivity|]. cbn. now rewrite H, IH. Qed.

Lemma convert_empty sch r : convert sch r {| C9.order := []; C9.values := [] |} =
  {| C9.order := map fst (own sch r); C9.values := own sch r |}.
Proof.
  unfold convert. cbn [C9.order C9.values filter app]. rewrite app_nil_r. f_equal. apply filter_all. reflexivity.
Qed.

Lemma fields_back l : map field_pair (map as_field l) = l.
Proof. rewrite map_map. rewrite <- (map_id l) at 2. apply map_ext. intros [k v]. reflexivity. Qed.
Lemma fields_keys l : map fst (map as_field l) = map fst l.
Proof. rewrite map_map. apply map_ext. intros [k v]. reflexivity. Qed.

(* C09: the marshalled text, read back and decoded, is the record *)
Theorem C09_text_roundtrip sch r : typed sch r -> keys_distinct sch -> own sch r <> [] ->
  Forall (fun kv => key_ok (fst kv) /\ line_ok (snd kv)) (own sch r) ->
  let p := convert sch r {| C9.order := []; C9.values := [] |} in
  R2.read_all (R2.write_para (to_r2 p)) = Some [to_r2 p] /\ decode sch (C9.values p) = Some r.
Proof.
  intros Ty D NE W p. split; [|now apply C09_roundtrip].
  subst p. rewrite convert_empty. unfold to_r2. cbn [C9.order C9.values].
  set (fs := map as_field (own sch r)).
  assert (P : {| R2.order := map fst (own sch r); R2.values := own sch r |} =
              {| R2.order := map fst fs; R2.values := map field_pair fs |}).
  { subst fs. now rewrite fields_back, fields_keys. }
  rewrite P.
  assert (NEf : fs <> []) by (subst fs; destruct (own sch r); [congruence|discriminate]).
  assert (Wf : Forall wf_field fs).
  { subst fs. apply Forall_map. eapply Forall_impl; [|exact W]. intros [k v] (Hk&Hv). constructor; cbn [as_field fst snd]; auto. }
  assert (ND : NoDup (map fst fs)) by (subst fs; rewrite fields_keys; now apply own_nodup).
  destruct (C08_para_write_read fs NEf Wf ND) as [_ B]. cbv zeta in B.
  unfold R2.read_all. set (ls := lines_of _) in *. cbn [all_fuel]. rewrite B.
  destruct (List.length ls) eqn:L.
  - destruct ls; [|discriminate]. cbn in B. discriminate.
  - reflexivity.
Qed.

(* the values the scalar kinds print are single, trimmed, non-empty lines *)
Lemma digits_line x : x <> [] -> forallb is_digit x = true -> line_ok x.
Proof.
  intros NE Dg.
  assert (Each : Forall (fun c => is_digit c = true) x) by (apply Forall_forall; now apply forallb_forall).
  assert (NS : forall c, is_digit c = true -> is_space c = false /\ c <> nl).
  { intros c Hc. split.
    - pose proof (by_enum (fun c => negb (is_digit c) || negb (is_space c)) ltac:(vm_compute; reflexivity) c) as E.
      cbv beta in E. rewrite Hc in E. cbn [negb orb] in E. now apply negb_true_iff in E.
    - intros ->. discriminate Hc. }
  split; [exact NE|]. split; [|split].
  - eapply Forall_impl; [|exact Each]. intros c Hc. now apply NS.
  - destruct x as [|c r]; [exact I|]. inversion Each; subst. now apply NS.
  - unfold no_trail. apply Forall_rev in Each. destruct (rev x) as [|c r]; [exact I|]. inversion Each; subst. now apply NS.
Qed.

Lemma marshal_line v : (match v with VS x => line_ok x | VB _ | VI _ | VU _ => True end) -> line_ok (marshal_value v).
Proof.
  destruct v as [x|z|n|b]; cbn [marshal_value]; intros H.
  - exact H.
  - unfold itoa_z. destruct (z <? 0)%Z.
    + destruct (digits_line (itoa (Z.to_N (- z))) (itoa_nonempty _) (itoa_digits _)) as (A&B&C&Dd).
      split; [discriminate|]. split; [constructor; [discriminate|exact B]|]. split; [reflexivity|].
      unfold no_trail in *. cbn [rev]. destruct (rev (itoa (Z.to_N (- z)))) as [|c r] eqn:E; [|exact Dd].
      exfalso. apply A. now rewrite <- (rev_involutive (itoa _)), E.
    + apply digits_line; [apply itoa_nonempty|apply itoa_digits].
  - apply digits_line; [apply itoa_nonempty|apply itoa_digits].
  - destruct b; (split; [discriminate|split; [repeat constructor; discriminate|split; reflexivity]]).
Qed.
Print Assumptions C09_text_roundtrip.
Print Assumptions marshal_line.
