(* C11 - Clearsigned control data is accepted only with a valid keyring signature.
   Property theorems only.  ORACLES (section parameters): cs_decode = clearsign.Decode (first block: signed
   body, signature, rest), pgp_verify = openpgp.CheckDetachedSignature, read_all = the deb822 reader (C07).
   Model: NewParagraphReader / decodeClearsig.  The theorems are about the glue; the cryptographic soundness of
   golang.org/x/crypto/openpgp is outside them (the tie calls the real library for the oracle answers). *)
From Coq Require Import List Ascii String Bool Arith Lia.
Require Import GS S11.
Require ARM.
Import ListNotations.

Section C11.
  Variables keyring entity sig para : Type.
  Variable cs_decode : str -> option (str * sig * str).
  Variable pgp_verify : keyring -> str -> sig -> option entity.
  Variable read_all : str -> option (list para).
  Notation new_reader := (S11.new_reader keyring entity sig cs_decode pgp_verify).

  (* with a keyring, success means: the input decodes as a clearsigned block, its signature verifies against
     the keyring over the body, the reported signer is the verifying entity and the paragraphs are those of
     the signed body *)
  Theorem C11_success_means_verified : forall k input r, new_reader (Some k) input = ROk entity r ->
    exists body sg rest e, cs_decode input = Some (body, sg, rest) /\ pgp_verify k body sg = Some e /\
      r_signer entity r = Some e /\ paragraphs entity para read_all r = read_all body /\
      ARM.armor_ok (consumed input rest) = true.
  Proof. exact (S11.C11_sound keyring entity sig para cs_decode pgp_verify read_all). Qed.

  (* a damaged signature: a checksum line in the signature armor that does not hold three bytes ("=LwA=" in the place of
     "=LwA9") makes reading fail - whatever the signature check would say (the armor reader of golang.org/x/crypto goes on
     as if such a line were not there and compares no checksum: the r13 finding, repaired by 5d22f1c) *)
  Theorem C11_malformed_checksum_line_is_refused : forall k input body sg rest, starts_pgp input = true ->
    cs_decode input = Some (body, sg, rest) -> ARM.armor_ok (consumed input rest) = false ->
    new_reader (Some k) input = RErr entity.
  Proof. exact (S11.C11_malformed_checksum keyring entity sig cs_decode pgp_verify). Qed.

  (* input that does not start with the armor, does not decode, or whose signature does not verify against
     the keyring (modified text, key outside the keyring, damaged/truncated/missing signature, empty keyring)
     makes reading fail *)
  Theorem C11_failure : forall k input,
    (starts_pgp input = false \/ cs_decode input = None \/
     (forall b g t, cs_decode input = Some (b, g, t) -> pgp_verify k b g = None)) ->
    new_reader (Some k) input = RErr entity.
  Proof. exact (S11.C11_fail keyring entity sig cs_decode pgp_verify). Qed.

  (* text outside the signed block never reaches the caller *)
  Theorem C11_only_signed_text_is_read : forall kr input r, starts_pgp input = true -> new_reader kr input = ROk entity r ->
    exists body sg rest, cs_decode input = Some (body, sg, rest) /\ r_text entity r = body.
  Proof. exact (S11.C11_only_body keyring entity sig cs_decode pgp_verify). Qed.

  (* a reported signer is never present without a verified signature; never for unsigned input *)
  Theorem C11_signer_implies_verified : forall kr input r e, new_reader kr input = ROk entity r -> r_signer entity r = Some e ->
    exists k body sg rest, kr = Some k /\ cs_decode input = Some (body, sg, rest) /\ pgp_verify k body sg = Some e.
  Proof. exact (S11.C11_signer_means_verified keyring entity sig cs_decode pgp_verify). Qed.
  Theorem C11_unsigned_input_has_no_signer : forall kr input r, starts_pgp input = false ->
    new_reader kr input = ROk entity r -> r_signer entity r = None.
  Proof. exact (S11.C11_unsigned_no_signer keyring entity sig cs_decode pgp_verify). Qed.
End C11.
(* the check behind it (ARM): a line it lets through is never one the armor reader skips; a line the reader would skip is
   refused; it refuses nothing the reader would have taken for a checksum; and the checksum line the library writes, for
   any data, is let through *)
Theorem C11_checked_line_is_never_skipped : forall l, ARM.line_ok l = true -> ARM.xline l <> ARM.Skipped.
Proof. exact ARM.let_through_is_never_skipped. Qed.
Theorem C11_skipped_line_is_refused : forall l, ARM.xline l = ARM.Skipped -> ARM.line_ok l = false.
Proof. exact ARM.skipped_is_refused. Qed.
Theorem C11_refused_line_is_skipped_or_corrupt : forall l, ARM.line_ok l = false -> ARM.xline l = ARM.Skipped \/ ARM.xline l = ARM.Corrupt.
Proof. exact ARM.refused_is_skipped_or_corrupt. Qed.
(* over the whole document: when the check lets it through, no line behind the first line that begins the signature of the
   clearsigned message is one the armor reader skips - wherever that reader takes its headers, its body or a further
   block to begin and end; and a document is refused only for such a line *)
Theorem C11_no_line_of_a_passed_armor_is_skipped : forall armored t, ARM.armor_ok armored = true ->
  ARM.from_first_line ARM.message_marker armored true = Some t ->
  forall pre l0 post, map ARM.trim_cr (GS.split GS.nl t) = pre ++ l0 :: post ->
  (forall l, In l pre -> ARM.prefix ARM.signature_marker l = false) -> ARM.prefix ARM.signature_marker l0 = true ->
  forall l, In l post -> ARM.xline l <> ARM.Skipped.
Proof. exact ARM.armor_ok_no_skipped_line. Qed.
Theorem C11_refused_only_for_a_skipped_line : forall ls, ARM.sig_ok true ls = false -> exists l, In l ls /\ ARM.xline l = ARM.Skipped.
Proof. exact ARM.armor_refused_for_a_skipped_line. Qed.
Theorem C11_written_checksum_line_is_let_through : forall data,
  ARM.line_ok (ARM.checksum_line data) = true /\ ARM.xline (ARM.checksum_line data) = ARM.Checksum.
Proof. exact ARM.written_checksum_line_is_let_through. Qed.
Print Assumptions C11_success_means_verified.
Print Assumptions C11_failure.
Print Assumptions C11_signer_implies_verified.
Print Assumptions C11_malformed_checksum_line_is_refused.
Print Assumptions C11_checked_line_is_never_skipped.
Print Assumptions C11_written_checksum_line_is_let_through.
