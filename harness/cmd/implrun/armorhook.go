//go:build verif && armorhook

package main

import (
	"pault.ag/go/debian/control"
)

// armorok text: control.armorChecksumLineOK (through the verif-tagged hook control/verif_hooks.go) on a clearsigned
// document up to and including its signature armor.
func init() {
	ops["armorok"] = func(a []string) string {
		if control.VerifArmorChecksumLineOK([]byte(arg(a, 0))) {
			return "ok"
		}
		return "malformed"
	}
}
