package main

import (
	"bufio"
	"bytes"
	"fmt"
	"io"
	"strconv"
	"strings"
	"testing/iotest"

	"pault.ag/go/debian/control"
)

func showPara(p control.Paragraph) string {
	keys := []string{}
	vals := []string{}
	for _, k := range p.Order {
		keys = append(keys, hx(k))
		vals = append(vals, hx(p.Values[k]))
	}
	return "( " + showList(keys) + " " + showList(vals) + " " + strconv.Itoa(len(p.Values)) + " )"
}

func showParas(ps []control.Paragraph) string {
	items := []string{}
	for _, p := range ps {
		items = append(items, showPara(p))
	}
	return showList(items)
}

type rawPara struct {
	control.Paragraph
}

// refuser is a Marshallable that can refuse; refusing is a paragraph-carrying struct with such a field
type refuser struct{ fail bool }

func (r refuser) MarshalControl() (string, error) {
	if r.fail {
		return "", fmt.Errorf("this value cannot be marshalled")
	}
	return "fine", nil
}

type refusing struct {
	control.Paragraph
	Check refuser `control:"X-Check"`
}

// chunkReader hands out at most n bytes per Read
type chunkReader struct {
	r io.Reader
	n int
}

func (c *chunkReader) Read(p []byte) (int, error) {
	if len(p) > c.n {
		p = p[:c.n]
	}
	return c.r.Read(p)
}

func readAll(text string) ([]control.Paragraph, error) {
	r, err := control.NewParagraphReader(strings.NewReader(text), nil)
	if err != nil {
		return nil, err
	}
	return r.All()
}

func encodeParas(ps []control.Paragraph) (string, error) {
	var buf bytes.Buffer
	enc, err := control.NewEncoder(&buf)
	if err != nil {
		return "", err
	}
	for _, p := range ps {
		if err := enc.Encode(rawPara{Paragraph: p}); err != nil {
			return "", err
		}
	}
	return buf.String(), nil
}

func init() {
	ops["rall"] = func(a []string) string {
		ps, err := readAll(arg(a, 0))
		if err != nil {
			if len(ps) != 0 {
				return "err-with-value"
			}
			return "err"
		}
		return "ok " + showParas(ps)
	}
	// rsrc variant text: the document arrives through a source that is not a plain in-memory reader - one byte per
	// Read, half the buffer per Read, the last bytes together with io.EOF, chunks of 7 bytes, or a caller-made
	// bufio.Reader with the smallest buffer.  How the bytes are chunked must not matter.
	ops["rsrc"] = func(a []string) string {
		var src io.Reader = strings.NewReader(arg(a, 1))
		switch arg(a, 0) {
		case "onebyte":
			src = iotest.OneByteReader(src)
		case "half":
			src = iotest.HalfReader(src)
		case "dataerr":
			src = iotest.DataErrReader(src)
		case "chunk7":
			src = &chunkReader{r: src, n: 7}
		case "bufio16":
			src = bufio.NewReaderSize(src, 16)
		}
		r, err := control.NewParagraphReader(src, nil)
		if err != nil {
			return "err"
		}
		ps, err := r.All()
		if err != nil {
			if len(ps) != 0 {
				return "err-with-value"
			}
			return "err"
		}
		return "ok " + showParas(ps)
	}
	// rbufio text: the caller's own *bufio.Reader, used for two readers in a row (Reset in between)
	ops["rbufio"] = func(a []string) string {
		br := bufio.NewReader(strings.NewReader(arg(a, 0)))
		one := func() string {
			r, err := control.NewParagraphReader(br, nil)
			if err != nil {
				return "err"
			}
			ps, err := r.All()
			if err != nil {
				if len(ps) != 0 {
					return "err-with-value"
				}
				return "err"
			}
			return "ok " + showParas(ps)
		}
		first := one()
		br.Reset(strings.NewReader(arg(a, 0)))
		second := one()
		if first != second {
			return "differ " + first + " | " + second
		}
		return first
	}
	ops["rnext"] = func(a []string) string {
		r, err := control.NewParagraphReader(strings.NewReader(arg(a, 0)), nil)
		if err != nil {
			return "[] err"
		}
		ps := []control.Paragraph{}
		for i := 0; ; i++ {
			p, err := r.Next()
			if err == io.EOF {
				return showParas(ps) + " eof"
			}
			if err != nil {
				return showParas(ps) + " err"
			}
			if p == nil {
				return showParas(ps) + " nil-without-error"
			}
			ps = append(ps, *p)
			if i > len(arg(a, 0))+2 {
				return "timeout"
			}
		}
	}
	// rmix text k: ONE reader; Next k times, then All for the rest - the same sequence as All alone
	ops["rmix"] = func(a []string) string {
		r, err := control.NewParagraphReader(strings.NewReader(arg(a, 0)), nil)
		if err != nil {
			return "err"
		}
		k, _ := strconv.Atoi(arg(a, 1))
		ps := []control.Paragraph{}
		for i := 0; i < k; i++ {
			p, err := r.Next()
			if err == io.EOF {
				break
			}
			if err != nil || p == nil {
				return "err"
			}
			ps = append(ps, *p)
		}
		rest, err := r.All()
		if err != nil {
			return "err"
		}
		return "ok " + showParas(append(ps, rest...))
	}
	// decoding into a slice of structs that embed the raw paragraph
	ops["rslice"] = func(a []string) string {
		out := []rawPara{}
		if err := control.Unmarshal(&out, strings.NewReader(arg(a, 0))); err != nil {
			return "err"
		}
		ps := []control.Paragraph{}
		for _, x := range out {
			ps = append(ps, x.Paragraph)
		}
		return "ok " + showParas(ps)
	}
	// rparas: the target of Unmarshal is a []control.Paragraph itself (no wrapping struct): "decoding into a slice"
	ops["rparas"] = func(a []string) string {
		out := []control.Paragraph{}
		if err := control.Unmarshal(&out, strings.NewReader(arg(a, 0))); err != nil {
			return "err"
		}
		return "ok " + showParas(out)
	}
	// Decoder.Decode one struct at a time until EOF
	ops["rdecode"] = func(a []string) string {
		dec, err := control.NewDecoder(strings.NewReader(arg(a, 0)), nil)
		if err != nil {
			return "err"
		}
		ps := []control.Paragraph{}
		for i := 0; ; i++ {
			var x rawPara
			err := dec.Decode(&x)
			if err == io.EOF {
				return "ok " + showParas(ps)
			}
			if err != nil {
				return "err"
			}
			ps = append(ps, x.Paragraph)
			if i > len(arg(a, 0))+2 {
				return "timeout"
			}
		}
	}
	// pset k v k v ...: a paragraph built by Paragraph.Set alone, shown (order, values, number of values)
	ops["pset"] = func(a []string) string {
		p := control.Paragraph{Order: []string{}, Values: map[string]string{}}
		for i := 0; i+1 < len(a); i += 2 {
			p.Set(a[i], a[i+1])
		}
		return showPara(p)
	}
	// pupdate n k v ... (n pairs: the receiver) k v ... (the other): receiver.Update(other).  Update returns a NEW
	// paragraph: receiver and other must be what they were, and a second Update gives the same result.
	ops["pupdate"] = func(a []string) string {
		n, _ := strconv.Atoi(arg(a, 0))
		p := control.Paragraph{Order: []string{}, Values: map[string]string{}}
		q := control.Paragraph{Order: []string{}, Values: map[string]string{}}
		rest := a[1:]
		for i := 0; i+1 < len(rest); i += 2 {
			if i/2 < n {
				p.Set(rest[i], rest[i+1])
			} else {
				q.Set(rest[i], rest[i+1])
			}
		}
		p0, q0 := showPara(p), showPara(q)
		r := p.Update(q)
		shown := showPara(r)
		if showPara(p) != p0 || showPara(q) != q0 {
			return "update-changed-its-operands"
		}
		r2 := p.Update(q)
		r.Set("Zz-Later", "x") // the first result is the caller's: changing it must not reach the operands or a later result
		if showPara(r2) != shown || showPara(p) != p0 || showPara(q) != q0 {
			return "update-results-share-state"
		}
		return shown
	}
	// wrepeat text k: every paragraph of the document becomes ONE value of a struct that embeds the paragraph and has
	// two fields of its own (one in the paragraph's order already when the document has it, one never); each value is
	// encoded k times in a row through ONE encoder.  Encoding does not wear a value out: the text must be what encoding
	// k fresh copies gives, and it must read back as k paragraphs per value.
	ops["wrepeat"] = func(a []string) string {
		type extended struct {
			control.Paragraph
			Extra  string `control:"X-Extra"`
			Source string
		}
		ps, err := readAll(arg(a, 0))
		if err != nil {
			return "err"
		}
		k, _ := strconv.Atoi(arg(a, 1))
		mk := func(p control.Paragraph) *extended {
			c := control.Paragraph{Order: append([]string{}, p.Order...), Values: map[string]string{}}
			for key, v := range p.Values {
				c.Values[key] = v
			}
			return &extended{Paragraph: c, Extra: "added later", Source: "set-by-hand"}
		}
		var worn, fresh bytes.Buffer
		e1, err1 := control.NewEncoder(&worn)
		e2, err2 := control.NewEncoder(&fresh)
		if err1 != nil || err2 != nil {
			return "encode-err"
		}
		for _, p := range ps {
			v := mk(p)
			for i := 0; i < k; i++ {
				if err := e1.Encode(v); err != nil {
					return "encode-err"
				}
				if err := e2.Encode(mk(p)); err != nil {
					return "encode-err"
				}
			}
		}
		if worn.String() != fresh.String() {
			return "diff " + hx(worn.String()) + " " + hx(fresh.String())
		}
		back, err := readAll(worn.String())
		if err != nil {
			return "reread-err"
		}
		return "same " + strconv.Itoa(len(back))
	}
	// wfail text k: the paragraphs become struct values with a field that can refuse to marshal; Encode(slice) in which
	// element k (>= 1) refuses - an error, after the elements before it may have been written - and then one more Encode
	// of a good value through the SAME encoder.  Whatever was written must read back as separate paragraphs: some prefix
	// of the good elements, then the last value - never two values glued into one paragraph.
	ops["wfail"] = func(a []string) string {
		ps, err := readAll(arg(a, 0))
		if err != nil || len(ps) < 2 {
			return "bad-arg"
		}
		k, _ := strconv.Atoi(arg(a, 1))
		if k < 1 || k >= len(ps) {
			k = len(ps) - 1
		}
		mk := func(p control.Paragraph, fail bool) refusing {
			c := control.Paragraph{Order: append([]string{}, p.Order...), Values: map[string]string{}}
			for key, v := range p.Values {
				c.Values[key] = v
			}
			return refusing{Paragraph: c, Check: refuser{fail}}
		}
		single := func(v refusing) string {
			var b bytes.Buffer
			e, _ := control.NewEncoder(&b)
			if e.Encode(v) != nil {
				return "?"
			}
			back, err := readAll(b.String())
			if err != nil || len(back) != 1 {
				return "?"
			}
			return showPara(back[0])
		}
		vals := []refusing{}
		for i, p := range ps {
			vals = append(vals, mk(p, i == k))
		}
		last := mk(ps[0], false)
		last.Paragraph.Set("X-Last", "yes")
		var buf bytes.Buffer
		enc, err := control.NewEncoder(&buf)
		if err != nil {
			return "encode-err"
		}
		if err := enc.Encode(vals); err == nil {
			return "no-error"
		}
		if err := enc.Encode(last); err != nil {
			return "second-encode-err"
		}
		back, err := readAll(buf.String())
		if err != nil {
			return "glued reread-error " + hx(buf.String())
		}
		if len(back) == 0 || len(back)-1 > k {
			return "glued count " + strconv.Itoa(len(back))
		}
		for i := 0; i+1 < len(back); i++ {
			if showPara(back[i]) != single(vals[i]) {
				return "glued element " + strconv.Itoa(i)
			}
		}
		if showPara(back[len(back)-1]) != single(last) {
			return "glued last " + hx(buf.String())
		}
		return "separate"
	}
	ops["wpara"] = func(a []string) string {
		p := control.Paragraph{Order: []string{}, Values: map[string]string{}}
		for i := 0; i+1 < len(a); i += 2 {
			p.Set(a[i], a[i+1])
		}
		var buf bytes.Buffer
		if err := p.WriteTo(&buf); err != nil {
			return "err"
		}
		return hx(buf.String())
	}
	// wgroups: document, pattern.  The paragraphs of the document are handed to ONE Encoder in the grouping the
	// pattern spells: a digit k >= 1 = Encode(slice of the next k paragraphs), 's' = Encode(struct),
	// 'p' = Encode(pointer to struct), 'q' = Encode(pointer to a slice of the next 2); what is left over is
	// encoded struct by struct.  The text is read back.
	ops["wgroups"] = func(a []string) string {
		ps, err := readAll(arg(a, 0))
		if err != nil {
			return "err"
		}
		var buf bytes.Buffer
		enc, err := control.NewEncoder(&buf)
		if err != nil {
			return "encode-err"
		}
		take := func(k int) []rawPara {
			out := []rawPara{}
			for ; k > 0 && len(ps) > 0; k-- {
				out = append(out, rawPara{Paragraph: ps[0]})
				ps = ps[1:]
			}
			return out
		}
		for _, c := range arg(a, 1) {
			if len(ps) == 0 {
				break
			}
			switch {
			case c >= '1' && c <= '9':
				err = enc.Encode(take(int(c - '0')))
			case c == 'p':
				x := take(1)[0]
				err = enc.Encode(&x)
			case c == 'q':
				x := take(2)
				err = enc.Encode(&x)
			default:
				err = enc.Encode(take(1)[0])
			}
			if err != nil {
				return "encode-err"
			}
		}
		for len(ps) > 0 {
			if err := enc.Encode(take(1)[0]); err != nil {
				return "encode-err"
			}
		}
		t1 := buf.String()
		ps2, err := readAll(t1)
		if err != nil {
			return "ok " + hx(t1) + " err"
		}
		return "ok " + hx(t1) + " " + showParas(ps2)
	}
	ops["wcycle"] = func(a []string) string {
		ps, err := readAll(arg(a, 0))
		if err != nil {
			return "err"
		}
		t1, err := encodeParas(ps)
		if err != nil {
			return "encode-err"
		}
		ps2, err := readAll(t1)
		if err != nil {
			return "ok " + hx(t1) + " err"
		}
		t2, err := encodeParas(ps2)
		if err != nil {
			return "encode-err"
		}
		ps3, err := readAll(t2)
		if err != nil {
			return "ok " + hx(t1) + " " + hx(t2) + " err"
		}
		return "ok " + hx(t1) + " " + hx(t2) + " " + showParas(ps3)
	}
}
