(* C08, remaining clauses: no blank line inside a written paragraph; the encoder's paragraph count *)
From Coq Require Import List Ascii String Bool Arith Lia.
Require Import GS R2 R3.
Import ListNotations.

Definition blankish (l : str) : Prop := trim_space l = [].      (* empty or whitespace-only *)

Lemma trim_space_cons_nonsp c x : is_space c = false -> trim_space (c :: x) <> [].
Proof.
  intros H E. apply trim_space_nil in E. inversion E; subst. congruence.
Qed.
Lemma trim_space_app_nonblank a b : trim_space b <> [] -> trim_space (a ++ b) <> [].
Proof.
  intros H E. apply H. apply trim_space_nil in E. unfold all_space in E. apply Forall_app in E as [_ E].
  now apply trim_space_all.
Qed.

Lemma dot_line_nonblank c : ~ blankish (dot_line c).
Proof.
  unfold blankish, dot_line. destruct (str_eqb_spec (trim_space c) []) as [E|E]; [|exact E]. vm_compute. discriminate.
Qed.

(* every line WriteTo produces for a field carries something that is not whitespace *)
Theorem C08_no_blank_lines k v : key_ok k -> forall l, In l (field_lines k (fold_lines v)) -> ~ blankish l.
Proof.
  intros Hk l Hin. unfold blankish.
  assert (Kl : forall t, trim_space (k ++ t) <> []).
  { intros t. destruct Hk as [Hne _ _ Hlead _ _]. destruct k as [|c k']; [congruence|]. cbn in Hlead. cbn [app].
    now apply trim_space_cons_nonsp. }
  destruct (fold_lines v) as [|l0 r] eqn:F; cbn [field_lines] in Hin.
  - destruct Hin as [<-|[]]. apply Kl.
  - destruct Hin as [<-|Hin]; [apply Kl|].
    apply in_map_iff in Hin as (x&<-&Hx).
    (* x is one of the dot-encoded continuation lines *)
    assert (Hd : exists y, x = dot_line y).
    { unfold fold_lines in F. destruct (split nl (trim_suffix [nl] v)) as [|a b]; [discriminate|].
      destruct (str_eqb (trim_left a) a); inversion F; subst; clear F.
      - apply in_map_iff in Hx as (y&<-&_). eauto.
      - cbn [map] in Hx. destruct Hx as [<-|Hx]; [eauto|]. apply in_map_iff in Hx as (y&<-&_). eauto. }
    destruct Hd as (y&->). change (sp :: dot_line y) with ([sp] ++ dot_line y). apply trim_space_app_nonblank. apply dot_line_nonblank.
Qed.
Print Assumptions C08_no_blank_lines.

(* ---------- the encoder: paragraphs separated by one blank line read back as the same paragraphs ---------- *)
Lemma unlines_app a b : unlines (a ++ b) = unlines a ++ unlines b.
Proof. unfold unlines. now rewrite map_app, concat_app. Qed.

Lemma para_unlines fs : Forall wf_field fs -> exists L, List.concat (map field_text fs) = unlines L /\ Forall (free nl) L.
Proof.
  induction 1 as [|kv fs Wkv Wfs (L&E&F)]; [exists []; split; [reflexivity|constructor]|].
  destruct (write_field_unlines kv Wkv) as (ls&E1&F1&_). exists (ls ++ L). split.
  - cbn [map List.concat]. now rewrite E1, E, unlines_app.
  - apply Forall_app. auto.
Qed.

Definition para_of (fs : list (str * (str * list str))) : para := {| order := map fst fs; values := map field_pair fs |}.
Definition wf_fields fs : Prop := fs <> [] /\ Forall wf_field fs /\ NoDup (map fst fs).

Lemma write_para_text fs : wf_fields fs -> write_para (para_of fs) = List.concat (map field_text fs).
Proof.
  intros (NE&W&ND). unfold write_para, para_of. cbn [order values]. f_equal. rewrite map_map. apply map_ext_in. intros kv Hin.
  unfold field_text. f_equal. clear -ND Hin. induction fs as [|a fs IH]; [contradiction|]. cbn [map lookup field_pair fst snd].
  inversion ND; subst. destruct Hin as [->|Hin].
  - destruct (str_eqb_spec (fst kv) (fst kv)); [reflexivity|congruence].
  - destruct (str_eqb_spec (fst a) (fst kv)) as [E|_]; [exfalso; apply H1; rewrite E; now apply in_map|]. now apply IH.
Qed.

(* Encoder.Encode called once per paragraph: a blank line between consecutive paragraphs *)
Fixpoint encode (ps : list (list (str * (str * list str)))) : str :=
  match ps with
  | [] => []
  | [fs] => write_para (para_of fs)
  | fs :: rest => write_para (para_of fs) ++ nl :: encode rest
  end.

Theorem C08_encoder_roundtrip : forall ps, Forall wf_fields ps ->
  forall fuel, (List.length ps < fuel)%nat -> all_fuel fuel (lines_of (encode ps)) = Some (map para_of ps).
Proof.
  induction ps as [|fs ps IH]; intros W fuel Hf.
  - destruct fuel; [lia|]. reflexivity.
  - inversion W as [|? ? Wfs Wps]; subst. destruct fuel as [|fuel]; [cbn in Hf; lia|].
    pose proof Wfs as (NE&Wf&ND). destruct (C08_para_write_read fs NE Wf ND) as [A B]. fold (para_of fs) in A, B.
    destruct ps as [|fs2 ps'].
    + cbn [encode all_fuel map]. rewrite B. destruct fuel; [cbn in Hf; lia|]. reflexivity.
    + change (encode (fs :: fs2 :: ps')) with (write_para (para_of fs) ++ nl :: encode (fs2 :: ps')).
      rewrite (write_para_text fs Wfs). destruct (para_unlines fs Wf) as (L&EL&FL). rewrite EL.
      rewrite (lines_of_unlines_app L _ FL).
      change (nl :: encode (fs2 :: ps')) with ([] ++ nl :: encode (fs2 :: ps')). rewrite lines_of_cons by constructor.
      rewrite <- (lines_of_unlines L FL), <- EL, <- (write_para_text fs Wfs).
      cbn [all_fuel]. rewrite A. rewrite (IH Wps fuel) by (cbn in *; lia). reflexivity.
Qed.
Print Assumptions C08_encoder_roundtrip.
