(* C17: changelog.ParseOne / Parse after repair #28, on the list of lines (GS.lines_of) *)
From Coq Require Import List Ascii String Bool Arith Lia.
Require Import GS.
Import ListNotations.

Section Changelog.
  Variables V T : Type.
  (* ORACLES: version.Parse (C03 model) and time.Parse(RFC1123Z) *)
  Variable parse_version : str -> option V.
  Variable parse_date : str -> option T.

  (* strings.Trim(x, "\n\r\t ") *)
  Definition cut (c : ascii) : bool := let n := code c in (n =? 10) || (n =? 13) || (n =? 9) || (n =? 32).
  Fixpoint ctrim_left (x : str) : str := match x with c :: r => if cut c then ctrim_left r else x | [] => [] end.
  Definition ctrim (x : str) : str := rev (ctrim_left (rev (ctrim_left x))).

  (* partition(line, delim): strings.SplitN(line, delim, 2) *)
  Fixpoint is_prefix (d x : str) : bool :=
    match d, x with [], _ => true | a :: d', b :: x' => ceq a b && is_prefix d' x' | _, [] => false end.
  Fixpoint partition_on (d : str) (cur x : str) : str * str :=
    match x with
    | [] => (rev cur, [])
    | c :: r => if is_prefix d x then (rev cur, skipn (List.length d) x) else partition_on d (c :: cur) r
    end.
  Definition partition (x d : str) : str * str := partition_on d [] x.

  Record entry := { e_source : str; e_version : V; e_target : str; e_args : list (str * str);
                    e_body : str; e_by : str; e_when : T }.

  Definition starts_sp (l : str) : bool := match l with c :: _ => ceq c sp | [] => false end.
  Definition lf (l : str) : str := l ++ [nl].           (* a line as Go sees it *)

  Definition parse_args (options : str) : list (str * str) :=
    (* "zero or more keyword=value items": an empty piece - nothing behind the semicolon, or behind a comma - is no item (repair
       of the r14 finding: "hello (2.10-1) unstable;" had the option "" = "") *)
    map (fun e => let (k, v) := partition (ctrim e) (s "=") in (ctrim k, ctrim v))
        (filter (fun e => negb (str_eqb (ctrim e) [])) (split ","%char options)).

  Inductive res (A : Type) := ROk (a : A) (rest : list str) | REof | RErr.
  Arguments ROk {A}. Arguments REof {A}. Arguments RErr {A}.

  (* body lines up to the " -- " line *)
  Fixpoint body_loop (body : str) (ls : list str) : res (str * str) :=
    match ls with
    | [] => RErr                                                  (* io.ErrUnexpectedEOF *)
    | l :: r =>
        if negb (starts_sp l) && negb (str_eqb (ctrim (lf l)) []) then RErr
        else if is_prefix (s " -- ") l then ROk (body, lf l) r
        else body_loop (body ++ lf l) r
    end.

  Fixpoint header_loop (ls : list str) : res str :=
    match ls with
    | [] => REof
    | l :: r => if str_eqb (ctrim l) [] then header_loop r       (* empty, or white space only (repair 1f7ffc5) *)
                else if negb (starts_sp l) then ROk (lf l) r else RErr
    end.

  Definition parse_one (ls : list str) : res entry :=
    match header_loop ls with
    | REof => REof
    | RErr => RErr
    | ROk header r =>
        let (arguments, options) := partition header (s ";") in
        let (source, remainder) := partition arguments (s "(") in
        let (vstr, suite) := partition remainder (s ")") in
        match parse_version (ctrim vstr) with
        | None => RErr
        | Some v =>
            match body_loop [] r with
            | REof => RErr | RErr => RErr
            | ROk (body, signoff) r' =>
                let (_, so) := partition signoff (s "--") in
                let (whom, when) := partition so (s "  ") in
                match parse_date (ctrim when) with
                | None => RErr
                | Some t => ROk {| e_source := ctrim source; e_version := v; e_target := ctrim suite;
                                   e_args := parse_args options; e_body := body; e_by := ctrim whom; e_when := t |} r'
                end
            end
        end
    end.

  Fixpoint parse_fuel (fuel : nat) (ls : list str) : option (list entry) :=
    match fuel with
    | O => None
    | S f => match parse_one ls with
             | REof => Some []
             | RErr => None
             | ROk e r => option_map (cons e) (parse_fuel f r)
             end
    end.
  Definition parse (x : str) : option (list entry) := let ls := lines_of x in parse_fuel (S (List.length ls)) ls.

  (* ---------- never a silently shortened list ---------- *)
  (* a header line: does not start with a blank and is not blank after trimming *)
  Definition is_header (l : str) : bool := negb (starts_sp l) && negb (str_eqb (ctrim (lf l)) []).
  Definition headers (ls : list str) : nat := List.length (filter is_header ls).

  Lemma ctrim_nl : ctrim (lf []) = [].
  Proof. reflexivity. Qed.

  Lemma ctrim_left_nil x : ctrim_left x = [] -> forallb cut x = true.
  Proof. induction x as [|c r IH]; cbn; [reflexivity|]. destruct (cut c); [exact IH|discriminate]. Qed.
  Lemma ctrim_left_all x : forallb cut x = true -> ctrim_left x = [].
  Proof. induction x as [|c r IH]; cbn; [reflexivity|]. destruct (cut c); [exact IH|discriminate]. Qed.
  Lemma ctrim_left_head x c r : ctrim_left x = c :: r -> cut c = false.
  Proof. induction x as [|a x IH]; cbn; [discriminate|]. destruct (cut a) eqn:E; [exact IH|]. intros H. inversion H; subst. exact E. Qed.
  Lemma forallb_rev (f : ascii -> bool) x : forallb f (rev x) = forallb f x.
  Proof. induction x as [|a x IH]; [reflexivity|]. cbn [rev forallb]. rewrite forallb_app, IH. cbn. now rewrite andb_true_r, andb_comm. Qed.
  Lemma ctrim_nil x : ctrim x = [] -> forallb cut x = true.
  Proof.
    unfold ctrim. intros H. assert (E : ctrim_left (rev (ctrim_left x)) = []).
    { apply (f_equal (@rev ascii)) in H. rewrite rev_involutive in H. exact H. }
    apply ctrim_left_nil in E. rewrite forallb_rev in E.
    destruct (ctrim_left x) as [|c r] eqn:L; [now apply ctrim_left_nil|].
    pose proof (ctrim_left_head x c r L) as Hc. cbn in E. rewrite Hc in E. discriminate.
  Qed.
  Lemma ctrim_all x : forallb cut x = true -> ctrim x = [].
  Proof. intros H. unfold ctrim. now rewrite (ctrim_left_all x H). Qed.
  (* a line of white space is white space with its newline too *)
  Lemma ctrim_lf_nil l : ctrim l = [] -> ctrim (lf l) = [].
  Proof. intros H. apply ctrim_all. unfold lf. rewrite forallb_app, (ctrim_nil l H). reflexivity. Qed.

  Lemma header_loop_ok ls h r : header_loop ls = ROk h r ->
    (headers ls <= S (headers r))%nat /\ (List.length r < List.length ls)%nat.
  Proof.
    induction ls as [|l ls IH]; cbn [header_loop]; [discriminate|].
    destruct (str_eqb_spec (ctrim l) []) as [El|Hne].
    - intros H. destruct (IH H) as [A B]. unfold headers in *. cbn [filter]. unfold is_header at 1. rewrite (ctrim_lf_nil l El).
      cbn [str_eqb]. destruct (list_eq_dec ascii_dec [] []); [|congruence]. cbn [negb]. rewrite andb_false_r. cbn [List.length]. split; [exact A|lia].
    - destruct (starts_sp l) eqn:S; cbn [negb]; [discriminate|]. intros H. inversion H; subst.
      unfold headers. cbn [filter]. destruct (is_header l); cbn [List.length]; split; lia.
  Qed.
  Lemma header_loop_eof ls : header_loop ls = REof -> headers ls = 0%nat.
  Proof.
    induction ls as [|l ls IH]; cbn [header_loop]; [reflexivity|].
    destruct (str_eqb_spec (ctrim l) []) as [El|Hne].
    - intros H. unfold headers in *. cbn [filter]. unfold is_header at 1. rewrite (ctrim_lf_nil l El).
      cbn [str_eqb]. destruct (list_eq_dec ascii_dec [] []); [|congruence]. cbn [negb]. rewrite andb_false_r. now apply IH.
    - destruct (starts_sp l); discriminate.
  Qed.

  Lemma body_loop_ok : forall ls body b sg r, body_loop body ls = ROk (b, sg) r ->
    headers ls = headers r /\ (List.length r < List.length ls)%nat.
  Proof.
    induction ls as [|l ls IH]; intros body b sg r; cbn [body_loop]; [discriminate|].
    destruct (negb (starts_sp l) && negb (str_eqb (ctrim (lf l)) [])) eqn:G; [discriminate|].
    assert (NH : is_header l = false) by exact G.
    destruct (is_prefix (s " -- ") l).
    - intros H. inversion H; subst. unfold headers. cbn [filter]. rewrite NH. split; [reflexivity|cbn; lia].
    - intros H. destruct (IH _ _ _ _ H) as [A B]. unfold headers in *. cbn [filter]. rewrite NH. split; [exact A|cbn; lia].
  Qed.

  Lemma parse_one_ok ls e r : parse_one ls = ROk e r ->
    (headers ls <= S (headers r))%nat /\ (List.length r < List.length ls)%nat.
  Proof.
    unfold parse_one. destruct (header_loop ls) as [h r0| |] eqn:H; try discriminate.
    destruct (header_loop_ok ls h r0 H) as [A B].
    destruct (partition h (s ";")) as [arguments options]. destruct (partition arguments (s "(")) as [source remainder].
    destruct (partition remainder (s ")")) as [vstr suite]. destruct (parse_version (ctrim vstr)); [|discriminate].
    destruct (body_loop [] r0) as [[body sg] r1| |] eqn:Bd; try discriminate.
    destruct (body_loop_ok r0 [] body sg r1 Bd) as [C D].
    destruct (partition sg (s "--")) as [x so]. destruct (partition so (s "  ")) as [whom when].
    destruct (parse_date (ctrim when)); [|discriminate]. intros E. inversion E; subst. split; lia.
  Qed.
  Lemma parse_one_eof ls : parse_one ls = REof -> headers ls = 0%nat.
  Proof.
    unfold parse_one. destruct (header_loop ls) as [h r0| |] eqn:H; try discriminate.
    - destruct (partition h (s ";")) as [arguments options]. destruct (partition arguments (s "(")) as [source remainder].
      destruct (partition remainder (s ")")) as [vstr suite]. destruct (parse_version (ctrim vstr)); [|discriminate].
      destruct (body_loop [] r0) as [[body sg] r1| |]; try discriminate.
      destruct (partition sg (s "--")) as [x so]. destruct (partition so (s "  ")) as [whom when].
      destruct (parse_date (ctrim when)); discriminate.
    - intros _. now apply header_loop_eof.
  Qed.

  (* C17: whenever Parse succeeds, every header line of the input has produced an entry *)
  Theorem C17_never_shortened : forall fuel ls es, parse_fuel fuel ls = Some es -> (headers ls <= List.length es)%nat.
  Proof.
    induction fuel as [|f IH]; intros ls es H; [discriminate|]. cbn [parse_fuel] in H.
    destruct (parse_one ls) as [e r| |] eqn:P.
    - destruct (parse_fuel f r) as [es'|] eqn:R; [|discriminate]. cbn in H. inversion H; subst.
      destruct (parse_one_ok ls e r P) as [A _]. specialize (IH r es' R). cbn [List.length]. lia.
    - inversion H; subst. rewrite (parse_one_eof ls P). cbn. lia.
    - discriminate.
  Qed.

  (* and the loop in Parse always has enough fuel: beyond the number of lines, more fuel changes nothing,
     so None from parse means a genuine error, never exhaustion *)
  Theorem C17_fuel : forall fuel ls, (List.length ls < fuel)%nat ->
    forall fuel', (fuel <= fuel')%nat -> parse_fuel fuel' ls = parse_fuel fuel ls.
  Proof.
    induction fuel as [|f IH]; intros ls Hl fuel' Hf; [lia|]. destruct fuel' as [|f']; [lia|].
    cbn [parse_fuel]. destruct (parse_one ls) as [e r| |] eqn:P; try reflexivity.
    destruct (parse_one_ok ls e r P) as [_ B]. rewrite (IH r) by lia. reflexivity.
  Qed.
End Changelog.
Print Assumptions C17_never_shortened.
Print Assumptions C17_fuel.
