(* C04, "two names without a separator" when the first of the two is a substvar: after the closing brace of "${foo}" only
   blanks and then ',' '|' or the end may follow - "${foo} bar", "${a}b" and "${a} ${b}" are refused (repair of the r12
   finding: parseSubstvar returned at the brace and the relation loop went on to read a new alternative) *)
From Coq Require Import List Ascii String Bool Arith NArith Lia.
Require Import A1 D3 D4 D5 D6 D14.
Import ListNotations.

Lemma substvar_word_err : forall w name rest, forallb subc w = true ->
  eqc (peek (eat_ws rest)) 44 || eqc (peek (eat_ws rest)) 124 || eqc (peek (eat_ws rest)) 0 = false ->
  substvar_loop name (w ++ ch 125 :: rest) = Err.
Proof.
  induction w as [|c w IH]; intros name rest H St.
  - cbn [app substvar_loop]. change (eqc (ch 125) 0) with false. change (eqc (ch 125) 125) with true. cbv iota. cbv zeta.
    now rewrite St.
  - cbn [forallb] in H. apply andb_true_iff in H as [Hc Hw]. unfold subc in Hc. apply negb_true_iff in Hc.
    apply orb_false_iff in Hc as [C1 C2]. cbn [app substvar_loop]. rewrite C1, C2. now apply IH.
Qed.

Theorem reject_text_after_substvar nm w c x : forallb subc nm = true -> all_ws w -> is_ws c = false -> stop3 c = false ->
  parse (ch 36 :: ch 123 :: nm ++ ch 125 :: w ++ c :: x) = Err.
Proof.
  intros Hn Hw Nw Ns.
  set (t := ch 36 :: ch 123 :: nm ++ ch 125 :: w ++ c :: x).
  assert (HO : eat_ws t = t) by reflexivity.
  assert (Ew : eat_ws (w ++ c :: x) = c :: x).
  { rewrite (eat_ws_app w (c :: x) Hw). apply eat_ws_id. exact Nw. }
  assert (P : forall f rel, parse_possibility f rel t = Err).
  { intros f rel. unfold parse_possibility. rewrite HO. subst t. cbn [peek]. change (eqc (ch 36) 36) with true. cbv iota.
    unfold parse_substvar. cbn [eat_ws]. change (is_ws (ch 36)) with false. cbv iota. cbn [adv tl].
    rewrite (substvar_word_err nm [] (w ++ c :: x) Hn); [reflexivity|]. rewrite Ew. cbn [peek]. exact Ns. }
  assert (EV : forall f, dependency_loop (S (S f)) [] t = Err).
  { intros f. rewrite dependency_loop_S. subst t. cbn [peek]. change (eqc (ch 36) 0) with false. change (eqc (ch 36) 44) with false. cbv iota.
    cbn [eat_ws]. change (is_ws (ch 36)) with false. cbv iota.
    rewrite relation_loop_S. cbn [peek]. change (eqc (ch 36) 0 || eqc (ch 36) 44) with false. change (eqc (ch 36) 124) with false. cbv iota.
    now rewrite P. }
  pose proof (C18_dep_terminates t) as NF. unfold parse in *. rewrite HO in *.
  destruct (4 * List.length t + 8)%nat as [|[|n]] eqn:E; [lia|lia|]. apply EV.
Qed.
Print Assumptions reject_text_after_substvar.
