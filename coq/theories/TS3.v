(* C19 from text: what control.ParseDsc + OrderDSCForBuild read out of .dsc text, composed from the models of
   the reader (R2), the list decoder (L10), the dependency parser (D3) and possibility selection (M6b).
   Definitions only; the ordering theorems are TS2's, stated over [srcs_of_texts]. *)
From Coq Require Import List Ascii String Bool Arith Lia.
Require Import GS R2 R2u L10 TS TS2.
Require A1 D3 M6 M6b.
Import ListNotations.

Definition strip4 (c : ascii) : bool := let n := code c in (n =? 10) || (n =? 13) || (n =? 9) || (n =? 32).
Definition comma : ascii := ","%char.
Definition m6_of (a : A1.arch) : M6.arch str := {| M6.abi := A1.abi a; M6.os := A1.os a; M6.cpu := A1.cpu a |}.
Definition m6possi (p : D3.possi) : M6b.possi str D3.possi :=
  {| M6b.p_name := p;
     M6b.p_archs := {| M6b.a_not := D3.a_not (D3.archs_of p); M6b.a_list := map m6_of (D3.a_list (D3.archs_of p)) |};
     M6b.p_subst := D3.p_subst p |}.
(* Dependency.GetPossibilities(arch) on a field's text: the names picked, or None when the field does not parse *)
Definition picked_of_field (arch : M6.arch str) (text : str) : option (list str) :=
  match D3.parse text with
  | D3.Ok d => Some (map (fun p => D3.p_name (M6b.p_name str D3.possi p))
                         (M6b.get_possibilities str D3.seq (s "any"%string) (s "all"%string) D3.possi (map (map m6possi) d) arch))
  | _ => None
  end.
Record dsc := { d_source : str; d_src : src }.
(* ParseDsc: the first paragraph; Source verbatim, Binary as a comma list of trimmed names, the three fields *)
Definition dsc_of_text (arch : M6.arch str) (text : str) : option dsc :=
  match read_all_u text with
  | Some (p :: _) =>
      let f (k : string) := lookup (s k) (values p) in
      match picked_of_field arch (f "Build-Depends"%string), picked_of_field arch (f "Build-Depends-Arch"%string),
            picked_of_field arch (f "Build-Depends-Indep"%string) with
      | Some a, Some b, Some c =>
          let bins := if str_eqb (f "Binary"%string) [] && negb (mem (s "Binary"%string) (values p)) then []
                      else decode_list comma strip4 (f "Binary"%string) in
          Some {| d_source := f "Source"%string; d_src := {| binaries := bins; picked := a ++ b ++ c |} |}
      | _, _, _ => None
      end
  | _ => None
  end.
Fixpoint dscs_of_texts (arch : M6.arch str) (ts : list str) : option (list dsc) :=
  match ts with
  | [] => Some []
  | t :: r => match dsc_of_text arch t, dscs_of_texts arch r with
              | Some d, Some ds => Some (d :: ds) | _, _ => None end
  end.
(* the whole pipeline: source names in build order, or an error *)
Inductive ores := OOrder (names : list str) | OCycle | OParseError | OFuel.
Definition order_texts (arch : M6.arch str) (ts : list str) : ores :=
  match dscs_of_texts arch ts with
  | None => OParseError
  | Some ds =>
      match order_dscs (map d_src ds) with
      | SOk l => OOrder (map (fun i => d_source (nth i ds {| d_source := []; d_src := no_src |})) l)
      | SCycle => OCycle
      | SFuel => OFuel
      end
  end.
