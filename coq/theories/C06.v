(* C06 - Architecture and version restrictions evaluate per Debian semantics.
   Property theorems only.  The model (M6, M6b) is generic in the type of component names: any type with
   decidable equality and two distinct names "any" and "all" - which covers the property's "three generic
   names, exhaustive up to renaming" and every real name.  The tie instantiates it with byte strings. *)
From Coq Require Import List Bool Arith ZArith Lia.
Require Import M6 M6b.
Import ListNotations.

Section C06.
  Variable T : Type.
  Variable eqb : T -> T -> bool.
  Hypothesis eqb_spec : forall a b, reflect (a = b) (eqb a b).
  Variables any all : T.
  Hypothesis any_all : any <> all.
  Notation arch := (M6.arch T).
  Notation arch_is := (M6.arch_is T eqb any all).
  Notation dom := (M6.dom T all).
  Notation matches := (M6.matches T any all).

  (* dom: the atomic 'all', or a triple none of whose components is "all".
     matches a b: all~all; concrete~concrete iff equal; concrete~wildcard (either way round) iff every
     wildcard component is any or equals the concrete one; wildcard~wildcard never. *)
  Theorem C06_is_spec : forall a b : arch, dom a -> dom b -> (arch_is a b = true <-> matches a b).
  Proof. exact (M6.C06_is_spec T eqb eqb_spec any all any_all). Qed.

  Theorem C06_is_symmetric : forall a b : arch, dom a -> dom b -> arch_is a b = arch_is b a.
  Proof. exact (M6b.C06_is_sym T eqb eqb_spec any all any_all). Qed.

  (* a bracketed list admits o iff (some entry matches) differs from (the list is negated); empty admits all *)
  Theorem C06_set : forall (s : M6b.archset T) (o : arch), M6b.set_matches T eqb any all s o =
    match M6b.a_list T s with [] => true | l => xorb (existsb (fun e => arch_is e o) l) (M6b.a_not T s) end.
  Proof. exact (M6b.C06_set T eqb any all). Qed.

  (* per relation and in order, the first non-substvar alternative whose list admits o *)
  Theorem C06_select : forall (name : Type) (rels : list (list (M6b.possi T name))) (o : arch),
    M6b.get_possibilities T eqb any all name rels o =
    flat_map (fun r => match find (M6b.admits T eqb any all name o) r with Some p => [p] | None => [] end) rels.
  Proof. exact (M6b.C06_select T eqb any all). Qed.
End C06.

(* (op N) is satisfied by V exactly when Compare(V, N) is <0, <=0, =0, >=0, >0 for <<, <=, =, >=, >>;
   never when N is unparsable or op is unknown.  Generic in the parser and the comparison; the tie
   instantiates them with V11.parse_u and V6.compare (C03 and C01). *)
Theorem C06_satisfied : forall (ver : Type) (parse : list nat -> option ver) (compare : ver -> ver -> Z) o number v,
  M6b.satisfied_by ver parse compare o number v = true <->
  exists n, parse number = Some n /\ M6b.holds o (compare v n).
Proof. exact M6b.C06_satisfied. Qed.

Print Assumptions C06_is_spec.
Print Assumptions C06_is_symmetric.
Print Assumptions C06_set.
Print Assumptions C06_select.
Print Assumptions C06_satisfied.

(* non-vacuity over natural numbers as names (0 = any, 1 = all): amd64-like concrete vs linux-any-like *)
Example C06_instance :
  M6.arch_is nat Nat.eqb 0 1 {| M6.abi := 2; M6.os := 3; M6.cpu := 4 |} {| M6.abi := 0; M6.os := 3; M6.cpu := 0 |} = true /\
  M6.arch_is nat Nat.eqb 0 1 {| M6.abi := 0; M6.os := 3; M6.cpu := 0 |} {| M6.abi := 2; M6.os := 3; M6.cpu := 4 |} = true /\
  M6.arch_is nat Nat.eqb 0 1 {| M6.abi := 2; M6.os := 3; M6.cpu := 4 |} {| M6.abi := 0; M6.os := 5; M6.cpu := 0 |} = false /\
  M6.dom nat 1 {| M6.abi := 2; M6.os := 3; M6.cpu := 4 |}.
Proof. repeat split; try reflexivity. right. repeat split; discriminate. Qed.
