"""C13 - the ar reader returns every member with exact metadata and bytes."""
import itertools
import os
import subprocess
import tempfile
import lib
import argen


def run(chk):
    rng = chk.rng
    shapes = [(nl, sz, bl) for nl in (1, 15, 16) for sz in (0, 1, 2, 59, 60, 61) for bl in (False, True)]
    lists = [[]] + [[s] for s in shapes] + [[a, b] for a in shapes for b in shapes]
    if chk.tier == "thorough":
        lists += [list(t) for t in itertools.product(shapes[::2], repeat=3)]
    archives = []
    for l in lists:
        archives.append([argen.member(rng, nl, sz, bl) for nl, sz, bl in l])
    chk.extra["exhaustive_shapes"] = {"name_lengths": [1, 15, 16], "sizes": [0, 1, 2, 59, 60, 61], "blank_numeric_fields": [False, True],
                                      "lists_up_to": 3 if chk.tier == "thorough" else 2}
    for _ in range(chk.n(1500, 30000)):
        archives.append([argen.member(rng, blank=rng.random() < 0.2) for _ in range(rng.randrange(0, 13))])
    cases = [("ariter", [argen.render(ms)]) for ms in archives]
    impl, model = chk.run_both(cases)
    chk.compare("rendered-archives", cases, impl, model, nontrivial=lambda c, r: r.startswith("[ "))
    for c, i, ms in zip(cases, impl, archives):
        w = argen.expected(ms)
        if i != w:
            chk.violate({"kind": "property", "case": lib.show_case(c), "impl": i[:2000], "expected": w[:2000],
                         "explanation": "iterating a well-formed ar archive did not return its members with exact metadata and bytes (also after re-reading earlier members)"})
    # consumers that do not read the members while iterating (or read a single byte): the iterator and the
    # members' readers are independent of how much of each member has been consumed
    sub = list(range(0, len(cases), 3))
    # ... and of the read cursor of the reader handed to LoadAr (sniff: the caller read the magic first; drain: it read
    # everything, e.g. to hash the file): LoadAr takes an io.ReaderAt
    # ... (eagereof: an io.ReaderAt that reports io.EOF together with the last bytes of its source, which the contract allows)
    # (bigsection: an io.SectionReader whose Size() is far larger than the bytes behind it)
    for mode in (b"skip", b"one", b"sniff", b"drain", b"eagereof", b"bigsection"):
        lc = [("ariterlazy", [cases[k][1][0], mode]) for k in sub]
        li = chk.run_impl(lc)
        chk.record("lazy-consumer-" + mode.decode(), lc, li, lambda c, r: r.startswith("[ "))
        for c, r, k in zip(lc, li, sub):
            if r != impl[k]:
                chk.violate({"kind": "property", "case": lib.show_case(c), "eager": impl[k][:1500], "lazy": r[:1500],
                             "explanation": "a consumer that does not read the members while iterating (mode %s) sees other members or bytes than one that reads each member at once" % mode.decode()})
    # a reader that breaks down behind the global magic (every later read: one byte and an I/O error): whatever that byte is - a
    # newline, as in a member name that starts with one - the iteration ends in the error, never in a clean end of archive
    fc = [("ariterlazy", [cases[k][1][0], b"failone"]) for k in sub]
    fc += [("ariterlazy", [argen.render([argen._member(rng, b"\nx", True, False, b"abc")]), b"failone"])]
    fi = chk.run_impl(fc)
    chk.record("reader-that-fails-after-one-byte", fc, fi, lambda c, r: True)
    for c, r in zip(fc, fi):
        if len(c[1][0]) > 8 and r != "[] err":
            chk.violate({"kind": "property", "case": lib.show_case(c), "impl": r[:300],
                         "explanation": "behind a reader that fails after one byte the iteration did not end in that error (a read error was taken for the end of the archive, or a member was returned)"})
    # the numeric columns are 64-bit on every platform: archives whose members are stamped after 2038 (2^31 ... 10^12-1) through
    # the harness built for GOARCH=386 give what the amd64 build gives
    exe386 = lib.build_harness_386()
    if exe386 is None:
        chk.notes.append("no 32-bit harness could be built or run here: the GOARCH=386 ar stream was skipped")
    else:
        bc = []
        for ts in (b"2147483647", b"2147483648", b"4294967296", b"999999999999", b"253402300799"):
            m = argen._member(rng, b"late", False, False, b"x" * rng.randrange(0, 9))
            m["ts"] = ts
            m2 = argen._member(rng, b"uid", True, False, b"yy"); m2["uid"] = b"999999"; m2["gid"] = b"000099"
            bc.append(("ariter", [argen.render([m, m2])]))
        b64 = chk.run_impl(bc)
        b32 = lib.run_lines(exe386, bc)
        chk.record("columns-on-a-32-bit-platform", bc, b32, lambda c, r: r.startswith("[ "))
        for c, x, y in zip(bc, b64, b32):
            if x != y or not y.endswith(" eof"):
                chk.violate({"kind": "property", "case": lib.show_case(c), "impl": y[:300], "amd64": x[:300], "platform": "GOARCH=386",
                             "explanation": "a well-formed archive whose timestamp column does not fit 32 bits was not read back with its recorded metadata on a 32-bit platform"})
    # archives made by the system ar from the same members
    made = system_ar(chk, rng)
    if made:
        cases = [("ariter", [b]) for b, _ in made]
        impl, model = chk.run_both(cases)
        chk.compare("system-ar-archives", cases, impl, model, nontrivial=lambda c, r: r.startswith("[ "))
        for c, i, (b, files) in zip(cases, impl, made):
            got = [(bytes.fromhex(t.split()[0][1:]), int(t.split()[5])) for t in i.split("( ")[1:]]
            if not i.endswith(" eof") or got != [(n, len(d)) for n, d in files]:
                chk.violate({"kind": "property", "case": lib.show_case(c), "impl": i[:1500], "files": [[n.decode(), len(d)] for n, d in files],
                             "explanation": "an archive written by ar(1) was not read back as its members"})
    chk.assumptions += ["io.ReaderAt is an in-memory buffer (no I/O errors)", "member data is compared by length and Adler-32"]


def system_ar(chk, rng):
    import shutil
    if not shutil.which("ar"):
        chk.notes.append("ar(1) not installed: system-ar stream skipped")
        return []
    out = []
    d = tempfile.mkdtemp(prefix="verif-ar-", dir="/var/tmp")
    try:
        for k in range(chk.n(25, 200)):
            files = []
            for j in range(rng.randrange(1, 5)):
                name = ("f%d_%d" % (k, j)).encode()[:rng.choice([3, 8, 15])]
                if name in [n for n, _ in files]:
                    continue
                data = bytes(rng.randrange(256) for _ in range(rng.choice([0, 1, 2, 61, rng.randrange(300)])))
                with open(os.path.join(d, name.decode()), "wb") as f:
                    f.write(data)
                files.append((name, data))
            arc = os.path.join(d, "t%d.a" % k)
            rc = subprocess.run(["ar", "rc", arc] + [n.decode() for n, _ in files], cwd=d, stderr=subprocess.DEVNULL).returncode
            if rc == 0:
                out.append((open(arc, "rb").read(), files))
            for n, _ in files:
                os.unlink(os.path.join(d, n.decode()))
            if os.path.exists(arc):
                os.unlink(arc)
    finally:
        shutil.rmtree(d, ignore_errors=True)
    return out


def replay(chk, d):
    c = lib.case_from_replay(d)
    i, m = chk.run_both([c])
    print("impl:", i[0][:500], "model:", m[0][:500])
    return 1 if i[0] != m[0] or ("expected" in d and d["expected"] != i[0]) else 0
