(* C04: the architecture-list rejection classes lifted to Parse for the first alternative of a field:
   mixed negation ("[!a b]" / "[a !b]") and a bracket that is never closed. *)
From Coq Require Import List Ascii String Bool Arith NArith Lia.
Require Import A1 D3 D4 D5 D6 D14 D9 D10 D15 D16r.
Import ListNotations.

(* every token is followed by at least one blank (something else follows the run of tokens) *)
Definition seps1 (items : list (arch * str)) : Prop := Forall (fun ew => all_ws (snd ew) /\ snd ew <> []) items.

(* a run of well-formed tokens hands the rest of the text to the same loop, with the tokens accumulated *)
Lemma archs_then nt : forall items acc T r, Forall (wf_archent nt) (map fst items) -> seps1 items ->
  evRes (fun f => archs_loop f {| a_not := (match acc ++ map fst items with [] => false | _ => nt end); a_list := acc ++ map fst items |} T) r ->
  evRes (fun f => archs_loop f {| a_not := (match acc with [] => false | _ => nt end); a_list := acc |} (items_text nt items ++ T)) r.
Proof.
  induction items as [|[e w] items IH]; intros acc T r W Sp H.
  - cbn [items_text map List.concat app] in *. now rewrite app_nil_r in H.
  - cbn [map fst] in W. inversion W as [|? ? We Wl]; subst. inversion Sp as [|? ? [Hw Hwne] Sp']; subst. cbn [snd] in Hw, Hwne.
    assert (H' : evRes (fun f => archs_loop f {| a_not := (match (acc ++ [e]) ++ map fst items with [] => false | _ => nt end);
                                                  a_list := (acc ++ [e]) ++ map fst items |} T) r).
    { cbn [map fst] in H. now rewrite <- app_assoc. }
    destruct (IH (acc ++ [e]) T r Wl Sp' H') as (f0&H0).
    exists (S f0). intros [|f] Hf; [lia|].
    unfold items_text. cbn [map List.concat fst snd]. fold (items_text nt items). rewrite <- !app_assoc.
    assert (Hs : eqc (peek (w ++ items_text nt items ++ T)) 93 || is_ws (peek (w ++ items_text nt items ++ T)) = true).
    { destruct w as [|c w']; [congruence|]. inversion Hw; subst. cbn [app peek].
      match goal with Hc : is_ws c = true |- _ => rewrite Hc end. now rewrite orb_true_r. }
    assert (Hm : w ++ items_text nt items ++ T <> []) by (destruct w; [congruence|discriminate]).
    rewrite (archs_step nt acc e _ f We Hs Hm). rewrite (archs_loop_ws f _ w _ Hw).
    specialize (H0 f ltac:(lia)).
    replace (match acc ++ [e] with [] => false | _ => nt end) with nt in H0 by (destruct acc; reflexivity).
    exact H0.
Qed.

(* the '[' clause fails when the loop over its content does *)
Lemma controllers_archs_err p w w0 X :
  all_ws w -> all_ws w0 -> p_archs p = Some {| a_not := false; a_list := [] |} ->
  evRes (fun f => archs_loop f {| a_not := false; a_list := [] |} X) Err ->
  evRes (fun f => controllers f p (w ++ ch 91 :: w0 ++ X)) Err.
Proof.
  intros Hw Hw0 Hempty (f1&H1). exists (S f1). intros [|f] Hf; [lia|]. cbn [controllers]. rewrite (eat_ws_app w _ Hw).
  cbn [eat_ws]. change (is_ws (ch 91)) with false. cbv iota. cbn [peek].
  change (eqc (ch 91) 44 || eqc (ch 91) 124 || eqc (ch 91) 0) with false. change (eqc (ch 91) 40) with false.
  change (eqc (ch 91) 91) with true. cbv iota. unfold archs_of. rewrite Hempty. cbn [a_list].
  unfold parse_archs. cbn [eat_ws]. change (is_ws (ch 91)) with false. cbv iota. cbn [adv tl].
  rewrite (archs_loop_ws f _ w0 _ Hw0). now rewrite (H1 f ltac:(lia)).
Qed.

Section First.
  Variables (name : str) (q : option arch) (cl : list (str * clause)).
  Hypothesis Hne : name <> [].
  Hypothesis Hc : forallb namec name = true.
  Hypothesis Hd : eqc (peek name) 36 = false.
  Hypothesis Ha : match q with None => True | Some a => forallb mac (arch_string a) = true /\ parse_arch (arch_string a) = a /\ arch_ok (arch_string a) = true end.
  Hypothesis W : clauses_ok (base name q) cl.
  Hypothesis NE : cl <> [].
  Hypothesis Hempty : p_archs (result name q cl) = Some {| a_not := false; a_list := [] |}.

  Lemma lift X w w0 : all_ws w -> all_ws w0 ->
    evRes (fun f => archs_loop f {| a_not := false; a_list := [] |} X) Err ->
    parse (name ++ qual_text q ++ clauses_text cl ++ w ++ ch 91 :: w0 ++ X) = Err.
  Proof.
    intros Hw Hw0 H. apply parse_err_first; try assumption.
    - now apply (clauses_head cl (base name q)).
    - apply clauses_then; [exact W|]. now apply controllers_archs_err.
  Qed.

  (* "foo [!amd64 i386 ...": after one or more tokens of one polarity, a token of the other polarity *)
  Theorem C04_reject_mixed_negation nt items w w0 T : all_ws w -> all_ws w0 -> items <> [] ->
    Forall (wf_archent nt) (map fst items) -> seps1 items ->
    is_ws (peek T) = false -> eqc (peek T) 0 = false -> eqc (peek T) 93 = false -> T <> [] ->
    Bool.eqb nt (eqc (peek T) 33) = false ->
    parse (name ++ qual_text q ++ clauses_text cl ++ w ++ ch 91 :: w0 ++ items_text nt items ++ T) = Err.
  Proof.
    intros Hw Hw0 Hi Wf Sp Nws N0 N93 HT Hmix. apply lift; try assumption.
    apply (archs_then nt items [] T Err Wf Sp). cbn [app].
    replace (match map fst items with [] => false | _ => nt end) with nt by (destruct items; [congruence|reflexivity]).
    exists 1%nat. intros [|f] Hf; [lia|]. cbn [archs_loop]. rewrite (eat_ws_id T Nws).
    destruct T as [|c r]; [congruence|]. cbn [peek] in *. rewrite N0, N93.
    rewrite (reject_mixed_negation {| a_not := nt; a_list := map fst items |} (c :: r)); [reflexivity| | |].
    - cbn [a_list]. destruct items; [congruence|discriminate].
    - exact Nws.
    - exact Hmix.
  Qed.

  (* "foo [amd64 i386", "foo [amd64, bar [i386]": the bracket is not closed - after the tokens (possibly inside a
     name) comes the end of the input (x = []), a separator or a further '[' - whatever x holds behind that *)
  Theorem C04_reject_unterminated_bracket nt items w w0 tail x : all_ws w -> all_ws w0 ->
    Forall (wf_archent nt) (map fst items) -> seps1 items -> forallb archc tail = true -> bad_in_arch (peek x) = true ->
    parse (name ++ qual_text q ++ clauses_text cl ++ w ++ ch 91 :: w0 ++ items_text nt items ++ tail ++ x) = Err.
  Proof.
    intros Hw Hw0 Wf Sp Ht B. apply lift; try assumption.
    apply (archs_then nt items [] (tail ++ x) Err Wf Sp). cbn [app].
    exists 1%nat. intros [|f] Hf; [lia|]. cbn [archs_loop].
    destruct (tail ++ x) as [|c r] eqn:ET; [reflexivity|].
    (* the first byte behind the tokens: of a name, or the byte that ends the clause with an error *)
    assert (Hc0 : is_ws c = false /\ eqc c 93 = false /\ eqc c 33 = false).
    { destruct tail as [|c1 r1].
      - cbn [app] in ET. subst x. cbn [peek] in B. now apply bad_arch_facts.
      - cbn [app] in ET. inversion ET; subst c1 r. cbn in Ht. apply andb_true_iff in Ht as [Hc0 _].
        unfold archc in Hc0. apply negb_true_iff in Hc0. apply orb_false_iff in Hc0 as [Hc1 Cws]. apply orb_false_iff in Hc1 as [Hc1 C93].
        apply orb_false_iff in Hc1 as [_ C33]. auto. }
    destruct Hc0 as (Cws&C93&C33).
    assert (HO : headok (c :: r)) by (unfold headok; cbn; exact Cws).
    rewrite (eat_ws_id _ HO). destruct (eqc c 0); [reflexivity|]. rewrite C93. unfold parse_one_arch. rewrite (eat_ws_id _ HO). cbn [peek]. rewrite C33.
    rewrite <- ET. rewrite (reject_open_bracket tail [] x Ht B).
    destruct (a_list _); [reflexivity|]. destruct (Bool.eqb _ false); reflexivity.
  Qed.
End First.
Print Assumptions C04_reject_mixed_negation.
Print Assumptions C04_reject_unterminated_bracket.

(* "${name" with no closing brace up to the end of the input (first alternative of a field, after any blanks) *)
Theorem C04_reject_unterminated_substvar w nm x : all_ws w -> forallb subc nm = true -> bad_in_substvar (peek x) = true ->
  parse (w ++ ch 36 :: ch 123 :: nm ++ x) = Err.
Proof.
  intros Hw Hn B. unfold parse. rewrite (eat_ws_app w _ Hw).
  remember (List.length (w ++ ch 36 :: ch 123 :: nm ++ x)) as L eqn:EL. clear EL.
  replace (4 * L + 8)%nat with (S (S (S (4 * L + 5))))%nat by lia.
  assert (E0 : eat_ws (ch 36 :: ch 123 :: nm ++ x) = ch 36 :: ch 123 :: nm ++ x) by reflexivity.
  rewrite E0, D4.dependency_loop_S. cbn [peek]. change (eqc (ch 36) 0) with false. change (eqc (ch 36) 44) with false. cbv iota.
  rewrite E0, D4.relation_loop_S. cbn [peek]. change (eqc (ch 36) 0 || eqc (ch 36) 44) with false. change (eqc (ch 36) 124) with false. cbv iota.
  unfold parse_possibility. rewrite E0. cbn [peek]. change (eqc (ch 36) 36) with true. cbv iota.
  unfold parse_substvar. rewrite E0. cbn [adv tl].
  now rewrite (reject_open_substvar nm [] x Hn B).
Qed.
Print Assumptions C04_reject_unterminated_substvar.
