(* C04: the architecture list with any blanks inside the brackets *)
From Coq Require Import List Ascii String Bool Arith NArith Lia.
Require Import A1 D3 D4.
Import ListNotations.

Definition all_ws (w : str) : Prop := Forall (fun c => is_ws c = true) w.
Lemma eat_ws_app w i : all_ws w -> eat_ws (w ++ i) = eat_ws i.
Proof. induction 1 as [|c w Hc _ IH]; [reflexivity|]. cbn [app eat_ws]. now rewrite Hc. Qed.

Lemma archs_loop_ws f st w x : all_ws w -> archs_loop f st (w ++ x) = archs_loop f st x.
Proof. intros H. destruct f; [reflexivity|]. cbn [archs_loop]. now rewrite (eat_ws_app w x H). Qed.

(* one token, then something that starts with a blank or ']' *)
Lemma archs_step nt acc e more f : wf_archent nt e ->
  (eqc (peek more) 93 || is_ws (peek more) = true) -> more <> [] ->
  archs_loop (S f) {| a_not := (match acc with [] => false | _ => nt end); a_list := acc |} (arch_tok nt e ++ more)
  = archs_loop f {| a_not := nt; a_list := acc ++ [e] |} more.
Proof.
  intros We Hs Hm. cbn [archs_loop]. pose proof (tok_headok nt e more We) as HO. rewrite (eat_ws_id _ HO).
  assert (Hhd : exists c r, arch_tok nt e ++ more = c :: r /\ eqc c 0 = false /\ eqc c 93 = false).
  { destruct We as [Hc Hn _]. unfold arch_tok. destruct nt.
    - exists (ch 33), (arch_string e ++ more). repeat split; reflexivity.
    - cbn [app]. destruct (arch_string e) as [|c r]; [now specialize (Hn eq_refl)|]. exists c, (r ++ more).
      cbn in Hc. apply andb_true_iff in Hc as [Hc _]. unfold archc in Hc. apply negb_true_iff in Hc.
      apply orb_false_iff in Hc as [Hc _]. apply orb_false_iff in Hc as [Hc C3]. apply orb_false_iff in Hc as [C1 _].
      apply bad_arch_0 in C1. repeat split; auto. }
  destruct Hhd as (c&r&E&C0&C93). rewrite E. rewrite C0, C93. rewrite <- E.
  rewrite (parse_one_arch_render nt acc e more We (or_intror I) Hs Hm). reflexivity.
Qed.

(* tokens, each followed by its blanks; the blanks may be empty only after the last token *)
Fixpoint seps_ok (items : list (arch * str)) : Prop :=
  match items with
  | [] => True
  | [(_, w)] => all_ws w
  | (_, w) :: r => all_ws w /\ w <> [] /\ seps_ok r
  end.
Definition items_text (nt : bool) (items : list (arch * str)) : str :=
  List.concat (map (fun ew => arch_tok nt (fst ew) ++ snd ew) items).

Lemma seps_head w x : all_ws w -> (eqc (peek (w ++ ch 93 :: x)) 93 || is_ws (peek (w ++ ch 93 :: x)) = true).
Proof. intros H. destruct w as [|c w]; [reflexivity|]. inversion H; subst. cbn [app peek]. rewrite H2. now rewrite orb_true_r. Qed.

Lemma archs_loop_render_ws nt : forall items acc rest,
  Forall (wf_archent nt) (map fst items) -> seps_ok items -> (items <> [] \/ acc <> [] \/ nt = false) ->
  evOk (fun f => archs_loop f {| a_not := (match acc with [] => false | _ => nt end); a_list := acc |}
                  (items_text nt items ++ ch 93 :: rest))
       ({| a_not := (match acc ++ map fst items with [] => false | _ => nt end); a_list := acc ++ map fst items |}, rest).
Proof.
  induction items as [|[e w] items IH]; intros acc rest W Sp Hne.
  - exists 1%nat. intros [|f] Hf; [lia|]. cbn [items_text map List.concat app archs_loop eat_ws].
    change (is_ws (ch 93)) with false. cbv iota. change (eqc (ch 93) 0) with false. change (eqc (ch 93) 93) with true.
    cbv iota. now rewrite app_nil_r.
  - cbn [map fst] in W. inversion W as [|? ? We Wl]; subst.
    assert (NEacc : acc ++ [e] <> []) by (destruct acc; discriminate).
    assert (Hw : all_ws w) by (destruct items as [|[e2 w2] r]; [exact Sp|exact (proj1 Sp)]).
    assert (S' : seps_ok items) by (destruct items as [|[e2 w2] r]; [exact I|exact (proj2 (proj2 Sp))]).
    destruct (IH (acc ++ [e]) rest Wl S' (or_intror (or_introl NEacc))) as (f0&H0).
    exists (S f0). intros [|f] Hf; [lia|].
    unfold items_text. cbn [map List.concat fst snd]. fold (items_text nt items). rewrite <- !app_assoc.
    assert (Hs : eqc (peek (w ++ items_text nt items ++ ch 93 :: rest)) 93 || is_ws (peek (w ++ items_text nt items ++ ch 93 :: rest)) = true).
    { destruct items as [|[e2 w2] r].
      - cbn [items_text map List.concat app]. now apply seps_head.
      - destruct Sp as (Hw1&Hne1&_). destruct w as [|c w']; [congruence|]. inversion Hw1; subst. cbn [app peek].
        match goal with H : is_ws c = true |- _ => rewrite H end. now rewrite orb_true_r. }
    assert (Hm : w ++ items_text nt items ++ ch 93 :: rest <> []).
    { destruct w; [|discriminate]. cbn [app]. destruct (items_text nt items); discriminate. }
    rewrite (archs_step nt acc e _ f We Hs Hm). rewrite (archs_loop_ws f _ w _ Hw).
    specialize (H0 f ltac:(lia)).
    replace (match acc ++ [e] with [] => false | _ => nt end) with nt in H0 by (destruct acc; reflexivity).
    rewrite H0. cbn [map fst]. rewrite <- !app_assoc. reflexivity.
Qed.

Definition archs_text_ws (nt : bool) (w0 : str) (items : list (arch * str)) : str :=
  ch 91 :: w0 ++ items_text nt items ++ [ch 93].

Lemma controllers_archs_ws p nt w0 items more :
  items <> [] -> Forall (wf_archent nt) (map fst items) -> seps_ok items -> all_ws w0 ->
  p_archs p = Some {| a_not := false; a_list := [] |} ->
  forall x, evOk (fun f => controllers f (set_archs p {| a_not := nt; a_list := map fst items |}) more) x ->
  evOk (fun f => controllers f p (ch 32 :: archs_text_ws nt w0 items ++ more)) x.
Proof.
  intros Hne W Sp Hw0 Hempty x (f2&H2).
  destruct (archs_loop_render_ws nt items [] more W Sp (or_introl Hne)) as (f1&H1).
  exists (S (f1 + f2)). intros [|f] Hf; [lia|]. cbn [controllers]. rewrite eat_ws_sp. unfold archs_text_ws. cbn [app eat_ws].
  change (is_ws (ch 91)) with false. cbv iota. cbn [peek].
  change (eqc (ch 91) 44 || eqc (ch 91) 124 || eqc (ch 91) 0) with false. change (eqc (ch 91) 40) with false.
  change (eqc (ch 91) 91) with true. cbv iota. unfold archs_of. rewrite Hempty. cbn [a_list].
  unfold parse_archs. cbn [eat_ws]. change (is_ws (ch 91)) with false. cbv iota. cbn [adv tl].
  rewrite <- !app_assoc. rewrite (archs_loop_ws f _ w0 _ Hw0). cbn [app]. cbn [app] in H1. rewrite (H1 f ltac:(lia)).
  assert (Ea : {| a_not := match map fst items with [] => false | _ :: _ => nt end; a_list := map fst items |} =
               {| a_not := nt; a_list := map fst items |}).
  { destruct items; [congruence|reflexivity]. }
  rewrite Ea. apply H2. lia.
Qed.
Print Assumptions archs_loop_render_ws.
Print Assumptions controllers_archs_ws.

(* ================= profile groups with any blanks inside the angle brackets ================= *)
Lemma stageset_loop_ws f acc w x : all_ws w -> stageset_loop f acc (w ++ x) = stageset_loop f acc x.
Proof. intros H. destruct f; [reflexivity|]. cbn [stageset_loop]. now rewrite (eat_ws_app w x H). Qed.

Lemma stageset_step acc st more f : wf_stage st ->
  (eqc (peek more) 62 || is_ws (peek more) = true) -> more <> [] ->
  stageset_loop (S f) acc (stage_string st ++ more) = stageset_loop f (acc ++ [st]) more.
Proof.
  intros Ws Hs Hm. cbn [stageset_loop]. pose proof (stage_headok st more Ws) as HO. rewrite (eat_ws_id _ HO).
  assert (Hhd : exists c r, stage_string st ++ more = c :: r /\ eqc c 0 = false /\ eqc c 62 = false).
  { destruct Ws as [Hc Hn]. unfold stage_string. destruct (s_not st).
    - exists (ch 33), (s_name st ++ more). repeat split; reflexivity.
    - cbn [app]. destruct (s_name st) as [|c r]; [now specialize (Hn eq_refl)|]. exists c, (r ++ more).
      cbn in Hc. apply andb_true_iff in Hc as [Hc _]. unfold stagec in Hc. apply negb_true_iff in Hc.
      apply orb_false_iff in Hc as [Hc _]. apply orb_false_iff in Hc as [Hc C3]. apply orb_false_iff in Hc as [C1 _].
      apply bad_stage_0 in C1. repeat split; auto. }
  destruct Hhd as (c&r&E&C0&C62). rewrite E. rewrite C0, C62. rewrite <- E.
  rewrite ?(eat_ws_id _ HO). rewrite (stage_render st more Ws Hs Hm). reflexivity.
Qed.

Fixpoint sseps_ok (items : list (stage * str)) : Prop :=
  match items with
  | [] => True
  | [(_, w)] => all_ws w
  | (_, w) :: r => all_ws w /\ w <> [] /\ sseps_ok r
  end.
Definition sitems_text (items : list (stage * str)) : str :=
  List.concat (map (fun sw => stage_string (fst sw) ++ snd sw) items).

Lemma sseps_head w x : all_ws w -> (eqc (peek (w ++ ch 62 :: x)) 62 || is_ws (peek (w ++ ch 62 :: x)) = true).
Proof. intros H. destruct w as [|c w]; [reflexivity|]. inversion H; subst. cbn [app peek]. rewrite H2. now rewrite orb_true_r. Qed.

Lemma stageset_loop_render_ws : forall items acc rest, Forall wf_stage (map fst items) -> sseps_ok items ->
  evOk (fun f => stageset_loop f acc (sitems_text items ++ ch 62 :: rest)) (acc ++ map fst items, rest).
Proof.
  induction items as [|[st w] items IH]; intros acc rest W Sp.
  - exists 1%nat. intros [|f] Hf; [lia|]. cbn [sitems_text map List.concat app stageset_loop eat_ws].
    change (is_ws (ch 62)) with false. cbv iota. change (eqc (ch 62) 0) with false. change (eqc (ch 62) 62) with true.
    cbv iota. now rewrite app_nil_r.
  - cbn [map fst] in W. inversion W as [|? ? Ws Wl]; subst.
    assert (Hw : all_ws w) by (destruct items as [|[e2 w2] r]; [exact Sp|exact (proj1 Sp)]).
    assert (S' : sseps_ok items) by (destruct items as [|[e2 w2] r]; [exact I|exact (proj2 (proj2 Sp))]).
    destruct (IH (acc ++ [st]) rest Wl S') as (f0&H0).
    exists (S f0). intros [|f] Hf; [lia|].
    unfold sitems_text. cbn [map List.concat fst snd]. fold (sitems_text items). rewrite <- !app_assoc.
    assert (Hs : eqc (peek (w ++ sitems_text items ++ ch 62 :: rest)) 62 || is_ws (peek (w ++ sitems_text items ++ ch 62 :: rest)) = true).
    { destruct items as [|[e2 w2] r].
      - cbn [sitems_text map List.concat app]. now apply sseps_head.
      - destruct Sp as (Hw1&Hne1&_). destruct w as [|c w']; [congruence|]. inversion Hw1; subst. cbn [app peek].
        match goal with H : is_ws c = true |- _ => rewrite H end. now rewrite orb_true_r. }
    assert (Hm : w ++ sitems_text items ++ ch 62 :: rest <> []).
    { destruct w; [|discriminate]. cbn [app]. destruct (sitems_text items); discriminate. }
    rewrite (stageset_step acc st _ f Ws Hs Hm). rewrite (stageset_loop_ws f _ w _ Hw).
    rewrite (H0 f ltac:(lia)). cbn [map fst]. rewrite <- !app_assoc. reflexivity.
Qed.

Definition stageset_text_ws (w0 : str) (items : list (stage * str)) : str := ch 60 :: w0 ++ sitems_text items ++ [ch 62].

Lemma controllers_stage_ws p w0 items more x : items <> [] -> Forall wf_stage (map fst items) -> sseps_ok items -> all_ws w0 ->
  evOk (fun f => controllers f (add_stages p (map fst items)) more) x ->
  evOk (fun f => controllers f p (ch 32 :: stageset_text_ws w0 items ++ more)) x.
Proof.
  intros Hne Ws Sp Hw0 (f2&H2).
  destruct (stageset_loop_render_ws items [] more Ws Sp) as (f1&H1).
  exists (S (f1 + f2)). intros [|f] Hf; [lia|].
  unfold stageset_text_ws. cbn [app controllers eat_ws].
  change (is_ws (ch 32)) with true. cbv iota. cbn [eat_ws]. change (is_ws (ch 60)) with false. cbv iota. cbn [peek].
  change (eqc (ch 60) 44 || eqc (ch 60) 124 || eqc (ch 60) 0) with false.
  change (eqc (ch 60) 40) with false. change (eqc (ch 60) 91) with false. change (eqc (ch 60) 60) with true. cbv iota.
  unfold parse_stageset. cbn [eat_ws]. change (is_ws (ch 60)) with false. cbv iota. cbn [adv tl].
  rewrite <- !app_assoc. rewrite (stageset_loop_ws f _ w0 _ Hw0). cbn [app]. cbn [app] in H1. rewrite (H1 f ltac:(lia)).
  destruct (map fst items) as [|s0 st'] eqn:E; [destruct items; [congruence|discriminate]|]. apply H2. lia.
Qed.
Print Assumptions controllers_stage_ws.
