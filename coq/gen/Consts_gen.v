(* GENERATED on every run by driver/srcconsts.py from the source text of /repo - do not edit *)
From Coq Require Import List String NArith.
Import ListNotations.
Open Scope N_scope.

Definition blank : list N := [9; 10; 13; 32].
Definition possi_cases : list (list N) := [[58]; [32; 9; 13; 10; 40; 91; 60]; [44; 124; 0]].
Definition multiarch_stop : list N := [0; 9; 10; 13; 32; 40; 44; 60; 91; 124].
Definition controllers_cases : list (list N) := [[44; 124; 0]; [40]; [91]; [60]].
Definition number_cases : list (list N) := [[0]; [41]; [44; 124; 40]].
Definition arch_cases : list (list N) := [[0]; [33]; [44; 124; 91]; [93; 32; 9; 13; 10]].
Definition stage_cases : list (list N) := [[0]; [33]; [44; 124; 60]; [62; 32; 9; 13; 10]].
Definition substvar_cases : list (list N) := [[0]; [44; 124; 36]; [125]; [44; 124; 0]].
Definition ar_columns : list (N * N) := [(0, 16); (16, 28); (28, 34); (34, 40); (40, 48); (48, 58)].
Definition ar_magic : list (N * N) := [(58, 96); (59, 10)].
Definition ar_header_len : list N := [60].
Definition when_layout : string := "Mon, 2 Jan 2006 15:04:05 -0700"%string.
Definition deb_versions : list (list N) := [[50; 46; 48; 10]].
Definition copy_open_flags : list string := ["O_WRONLY"%string; "O_CREATE"%string; "O_EXCL"%string].
Definition copy_removes_first : bool := true.

