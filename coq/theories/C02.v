(* C02 - Version comparison is a total preorder, so sorting is well defined.
   Property theorems only; each closed by [exact <lemma>]. *)
From Coq Require Import List Ascii String ZArith NArith Lia Bool Arith Permutation Sorted.
Require Import V1 V2 V5 V6 V8 V10.
Import ListNotations.
Open Scope Z_scope.

Theorem C02_reflexive : forall a, vnonul a -> compare a a = 0.
Proof. exact C02_refl. Qed.
Print Assumptions C02_reflexive.

Theorem C02_antisymmetric : forall a b, vnonul a -> vnonul b -> Z.sgn (compare b a) = - Z.sgn (compare a b).
Proof. exact C02_antisym. Qed.
Print Assumptions C02_antisymmetric.

Theorem C02_transitive : forall a b c, vnonul a -> vnonul b -> vnonul c ->
  compare a b <= 0 -> compare b c <= 0 -> compare a c <= 0.
Proof. exact C02_trans. Qed.
Print Assumptions C02_transitive.

Theorem C02_equal_versions_interchangeable : forall a b c, vnonul a -> vnonul b -> vnonul c -> compare a b = 0 ->
  Z.sgn (compare a c) = Z.sgn (compare b c) /\ Z.sgn (compare c a) = Z.sgn (compare c b).
Proof. exact C02_eq_congr. Qed.
Print Assumptions C02_equal_versions_interchangeable.

(* Slice.Less satisfies sort.Sort's contract: a strict weak order *)
Theorem C02_less_strict_weak_order :
  (forall a, vnonul a -> less a a = false) /\
  (forall a b, vnonul a -> vnonul b -> less a b = true -> less b a = false) /\
  (forall a b c, vnonul a -> vnonul b -> vnonul c -> less a b = true -> less b c = true -> less a c = true) /\
  (forall a b c, vnonul a -> vnonul b -> vnonul c ->
     less a b = false -> less b a = false -> less b c = false -> less c b = false ->
     less a c = false /\ less c a = false).
Proof. exact (conj C02_less_irrefl (conj C02_less_asym (conj C02_less_trans C02_incomparable_trans))). Qed.
Print Assumptions C02_less_strict_weak_order.

(* sorting with the same order (stdlib merge sort over leb a b = negb (less b a)) terminates - it is a
   structurally recursive Gallina function - with a non-decreasing permutation of the input *)
Theorem C02_sorting : forall l, Forall vnonul l ->
  Permutation l (VSort.sort l) /\ StronglySorted (fun a b => compare a b <= 0) (VSort.sort l).
Proof. exact C02_sort_compare. Qed.
Print Assumptions C02_sorting.

Theorem C02_sort_order_is_less : forall a b, vnonul a -> vnonul b -> VOrder.leb a b = negb (less b a).
Proof. exact leb_is_not_less. Qed.
Print Assumptions C02_sort_order_is_less.

(* the hypothesis is necessary: with a NUL byte (outside the parser's alphabet) equal versions are not
   interchangeable *)
Theorem C02_needs_no_nul : compare ve vz <= 0 /\ compare vz v1 <= 0 /\ ~ (compare v1 ve <= 0) /\ compare ve v1 < 0 /\ compare vz v1 = 0 /\ compare ve vz = 0.
Proof. exact C02_nul_refuted. Qed.

Example C02_nonvacuous : vnonul {| epoch := 1; upstream := s "1.0~rc1"; revision := s "2" |}.
Proof. split; repeat constructor; discriminate. Qed.
