(* C20: a successful Move - every listed file and the control file is in the destination with the content it had,
   and none of them is left in the source directory; and the history move ; remove through the same handle. *)
From Coq Require Import List Ascii String Bool Arith Lia.
Require Import GS U20 U20b U20c U20d.
Import ListNotations.

Section Move.
  Variable fault : nat -> bool.
  Notation rename_file := (rename_file fault).
  Notation each := U20.each.

  Lemma rename_success src dst x x' : rename_file src dst x = (x', true) -> entry_eqb src dst = false ->
    fs_get dst (fs x') = fs_get src (fs x) /\ fs_get src (fs x) <> None /\ fs_get src (fs x') = None.
  Proof.
    unfold U20.rename_file, step. cbn [fs log tick]. destruct (fs_get src (fs x)) as [content|] eqn:G; [|discriminate].
    destruct (fault (tick x)); [discriminate|]. intros E Hn. inversion E; subst. cbn [fs]. rewrite get_put.
    split; [reflexivity|]. split; [discriminate|]. rewrite get_put_other by (rewrite entry_eqb_sym; exact Hn). apply get_del.
  Qed.

  Lemma each_rename_all : forall names dir dest x x', dir <> dest -> NoDup names ->
    each rename_file dir dest names x = (x', true) ->
    forall n, In n names -> fs_get (dest, n) (fs x') = fs_get (dir, n) (fs x) /\ fs_get (dir, n) (fs x) <> None /\ fs_get (dir, n) (fs x') = None.
  Proof.
    induction names as [|n r IH]; intros dir dest x x' Hd ND E m Hm; [contradiction|]. cbn [U20.each] in E.
    destruct (rename_file (dir, n) (dest, n) x) as [x1 ok1] eqn:C. destruct ok1; [|discriminate].
    inversion ND as [|? ? Hnot ND']; subst.
    destruct (rename_success _ _ _ _ C (entry_neq_fst dir dest n n Hd)) as (G&NE&Gone).
    destruct Hm as [<-|Hm].
    - assert (Fr : forall e, (e = (dest, n) \/ e = (dir, n)) -> fs_get e (fs x') = fs_get e (fs x1)).
      { intros e He. apply (each_rename_frame fault _ _ _ _ _ _ e E). intros k Hk.
        assert (k <> n) by (intros ->; contradiction).
        destruct He as [->| ->]; split; apply entry_neq_snd; assumption. }
      rewrite (Fr (dest, n) (or_introl eq_refl)), (Fr (dir, n) (or_intror eq_refl)). auto.
    - destruct (IH dir dest x1 x' Hd ND' E m Hm) as (G2&NE2&Gone2).
      assert (Nm : m <> n) by (intros ->; contradiction).
      assert (F : fs_get (dir, m) (fs x1) = fs_get (dir, m) (fs x)).
      { apply (rename_frame fault _ _ _ _ _ _ C); apply entry_neq_snd; congruence. }
      rewrite <- F. auto.
  Qed.

  (* C20: a successful Move *)
  Theorem C20_move_identical h dest x x' : h_dir h <> dest -> NoDup (h_listed h) -> ~ In (h_file h) (h_listed h) ->
    do_move fault h dest x = (x', true) ->
    forall n, In n (h_file h :: h_listed h) ->
      fs_get (dest, n) (fs x') = fs_get (h_dir h, n) (fs x) /\ fs_get (h_dir h, n) (fs x) <> None /\ fs_get (h_dir h, n) (fs x') = None.
  Proof.
    intros Hd ND Hnot. unfold do_move, transfer. destruct (negb (listed_ok h)); [discriminate|].
    destruct (each rename_file (h_dir h) dest (h_listed h) x) as [x1 ok1] eqn:EA. destruct ok1; [|discriminate].
    intros C n Hn. destruct (rename_success _ _ _ _ C (entry_neq_fst _ _ _ _ Hd)) as (G&NE&Gone).
    assert (F1 : forall d, fs_get (d, h_file h) (fs x1) = fs_get (d, h_file h) (fs x)).
    { intros d. apply (each_rename_frame fault _ _ _ _ _ _ _ EA). intros k Hk. split; apply entry_neq_snd; intros ->; contradiction. }
    destruct Hn as [<-|Hn].
    - rewrite G, F1. split; [reflexivity|]. split; [now rewrite <- F1|exact Gone].
    - destruct (each_rename_all _ _ _ _ _ Hd ND EA n Hn) as (G2&NE2&Gone2).
      assert (Nn : n <> h_file h) by (intros ->; contradiction).
      assert (Fr : forall d, fs_get (d, n) (fs x') = fs_get (d, n) (fs x1)).
      { intros d. apply (rename_frame fault _ _ _ _ _ _ C); apply entry_neq_snd; congruence. }
      rewrite !Fr. auto.
  Qed.

  (* HISTORY move ; remove through the same handle: nothing is left in either directory *)
  Theorem C20_move_then_remove h dest x x1 x2 : h_dir h <> dest -> NoDup (h_listed h) -> ~ In (h_file h) (h_listed h) ->
    do_move fault h dest x = (x1, true) -> do_remove fault (after h dest true) x1 = (x2, true) ->
    forall n, In n (h_file h :: h_listed h) -> fs_get (dest, n) (fs x2) = None /\ fs_get (h_dir h, n) (fs x2) = None.
  Proof.
    intros Hd ND Hnot M R n Hn. cbn [after] in R.
    destruct (C20_move_identical h dest x x1 Hd ND Hnot M n Hn) as (_&_&Gone). split.
    - exact (C20_remove_success fault (retarget h dest) x1 x2 Hnot R n Hn).
    - rewrite <- Gone. apply (C20_remove_frame fault (retarget h dest) x1 x2 true (h_dir h, n) R). cbn. exact Hd.
  Qed.

  (* entries of other directories are untouched by a move *)
  Theorem C20_move_frame h dest x x' ok e : do_move fault h dest x = (x', ok) -> fst e <> h_dir h -> fst e <> dest ->
    fs_get e (fs x') = fs_get e (fs x).
  Proof.
    intros M H1 H2. destruct e as [d m]. cbn [fst] in H1, H2.
    assert (Ne : forall n, entry_eqb (h_dir h, n) (d, m) = false /\ entry_eqb (dest, n) (d, m) = false).
    { intros n. split; apply entry_neq_fst; congruence. }
    unfold do_move, transfer in M. destruct (negb (listed_ok h)); [inversion M; now subst|].
    destruct (each rename_file (h_dir h) dest (h_listed h) x) as [x1 ok1] eqn:EA.
    assert (F1 : fs_get (d, m) (fs x1) = fs_get (d, m) (fs x)) by (apply (each_rename_frame fault _ _ _ _ _ _ _ EA); intros n _; apply Ne).
    destruct ok1; [|inversion M; now subst]. rewrite <- F1. destruct (Ne (h_file h)) as [A B].
    exact (rename_frame fault _ _ _ _ _ _ M A B).
  Qed.

  (* HISTORY copy ; move through the same handle: the copies travel on to the second destination, the first one is
     empty again and every original is still in place *)
  Theorem C20_copy_then_move h d1 d2 x x1 x2 : h_dir h <> d1 -> h_dir h <> d2 -> d1 <> d2 -> NoDup (h_listed h) -> ~ In (h_file h) (h_listed h) ->
    do_copy fault h d1 x = (x1, true) -> do_move fault (after h d1 true) d2 x1 = (x2, true) ->
    forall n, In n (h_file h :: h_listed h) ->
      fs_get (d2, n) (fs x2) = fs_get (h_dir h, n) (fs x) /\ fs_get (h_dir h, n) (fs x) <> None /\
      fs_get (d1, n) (fs x2) = None /\ fs_get (h_dir h, n) (fs x2) = fs_get (h_dir h, n) (fs x).
  Proof.
    intros H1 H2 H12 ND Hnot C M n Hn. cbn [after] in M.
    destruct (C20_copy_identical fault h d1 x x1 H1 ND Hnot C n Hn) as (G1&NE&Same).
    destruct (C20_move_identical (retarget h d1) d2 x1 x2 H12 ND Hnot M n Hn) as (G2&_&Gone). cbn [retarget h_dir] in G2, Gone.
    split; [now rewrite G2, G1|]. split; [exact NE|]. split; [exact Gone|].
    rewrite <- Same. apply (C20_move_frame (retarget h d1) d2 x1 x2 true (h_dir h, n) M); cbn; congruence.
  Qed.
End Move.
Print Assumptions C20_move_identical.
Print Assumptions C20_move_then_remove.
Print Assumptions C20_copy_then_move.
