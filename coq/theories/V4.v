(* C03, the other two parts: every rendering of a grammar triple parses to its parts; near-misses are rejected *)
From Coq Require Import List Ascii String Bool Arith NArith ZArith Lia.
Require Import GS V3.
Import ListNotations.

(* surrounding whitespace is ignored *)
Lemma trim_space_wrap w1 x w2 : all_space w1 -> all_space w2 -> x <> [] -> forallb nosp x = true ->
  trim_space (w1 ++ x ++ w2) = x.
Proof.
  intros H1 H2 Hne Hx. unfold trim_space. rewrite trim_left_ws by exact H1.
  destruct (nosp_trim x Hx) as [T _].
  assert (L : trim_left (x ++ w2) = x ++ w2).
  { apply trim_left_id. destruct x as [|c r]; [congruence|]. cbn in *. apply andb_true_iff in Hx as [Hc _]. now apply negb_true_iff in Hc. }
  rewrite L. rewrite trim_right_ws by exact H2. apply trim_right_id.
  unfold no_trail. assert (R : forallb nosp (rev x) = true) by (rewrite forallb_forall in *; intros c Hc; apply Hx; now apply in_rev).
  assert (Rne : rev x <> []) by (intros E; apply Hne; now rewrite <- (rev_involutive x), E).
  destruct (rev x) as [|c r]; [congruence|]. cbn in R. apply andb_true_iff in R as [Rc _]. now apply negb_true_iff in Rc.
Qed.

Lemma to_string_nosp v : wf_v v -> to_string v <> [] /\ forallb nosp (to_string v) = true.
Proof.
  intros [He (c0&r0&Hup&Hd0) Hu Hr]. 
  assert (W : forallb nosp (without_epoch v) = true /\ without_epoch v <> []).
  { unfold without_epoch. split.
    - rewrite forallb_app. apply andb_true_iff. split; [apply (class_nosp ok_up); [apply ok_up_facts|exact Hu]|].
      destruct (_ || _); [|reflexivity]. cbn [forallb]. apply andb_true_iff. split; [reflexivity|].
      eapply forallb_impl; [|exact Hr]. intros c Pc. pose proof (ok_rev_facts c) as F. rewrite Pc in F. cbn in F.
      repeat (apply andb_true_iff in F as [F ?]). exact F.
    - rewrite Hup. discriminate. }
  destruct W as [W1 W2]. unfold to_string. destruct (_ || _).
  - split; [destruct (itoa (epoch v)); discriminate|]. rewrite forallb_app. destruct (digits_class _ (itoa_digits (epoch v))) as (D&_).
    rewrite D. cbn. exact W1.
  - split; assumption.
Qed.

(* C03, first part: the canonical rendering of a well-formed (epoch, upstream, revision), wrapped in any
   whitespace, parses to exactly those parts *)
Theorem C03_parse_grammar v w1 w2 : wf_v v -> all_space w1 -> all_space w2 ->
  parse (w1 ++ to_string v ++ w2) = Some v.
Proof.
  intros W H1 H2. destruct (to_string_nosp v W) as [Hne Hn].
  pose proof (roundtrip_wf v W) as R. unfold parse in *.
  rewrite (trim_space_wrap w1 (to_string v) w2 H1 H2 Hne Hn).
  destruct (nosp_trim (to_string v) Hn) as [T _]. rewrite T in R. exact R.
Qed.

(* C03, second part: near-misses are rejected *)
Theorem C03_reject_empty w : all_space w -> parse w = None.
Proof. intros H. unfold parse. rewrite (trim_space_all w H). reflexivity. Qed.

Theorem C03_reject_embedded_space a b c : is_space c = true -> a <> [] -> b <> [] ->
  forallb nosp a = true -> forallb nosp b = true -> parse (a ++ c :: b) = None.
Proof.
  intros Hc Ha Hb Na Nb. unfold parse.
  assert (T : trim_space (a ++ c :: b) = a ++ c :: b).
  { apply trim_space_id.
    - destruct a as [|x a']; [congruence|]. cbn in *. apply andb_true_iff in Na as [Nx _]. now apply negb_true_iff in Nx.
    - unfold no_trail. rewrite rev_app_distr. cbn [rev]. rewrite <- app_assoc.
      assert (R : forallb nosp (rev b) = true) by (rewrite forallb_forall in *; intros x Hx; apply Nb; now apply in_rev).
      assert (Rne : rev b <> []) by (intros E; apply Hb; now rewrite <- (rev_involutive b), E).
      destruct (rev b) as [|x r]; [congruence|]. cbn in *. apply andb_true_iff in R as [Rx _]. now apply negb_true_iff in Rx. }
  rewrite T. destruct (str_eqb_spec (a ++ c :: b) []) as [E|_]; [destruct a; discriminate|].
  assert (X : existsb is_space (a ++ c :: b) = true) by (apply existsb_exists; exists c; split; [apply in_or_app; right; now left|exact Hc]).
  now rewrite X.
Qed.

Example C03_rejects : forall x, In x (map s ["a:0-0"; "-1:0-1"; "18446744073709551616:0-1"; "+1:1.0"; "-0:1.0"; "1:"; "0:0 0-1"; "a1"; "0:abc3-0"; "1.0_2"; "1.0-1_2"; "0:0-0:0"; "-"; "1:-"]%string) -> parse x = None.
Proof. intros x H. repeat (destruct H as [<-|H]; [vm_compute; reflexivity|]). contradiction. Qed.
Print Assumptions C03_parse_grammar.
