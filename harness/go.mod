module verif/harness

go 1.19

require pault.ag/go/debian v0.0.0

replace pault.ag/go/debian => /repo
