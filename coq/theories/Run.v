(* One entry point for the correspondence check: [run op args] evaluates a model (or spec)
   function on hex-encoded arguments and renders the result canonically (Show.v).
   It is extracted to OCaml (ocaml/modelrun) and also evaluated inside Coq by vm_compute on
   a sample of every run (the in-kernel sample), so the extraction itself is checked. *)
From Coq Require Import List Ascii String Bool Arith NArith ZArith.
Require Import Show.
Require V1 V5 V6 V3 V11.
Import ListNotations.
Open Scope string_scope.
Open Scope list_scope.

Definition nth_arg (n : nat) (args : list str) : str := nth n args [].

(* ---- version: C01 C02 C03 ---- *)
Definition mkv6 (e u r : str) : V6.version :=
  {| V6.epoch := arg_N e; V6.upstream := u; V6.revision := r |}.
Definition mkv3 (e u r : str) : V3.version :=
  {| V3.epoch := arg_N e; V3.upstream := u; V3.revision := r |}.
Definition show_v3 (v : V3.version) : str :=
  unwords [show_N (V3.epoch v); hx (V3.upstream v); hx (V3.revision v)].

Definition show_v6 (v : V6.version) : str :=
  unwords [show_N (V6.epoch v); hx (V6.upstream v); hx (V6.revision v)].
Fixpoint triples (a : list str) : list V6.version :=
  match a with e :: u :: r :: rest => mkv6 e u r :: triples rest | _ => [] end.
Fixpoint nondecreasing (l : list V6.version) : bool :=
  match l with
  | a :: ((b :: _) as r) => (V6.compare a b <=? 0)%Z && nondecreasing r
  | _ => true
  end.

Definition run_version (op : string) (a : list str) : option str :=
  let g n := nth_arg n a in
  if op =? "vcmp" then Some (show_sgn (V6.compare (mkv6 (g 0) (g 1) (g 2)) (mkv6 (g 3) (g 4) (g 5))))
  else if op =? "vless" then Some (show_bool (V6.less (mkv6 (g 0) (g 1) (g 2)) (mkv6 (g 3) (g 4) (g 5))))
  else if op =? "vkey" then Some (show_cmp (V6.key_cmp (mkv6 (g 0) (g 1) (g 2)) (mkv6 (g 3) (g 4) (g 5))))
  else if op =? "vpolicy" then
    Some (show_cmp (V5.policy_cmp (S (List.length (g 0) + List.length (g 1))) (g 0) (g 1)))
  else if op =? "vrevcmp" then Some (show_sgn (V6.vcmp (g 0) (g 1)))
  else if op =? "vparse" then
    Some (match V11.parse_u (g 0) with Some v => lit "ok " ++ show_v3 v | None => lit "err" end)
  else if op =? "vstring" then Some (hx (V3.to_string (mkv3 (g 0) (g 1) (g 2))))
  else if op =? "vroundtrip" then
    Some (match V11.parse_u (g 0) with
          | None => lit "err"
          | Some v => let t := V3.to_string v in
                      lit "ok " ++ hx t ++ sp1 ++
                      match V11.parse_u t with Some w => lit "ok " ++ show_v3 w | None => lit "err" end
          end)
  else if op =? "vforms" then
    Some (match V11.parse_u (g 0) with
          | None => lit "err"
          | Some v => let t := V3.to_string v in
                      let back := match V11.parse_u t with Some w => show_v3 w | None => lit "err" end in
                      lit "ok " ++ hx t ++ sp1 ++ hx t ++ sp1 ++ show_list (fun x => x) [back; back; back; back]
          end)
  else if op =? "vparse_ascii" then
    Some (match V3.parse (g 0) with Some v => lit "ok " ++ show_v3 v | None => lit "err" end)
  else if op =? "vsort" then Some (show_list (fun v => lit "( " ++ show_v6 v ++ lit " )") (V6.VSort.sort (triples a)))
  else if op =? "vsorted" then Some (show_bool (nondecreasing (triples a)))
  else None.

Definition run (op : string) (hexargs : list str) : str :=
  let a := map unhex hexargs in
  match run_version op a with Some r => r | None =>
  lit "unknown-op" end.
