package main

import (
	"strings"

	"pault.ag/go/debian/dependency"
	"pault.ag/go/debian/version"
)

func showArch(a dependency.Arch) string { return hx(a.ABI) + " " + hx(a.OS) + " " + hx(a.CPU) }

func showArchSet(s dependency.ArchSet) string {
	items := []string{}
	for _, a := range s.Architectures {
		items = append(items, "( "+showArch(a)+" )")
	}
	return showBool(s.Not) + " " + showList(items)
}

func showPossi(p dependency.Possibility) string {
	parts := []string{"{", hx(p.Name)}
	if p.Arch != nil {
		parts = append(parts, showOpt(true, showArch(*p.Arch)))
	} else {
		parts = append(parts, "-")
	}
	if p.Architectures != nil {
		parts = append(parts, showOpt(true, showArchSet(*p.Architectures)))
	} else {
		parts = append(parts, "-")
	}
	sets := []string{}
	for _, ss := range p.StageSets {
		st := []string{}
		for _, s := range ss.Stages {
			st = append(st, "( "+showBool(s.Not)+" "+hx(s.Name)+" )")
		}
		sets = append(sets, showList(st))
	}
	parts = append(parts, showList(sets))
	if p.Version != nil {
		parts = append(parts, showOpt(true, hx(p.Version.Operator)+" "+hx(p.Version.Number)))
	} else {
		parts = append(parts, "-")
	}
	parts = append(parts, showBool(p.Substvar), "}")
	return strings.Join(parts, " ")
}

func showPossis(ps []dependency.Possibility) string {
	items := []string{}
	for _, p := range ps {
		items = append(items, showPossi(p))
	}
	return showList(items)
}

func showDep(d *dependency.Dependency) string {
	rels := []string{}
	for _, r := range d.Relations {
		rels = append(rels, showPossis(r.Possibilities))
	}
	return showList(rels)
}

func showDres(d *dependency.Dependency, err error) string {
	if err != nil {
		if d != nil {
			return "err-with-value"
		}
		return "err"
	}
	if d == nil {
		return "ok-nil"
	}
	return "ok " + showDep(d)
}

func mkArch(a []string, i int) dependency.Arch {
	return dependency.Arch{ABI: arg(a, i), OS: arg(a, i+1), CPU: arg(a, i+2)}
}

func init() {
	ops["dparse"] = func(a []string) string { return showDres(dependency.Parse(arg(a, 0))) }
	ops["dstring"] = func(a []string) string {
		d, err := dependency.Parse(arg(a, 0))
		if err != nil {
			return "err"
		}
		return "ok " + hx(d.String())
	}
	ops["drt"] = func(a []string) string {
		d, err := dependency.Parse(arg(a, 0))
		if err != nil {
			return "err"
		}
		t := d.String()
		return "ok " + hx(t) + " " + showDres(dependency.Parse(t))
	}
	// the same through the control-field interface
	ops["dcontrol"] = func(a []string) string {
		var d dependency.Dependency
		if err := d.UnmarshalControl(arg(a, 0)); err != nil {
			return "err"
		}
		t, err := d.MarshalControl()
		if err != nil {
			return "marshal-err"
		}
		var e dependency.Dependency
		err = e.UnmarshalControl(t)
		if err != nil {
			return "ok " + hx(t) + " err"
		}
		return "ok " + hx(t) + " ok " + showDep(&e)
	}
	// dreuse a b: UnmarshalControl(b) into a receiver that already holds the parse of a - the result is the parse of b
	ops["dreuse"] = func(a []string) string {
		var d dependency.Dependency
		d.UnmarshalControl(arg(a, 0))
		if err := d.UnmarshalControl(arg(a, 1)); err != nil {
			return "err"
		}
		return "ok " + showDep(&d)
	}
	ops["areuse"] = func(a []string) string {
		var x dependency.Arch
		x.UnmarshalControl(arg(a, 0))
		if err := x.UnmarshalControl(arg(a, 1)); err != nil {
			return "err"
		}
		return showArch(x)
	}
	ops["aparse"] = func(a []string) string {
		x, err := dependency.ParseArch(arg(a, 0))
		if err != nil {
			return "err"
		}
		return showArch(*x)
	}
	ops["alist"] = func(a []string) string {
		xs, err := dependency.ParseArchitectures(arg(a, 0))
		if err != nil {
			if xs != nil {
				return "err-with-value"
			}
			return "err"
		}
		items := []string{}
		for _, x := range xs {
			items = append(items, "( "+showArch(x)+" )")
		}
		return "ok " + showList(items)
	}
	ops["astring"] = func(a []string) string { return hx(mkArch(a, 0).String()) }
	ops["art"] = func(a []string) string {
		x, err := dependency.ParseArch(arg(a, 0))
		if err != nil {
			return "err"
		}
		t := x.String()
		y, err := dependency.ParseArch(t)
		if err != nil {
			return showArch(*x) + " " + hx(t) + " err"
		}
		return showArch(*x) + " " + hx(t) + " " + showArch(*y)
	}
	// Arch.UnmarshalControl into a zero receiver, then MarshalControl
	ops["acontrol"] = func(a []string) string {
		var x dependency.Arch
		if err := x.UnmarshalControl(arg(a, 0)); err != nil {
			return "err"
		}
		t, _ := x.MarshalControl()
		var y dependency.Arch
		if err := y.UnmarshalControl(t); err != nil {
			return showArch(x) + " " + hx(t) + " err"
		}
		return showArch(x) + " " + hx(t) + " " + showArch(y)
	}
	ops["ais"] = func(a []string) string {
		x, y := mkArch(a, 0), mkArch(a, 3)
		return showBool(x.Is(&y))
	}
	ops["awild"] = func(a []string) string { x := mkArch(a, 0); return showBool(x.IsWildcard()) }
	ops["amatch"] = func(a []string) string {
		set := dependency.ArchSet{Not: arg(a, 0) == "1"}
		for i := 4; i+2 < len(a); i += 3 {
			set.Architectures = append(set.Architectures, mkArch(a, i))
		}
		t := mkArch(a, 1)
		return showBool(set.Matches(&t))
	}
	ops["dposs"] = func(a []string) string {
		d, err := dependency.Parse(arg(a, 0))
		if err != nil {
			return "err"
		}
		return "ok " + showPossis(d.GetPossibilities(mkArch(a, 1)))
	}
	ops["dall"] = func(a []string) string {
		d, err := dependency.Parse(arg(a, 0))
		if err != nil {
			return "err"
		}
		return "ok " + showPossis(d.GetAllPossibilities())
	}
	ops["dsubst"] = func(a []string) string {
		d, err := dependency.Parse(arg(a, 0))
		if err != nil {
			return "err"
		}
		return "ok " + showPossis(d.GetSubstvars())
	}
	ops["vsat"] = func(a []string) string {
		vr := dependency.VersionRelation{Operator: arg(a, 0), Number: arg(a, 1)}
		v := version.Version{Epoch: argUint(arg(a, 2)), Version: arg(a, 3), Revision: arg(a, 4)}
		return showBool(vr.SatisfiedBy(v))
	}
	// names as they reach Is(): parsed with ParseArch
	ops["aisnames"] = func(a []string) string {
		x, err := dependency.ParseArch(arg(a, 0))
		if err != nil {
			return "err"
		}
		y, err := dependency.ParseArch(arg(a, 1))
		if err != nil {
			return "err"
		}
		return showBool(x.Is(y)) + " " + showBool(y.Is(x))
	}
}
