(* C05 (dependencies): the full round-trip theorem for the repaired parser/renderer *)
From Coq Require Import List Ascii String ZArith NArith Lia Bool Arith.
Require A1.
Require Import D3 D4 D5 D6 D7.
Import ListNotations.

Lemma zero_arch_false a : zero_arch a = false -> ~ A1.zero_arch a.
Proof.
  unfold zero_arch, A1.zero_arch, seq, abi, os, cpu. intros H (E1&E2&E3). rewrite E1, E2, E3 in H.
  destruct (list_eq_dec ascii_dec [] []); [discriminate|congruence].
Qed.

Lemma mac_lits : mac A1.dash = true /\ forallb mac A1.gnu = true /\ forallb mac A1.linux = true /\ forallb mac A1.any = true.
Proof. repeat split; reflexivity. Qed.
Lemma archc_lits : archc A1.dash = true /\ forallb archc A1.gnu = true /\ forallb archc A1.linux = true /\ forallb archc A1.any = true.
Proof. repeat split; reflexivity. Qed.

Lemma arch_ok_not_zero w : arch_ok w = true -> ~ A1.zero_arch (parse_arch w).
Proof. apply A1.arch_ok_not_zero. Qed.

(* what the parser produced is well formed: since names with an empty component are refused, every architecture in
   the value came from a name that renders back to itself *)
Lemma good_wf p : good p -> wf_any p.
Proof.
  intros [[I Hne]|W]; [left|right; exact W].
  destruct I as [A B C D (a&Ea&(S1&S2)) G H].
  constructor; auto.
  - destruct (p_arch p) as [q|]; [|exact I]. destruct D as (w&Hw&Ok&->).
    destruct mac_lits as (M1&M2&M3&M4). destruct (A1.arch_roundtrip_ok w Ok) as [O R]. split; [|split].
    + apply (arch_src_chars mac M1 M2 M3 M4 w Hw).
    + exact R.
    + exact O.
  - exists a. split; [exact Ea|]. split; [exact S1|].
    rewrite Forall_forall in *. intros e He. destruct (S2 e He) as (w&Hw&Ok&->).
    destruct archc_lits as (M1&M2&M3&M4). destruct (A1.arch_roundtrip_ok w Ok) as [O R]. constructor.
    + apply (arch_src_chars archc M1 M2 M3 M4 w Hw).
    + intros _ E. apply arch_string_nonempty in E. now apply (arch_ok_not_zero w Ok).
    + exact R.
    + exact O.
Qed.

Lemma good_dep_wf d : Forall good_rel d -> wf_dep d.
Proof.
  intros G. unfold wf_dep, wf_rel. rewrite Forall_forall in *. intros r Hr. destruct (G r Hr) as [Hne Gr].
  split; [exact Hne|]. rewrite Forall_forall in *. intros p Hp. apply good_wf. now apply Gr.
Qed.

(* C05: for EVERY string the dependency parser accepts, the rendered form is accepted and parses to the same value *)
Theorem C05_dep_roundtrip x d : parse x = Ok d -> parse (dep_string d) = Ok d.
Proof. intros P. apply C05_partB. apply good_dep_wf. eapply parse_good; eauto. Qed.

(* ... so rendering reaches a fixpoint in one step *)
Corollary C05_fixpoint x d : parse x = Ok d ->
  forall d2, parse (dep_string d) = Ok d2 -> dep_string d2 = dep_string d.
Proof. intros P d2 E. rewrite (C05_dep_roundtrip x d P) in E. now inversion E. Qed.

Print Assumptions C05_dep_roundtrip.
