(* Go string helpers over list ascii, with the lemmas later proofs use. *)
From Coq Require Import List Ascii String Bool Arith Lia.
Import ListNotations.

Definition str := list ascii.
Definition s (x : string) : str := list_ascii_of_string x.
Definition code (c : ascii) : nat := nat_of_ascii c.
Definition ceq (a b : ascii) : bool := if ascii_dec a b then true else false.
Lemma ceq_spec a b : reflect (a = b) (ceq a b).
Proof. unfold ceq. destruct (ascii_dec a b); constructor; auto. Qed.
Definition str_eqb (a b : str) : bool := if list_eq_dec ascii_dec a b then true else false.
Lemma str_eqb_spec a b : reflect (a = b) (str_eqb a b).
Proof. unfold str_eqb. destruct (list_eq_dec ascii_dec a b); constructor; auto. Qed.

Definition nl : ascii := ascii_of_nat 10.
Definition cr : ascii := ascii_of_nat 13.
Definition sp : ascii := " "%char.
Definition tab : ascii := ascii_of_nat 9.

(* unicode.IsSpace restricted to one-byte runes *)
Definition is_space (c : ascii) : bool :=
  let n := code c in (n =? 9) || (n =? 10) || (n =? 11) || (n =? 12) || (n =? 13) || (n =? 32).

(* ---------- split / join on one byte ---------- *)
Fixpoint split_on (d : ascii) (cur : str) (x : str) : list str :=
  match x with
  | [] => [rev cur]
  | c :: r => if ceq c d then rev cur :: split_on d [] r else split_on d (c :: cur) r
  end.
Definition split (d : ascii) (x : str) : list str := split_on d [] x.

Fixpoint join (d : str) (l : list str) : str :=
  match l with
  | [] => []
  | [x] => x
  | x :: r => x ++ d ++ join d r
  end.

Definition free (d : ascii) (x : str) : Prop := Forall (fun c => c <> d) x.

Lemma split_on_word d : forall w cur rest, free d w ->
  split_on d cur (w ++ rest) = split_on d (rev w ++ cur) rest.
Proof.
  induction w as [|c w IH]; intros cur rest H; [reflexivity|].
  inversion H as [|? ? Hc Hw]; subst. cbn [app split_on].
  destruct (ceq_spec c d); [contradiction|]. rewrite IH by assumption. cbn [rev]. now rewrite <- app_assoc.
Qed.

Lemma split_one d w : free d w -> split d w = [w].
Proof.
  intros H. unfold split. rewrite <- (app_nil_r w) at 1. rewrite split_on_word by assumption.
  cbn. now rewrite app_nil_r, rev_involutive.
Qed.

Lemma split_cons d w rest : free d w -> split d (w ++ d :: rest) = w :: split d rest.
Proof.
  intros H. unfold split. rewrite split_on_word by assumption. cbn [split_on].
  destruct (ceq_spec d d); [|congruence]. now rewrite app_nil_r, rev_involutive.
Qed.

Theorem split_join d l : l <> [] -> Forall (free d) l -> split d (join [d] l) = l.
Proof.
  induction l as [|x r IH]; [congruence|]. intros _ H. inversion H as [|? ? Hx Hr]; subst.
  destruct r as [|y r'].
  - cbn. now apply split_one.
  - change (join [d] (x :: y :: r')) with (x ++ [d] ++ join [d] (y :: r')).
    cbn [app]. rewrite split_cons by assumption. f_equal. apply IH; [discriminate|assumption].
Qed.

Lemma split_nonempty d x : split d x <> [].
Proof.
  unfold split. generalize (@nil ascii). induction x as [|c r IH]; intros cur; cbn; [discriminate|].
  destruct (ceq c d); [discriminate|apply IH].
Qed.

Lemma split_free d x : Forall (free d) (split d x).
Proof.
  unfold split. assert (G : forall cur, free d cur -> Forall (free d) (split_on d cur x)).
  { induction x as [|c r IH]; intros cur Hc; cbn.
    - constructor; [|constructor]. unfold free in *. now apply Forall_rev.
    - destruct (ceq_spec c d).
      + constructor; [unfold free in *; now apply Forall_rev|]. apply IH. constructor.
      + apply IH. constructor; auto. }
  apply G. constructor.
Qed.

Theorem join_split d x : join [d] (split d x) = x.
Proof.
  unfold split.
  assert (G : forall cur, join [d] (split_on d cur x) = rev cur ++ x).
  { induction x as [|c r IH]; intros cur; cbn [split_on].
    - cbn. now rewrite app_nil_r.
    - destruct (ceq_spec c d) as [->|].
      + specialize (IH []). cbn [rev app] in IH.
        destruct (split_on d [] r) as [|y l] eqn:E.
        * exfalso. apply (split_nonempty d r). exact E.
        * change (join [d] (rev cur :: y :: l)) with (rev cur ++ [d] ++ join [d] (y :: l)).
          now rewrite IH.
      + rewrite IH. cbn [rev]. now rewrite <- app_assoc. }
  apply (G []).
Qed.

(* ---------- trimming ---------- *)
Fixpoint trim_left (x : str) : str :=
  match x with c :: r => if is_space c then trim_left r else x | [] => [] end.
Definition trim_right (x : str) : str := rev (trim_left (rev x)).
Definition trim_space (x : str) : str := trim_right (trim_left x).

Definition no_lead (x : str) : Prop := match x with c :: _ => is_space c = false | [] => True end.
Definition no_trail (x : str) : Prop := no_lead (rev x).

Lemma trim_left_id x : no_lead x -> trim_left x = x.
Proof. destruct x as [|c r]; cbn; [auto|]. now intros ->. Qed.
Lemma trim_right_id x : no_trail x -> trim_right x = x.
Proof. intros H. unfold trim_right. rewrite trim_left_id by exact H. apply rev_involutive. Qed.
Lemma trim_space_id x : no_lead x -> no_trail x -> trim_space x = x.
Proof. intros H1 H2. unfold trim_space. now rewrite trim_left_id, trim_right_id. Qed.

Definition all_space (w : str) : Prop := Forall (fun c => is_space c = true) w.
Lemma trim_left_ws w x : all_space w -> trim_left (w ++ x) = trim_left x.
Proof. induction 1 as [|c w Hc Hw IH]; [reflexivity|]. cbn. now rewrite Hc. Qed.
Lemma trim_right_ws w x : all_space w -> trim_right (x ++ w) = trim_right x.
Proof.
  intros H. unfold trim_right. rewrite rev_app_distr, trim_left_ws; [reflexivity|].
  unfold all_space in *. now apply Forall_rev.
Qed.
Lemma trim_left_all w : all_space w -> trim_left w = [].
Proof. intros H. rewrite <- (app_nil_r w). now rewrite trim_left_ws. Qed.
Lemma trim_space_all w : all_space w -> trim_space w = [].
Proof. intros H. unfold trim_space. now rewrite trim_left_all. Qed.

Lemma no_lead_trim_left x : no_lead (trim_left x).
Proof. induction x as [|c r IH]; cbn; [exact I|]. destruct (is_space c) eqn:E; [exact IH|exact E]. Qed.

Definition has_prefix (p x : str) : bool := str_eqb (firstn (List.length p) x) p.
Definition has_suffix (p x : str) : bool := has_prefix (rev p) (rev x).
Definition trim_suffix (p x : str) : str :=
  if has_suffix p x then firstn (List.length x - List.length p) x else x.

(* bufio ReadString('\n') loop with the "last line may lack its newline" rule:
   the lines, without their newline *)
Definition lines_of (x : str) : list str :=
  match x with
  | [] => []
  | _ => let l := split nl x in
         match rev l with
         | [] :: r => rev r           (* text ended in a newline *)
         | _ => l
         end
  end.
