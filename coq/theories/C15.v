(* C15 - ar and .deb readers terminate and stay consistent on arbitrary bytes.
   Property theorems only; every statement is for ANY byte string. *)
From Coq Require Import List Ascii String Bool Arith ZArith Lia.
Require Import GS AR AR2 AR3 D16 DEB.
Import ListNotations.

(* a returned member consumed at least 60 bytes; its header carries both magic bytes; its size is
   non-negative; its reader delivers exactly that many bytes *)
Theorem C15_step : forall buf off e off', ar_next buf off = NEntry e off' ->
  off + 60 <= List.length buf /\ off + 60 <= off' /\
  nth (off + 58) buf zero = bq /\ nth (off + 59) buf zero = nl /\
  (0 <= e_size e)%Z /\ List.length (data_of buf e) = Z.to_nat (e_size e) /\
  off' <= List.length buf + 1 /\ e_hdr e = off.
Proof. exact C15_progress. Qed.
Print Assumptions C15_step.

(* at most one step per 60 input bytes *)
Theorem C15_step_bound : forall buf es clean, ar_open buf = Some (es, clean) ->
  8 + 60 * List.length es <= List.length buf + 1 \/ es = [].
Proof. exact C15_open_steps. Qed.

(* the loop always finishes: with one unit of fuel per input byte it never runs out, so the only outcomes
   are "not an ar archive", end-of-archive, or an error *)
Theorem C15_terminates_any_bytes : forall buf, iterate (S (List.length buf)) buf 8 <> None.
Proof. exact C15_open_total. Qed.
Print Assumptions C15_terminates_any_bytes.

Theorem C15_members_consistent : forall buf es clean e, ar_open buf = Some (es, clean) -> In e es ->
  nth (e_hdr e + 58) buf zero = bq /\ nth (e_hdr e + 59) buf zero = nl /\
  (0 <= e_size e)%Z /\ List.length (data_of buf e) = Z.to_nat (e_size e).
Proof. exact C15_open_members. Qed.
Print Assumptions C15_members_consistent.

(* as a package: the outcome does not depend on the order in which the member map is walked (pick1, pick2:
   any two choice functions), and a package is only built from members that came out of consistent headers.
   tar, the decompressors and the control decoder are parameters (oracles). *)
Theorem C15_deb_same_outcome : forall (ctl : Type) untar decompress path_clean (decode_control : str -> option ctl) ext_of is_tarfile pick1 pick2 buf,
  (forall l m, pick1 l = Some m -> In m l) -> (forall l m, pick2 l = Some m -> In m l) ->
  (forall l, l <> [] -> pick1 l <> None) -> (forall l, l <> [] -> pick2 l <> None) ->
  open_deb ctl untar decompress path_clean decode_control ext_of is_tarfile pick1 buf =
  open_deb ctl untar decompress path_clean decode_control ext_of is_tarfile pick2 buf.
Proof. exact C15_deb_deterministic. Qed.
Print Assumptions C15_deb_same_outcome.
Theorem C15_deb_from_consistent_members : forall (ctl : Type) untar decompress path_clean (decode_control : str -> option ctl) ext_of is_tarfile pick buf d,
  open_deb ctl untar decompress path_clean decode_control ext_of is_tarfile pick buf = Some d ->
  exists es, ar_open buf = Some (es, true) /\ d_members ctl d = members_of buf es.
Proof. exact C15_deb_members. Qed.
