(* Canonical, printable rendering of model results.  The Go harness (harness/cmd/implrun)
   prints the implementation's results in exactly the same format, so the correspondence
   check is a line-by-line comparison.  Everything here is executable; nothing is proved
   about it (a printing bug shows up as a disagreement, never as a false theorem). *)
From Coq Require Import List Ascii String Bool Arith NArith ZArith.
Import ListNotations.

Definition str := list ascii.
Definition lit (x : string) : str := list_ascii_of_string x.

Definition hexdigit (n : N) : ascii :=
  if (n <? 10)%N then ascii_of_N (48 + n) else ascii_of_N (87 + n).
Fixpoint hex_body (x : str) : str :=
  match x with
  | [] => []
  | c :: r => let n := N_of_ascii c in hexdigit (n / 16) :: hexdigit (n mod 16) :: hex_body r
  end.
(* a byte string: 'x' followed by two hex digits per byte, so the empty string is "x" *)
Definition hx (x : str) : str := "x"%char :: hex_body x.

Fixpoint show_pos_fuel (fuel : nat) (n : N) (acc : str) : str :=
  match fuel with
  | O => acc
  | S f => let d := ascii_of_N (48 + n mod 10) in
           if (n <? 10)%N then d :: acc else show_pos_fuel f (n / 10)%N (d :: acc)
  end.
Definition show_N (n : N) : str := show_pos_fuel (S (N.to_nat (N.log2 n))) n [].
Definition show_Z (z : Z) : str :=
  match z with
  | Z0 => lit "0"
  | Zpos p => show_N (Npos p)
  | Zneg p => "-"%char :: show_N (Npos p)
  end.
Definition show_nat (n : nat) : str := show_N (N.of_nat n).
Definition show_bool (b : bool) : str := if b then lit "T" else lit "F".
Definition show_sgn (z : Z) : str := show_Z (Z.sgn z).
Definition show_cmp (c : comparison) : str :=
  match c with Eq => lit "0" | Lt => lit "-1" | Gt => lit "1" end.

Definition sp1 : str := [" "%char].
Fixpoint unwords (l : list str) : str :=
  match l with
  | [] => []
  | [x] => x
  | x :: r => x ++ sp1 ++ unwords r
  end.
(* a list: "[" items "]" separated by blanks; the empty list is "[]" *)
Definition show_list {A} (f : A -> str) (l : list A) : str :=
  match l with
  | [] => lit "[]"
  | _ => lit "[ " ++ unwords (map f l) ++ lit " ]"
  end.
Definition show_opt {A} (f : A -> str) (o : option A) : str :=
  match o with None => lit "-" | Some a => lit "( " ++ f a ++ lit " )" end.

(* decoding of arguments *)
Definition hexval (c : ascii) : N :=
  let n := N_of_ascii c in
  if (n <? 58)%N then n - 48 else n - 87.
Fixpoint unhex (x : str) : str :=
  match x with
  | a :: b :: r => ascii_of_N (16 * hexval a + hexval b) :: unhex r
  | _ => []
  end.
Fixpoint dec_N (a : N) (x : str) : N :=
  match x with [] => a | c :: r => dec_N (10 * a + (N_of_ascii c - 48))%N r end.
Definition arg_N (x : str) : N := dec_N 0 x.
Definition arg_nat (x : str) : nat := N.to_nat (arg_N x).
Definition arg_bool (x : str) : bool := match x with c :: _ => (N_of_ascii c =? 49)%N | [] => false end.

(* Adler-32 of a byte string (as two numbers), so that large member data can be compared cheaply *)
Fixpoint adler_go (a b : Z) (x : str) : Z * Z :=
  match x with
  | [] => (a, b)
  | c :: r => let a' := ((a + Z.of_N (N_of_ascii c)) mod 65521)%Z in adler_go a' ((b + a') mod 65521)%Z r
  end.
Definition show_data (x : str) : str :=
  let '(a, b) := adler_go 1 0 x in
  unwords [show_nat (List.length x); show_Z a; show_Z b].
