(* C14 / C15 / C16 non-vacuity: a whole .deb, as bytes, is opened as an ar archive, loaded and its signature is
   checked, with toy oracles (a "tar" holds one file whose name is its first nine bytes; "gzip" data is the
   letter Z followed by the content; a signature is the key followed by the signed bytes).  Every hypothesis of
   the C14, C15 (.deb part) and C16 theorems is met by this package; the refused packages are concrete too. *)
From Coq Require Import List Ascii String Bool Arith ZArith Lia.
Require Import GS AR AR2 D16 D17 DEB.
Import ListNotations.

Definition t_untar (x : str) : option (list (str * str)) := Some [(firstn 9 x, skipn 9 x)].
Definition t_ext (n : str) : str := if has_suffix (s ".gz") n then s ".gz" else s ".tar".
Definition t_decompress (ext x : str) : option str :=
  if str_eqb ext (s ".gz") then match x with c :: r => if ceq c "Z"%char then Some r else None | [] => None end else Some x.
Definition t_clean (n : str) : str := if has_prefix (s "./") n then skipn 2 n else n.
Definition t_decode (x : str) : option str := Some x.
Definition t_istar (n : str) : bool := has_prefix (s "control.tar") n || has_prefix (s "data.tar") n.
Definition t_pick (l : list D16.member) : option D16.member := hd_error l.
Definition t_pick_last (l : list D16.member) : option D16.member := hd_error (rev l).
Definition t_verify (kr x sg : str) : option str := if str_eqb sg (kr ++ x) then Some kr else None.

Lemma t_pick_in l m : t_pick l = Some m -> In m l.
Proof. destruct l; cbn; [discriminate|]. intros E. inversion E. now left. Qed.
Lemma t_pick_some l : l <> [] -> t_pick l <> None.
Proof. destruct l; [congruence|discriminate]. Qed.
Lemma t_pick_last_in l m : t_pick_last l = Some m -> In m l.
Proof. unfold t_pick_last. intros E. apply in_rev. destruct (rev l); cbn in E; [discriminate|]. inversion E. now left. Qed.
Lemma t_pick_last_some l : l <> [] -> t_pick_last l <> None.
Proof. unfold t_pick_last. intros N. destruct (rev l) eqn:R; [|discriminate]. apply (f_equal (@rev _)) in R. rewrite rev_involutive in R. now subst. Qed.

Definition bin : str := ver20 ++ s "a further line" ++ [nl].
Definition cbytes : str := s "Z./controlPackage: x" ++ [nl].
Definition dbytes : str := s "./usr/binPAYLOAD".
Definition key : str := s "KEY".
Definition mk (name data size : str) : AR2.member :=
  {| m_name := name; m_slash := false; m_ts := s "1700000000"; m_uid := s "0"; m_gid := s "0"; m_mode := s "100644";
     m_size := size; m_data := data; m_pad := "!"%char |}.
Definition pkg : list AR2.member :=
  [mk (s "debian-binary") bin (s "19"); mk (s "control.tar.gz") cbytes (s "21"); mk (s "data.tar") dbytes (s "16");
   mk (s "_gpgorigin") (key ++ bin ++ cbytes ++ dbytes) (s "59")].
Definition buf : str := render_ar pkg.

Notation opendeb := (open_deb str t_untar t_decompress t_clean t_decode t_ext t_istar).
Notation loaddeb := (load_deb str t_untar t_decompress t_clean t_decode t_ext t_istar).
Notation checksig := (check_debsig str str str t_verify).

Example C14w_members_wf : Forall wf_member pkg.
Proof. repeat constructor; cbn; try lia; try reflexivity. Qed.

(* C14 / C15: the bytes are opened, iterated to a clean end and loaded; same result for another walk of the map *)
Example C14w_loaded : exists d, opendeb t_pick buf = Some d /\ opendeb t_pick_last buf = Some d /\
  d_control str d = s "Package: x" ++ [nl] /\ d_control_ext str d = s "tar.gz" /\ d_data_ext str d = s "tar" /\
  d_data_files str d = [(s "./usr/bin", s "PAYLOAD")] /\ map fst (d_members str d) = map m_name pkg.
Proof. eexists. split; [vm_compute; reflexivity|]. vm_compute. repeat split. Qed.

(* C16: the signature member verifies over debian-binary ++ control ++ data with the right key only *)
Example C16w_verified : exists d, opendeb t_pick buf = Some d /\ checksig t_pick_last key (s "origin") d = Some key /\
  checksig t_pick_last (s "OTHER") (s "origin") d = None /\ checksig t_pick_last key (s "maint") d = None.
Proof. eexists. split; [vm_compute; reflexivity|]. vm_compute. repeat split. Qed.

(* refused: other format version, no debian-binary, no control member, no data member, a decoy data member *)
Definition ms_of (l : list AR2.member) : list D16.member := map (fun m => (m_name m, m_data m)) l.
Example C14w_refused :
  loaddeb t_pick (ms_of (mk (s "debian-binary") (s "3.0" ++ [nl]) (s "4") :: tl pkg)) = None /\
  loaddeb t_pick (ms_of (tl pkg)) = None /\
  loaddeb t_pick (ms_of [nth 0 pkg (mk [] [] []); nth 2 pkg (mk [] [] [])]) = None /\
  loaddeb t_pick (ms_of [nth 0 pkg (mk [] [] []); nth 1 pkg (mk [] [] [])]) = None /\
  loaddeb t_pick (ms_of (pkg ++ [mk (s "data.tar.gz") (s "Z./usr/binDECOY") (s "16")])) = None.
Proof. vm_compute. repeat split. Qed.

(* C15: the same bytes as an ar archive - four members, clean end; cutting the final padding byte is tolerated,
   cutting into the last member's data is an error after three members *)
Example C15w_open : exists es, ar_open buf = Some (es, true) /\ map e_name es = map m_name pkg /\
  8 + 60 * List.length es <= List.length buf + 1.
Proof. vm_compute. eexists. repeat split. lia. Qed.
Example C15w_truncated : (exists es, ar_open (removelast buf) = Some (es, true)) /\
  exists es, ar_open (removelast (removelast buf)) = Some (es, false) /\ List.length es = 3.
Proof. vm_compute. split; eexists; [reflexivity|split; reflexivity]. Qed.
Example C15w_not_ar : ar_open (s "not an archive") = None.
Proof. reflexivity. Qed.
