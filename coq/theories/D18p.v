(* C14 with the path model in the place of three oracles: path.Clean, filepath.Ext and ArEntry.IsTarfile are PATH.clean,
   PATH.ext and PATH.is_tarfile (Gallina functions run against the Go ones by the tie).  The standard arrangement of a
   .deb then loads for EVERY compression extension of the shape "" or ".<e>" (e without dot or slash: gz, xz, bz2, lzma,
   zst, anything else), with the control file under any of the names a tarball gives it; what remains assumed is tar and
   the decompressors. *)
From Coq Require Import List Ascii String Bool Arith Lia.
Require Import GS D16 D17 PATH.
Import ListNotations.

Definition cext_ok (x : str) : Prop := x = [] \/ exists e, x = PATH.dot :: e /\ free PATH.slash e /\ free PATH.dot e.

Lemma tar_name_is_tarfile stem x : cext_ok x -> PATH.is_tarfile (stem ++ s ".tar" ++ x) = true.
Proof.
  intros [->|(e & -> & Fs & Fd)].
  - rewrite app_nil_r. apply PATH.is_tarfile_plain_tar.
  - now apply PATH.is_tarfile_compressed.
Qed.
Lemma tar_name_ext stem x : cext_ok x -> PATH.ext (stem ++ s ".tar" ++ x) = match x with [] => s ".tar" | _ => x end.
Proof.
  intros [->|(e & -> & Fs & Fd)].
  - rewrite app_nil_r. change (s ".tar") with (PATH.dot :: s "tar"). apply PATH.ext_app; repeat constructor; discriminate.
  - rewrite app_assoc. now apply PATH.ext_app.
Qed.

(* entries of a control tarball that are NOT the control file: "./", ".", and any other plain name however spelled *)
Lemma other_entry_not_control x : PATH.plain x = true -> x <> s "control" ->
  PATH.clean x <> s "control" /\ PATH.clean (PATH.dot :: PATH.slash :: x) <> s "control" /\ PATH.clean (x ++ [PATH.slash]) <> s "control".
Proof. intros P N. destruct (PATH.clean_dot_slash x P) as (A & B & C). rewrite A, B, C. auto. Qed.
Lemma dot_entries_not_control : PATH.clean (s "./") <> s "control" /\ PATH.clean (s ".") <> s "control".
Proof. vm_compute. split; discriminate. Qed.
Lemma control_names nm : In nm [s "control"; s "./control"; s "control/"] -> PATH.clean nm = s "control".
Proof. intros [<-|[<-|[<-|[]]]]; vm_compute; reflexivity. Qed.

Section WithPaths.
  Variable ctl : Type.
  Variable untar : str -> option (list (str * str)).
  Variable decompress : str -> str -> option str.
  Variable decode_control : str -> option ctl.
  Variable pick : list member -> option member.
  Hypothesis pick_in : forall l m, pick l = Some m -> In m l.
  Hypothesis pick_some : forall l, l <> [] -> pick l <> None.
  Notation load := (load_deb ctl untar decompress PATH.clean decode_control PATH.ext PATH.is_tarfile pick).

  Theorem load_standard_package_paths : forall junk cext cb dext db extras ctar dtar pre nm text post dfiles c,
    let cn := s "control.tar" ++ cext in let dn := s "data.tar" ++ dext in
    let ms := (binary_name, ver20 ++ junk) :: (cn, cb) :: (dn, db) :: extras in
    cext_ok cext -> cext_ok dext -> Forall other extras -> dup_names extras = false ->
    decompress (match cext with [] => s ".tar" | _ => cext end) cb = Some ctar ->
    decompress (match dext with [] => s ".tar" | _ => dext end) db = Some dtar ->
    untar ctar = Some (pre ++ (nm, text) :: post) -> untar dtar = Some dfiles ->
    Forall (fun f => PATH.clean (fst f) <> s "control") pre -> In nm [s "control"; s "./control"; s "control/"] ->
    decode_control text = Some c ->
    load ms = Some {| d_control := c; d_control_bytes := cb; d_data_bytes := db;
                      d_control_ext := s "tar" ++ cext; d_data_ext := s "tar" ++ dext;
                      d_members := ms; d_data_files := dfiles |}.
  Proof.
    intros junk cext cb dext db extras ctar dtar pre nm text post dfiles c cn dn ms Oc Od Ox Dn Dc Dd Uc Ud Fp Inm Dec.
    apply (C14_load_standard ctl untar decompress PATH.clean decode_control PATH.ext PATH.is_tarfile pick pick_in pick_some
             junk cext cb dext db extras ctar dtar (pre ++ (nm, text) :: post) dfiles text c); try assumption.
    - exact (tar_name_is_tarfile (s "control") cext Oc).
    - exact (tar_name_is_tarfile (s "data") dext Od).
    - change (s "control.tar" ++ cext) with (s "control" ++ s ".tar" ++ cext). rewrite (tar_name_ext (s "control") cext Oc). exact Dc.
    - change (s "data.tar" ++ dext) with (s "data" ++ s ".tar" ++ dext). rewrite (tar_name_ext (s "data") dext Od). exact Dd.
    - apply find_control_at; [exact Fp|now apply control_names].
  Qed.
End WithPaths.
Print Assumptions load_standard_package_paths.
