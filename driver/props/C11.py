"""C11 - clearsigned control data is accepted only with a valid keyring signature."""
import re
import lib
import gen
import debgen


def sign(chk, docs):
    """[(key index, text)] -> clearsigned bytes, made with clearsign.Encode directly"""
    out = chk.run_impl([("cssign", [str(k).encode(), t]) for k, t in docs])
    return [bytes.fromhex(r[1:]) for r in out]


def split3(line):
    parts = line.split(" | ")
    return parts if len(parts) == 3 else [line, "?", "?"]


def crc24(data):
    crc = 0xB704CE
    for b in data:
        crc ^= b << 16
        for _ in range(8):
            crc <<= 1
            if crc & 0x1000000:
                crc ^= 0x1864CFB
    return crc & 0xFFFFFF


def armor_crc_line_malformed(doc):
    """True when the first signature armor has a line "=...." whose base64 part is not exactly four characters decoding to three
    bytes ("=LwA=", "=Lw==", "=ab"): a damaged checksum line that golang.org/x/crypto's armor reader skips instead of refusing"""
    import base64
    import binascii
    m = re.search(rb"\n-----BEGIN PGP SIGNATURE-----\n(.*?)\n-----END PGP SIGNATURE-----", doc, re.S)
    if not m:
        return False
    for line in m.group(1).split(b"\n"):
        line = line.rstrip(b"\r \t")
        if line.startswith(b"=") and len(line) > 1:
            body = line[1:]
            try:
                if len(body) != 4 or len(base64.b64decode(body, validate=True)) != 3:
                    return True
            except (binascii.Error, ValueError):
                return True
    return False


def armor_damaged(doc):
    """True when the FIRST signature armor of a clearsigned document has the plain RFC 4880 shape (base64 lines, one "=XXXX"
    checksum line, the END line) and its checksum does not match its data - judged here, without the library.  Anything
    of another shape: no opinion (False)."""
    import base64
    import binascii
    m = re.search(rb"\n-----BEGIN PGP SIGNATURE-----\n((?:[A-Za-z][^\n]*\n)*)\n((?:[A-Za-z0-9+/=]+\n)+?)=([A-Za-z0-9+/]{4})\n-----END PGP SIGNATURE-----", doc)
    if not m:
        return False
    body = m.group(2).replace(b"\n", b"")
    if b"=" in body.rstrip(b"="):
        return False
    try:
        data = base64.b64decode(body, validate=True)
        want = base64.b64decode(m.group(3), validate=True)
    except (binascii.Error, ValueError):
        return False
    return crc24(data) != int.from_bytes(want, "big")


def run(chk):
    rng = chk.rng
    docs = []
    for _ in range(chk.n(16, 120)):
        d = debgen.rand_doc(rng, 3, 4, 3)
        t = debgen.render(d, rng, free=False)
        if not t.endswith(b"\n"):
            t += b"\n"
        docs.append((rng.randrange(3), t))
    # signed texts whose LAST line is exactly as long as a read buffer (the signed text runs straight into the signature armor:
    # its last line has no line ending of its own when it reaches the paragraph reader)
    for n_, leads in ((4095, (0,)), (4096, (0, 1)), (4097, (1,)), (8192, (0,))):
        for lead in [(b"Source: s\nBinary: a, b\nDescription: ", b"Source: s\nDescription: short\n ")[k] for k in leads]:
            docs.append((rng.randrange(3), lead + b"x" * (n_ - len(lead.split(b"\n")[-1])) + b"\n"))
    docs.append((0, b"Source: hello\nVersion: 1.0-1\nFiles:\n d41d8cd98f00b204e9800998ecf8427e 0 hello_1.0.orig.tar.gz\n\n- dash: line\n"))
    signed = sign(chk, docs)
    cases, tags = [], []
    for (k, t), s in zip(docs, signed):
        other = (k + 1) % 3
        for kr in (str(k), str(k) + str(other), str(other) + str(k), str(other), "e", "z", "n", "3"):
            cases.append(("csread", [kr.encode(), s])); tags.append("keyrings")
        # unsigned input
        for kr in ("n", str(k), "e", "z"):
            cases.append(("csread", [kr.encode(), t])); tags.append("unsigned")
    # every single-byte substitution, deletion, insertion and truncation point of one signed document
    k0, t0 = 0, b"Source: hello\nBinary: a, b\nVersion: 2:1.0-1\nDescription: x\n y\n"
    s0 = sign(chk, [(k0, t0)])[0]
    vals = [0x41] if chk.tier == "quick" else [0x41, 0x20, 0x0a]
    step = 1
    sig0 = s0.index(b"-----BEGIN PGP SIGNATURE")
    for pos in range(0, len(s0), step):
        # inside the signature armor several substitutions per position: which packet byte is hit (version, type,
        # public-key or hash algorithm id, length, MPI bits) decides how the library refuses the signature
        for v in (vals if pos < sig0 else sorted(set(vals + [0x41, 0x2f, 0x66, 0x51, 0x2b, 0x39, 0x3d]))):
            if s0[pos] != v:
                cases.append(("csread", [b"0", s0[:pos] + bytes([v]) + s0[pos + 1:]])); tags.append("substitute")
        cases.append(("csread", [b"0", s0[:pos] + s0[pos + 1:]])); tags.append("delete")
        cases.append(("csread", [b"0", s0[:pos] + b"Z" + s0[pos:]])); tags.append("insert")
        cases.append(("csread", [b"0", s0[:pos]])); tags.append("truncate")
    # the same kind of damage BEHIND the armor's checksum: a byte of the signature data replaced and the CRC-24 line recomputed, so
    # that the armor is sound and the damaged packet reaches the signature check itself (version, type, algorithm ids, lengths,
    # hashed area, MPIs)
    import base64
    am = re.search(rb"(-----BEGIN PGP SIGNATURE-----\n(?:[A-Za-z][^\n]*\n)*\n)((?:[A-Za-z0-9+/=]+\n)+?)=([A-Za-z0-9+/]{4})\n(-----END PGP SIGNATURE-----)", s0)
    if am:
        raw = bytearray(base64.b64decode(am.group(2).replace(b"\n", b"")))
        for pos in list(range(0, min(len(raw), 40))) + list(range(40, len(raw), 7)):
            for v in ((raw[pos] ^ 0x01), (raw[pos] + 1) & 0xff, 0x0b, 0x63, 0xff):
                if v == raw[pos]:
                    continue
                r2 = bytes(raw[:pos]) + bytes([v]) + bytes(raw[pos + 1:])
                b64 = base64.b64encode(r2)
                body = b"".join(b64[i:i + 64] + b"\n" for i in range(0, len(b64), 64))
                crc = base64.b64encode(crc24(r2).to_bytes(3, "big"))
                doc = s0[:am.start()] + am.group(1) + body + b"=" + crc + b"\n" + am.group(4) + s0[am.end():]
                cases.append(("csread", [b"0", doc])); tags.append("substitute-behind-the-checksum")
    # the checksum line itself: every shape that is not '=' and four base64 characters of three bytes, in the place of the line,
    # in front of it, in the middle of the data; the document otherwise untouched (the signature would verify)
    if am:
        good = b"=" + am.group(3)
        head, data, endl = s0[:am.start()] + am.group(1), am.group(2), b"\n" + am.group(4) + s0[am.end():]
        dl = data.split(b"\n")
        for bad in (good[:4] + b"=", good[:3] + b"==", good[:2] + b"===", b"=====", b"=ab", b"=abcde", b"= abc", b"=ab\rc", b"=a=bc", b"==abc", b"=ab=c",
                    good[:4] + b"=\r", good + b"\r", good + b" ", b"=" + good, good[1:], good.lower(), good[:4] + b"-", good[:4] + b"_"):
            for kr in (b"0", b"01", b"n", b"1"):
                cases.append(("csread", [kr, head + data + bad + endl])); tags.append("malformed-checksum-line")
                cases.append(("csread", [kr, head + data + bad + b"\n" + good + endl])); tags.append("malformed-checksum-line")
                cases.append(("csread", [kr, head + b"\n".join(dl[:2] + [bad] + dl[2:]) + good + endl])); tags.append("malformed-checksum-line")
                cases.append(("csread", [kr, (head + data + bad + endl).replace(b"\n", b"\r\n")])); tags.append("malformed-checksum-line")
                # (r15) the armor reader ends the headers at a line of BLANKS and starts at the FIRST marker: a header end of one
                # space or a tab, a second marker line behind the malformed line, a further block behind it
                for blank in (b" ", b"\t", b" \t "):
                    h2 = head[:-1] + blank + b"\n" if head.endswith(b"\n\n") else head
                    cases.append(("csread", [kr, h2 + data + bad + endl])); tags.append("malformed-checksum-line")
                cases.append(("csread", [kr, head + data + bad + b"\n-----END X-----BEGIN PGP SIGNATURE-----" + endl])); tags.append("malformed-checksum-line")
                cases.append(("csread", [kr, head + data + bad + b"\n-----BEGIN PGP SIGNATURE-----\n\n" + data + good + endl])); tags.append("malformed-checksum-line")
    # splices of foreign text before, inside and after the armor
    foreign = b"Source: evil\nVersion: 9\n"
    body_at = s0.index(b"Source: hello")
    sig_at = s0.index(b"-----BEGIN PGP SIGNATURE")
    for kr in (b"0", b"n", b"01", b"z"):
        for sp in [foreign + b"\n" + s0, b"#" + s0, b" " + s0, b"\n" + s0, s0[:body_at] + foreign + s0[body_at:], s0[:sig_at] + foreign + s0[sig_at:],
                   s0 + b"\n" + foreign, s0 + s0, s0[:sig_at] + b"\n" + foreign + b"\n" + s0[sig_at:], s0.replace(b"\n", b"\r\n"),
                   s0.replace(b"hello", b"hello "), s0.replace(b"Hash: SHA256", b"Hash: SHA1"), s0.replace(b"hello", b"hellp")]:
            cases.append(("csread", [kr, sp])); tags.append("splice")
    # armor headers are NOT signed: whatever header lines stand in the signature armor (Version, Comment, Charset ...), the
    # paragraphs returned are those of the signed text, byte for byte - also when that text is not ASCII
    na = [b"Source: caf\xc3\xa9\nMaintainer: Jos\xc3\xa9 <j@x.org>\nDescription: na\xc3\xafve\n r\xc3\xa9sum\xc3\xa9\n", b"Source: latin1\nMaintainer: Jos\xe9 <j@x.org>\nComment: \xa0\xff\n",
          b"Source: ascii\nVersion: 1\n"]
    ns = sign(chk, [(0, t) for t in na])
    for t, sd in zip(na, ns):
        mark = b"-----BEGIN PGP SIGNATURE-----\n"
        k = sd.index(mark) + len(mark)
        for hdr in (b"Charset: ISO-8859-1\n", b"Charset: latin1\n", b"Charset: UTF-8\n", b"Version: GnuPG v1\n", b"Comment: Source: evil\n", b"Charset: iso8859-1\nComment: x\n",
                    b"Hash: SHA1\n", b"X-Unknown: 1\n"):
            for kr in (b"0", b"01", b"1", b"n"):
                cases.append(("csread", [kr, sd[:k] + hdr + sd[k:]])); tags.append("armor-headers")
        cases.append(("csread", [b"0", sd])); tags.append("armor-headers")
    # several signature packets in ONE armor (OpenPGP allows it): stale, foreign, empty-text and good signatures in every
    # order of two and some of three; the library's CheckDetachedSignature decides, over the text that is then parsed
    evil = b"Source: evil\nVersion: 9\n"
    combos = []
    for t in (t0, evil):
        for a in (b"0", b"1"):
            for b in (b"0", b"1"):
                for xa in (t, b"", b"Source: other\n"):
                    for xb in (t, b"", b"Source: other\n"):
                        combos.append([t, a, xa, b, xb])
        combos.append([t, b"0", b"Source: other\n", b"1", b"", b"0", t])
        combos.append([t, b"2", t, b"0", b"", b"0", b""])
        combos.append([t, b"0", b""])
    mi = chk.run_impl([("csmulti", c) for c in combos])
    for c, r in zip(combos, mi):
        if not r.startswith("x"):
            raise lib.Infra("csmulti could not build a multi-signature document: %r" % r)
        d = bytes.fromhex(r[1:])
        for kr in (b"0", b"1", b"01", b"10", b"2", b"e", b"z"):
            cases.append(("csread", [kr, d])); tags.append("multi-signature")
    impl = chk.run_impl(cases)
    o3 = [split3(l) for l in impl]
    # the model, with the library's own answers as its oracles
    mcases = []
    for c, (oracle, im, dec) in zip(cases, o3):
        kr = c[1][0]
        given = b"0" if kr == b"n" else b"1"
        if oracle.startswith("decoded "):
            _, body, signer, restlen = oracle.split(" ")
            mcases.append(("csmodel", [given, c[1][1], b"1", bytes.fromhex(body[1:]), b"0" if signer == "-" else b"1",
                                       b"" if signer == "-" else bytes.fromhex(signer[1:]), restlen.encode()]))
        else:
            mcases.append(("csmodel", [given, c[1][1], b"0", b"", b"0", b"", b"0"]))
    model = chk.run_model(mcases)
    keep = list(range(len(mcases)))
    chk.compare("reader-vs-model-with-library-oracles", [mcases[k] for k in keep], [o3[k][1] for k in keep], [model[k] for k in keep],
                nontrivial=lambda c, r: r.startswith("ok"))
    # the property itself, on the implementation's answers
    bodies = sorted({m[1][3] for m in mcases if m[1][2] == b"1"})
    paras = dict(zip(bodies, chk.run_model([("rall", [b]) for b in bodies])))
    counts = {}
    for c, (oracle, im, dec), m, tag in zip(cases, o3, mcases, tags):
        counts[tag] = counts.get(tag, 0) + 1
        kr = c[1][0]
        why = None
        if kr != b"n" and im.startswith("ok"):
            if m[1][2] != b"1" or m[1][4] != b"1":
                why = "reading succeeded although the input is not a clearsigned document whose signature verifies against the keyring"
            else:
                signer = "x" + m[1][5].hex()
                want = paras[m[1][3]]
                if not want.startswith("ok ") and im == "ok-then-read-error":
                    pass      # the signature verifies, and the signed text itself is no deb822 document (a field name starting with '-'): the read fails
                elif not im.startswith("ok signer=" + signer + " "):
                    why = "the reported signer is not the entity whose key verified the signature"
                elif want.startswith("ok ") and im.split(" ", 2)[2] != want[3:]:
                    why = "the paragraphs returned are not exactly those of the signed text"
        if kr != b"n" and im.startswith("ok") and armor_damaged(c[1][1]):
            why = "reading succeeded although the signature's armor is damaged (its CRC-24 line does not match its data)"
        if kr != b"n" and im.startswith("ok signer") and armor_crc_line_malformed(c[1][1]):
            why = "reading succeeded although the checksum line of the signature armor is malformed (the armor reader of golang.org/x/crypto skips such a line)"
        if tag == "unsigned" and "signer=x" in im:
            why = "a signer is reported for unsigned input"
        if kr == b"n" and "signer=x" in im:
            why = "a signer is reported although no keyring was given"
        if (im == "err") != (dec == "err") or (im.startswith("ok signer=") and dec != " ".join(im.split(" ")[:2])):
            why = "NewParagraphReader and NewDecoder disagree"
        if why:
            chk.violate({"kind": "property", "case": lib.show_case(c), "oracle": oracle[:300], "impl": im[:600], "decoder": dec, "explanation": why})
    # one keyring variable whose contents are replaced in place between reads (same pointer, same length or not): every
    # read answers for the keyring as it is then - a verified signer is never remembered from an earlier keyring
    single = {}
    for c, (oracle, im, dec) in zip(cases, o3):
        single[(c[1][0], c[1][1])] = im
    sc, sw = [], []
    pairs = [(k, s) for (k, t), s in zip(docs, signed)][:chk.n(12, 60)]
    for k, s in pairs:
        other = (k + 1) % 3
        for seq in ([str(k), str(other), str(k)], [str(other), str(k), str(other)], [str(k) + str(other), str(other) + str(k), "e", str(k)],
                    [str(k), "e", str(other)]):
            args = []
            for kr in seq:
                args += [kr.encode(), s]
            if all((kr.encode(), s) in single for kr in seq):
                sc.append(("csseq", args))
                sw.append("[ " + " ".join(("( " + single[(kr.encode(), s)] + " )") if single[(kr.encode(), s)].startswith("ok signer") else single[(kr.encode(), s)] for kr in seq) + " ]")
    si = chk.run_impl(sc)
    chk.record("keyring-replaced-in-place", sc, si, lambda c, r: "ok signer" in r)
    for c, got, want in zip(sc, si, sw):
        if got != want:
            chk.violate({"kind": "property", "case": lib.show_case(("csseq", [x if len(x) < 40 else b"<signed document>" for x in c[1]])), "impl": got[:900], "expected": want[:900],
                         "explanation": "a read through a keyring variable whose contents were replaced gives another outcome than the same read with a fresh keyring of those contents"})
    # a read that fails half-way leaves nothing behind: the source delivers a complete, validly signed document and then breaks
    # off with an error (that read must fail); the next read - unsigned text, a foreign signature, a modified document, another
    # good document - is judged on its own
    fc, fw = [], []
    seconds = [c for c in cases if (c[1][0], c[1][1]) in single][::max(1, len(cases) // chk.n(150, 1500))]
    for (k, t), sd in list(zip(docs, signed))[:6]:
        for c in seconds[:chk.n(40, 400)]:
            kr = c[1][0]
            if kr == b"n":
                continue
            fc.append(("csafterfail", [kr, sd, c[1][1]])); fw.append(single[(kr, c[1][1])])
    fi = chk.run_impl(fc)
    chk.record("after-a-failed-read", fc, fi, lambda c, r: True)
    for c, got, want in zip(fc, fi, fw):
        parts = got.split(" ## ")
        if len(parts) != 2 or parts[0].startswith("ok signer") or parts[1] != want:
            chk.violate({"kind": "property", "case": lib.show_case(("csafterfail", [c[1][0], b"<signed document, then a read error>", c[1][2][:300]])), "impl": got[:900], "expected_second": want[:600],
                         "explanation": "a read whose source failed half-way succeeded, or the read after it was not judged on its own input (something of the failed read was left behind)"})
    # the armor check on its own (control.armorChecksumLineOK through the verif-tagged hook against ARM.armor_ok), base64 on one
    # quantum of four characters (encoding/base64 against ARM.decode4: all strings over fourteen characters), and the checksum
    # line the library writes (armor.Encode against ARM.checksum_line: CRC-24 and base64 of its three bytes)
    LINES = [b"-----BEGIN PGP SIGNATURE-----", b"", b"=LwA9", b"=LwA=", b"=Lw==", b"iQEz", b"Version: x", b"=ab", b"=abcd\r", b"-----END PGP SIGNATURE-----",
             b"=a\rbc", b"=====", b"\r", b"=LwA9\r", b"-----BEGIN PGP SIGNED MESSAGE-----", b" ", b"=L-A9"]
    ac = [("armorok", [d]) for d in sorted({c[1][1] for c in cases})[:chk.n(800, 8000)]]
    for _ in range(chk.n(4000, 80000)):
        ac.append(("armorok", [rng.choice([b"\n", b"\n", b"\r\n"]).join(rng.choice(LINES) for _ in range(rng.randrange(0, 9)))]))
    ai, am_ = chk.run_both(ac)
    chk.compare("armor-checksum-line-check-vs-model", ac, ai, am_, nontrivial=lambda c, r: b"=" in c[1][0], spec=False)
    import itertools
    bc = [("b64dec4", [bytes(q)]) for q in itertools.product(b"Az09+/=\r\n -_@\xff", repeat=4)]
    bi, bm = chk.run_both(bc)
    chk.compare("base64-quantum-vs-model", bc, bi, bm, nontrivial=lambda c, r: r != "err", spec=False)
    cc = [("armorcrc", [bytes([v])]) for v in range(256)] + [("armorcrc", [b""])]
    cc += [("armorcrc", [bytes(rng.randrange(256) for _ in range(rng.randrange(0, 400)))]) for _ in range(chk.n(400, 8000))]
    ci, cm = chk.run_both(cc)
    chk.compare("written-checksum-line-vs-model", cc, ci, cm, nontrivial=lambda c, r: True, spec=False)
    for c, r in zip(cc, ci):
        if crc24(c[1][0]) != int.from_bytes(__import__("base64").b64decode(bytes.fromhex(r[1:])[1:]), "big"):
            raise lib.Infra("the driver's own CRC-24 disagrees with the library's: %r" % r)
    # sanity of the streams: the unmodified signed documents must be accepted with their signer's keyring
    good = sum(1 for t, (o, im, d) in zip(tags, o3) if t == "keyrings" and im.startswith("ok signer=x"))
    if good == 0:
        raise lib.Infra("no signed document was accepted at all: the harness keys or signing are broken")
    chk.extra["stream_sizes"] = counts
    chk.extra["accepted_with_signer"] = sum(1 for (o, im, d) in o3 if im.startswith("ok signer=x"))
    chk.trusted.append("OpenPGP oracles: golang.org/x/crypto/openpgp clearsign.Decode and CheckDetachedSignature called directly by the harness")
    chk.trusted.append("control/verif_hooks.go (//go:build verif, add-only, /repo 9b0bf4b): hands the unexported armorChecksumLineOK to the harness op armorok; ARM.xline is a MODEL of golang.org/x/crypto's lineReader.Read for a candidate checksum line (compared with the library only through whole documents), ARM.decode4 of encoding/base64 on four characters (compared exhaustively over fourteen characters), ARM.checksum_line of armor.Encode (compared on random data)")
    chk.assumptions += ["cryptographic soundness of x/crypto/openpgp is an oracle; the theorems and the tie are about the glue around it",
                        "RSA-1024 test keys generated once per build directory (build/pgpkeys.asc)"]


def replay(chk, d):
    c = lib.case_from_replay(d)
    print("impl:", chk.run_impl([c])[0][:800])
    return 0
