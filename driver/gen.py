"""Generators shared by the property modules.  All randomness comes from the rng passed in."""
import itertools


def words(alphabet, maxlen):
    """all strings over alphabet (list of bytes) of length 0..maxlen"""
    out = [b""]
    layer = [b""]
    for _ in range(maxlen):
        layer = [w + a for w in layer for a in alphabet]
        out += layer
    return out


def rand_bytes(rng, maxlen, alphabet=None):
    n = rng.randrange(maxlen + 1)
    if alphabet is None:
        return bytes(rng.randrange(256) for _ in range(n))
    return b"".join(rng.choice(alphabet) for _ in range(n))


def mutate(rng, s, alphabet):
    """one random edit: delete, insert, substitute, duplicate a slice, truncate"""
    s = bytearray(s)
    k = rng.randrange(6)
    if k == 0 and s:
        del s[rng.randrange(len(s))]
    elif k == 1:
        s[rng.randrange(len(s) + 1):0] = rng.choice(alphabet)
    elif k == 2 and s:
        p = rng.randrange(len(s))
        s[p:p + 1] = rng.choice(alphabet)
    elif k == 3 and s:
        a = rng.randrange(len(s)); b = rng.randrange(a, min(len(s), a + 6) + 0) if a < len(s) else a
        s[a:a] = s[a:b + 1]
    elif k == 4 and s:
        del s[rng.randrange(len(s)):]
    else:
        a = rng.randrange(len(s) + 1)
        s[a:a] = rng.choice(alphabet) + rng.choice(alphabet)
    return bytes(s)
