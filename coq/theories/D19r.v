(* C04: the rejection classes at ANY position of a field - after any number of complete relations, and as a later
   alternative of a relation - not only in the first alternative.  The lemmas of D13 (a relation, the field) are
   redone with a continuation of arbitrary result (evRes) instead of a successful one, so that an error raised by
   what follows propagates to Parse. *)
From Coq Require Import List Ascii String Bool Arith NArith Lia.
Require Import A1 D3 D4 D5 D6 D14 D9 D10 D12 D13 D16r.
Import ListNotations.

(* an alternative that the possibility parser refuses: name, optional qualifier, then text T on which the clause
   loop ends in an error (T starts with a blank or, with no blank at all, with '(' '[' '<': see the class lemmas of D16r, D17r, D18r) *)
Definition bad_alt (B : str) : Prop := exists name q T, B = name ++ qual_text q ++ T /\
  name <> [] /\ forallb namec name = true /\ eqc (peek name) 36 = false /\
  (match q with None => True | Some a => forallb mac (arch_string a) = true /\ parse_arch (arch_string a) = a /\ arch_ok (arch_string a) = true end) /\
  ctlhead (peek T) = true /\ evRes (fun f => controllers f (base name q) T) Err.

Lemma bad_alt_head B : bad_alt B -> is_ws (peek B) = false /\ eqc (peek B) 0 = false /\ eqc (peek B) 44 = false /\ eqc (peek B) 124 = false.
Proof.
  intros (name&q&T&->&Hne&Hc&_). destruct name as [|c0 n0]; [congruence|].
  assert (Hc0 : namec c0 = true) by (cbn in Hc; now apply andb_true_iff in Hc as [? _]).
  destruct (namec_head_facts c0 Hc0) as (W0&S0&_&_).
  unfold stop3 in S0. apply orb_false_iff in S0 as [S0 Z]. apply orb_false_iff in S0 as [A B]. cbn [app peek]. auto.
Qed.
Lemma bad_alt_possi B rel : bad_alt B -> evRes (fun f => parse_possibility f rel B) Err.
Proof. intros (name&q&T&->&Hne&Hc&Hd&Ha&Hw&HE). now apply possi_err. Qed.

(* a relation text on which the relation loop ends in an error, whatever has been collected before *)
Definition bad_rel (R : str) : Prop :=
  (is_ws (peek R) = false /\ eqc (peek R) 0 = false /\ eqc (peek R) 44 = false) /\
  forall rel d, evRes (fun f => relation_loop f rel d R) Err.
Definition bad_rel0 (R : str) : Prop :=
  (is_ws (peek R) = false /\ eqc (peek R) 0 = false /\ eqc (peek R) 44 = false) /\
  forall d, evRes (fun f => relation_loop f [] d R) Err.

Lemma bad_alt_rel B rel d : bad_alt B -> evRes (fun f => relation_loop f rel d B) Err.
Proof.
  intros HB. destruct (bad_alt_head B HB) as (W&Z&A&C). destruct (bad_alt_possi B rel HB) as (f1&H1).
  exists (S f1). intros [|f] Hf; [lia|]. rewrite relation_loop_S, Z, A, C. cbn [orb]. now rewrite (H1 f ltac:(lia)).
Qed.
Lemma bad_alt_after_bar B wa rel d : bad_alt B -> all_ws wa -> evRes (fun f => relation_loop f rel d (ch 124 :: wa ++ B)) Err.
Proof.
  intros HB Hwa. destruct (bad_alt_head B HB) as (W&_). destruct (bad_alt_rel B rel d HB) as (f1&H1).
  exists (S f1). intros [|f] Hf; [lia|]. rewrite relation_loop_S. cbn [peek].
  change (eqc (ch 124) 0 || eqc (ch 124) 44) with false. change (eqc (ch 124) 124) with true. cbv iota.
  cbn [adv tl]. rewrite (eat_ws_app wa B Hwa), (eat_ws_id B W). apply H1. lia.
Qed.

(* ---- alternatives with an arbitrary continuation ---- *)
Record alt_okR (t : str) (p : possi) : Prop := {
  alt_relR : forall rel d we rest' r, all_ws we -> stop3 (peek rest') = true ->
    evRes (fun f => relation_loop f (rel ++ [p]) d rest') r -> evRes (fun f => relation_loop f rel d (t ++ we ++ rest')) r;
  alt_headR : exists c t', t = c :: t' /\ is_ws c = false /\ eqc c 0 = false /\ eqc c 44 = false /\ eqc c 124 = false }.

Lemma alt_freeR name q cl : name <> [] -> forallb namec name = true -> eqc (peek name) 36 = false ->
  (match q with None => True | Some a => forallb mac (arch_string a) = true /\ parse_arch (arch_string a) = a /\ arch_ok (arch_string a) = true end) ->
  clauses_ok (base name q) cl -> alt_okR (name ++ qual_text q ++ clauses_text cl) (result name q cl).
Proof.
  intros Hne Hc Hd Ha W.
  assert (Hd0 : exists c0 n0, name = c0 :: n0 /\ is_ws c0 = false /\ eqc c0 0 = false /\ eqc c0 44 = false /\ eqc c0 124 = false).
  { destruct name as [|c0 n0]; [congruence|]. exists c0, n0.
    assert (Hc0 : namec c0 = true) by (cbn in Hc; now apply andb_true_iff in Hc as [? _]).
    destruct (namec_head_facts c0 Hc0) as (W0&S0&_&_).
    unfold stop3 in S0. apply orb_false_iff in S0 as [S0 Z]. apply orb_false_iff in S0 as [A B]. auto. }
  destruct Hd0 as (c0&n0&En&W0&Z&A&B).
  constructor.
  - intros rel d we rest' r Hwe St (f2&H2).
    pose proof (possi_any_order_ws name q cl rel we rest' Hne Hc Hd Ha W Hwe St) as (f1&H1).
    exists (S (f1 + f2)). intros [|f] Hf; [lia|]. rewrite relation_loop_S.
    assert (Pk : peek ((name ++ qual_text q ++ clauses_text cl) ++ we ++ rest') = c0) by (rewrite En; reflexivity).
    rewrite Pk, Z, A, B. cbn [orb]. rewrite <- !app_assoc. rewrite (H1 f ltac:(lia)). apply H2. lia.
  - exists c0, (n0 ++ qual_text q ++ clauses_text cl). rewrite En. cbn [app]. auto.
Qed.

Lemma alt_substR p : wf_subst p -> alt_okR (possi_string p) p.
Proof.
  intros W. constructor.
  - intros rel d we rest' r Hwe St (f2&H2).
    destruct (possi_head_facts p (we ++ rest') (or_intror W)) as (C0&C44&C124).
    assert (Ee : eat_ws (we ++ rest') = rest').
    { rewrite (eat_ws_app we rest' Hwe). apply eat_ws_id. unfold headok. now apply stop3_not_ws. }
    exists (S (S (S f2))). intros [|[|[|f]]] Hf; try lia. rewrite relation_loop_S, C0, C44, C124. cbn [orb].
    rewrite (subst_render p rel (we ++ rest') W) by (now rewrite Ee). rewrite Ee. apply H2. lia.
  - destruct (possi_string_cons p (or_intror W)) as (c&t&E). exists c, t. split; [exact E|].
    pose proof (possi_string_headok p [] (or_intror W)) as Hh. destruct (possi_head_facts p [] (or_intror W)) as (A&B&C).
    rewrite app_nil_r in *. unfold headok in Hh. rewrite E in *. cbn [peek] in *. auto.
Qed.

Lemma alt_headokR t p rest : alt_okR t p -> headok (t ++ rest).
Proof. intros [_ (c&t'&->&H&_)]. exact H. Qed.

(* ---- a relation, then anything ---- *)
Definition itemR_ok (it : item2) : Prop := let '(wb, wa, t, p) := it in all_ws wb /\ all_ws wa /\ alt_okR t p.

Lemma rel_prefixR : forall more t p rel d we X r, alt_okR t p -> Forall itemR_ok more -> all_ws we -> stop3 (peek X) = true ->
  evRes (fun f => relation_loop f (rel ++ p :: map item2_p more) d X) r ->
  evRes (fun f => relation_loop f rel d (t ++ more2_text more ++ we ++ X)) r.
Proof.
  induction more as [|[[[wb wa] t2] p2] more IH]; intros t p rel d we X r At W Hwe St HX.
  - cbn [more2_text map List.concat app]. now apply (alt_relR t p At rel d we X r Hwe St).
  - inversion W as [|? ? Wit Wm]; subst. unfold itemR_ok in Wit. destruct Wit as (Hwb&Hwa&At2).
    set (J := t2 ++ more2_text more ++ we ++ X).
    assert (Next : evRes (fun f => relation_loop f (rel ++ [p]) d (ch 124 :: wa ++ J)) r).
    { assert (HX' : evRes (fun f => relation_loop f ((rel ++ [p]) ++ p2 :: map item2_p more) d X) r).
      { rewrite <- app_assoc. exact HX. }
      destruct (IH t2 p2 (rel ++ [p]) d we X r At2 Wm Hwe St HX') as (f0&H0).
      exists (S f0). intros [|f] Hf; [lia|]. rewrite relation_loop_S. cbn [peek].
      change (eqc (ch 124) 0 || eqc (ch 124) 44) with false. change (eqc (ch 124) 124) with true. cbv iota.
      cbn [adv tl]. rewrite (eat_ws_app wa J Hwa). subst J. rewrite (eat_ws_id _ (alt_headokR t2 p2 _ At2)).
      apply H0. lia. }
    assert (Tx : more2_text ((wb, wa, t2, p2) :: more) ++ we ++ X = wb ++ ch 124 :: wa ++ J).
    { subst J. unfold more2_text. cbn [map List.concat item2_text]. rewrite <- !app_assoc. cbn [app]. now rewrite <- !app_assoc. }
    match goal with |- evRes (fun f => relation_loop f rel d (t ++ ?m)) _ =>
      replace m with (wb ++ ch 124 :: wa ++ J) by (symmetry; exact Tx) end.
    apply (alt_relR t p At rel d wb (ch 124 :: wa ++ J) r Hwb eq_refl). exact Next.
Qed.

(* a relation whose later alternative is refused *)
Lemma bad_rel_later_alternative t p its wb wa B : alt_okR t p -> Forall itemR_ok its -> all_ws wb -> all_ws wa -> bad_alt B ->
  bad_rel (t ++ more2_text its ++ wb ++ ch 124 :: wa ++ B).
Proof.
  intros At Wi Hwb Hwa HB. split.
  - destruct At as [_ (c&t'&->&H&Z&A&_)]. cbn [app peek]. auto.
  - intros rel d. apply (rel_prefixR its t p rel d wb (ch 124 :: wa ++ B) Err At Wi Hwb eq_refl). now apply bad_alt_after_bar.
Qed.
Lemma bad_rel_first_alternative B : bad_alt B -> bad_rel B.
Proof. intros HB. destruct (bad_alt_head B HB) as (W&Z&A&_). split; [auto|]. intros rel d. now apply bad_alt_rel. Qed.

(* ---- complete relations, then anything ---- *)
Definition lrelR_ok (r : lrel2) : Prop := let '(t, p, more, we) := r in alt_okR t p /\ Forall itemR_ok more /\ all_ws we.

Lemma lrel_head r rest : lrelR_ok r -> is_ws (peek (lrel2_text r ++ rest)) = false /\ eqc (peek (lrel2_text r ++ rest)) 0 = false /\ eqc (peek (lrel2_text r ++ rest)) 44 = false.
Proof. destruct r as [[[t p] its] we]. intros ([_ (c&t'&->&H&Z&A&_)]&_&_). cbn [lrel2_text app peek]. auto. Qed.

Lemma dep_prefixR : forall more r0 d X r, lrelR_ok r0 -> Forall (fun wr => all_ws (fst wr) /\ lrelR_ok (snd wr)) more ->
  (eqc (peek X) 0 || eqc (peek X) 44 = true) ->
  evRes (fun f => dependency_loop f (d ++ lrel2_val r0 :: map (fun wr => lrel2_val (snd wr)) more) X) r ->
  evRes (fun f => dependency_loop f d (lrel2_text r0 ++ tail2_text more ++ X)) r.
Proof.
  induction more as [|[w r1] more IH]; intros [[[t p] its] we] d X r (At&Wi&Hwe) W St HX.
  - cbn [tail2_text map List.concat app]. cbn [lrel2_text lrel2_val].
    assert (St3 : stop3 (peek X) = true).
    { unfold stop3. apply orb_true_iff in St as [H|H]; rewrite H; now rewrite ?orb_true_r. }
    assert (R1 : evRes (fun f => relation_loop f [] d (t ++ more2_text its ++ we ++ X)) (Ok (d ++ [p :: map item2_p its], X))).
    { apply (rel_prefixR its t p [] d we X _ At Wi Hwe St3). exists 1%nat. intros [|f] Hf; [lia|].
      rewrite relation_loop_S, St. reflexivity. }
    destruct R1 as (f1&H1). destruct HX as (f2&H2).
    exists (S (f1 + f2)). intros [|f] Hf; [lia|]. rewrite dependency_loop_S.
    destruct (lrel_head (t, p, its, we) X (conj At (conj Wi Hwe))) as (Hh&Z&A). cbn [lrel2_text] in Hh, Z, A.
    rewrite <- !app_assoc in Hh, Z, A. rewrite <- !app_assoc. rewrite Z, A, (eat_ws_id _ Hh).
    rewrite (H1 f ltac:(lia)). cbn [map] in H2. apply H2. lia.
  - inversion W as [|? ? Wit Wm]; subst. cbn [fst snd] in Wit. destruct Wit as [Hw Wr1].
    set (J := lrel2_text r1 ++ tail2_text more ++ X).
    assert (Tx : lrel2_text (t, p, its, we) ++ tail2_text ((w, r1) :: more) ++ X = t ++ more2_text its ++ we ++ ch 44 :: w ++ J).
    { subst J. unfold tail2_text. cbn [lrel2_text map List.concat fst snd]. cbn [app]. now rewrite <- !app_assoc. }
    match goal with |- evRes (fun f => dependency_loop f d ?m) _ =>
      replace m with (t ++ more2_text its ++ we ++ ch 44 :: w ++ J) by (symmetry; exact Tx) end.
    cbn [lrel2_val map snd] in HX.
    assert (HX' : evRes (fun f => dependency_loop f ((d ++ [p :: map item2_p its]) ++ lrel2_val r1 :: map (fun wr => lrel2_val (snd wr)) more) X) r).
    { rewrite <- app_assoc. exact HX. }
    destruct (IH r1 (d ++ [p :: map item2_p its]) X r Wr1 Wm St HX') as (f2&H2).
    assert (R1 : evRes (fun f => relation_loop f [] d (t ++ more2_text its ++ we ++ ch 44 :: w ++ J)) (Ok (d ++ [p :: map item2_p its], ch 44 :: w ++ J))).
    { apply (rel_prefixR its t p [] d we (ch 44 :: w ++ J) _ At Wi Hwe eq_refl). exists 1%nat. intros [|f] Hf; [lia|]. reflexivity. }
    destruct R1 as (f1&H1).
    exists (S (S (f1 + f2))). intros [|[|f]] Hf; try lia. rewrite dependency_loop_S.
    destruct (lrel_head (t, p, its, we) (ch 44 :: w ++ J) (conj At (conj Wi Hwe))) as (Hh&Z&A). cbn [lrel2_text] in Hh, Z, A.
    rewrite <- !app_assoc in Hh, Z, A. rewrite Z, A, (eat_ws_id _ Hh). rewrite (H1 (S f) ltac:(lia)).
    rewrite dependency_loop_S. cbn [peek]. change (eqc (ch 44) 0) with false. change (eqc (ch 44) 44) with true. cbv iota.
    cbn [adv tl]. rewrite (eat_ws_app w J Hw).
    destruct (lrel_head r1 (tail2_text more ++ X) Wr1) as (HJ&_&_). fold J in HJ.
    rewrite (eat_ws_id _ HJ). apply H2. lia.
Qed.

(* the dependency loop on a refused relation, at the start or after a comma *)
Lemma dep_bad_rel R d : bad_rel0 R -> evRes (fun f => dependency_loop f d R) Err.
Proof.
  intros ((W&Z&A)&HR). destruct (HR d) as (f1&H1). exists (S f1). intros [|f] Hf; [lia|].
  rewrite dependency_loop_S, Z, A, (eat_ws_id R W). now rewrite (H1 f ltac:(lia)).
Qed.
Lemma dep_bad_rel_comma R w d : all_ws w -> bad_rel0 R -> evRes (fun f => dependency_loop f d (ch 44 :: w ++ R)) Err.
Proof.
  intros Hw HR. destruct (dep_bad_rel R d HR) as (f1&H1). destruct HR as ((W&_)&_).
  exists (S f1). intros [|f] Hf; [lia|]. rewrite dependency_loop_S. cbn [peek].
  change (eqc (ch 44) 0) with false. change (eqc (ch 44) 44) with true. cbv iota. cbn [adv tl].
  rewrite (eat_ws_app w R Hw), (eat_ws_id R W). apply H1. lia.
Qed.
Lemma bad_rel_0 R : bad_rel R -> bad_rel0 R.
Proof. intros (H&F). split; [exact H|]. intros d. apply F. Qed.

(* from "eventually Err" of the loop to Parse, by termination and monotonicity *)
Lemma parse_of_evRes x : evRes (fun f => dependency_loop f [] (eat_ws x)) Err -> parse x = Err.
Proof.
  intros (f0&H0). pose proof (C18_dep_terminates x) as NF. unfold parse in *.
  set (N := (4 * List.length x + 8)%nat) in *. set (F := fun f => dependency_loop f [] (eat_ws x)) in *.
  assert (M : mono F) by (intros f r; apply dependency_loop_mono).
  destruct (Nat.le_ge_cases N f0) as [L|L].
  - pose proof (mono_ge F M N f0 (F N) L eq_refl NF) as K. pose proof (H0 f0 (le_n _)) as K2. change (F N = Err). now rewrite <- K.
  - exact (H0 N L).
Qed.

(* C04: a refused relation is refused as the first relation of a field ... *)
Theorem parse_err_first_relation w0 R : all_ws w0 -> bad_rel R -> parse (w0 ++ R) = Err.
Proof.
  intros Hw HR. apply parse_of_evRes. pose proof HR as ((W&_)&_). rewrite (eat_ws_app w0 R Hw), (eat_ws_id R W).
  apply dep_bad_rel. now apply bad_rel_0.
Qed.
(* ... and after any number of complete relations, whatever the layout *)
Theorem parse_err_later_relation w0 r0 more w R : all_ws w0 -> lrelR_ok r0 ->
  Forall (fun wr => all_ws (fst wr) /\ lrelR_ok (snd wr)) more -> all_ws w -> bad_rel R ->
  parse (w0 ++ lrel2_text r0 ++ tail2_text more ++ ch 44 :: w ++ R) = Err.
Proof.
  intros Hw0 W0 Wm Hw HR. apply parse_of_evRes. rewrite (eat_ws_app w0 _ Hw0).
  destruct (lrel_head r0 (tail2_text more ++ ch 44 :: w ++ R) W0) as (Hh&_&_). rewrite (eat_ws_id _ Hh).
  apply (dep_prefixR more r0 [] (ch 44 :: w ++ R) Err W0 Wm eq_refl). apply dep_bad_rel_comma; [exact Hw|now apply bad_rel_0].
Qed.
Print Assumptions parse_err_first_relation.
Print Assumptions parse_err_later_relation.
