(* C01 - Version comparison orders versions exactly as dpkg does.
   This file holds the property's theorems only; each is closed by [exact <lemma>]. *)
From Coq Require Import List Ascii String ZArith NArith Lia Bool Arith.
Require Import V1 V2 V5 V6 V7.
Import ListNotations.
Open Scope Z_scope.

(* The sign of version.Compare (model V6.compare over the three Go loops of V1) is: epochs
   numerically, then the Policy 5.6.12 part-wise comparison (V5.policy_cmp: non-digit part
   by the modified alphabet with end-of-part between '~' and letters, digit part by value
   in unbounded N) of the upstream parts, then of the revisions.  [vnonul]: no NUL byte,
   a superset of the parser's alphabet [A-Za-z0-9.+~:-]. *)
Theorem C01_compare_is_dpkg_order : forall a b : version, vnonul a -> vnonul b ->
  Z.sgn (compare a b) = csgn (match N.compare (epoch a) (epoch b) with
    | Eq => match policy_cmp (S (List.length (upstream a) + List.length (upstream b))) (upstream a) (upstream b) with
            | Eq => policy_cmp (S (List.length (revision a) + List.length (revision b))) (revision a) (revision b)
            | c => c end
    | c => c end).
Proof. exact C01_compare_policy. Qed.
Print Assumptions C01_compare_is_dpkg_order.

(* the same order as a flat token key (digit runs as numbers, other characters by weight) *)
Theorem C01_compare_is_key_order : forall a b : version, vnonul a -> vnonul b ->
  Z.sgn (compare a b) = csgn (key_cmp a b).
Proof. exact C01_compare. Qed.
Print Assumptions C01_compare_is_key_order.

Theorem C01_component_is_policy : forall a b, nonul a -> nonul b ->
  exists z, verrevcmp a b = Some z /\ Z.sgn z = csgn (policy_cmp (S (List.length a + List.length b)) a b).
Proof. exact C01_verrevcmp_is_policy. Qed.
Print Assumptions C01_component_is_policy.

Theorem C01_missing_revision_is_zero : forall e u, nonul u ->
  compare {| epoch := e; upstream := u; revision := [] |} {| epoch := e; upstream := u; revision := s "0" |} = 0.
Proof. exact C01_missing_revision. Qed.
Print Assumptions C01_missing_revision_is_zero.

Theorem C01_tilde_lt_end_lt_plus : forall e u t r, nonul u -> nonul t -> nonul r ->
  compare {| epoch := e; upstream := u ++ tilde :: t; revision := r |} {| epoch := e; upstream := u; revision := r |} < 0 /\
  compare {| epoch := e; upstream := u; revision := r |} {| epoch := e; upstream := u ++ plus :: t; revision := r |} < 0.
Proof. exact C01_tilde_end_plus. Qed.
Print Assumptions C01_tilde_lt_end_lt_plus.

(* non-vacuity: the instance named in the property *)
Example C01_rc :
  compare {| epoch := 0; upstream := s "1.0~rc1"; revision := [] |} {| epoch := 0; upstream := s "1.0"; revision := [] |} < 0 /\
  compare {| epoch := 0; upstream := s "1.0"; revision := [] |} {| epoch := 0; upstream := s "1.0+b1"; revision := [] |} < 0 /\
  vnonul {| epoch := 0; upstream := s "1.0~rc1"; revision := [] |}.
Proof. split; [|split]; [vm_compute; reflexivity|vm_compute; reflexivity|]. split; repeat constructor; discriminate. Qed.
