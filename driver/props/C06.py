"""C06 - architecture and version restrictions evaluate per Debian semantics."""
import itertools
import lib
import gen

NAMES = [b"any", b"x86", b"hurd", b"musl"]
ALL = (b"all", b"all", b"all")
DOMAIN = [ALL] + [t for t in itertools.product(NAMES, repeat=3)]


def concrete(a):
    return a != ALL and b"any" not in a


def wildcard(a):
    return a != ALL and b"any" in a


def covers(w, c):
    return all(x == b"any" or x == y for x, y in zip(w, c))


def spec_is(a, b):
    """the property's own statement, on the domain"""
    if a == ALL or b == ALL:
        return a == b
    if concrete(a) and concrete(b):
        return a == b
    if concrete(a) and wildcard(b):
        return covers(b, a)
    if wildcard(a) and concrete(b):
        return covers(a, b)
    return False


def spec_set(neg, lst, o):
    if not lst:
        return True
    return any(spec_is(e, o) for e in lst) != neg


def name_to_triple(n):
    p = n.split(b"-", 2)
    if len(p) == 1:
        if p[0] in (b"all", b"any"):
            return (p[0],) * 3
        return (b"gnu", b"linux", p[0])
    if len(p) == 2:
        return ((b"any" if b"any" in p else b"gnu"), p[0], p[1])
    return tuple(p)


REAL = [b"amd64", b"i386", b"arm64", b"armhf", b"kfreebsd-amd64", b"kfreebsd-i386", b"hurd-i386", b"musl-linux-arm64",
        b"musl-linux-amd64", b"linux-any", b"any-amd64", b"any", b"all", b"kfreebsd-any", b"any-i386", b"gnu-linux-amd64",
        b"gnu-any-any", b"any-linux-any", b"any-any-amd64", b"uclibc-linux-armel", b"hurd-any", b"gnu-kfreebsd-amd64", b"any-any-any",
        b"gnueabihf-linux-arm", b"gnu-linux-arm", b"gnux32-linux-amd64", b"musleabihf-linux-arm", b"gnuabi64-linux-mips64", b"gnu-linux-mips64"]


def T(b):
    return "T" if b else "F"


def run(chk):
    rng = chk.rng
    # 1. Is on the whole abstract domain (exhaustive), spec computed independently
    cases = [("ais", list(a) + list(b)) for a in DOMAIN for b in DOMAIN]
    impl, model = chk.run_both(cases)
    chk.compare("is-domain-exhaustive", cases, impl, model, nontrivial=lambda c, r: r == "T")
    for c, i in zip(cases, impl):
        a, b = tuple(c[1][:3]), tuple(c[1][3:])
        if i != T(spec_is(a, b)):
            chk.violate({"kind": "property", "case": lib.show_case(c), "impl": i, "expected": T(spec_is(a, b)),
                         "explanation": "Arch.Is differs from the matching rule of the property"})
    sw = {(tuple(c[1][:3]), tuple(c[1][3:])): i for c, i in zip(cases, impl)}
    for (a, b), i in sw.items():
        if sw[(b, a)] != i:
            chk.violate({"kind": "property", "case": lib.show_case(("ais", list(a) + list(b))), "impl": i, "swapped": sw[(b, a)],
                         "explanation": "Arch.Is is not symmetric on the domain"})
    # the rule compares component names for EQUALITY: the same domain again with generic names that contain one another
    # (prefix, suffix, infix - like gnu / gnueabihf / eabihf): matching must not depend on what the names look like
    REL = {b"x86": (b"gnu", b"linux", b"arm"), b"hurd": (b"gnueabihf", b"linuxlinux", b"armhf"), b"musl": (b"eabihf", b"lin", b"hf")}
    ren = lambda t: t if t == ALL else tuple(x if x == b"any" else REL[x][k] for k, x in enumerate(t))
    rcases = [("ais", list(ren(a)) + list(ren(b))) for a in DOMAIN for b in DOMAIN]
    rimpl, rmodel = chk.run_both(rcases)
    chk.compare("is-domain-related-names", rcases, rimpl, rmodel, nontrivial=lambda c, r: r == "T")
    for c0, c, i in zip(cases, rcases, rimpl):
        a, b = tuple(c0[1][:3]), tuple(c0[1][3:])
        if i != T(spec_is(a, b)):
            chk.violate({"kind": "property", "case": lib.show_case(c), "impl": i, "expected": T(spec_is(a, b)),
                         "explanation": "Arch.Is differs from the matching rule of the property when component names contain one another"})
    chk.extra["exhaustive"] = True
    chk.extra["domain_pairs"] = len(cases)
    # outside the domain (triples mixing "all" with other names): model vs implementation only
    odd = [t for t in itertools.product([b"any", b"all", b"x86"], repeat=3)]
    cases = [("ais", list(a) + list(b)) for a in odd for b in odd] + [("awild", list(a)) for a in odd + DOMAIN]
    impl, model = chk.run_both(cases)
    chk.compare("is-outside-domain", cases, impl, model, nontrivial=lambda c, r: r == "T")
    # 2. real names through ParseArch
    cases = [("aisnames", [x, y]) for x in REAL for y in REAL]
    impl = chk.run_impl(cases)
    chk.record("is-real-names", cases, impl, lambda c, r: r.startswith("T"))
    for c, i in zip(cases, impl):
        a, b = name_to_triple(c[1][0]), name_to_triple(c[1][1])
        dom = lambda t: t == ALL or b"all" not in t
        if dom(a) and dom(b):
            w = T(spec_is(a, b))
            if i != w + " " + w:
                chk.violate({"kind": "property", "case": lib.show_case(c), "impl": i, "expected": w + " " + w,
                             "explanation": "matching of real architecture names differs from the property's rule (or is not symmetric)"})
    # 2b. the same names after the caller edited the values earlier parses returned (they are the caller's): a name keeps
    # its meaning, so matching through freshly parsed names is unaffected by that history
    ac = [("aalias", [x, y]) for x in REAL for y in REAL[:3]]
    aa = chk.run_impl(ac)
    af = chk.run_impl([("aparse", [c[1][0]]) for c in ac])
    chk.record("names-after-caller-edits", ac, aa, lambda c, r: True)
    for c, a, f in zip(ac, aa, af):
        if not f.startswith("err") and a != " | ".join([f] * 4):
            chk.violate({"kind": "property", "case": lib.show_case(c), "impl": a, "fresh_parse": f,
                         "explanation": "after the caller edited the architecture values an earlier parse returned, the same name denotes another architecture: matching by name no longer follows the rule"})
    # 3. architecture lists
    reps = [ALL, (b"any", b"any", b"any"), (b"musl", b"hurd", b"x86"), (b"any", b"hurd", b"any"), (b"any", b"any", b"x86"), (b"x86", b"x86", b"x86")]
    cases, want = [], []
    for n in range(0, 4):
        for lst in itertools.product(reps, repeat=n):
            for neg in (0, 1):
                for o in (DOMAIN if n <= 2 else rng.sample(DOMAIN, 12)):
                    args = [neg] + list(o)
                    for e in lst:
                        args += list(e)
                    cases.append(("amatch", args))
                    want.append(T(spec_set(bool(neg), list(lst), o)))
    impl, model = chk.run_both(cases)
    chk.compare("archset-matches", cases, impl, model, nontrivial=lambda c, r: len(c[1]) > 4)
    for c, i, w in zip(cases, impl, want):
        if i != w:
            chk.violate({"kind": "property", "case": lib.show_case(c), "impl": i, "expected": w,
                         "explanation": "ArchSet.Matches differs from (some entry matches) xor negated"})
    # 4. selection of possibilities
    archnames = [b"amd64", b"i386", b"hurd-i386", b"linux-any", b"any-amd64", b"any", b"kfreebsd-amd64", b"musl-linux-amd64"]
    cases, want = [], []
    for _ in range(chk.n(4000, 80000)):
        rels = []
        for _r in range(rng.randrange(1, 5)):
            alts = []
            for _a in range(rng.randrange(1, 4)):
                if rng.random() < 0.2:
                    alts.append((b"${v%d}" % rng.randrange(9), None, None))
                else:
                    name = b"p%d" % rng.randrange(50)
                    if rng.random() < 0.6:
                        lst = [rng.choice(archnames) for _ in range(rng.randrange(1, 4))]
                        neg = rng.random() < 0.4
                        alts.append((name, neg, lst))
                    else:
                        alts.append((name, False, []))
            rels.append(alts)
        # a multiarch qualifier (name:arch) says which architecture's package satisfies the alternative; it does not restrict
        # the alternative to an architecture - only a bracketed list does
        qual = lambda: rng.choice([b":native", b":any", b":i386", b":amd64", b":all", b":musl-linux-amd64"]) if rng.random() < 0.3 else b""
        text = b", ".join(b" | ".join(
            (a[0] if a[1] is None else a[0] + qual() + (rng.choice([b" ", b" ", b"", b"\t "]) + b"[" + b" ".join((b"!" if a[1] else b"") + x for x in a[2]) + b"]" if a[2] else b""))
            for a in alts) for alts in rels)
        target = rng.choice([b"amd64", b"i386", b"hurd-i386", b"kfreebsd-amd64", b"musl-linux-amd64", b"armhf"])
        tt = name_to_triple(target)
        cases.append(("dposs", [text] + list(tt)))
        sel = []
        for alts in rels:
            for a in alts:
                if a[1] is None:
                    continue
                if spec_set(a[1], [name_to_triple(x) for x in a[2]], tt):
                    sel.append(a[0])
                    break
        want.append(sel)
    # alternatives WITHOUT an architecture list - values built by hand (Possibility{Name: n}, Architectures nil) and a substvar
    # the caller resolved: "an empty list admits everything", so the first alternative is selected
    nc = []
    for _ in range(chk.n(60, 600)):
        names = [b"p%d" % rng.randrange(50) for _ in range(rng.randrange(1, 4))]
        nc.append(("dpossnil", list(name_to_triple(rng.choice([b"amd64", b"i386", b"hurd-i386", b"armhf"]))) + names))
    ni = chk.run_impl(nc)
    chk.record("alternatives-without-an-architecture-list", nc, ni, lambda c, r: r.startswith("["))
    import re as _re
    for c, r in zip(nc, ni):
        parts = r.split(" / ")
        got = [[bytes.fromhex(h) for h in _re.findall(r"\{ x([0-9a-f]*) ", part)] for part in parts]
        if got != [[c[1][3]], [b"resolved", b"tail"]]:
            chk.violate({"kind": "property", "case": lib.show_case(c), "impl": r[:400],
                         "explanation": "GetPossibilities on alternatives that carry no architecture list (nil) did not select the first alternative of each relation"})
    impl, model = chk.run_both(cases)
    chk.compare("get-possibilities", cases, impl, model, nontrivial=lambda c, r: r.startswith("ok [ "))
    import re
    for c, i, w in zip(cases, impl, want):
        got = [bytes.fromhex(h) for h in re.findall(r"\{ x([0-9a-f]*) ", i)]
        if got != w:
            chk.violate({"kind": "property", "case": lib.show_case(c), "impl_names": [g.decode() for g in got],
                         "expected_names": [x.decode() for x in w],
                         "explanation": "GetPossibilities is not 'per relation, the first non-substvar alternative whose list admits the architecture'"})
    ac = [("dall", [c[1][0]]) for c in cases[::4]] + [("dsubst", [c[1][0]]) for c in cases[::4]]
    ai, am = chk.run_both(ac)
    chk.compare("all-possibilities-substvars", ac, ai, am, nontrivial=lambda c, r: r.startswith("ok [ "))
    # 5. SatisfiedBy
    pool = [b"1.0", b"1.00", b"1.0-1", b"1.0-0", b"1.0~rc1", b"1.0+b1", b"2:0.1", b"1:0", b"0", b"0.9", b"1.0a", b"1.1", b"10", b"9", b"1.0-1~", b"1.0.0"]
    bad = [b"", b"abc", b"1 0", b"1:", b"-1:1", b":1", b"1.0_1", b"1.0\xc3\xa9", b"3.\xd9\xa3", b"1\xef\xbc\x91", b"1.0-\xce\xb1", b"0\xc2\xb2"]
    opsl = [b"<<", b"<=", b"=", b">=", b">>", b"<", b">", b"==", b"!=", b"", b"=>"]
    cases, want = [], []
    vs = chk.run_impl([("vparse", [p]) for p in pool])
    parsed = {}
    for p, r in zip(pool, vs):
        t = r.split()
        parsed[p] = (int(t[1]), bytes.fromhex(t[2][1:]), bytes.fromhex(t[3][1:]))
    pairs = [(n, v) for n in pool for v in pool]
    cmpc = [("vkey", list(parsed[v]) + list(parsed[n])) for n, v in pairs]
    sg = dict(zip(pairs, chk.run_model(cmpc)))
    for o in opsl:
        for n in pool + bad:
            for v in pool:
                cases.append(("vsat", [o, n] + list(parsed[v])))
                if n in bad or o not in (b"<<", b"<=", b"=", b">=", b">>"):
                    want.append("F")
                else:
                    q = int(sg[(n, v)])
                    want.append(T({b"<<": q < 0, b"<=": q <= 0, b"=": q == 0, b">=": q >= 0, b">>": q > 0}[o]))
    impl, model = chk.run_both(cases)
    chk.compare("satisfied-by", cases, impl, model, nontrivial=lambda c, r: r == "T")
    for c, i, w in zip(cases, impl, want):
        if i != w:
            chk.violate({"kind": "property", "case": lib.show_case(c), "impl": i, "expected": w,
                         "explanation": "VersionRelation.SatisfiedBy differs from the operator table over the Policy order"})
    chk.assumptions += ["component names are compared as byte strings; the theorem is generic in the name type",
                        "SatisfiedBy composes version.Parse (C03) and version.Compare (C01)"]


def replay(chk, d):
    c = lib.case_from_replay(d)
    i, m = chk.run_both([c])
    print("impl:", i[0], "model:", m[0])
    return 1 if i[0] != m[0] else 0
