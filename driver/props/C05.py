"""C05 - rendering a parsed dependency / architecture and re-parsing it loses nothing."""
import itertools
import lib
import gen
import depgen
from props.C04 import EDIT

TOK = [b"any", b"all", b"gnu", b"linux", b"amd64", b"musl", b"kfreebsd", b"x", b"", b"freebsd", b"darwin", b"solaris", b"uclinux", b"bsd", b"hurd"]


def run(chk):
    rng = chk.rng
    texts = []
    for _ in range(chk.n(5000, 100000)):
        d = depgen.rand_dep(rng, 4, 3, rng.choice([0.3, 0.6, 0.9]))
        t = depgen.render(d, depgen.Layout(rng, rng.choice(["free", "canon", "tight"])))
        texts.append(t)
        for _ in range(2):
            texts.append(gen.mutate(rng, t, EDIT))
    texts += [gen.rand_bytes(rng, 20, EDIT) for _ in range(chk.n(8000, 160000))]
    texts += [gen.rand_bytes(rng, 16) for _ in range(chk.n(2000, 40000))]
    texts += gen.words([b"a", b" ", b"(", b")", b"[", b"]", b"<", b">", b"!", b"-", b",", b"=", b":"], 3)
    texts += [b"foo [--]", b"foo:-- ", b"a [linux-any any-amd64 musl-linux-amd64]", b"${misc:Depends}", b"(>= 1)", b"foo <>", b"foo < >",
              b"f\xc3\xa9", b"a [gnu-linux- linux-]", b"foo (= <1)", b"foo (>= =1)", b"a <!x !y> <z>", b"a:any [!i386 !amd64] (<< 2~) <a> <!b c>"]
    # a substvar with restrictions behind it: refused (a substvar is a whole alternative) - if it were accepted, the
    # rendering "${name}" would lose them
    CL = [b"(>= 1.0)", b"[linux-any]", b"[!i386 !amd64]", b"<!nocheck>", b"<a> <!b c>", b"(<< 2~) [amd64]", b"[amd64] <cross>"]
    for sub in (b"${shlibs:Depends}", b"${a}", b"${}", b"${misc:Depends }"):
        for w in (b"", b" ", b"\n  "):
            for cl in CL:
                for pre in (b"", b"foo, ", b"foo | "):
                    for suf in (b"", b", bar", b" | baz (<< 2)"):
                        texts.append(pre + sub + w + cl + suf)
    pc = [("dparse", [t]) for t in texts]
    pi, pm = chk.run_both(pc)
    chk.compare("parse", pc, pi, pm, spec=False)                 # the property is the round trip, judged below on the implementation
    acc = [(t, p) for t, p in zip(texts, pi) if p.startswith("ok")]
    chk.extra["accepted"] = len(acc)
    rc = [("drt", [t]) for t, _ in acc]
    ri, rm = chk.run_both(rc)
    chk.compare("render-reparse", rc, ri, rm, spec=False)
    cc = [("dcontrol", [t]) for t, _ in acc]
    ci = chk.run_impl(cc)
    chk.record("control-interface", cc, ci)
    for (t, p), r, c in zip(acc, ri, ci):
        for label, res in (("String", r), ("MarshalControl", c)):
            parts = res.split(" ", 2)
            if len(parts) == 3 and parts[2] == p:
                # fixpoint in one step: rendering the re-parsed value gives the same text (same value => same text)
                continue
            v = {"kind": "property", "case": lib.show_case(("drt", [t])), "parsed": p[:1500], "roundtrip_" + label: res[:1500],
                 "explanation": "Parse(%s(Parse(x))) is not structurally identical to Parse(x)" % label}
            chk.violate(v)
    # architecture names: exhaustive over 1..4 dash-separated tokens
    names = set()
    for n in range(1, 5):
        # (four-part names over the first nine tokens only: 15^4 would be fifty thousand names)
        for parts in itertools.product(TOK if n < 4 else TOK[:9], repeat=n):
            names.add(b"-".join(parts))
    names = sorted(names)
    names += [gen.rand_bytes(rng, 10, [b"a", b"-", b"any", b"all", b"gnu", b"linux", b"\xff", b" "]) for _ in range(chk.n(2000, 40000))]
    ac = [("art", [n]) for n in names]
    ai, am = chk.run_both(ac)
    chk.compare("arch-names", ac, ai, am, nontrivial=lambda c, r: True, spec=False)
    cc = [("acontrol", [n]) for n in names]
    ci = chk.run_impl(cc)
    chk.record("arch-control-interface", cc, ci, lambda c, r: True)
    for n, r, c in zip(names, ai, ci):
        for label, res in (("String", r), ("MarshalControl", c)):
            if res == "err":
                continue          # a name ParseArch refuses (an empty component) is outside the round trip
            t = res.split(" ")
            if len(t) == 7 and t[0:3] == t[4:7]:
                continue
            v = {"kind": "property", "case": lib.show_case(("art", [n])), "result": res,
                 "explanation": "ParseArch(%s(ParseArch(x))) differs from ParseArch(x)" % label}
            chk.violate(v)
    # a receiver that is used again: Arch.UnmarshalControl(b) into a value that holds the parse of a gives the parse of b
    ok_names = [n for n, r in zip(names, ai) if not r.startswith("err")]
    rc = [("areuse", [rng.choice(ok_names), b]) for b in rng.sample(ok_names, min(len(ok_names), 3000))]
    ri = chk.run_impl(rc)
    rf = chk.run_impl([("aparse", [c[1][1]]) for c in rc])
    chk.record("arch-reused-receiver", rc, ri, lambda c, r: True)
    for c, a, b in zip(rc, ri, rf):
        if a != b:
            chk.violate({"kind": "property", "case": lib.show_case(c), "impl": a, "fresh_parse": b,
                         "explanation": "parsing an architecture name into a value that was used before gives another triple than a fresh parse"})
    # blanks AROUND a name are not part of it (a folded field arrives as "linux-any\n"), blanks INSIDE refuse it - through ParseArch
    # and through Arch.UnmarshalControl alike
    bc, bw = [], []
    plain_ok = [n for n in ok_names if not any(ch in n for ch in b" \t\r\n")]
    for n in rng.sample(plain_ok, min(len(plain_ok), 300)):
        base = chk.run_impl([("aparse", [n])])[0] if False else None
        for w1, w2 in ((b"", b"\n"), (b" ", b""), (b"\t ", b" \r\n"), (b"\n", b"\n")):
            bc.append(("aparse", [w1 + n + w2])); bw.append(n)
            bc.append(("areuse", [b"all", w1 + n + w2])); bw.append(n)
    bi = chk.run_impl(bc)
    bf = dict(zip(sorted(set(bw)), chk.run_impl([("aparse", [n]) for n in sorted(set(bw))])))
    chk.record("arch-names-with-blanks-around", bc, bi, lambda c, r: True)
    for c, r, n in zip(bc, bi, bw):
        if r != bf[n]:
            chk.violate({"kind": "property", "case": lib.show_case(c), "impl": r, "bare_name": bf[n],
                         "explanation": "an architecture name with blanks around it (a folded field value) does not parse to the triple of the bare name"})
    ic = [("aparse", [a + w + b]) for a in (b"gnu-linux-", b"x", b"any-") for w in (b" ", b"\t", b" \n") for b in (b"amd64", b"y")]
    for c, r in zip(ic, chk.run_impl(ic)):
        if r != "err":
            chk.violate({"kind": "property", "case": lib.show_case(c), "impl": r,
                         "explanation": "an architecture name with a blank inside was accepted (it renders to a text that reads back as another architecture)"})
    # what the parsers hand out belongs to the caller: after the caller edited the values it got for a name, the same name
    # parsed again (alone, in a list, as qualifier, as list entry) still denotes its own triple
    simple = [n for n in ok_names if all(c not in n for c in b" !,|[]<>()$:")]
    ac = [("aalias", [n, rng.choice(simple)]) for n in rng.sample(simple, min(len(simple), 400))]
    aa = chk.run_impl(ac)
    af = chk.run_impl([("aparse", [c[1][0]]) for c in ac])
    chk.record("arch-results-owned-by-caller", ac, aa, lambda c, r: True)
    for c, a, f in zip(ac, aa, af):
        if a != " | ".join([f] * 4):
            chk.violate({"kind": "property", "case": lib.show_case(c), "impl": a, "fresh_parse": f,
                         "explanation": "after the caller edited the architecture values an earlier parse returned, parsing the same name again gives another triple"})
    chk.extra["arch_names_exhaustive"] = {"tokens": [x.decode() for x in TOK], "max_parts": 4}
    chk.assumptions += ["architecture names with an empty component ('', '-', 'linux-', '--') are refused by ParseArch (repair 2fb87ac) and so are outside the round trip"]


def replay(chk, d):
    c = lib.case_from_replay(d)
    i, m = chk.run_both([c])
    print("impl:", i[0], "model:", m[0])
    return 1 if i[0] != m[0] else 0
