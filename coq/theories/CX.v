(* The executable codec over the REGENERATED schemas (gen/Schema_gen.v): control.Marshal / Unmarshal for every
   supported field kind, as an instance of the generic record functions of C9G (so C09_written,
   C09_required_missing, C09_passthrough_order and C10_decode_pointwise are theorems about exactly the functions
   the tie executes).  The descriptor of a field - key, required, multiline, delim, strip, kind, as dumped from
   the compiled Go struct tags - plays the role of C9G's "kind"; a value carries its descriptor. *)
From Coq Require Import List Ascii String Bool Arith NArith ZArith Lia.
Require GS V3 V11 A1 D3 R2 R2u L10 C9 C9G C9F SchemaDefs.
Import ListNotations.

Definition str := list ascii.
Definition fd := SchemaDefs.fdesc.
Definition seq (a b : str) : bool := D3.seq a b.
Definition lit (x : string) : str := list_ascii_of_string x.

Inductive xval :=
  | XS (x : str) | XI (z : Z) | XU (n : N) | XB (b : bool)
  | XVer (v : V3.version) | XDep (d : D3.dep) | XArch (a : A1.arch)
  | XHash (alg hash : str) (size : Z) (name byhash : str)                 (* control.FileHash family *)
  | XChg (hash : str) (size : Z) (component priority name : str)          (* FileListChangesFileHash *)
  | XList (l : list xval)
  | XUnsupported.

(* strconv: Atoi / ParseInt(.., 10, 64) and ParseUint(.., 10, 64) *)
Definition int64_ok (z : Z) : bool := ((- 9223372036854775808 <=? z) && (z <=? 9223372036854775807))%Z.
Definition parse_int (t : str) : option Z :=
  match C9.atoi_z t with Some z => if int64_ok z then Some z else None | None => None end.
Definition parse_uint (t : str) : option N :=
  match t with [] => None | _ => match V3.dv 0 t with Some n => if (n <=? 18446744073709551615)%N then Some n else None | None => None end end.

(* strings.Trim(x, cutset) for an ASCII cutset *)
Definition in_set (cs : str) (c : ascii) : bool := existsb (fun d => GS.ceq c d) cs.
Definition trim_set (cs : str) (x : str) : str := L10.trim (in_set cs) x.
(* strings.Fields: fields are separated by runs of Unicode whitespace (unicode.IsSpace on UTF-8: the one-byte
   spaces and the encodings recognised by V11.sp2 / V11.sp3) *)
Definition flush (cur : str) : list str := match cur with [] => [] | _ => [rev cur] end.
Fixpoint fields_go (cur : str) (x : str) : list str :=
  match x with
  | [] => flush cur
  | c :: r =>
      if GS.is_space c then flush cur ++ fields_go [] r
      else match r with
           | d :: r1 =>
               if V11.sp2 c d then flush cur ++ fields_go [] r1
               else match r1 with
                    | e :: r2 => if V11.sp3 c d e then flush cur ++ fields_go [] r2 else fields_go (c :: cur) r
                    | [] => fields_go (c :: cur) r
                    end
           | [] => fields_go (c :: cur) r
           end
  end.
Definition fields (x : str) : list str := fields_go [] x.

(* control/filehash.go *)
Definition byhash_of (alg : str) : str :=
  if seq alg (lit "sha256") then lit "SHA256" else if seq alg (lit "sha512") then lit "SHA512" else [].
Definition hash_parse (alg data : str) : option xval :=
  match fields data with
  | [h; sz; name] => match parse_int sz with Some n => Some (XHash alg h n name (byhash_of alg)) | None => None end
  | [name; h] => Some (XHash alg h 0 name [])
  | _ => None
  end.
Definition chg_parse (data : str) : option xval :=
  match GS.split " "%char data with
  | h :: sz :: comp :: prio :: name :: _ => match parse_int sz with Some n => Some (XChg h n comp prio name) | None => None end
  | _ => None
  end.

Definition struct_alg (name : str) : option str :=
  if seq name (lit "pault.ag/go/debian/control.MD5FileHash") then Some (lit "md5")
  else if seq name (lit "pault.ag/go/debian/control.SHA1FileHash") then Some (lit "sha1")
  else if seq name (lit "pault.ag/go/debian/control.SHA256FileHash") then Some (lit "sha256")
  else if seq name (lit "pault.ag/go/debian/control.SHA512FileHash") then Some (lit "sha512")
  else None.

(* all-or-nothing map *)
Definition mapM_opt {A B : Type} (g : A -> option B) : list A -> option (list B) :=
  fix go (l : list A) : option (list B) :=
    match l with
    | [] => Some []
    | e :: r => match g e, go r with Some x, Some xs => Some (x :: xs) | _, _ => None end
    end.

(* decodeStructValue *)
Fixpoint decode_kind (f : fd) (k : SchemaDefs.fkind) (t : str) : option xval :=
  match k with
  | SchemaDefs.KString => Some (XS t)
  | SchemaDefs.KInt => if seq t [] then Some (XI 0) else option_map XI (parse_int t)
  | SchemaDefs.KUint => if seq t [] then Some (XU 0) else option_map XU (parse_uint t)
  | SchemaDefs.KBool => Some (XB (seq t (lit "yes")))
  | SchemaDefs.KStruct name =>
      if seq name (lit "pault.ag/go/debian/version.Version") then option_map XVer (V11.parse_u t)
      else if seq name (lit "pault.ag/go/debian/dependency.Dependency") then
        (match D3.parse t with D3.Ok d => Some (XDep d) | _ => None end)
      else if seq name (lit "pault.ag/go/debian/dependency.Arch") then option_map XArch (A1.parse_arch_opt t)
      else if seq name (lit "pault.ag/go/debian/control.FileListChangesFileHash") then chg_parse t
      else match struct_alg name with Some alg => hash_parse alg t | None => None end
  | SchemaDefs.KSlice k' =>
      let strip := SchemaDefs.strip f in
      let v := trim_set strip t in
      let delim := if SchemaDefs.has_delim f && negb (seq (SchemaDefs.delim f) []) then SchemaDefs.delim f else lit " " in
      let els := if seq delim (lit " ") then fields v
                 else match v with
                      | [] => []          (* an empty value has no elements (repair of the r12 finding: Split("", ",") = [""]) *)
                      | _ => match delim with d :: _ => GS.split d v | [] => [v] end
                      end in
      option_map XList (mapM_opt (fun e => decode_kind f k' (trim_set strip e)) els)
  | SchemaDefs.KPtr _ | SchemaDefs.KOther => None
  end.

Definition zero_kind (k : SchemaDefs.fkind) : xval :=
  match k with
  | SchemaDefs.KString => XS [] | SchemaDefs.KInt => XI 0 | SchemaDefs.KUint => XU 0 | SchemaDefs.KBool => XB false
  | SchemaDefs.KStruct name =>
      if seq name (lit "pault.ag/go/debian/version.Version") then XVer {| V3.epoch := 0; V3.upstream := []; V3.revision := [] |}
      else if seq name (lit "pault.ag/go/debian/dependency.Dependency") then XDep []
      else if seq name (lit "pault.ag/go/debian/dependency.Arch") then XArch (A1.mk [] [] [])
      else if seq name (lit "pault.ag/go/debian/control.FileListChangesFileHash") then XChg [] 0 [] [] []
      else XHash [] [] 0 [] []
  | SchemaDefs.KSlice _ => XList []
  | _ => XUnsupported
  end.

(* marshalStructValue; None = error (a type that does not implement Marshallable, unknown kind) *)
Fixpoint marshal_kind (f : fd) (v : xval) : option str :=
  match v with
  | XS x => Some x
  | XI z => Some (C9.itoa_z z)
  | XU n => Some (V3.itoa n)
  | XB b => Some (if b then lit "yes" else lit "no")
  | XVer v => Some (V3.to_string v)
  | XDep d => Some (D3.dep_string d)
  | XArch a => Some (A1.arch_string a)
  | XHash _ h sz name _ => Some (h ++ " "%char :: C9.itoa_z sz ++ " "%char :: name)
  | XChg _ _ _ _ _ => None
  | XList l =>
      let delim := if SchemaDefs.has_delim f && negb (seq (SchemaDefs.delim f) []) then SchemaDefs.delim f else lit " " in
      option_map (GS.join delim) (mapM_opt (marshal_kind f) l)
  | XUnsupported => None
  end.

(* ---- the instance of C9G: kind = descriptor, value = (descriptor, payload) ---- *)
Definition cval : Type := fd * xval.
Definition ckind_of (v : cval) : fd := fst v.
Definition czero (f : fd) : cval := (f, zero_kind (SchemaDefs.kind f)).
(* the paragraph value of a field: the marshalled data, with the newline the multiline tag puts in front of
   data that is written (encode.go tests emptiness first) *)
Definition cmarshal (v : cval) : str :=
  let f := fst v in
  match marshal_kind f (snd v) with
  | None => []
  | Some d => if SchemaDefs.multiline f then (if seq d [] && negb (SchemaDefs.required f) then [] else GS.nl :: d) else d
  end.
Definition cdecode (f : fd) (t : str) : option cval := option_map (fun x => (f, x)) (decode_kind f (SchemaDefs.kind f) t).

Definition gdesc (f : fd) : C9G.fdesc fd := {| C9G.fkey := SchemaDefs.key f; C9G.fkind := f; C9G.frequired := SchemaDefs.required f |}.
(* fields tagged control:"-" take no part *)
Definition active (sch : SchemaDefs.schema) : list fd := filter (fun f => negb (seq (SchemaDefs.key f) (lit "-"))) sch.
Definition gschema (sch : SchemaDefs.schema) : C9G.schema fd := map gdesc (active sch).

(* control.Unmarshal of one paragraph: Some record | None (error) *)
(* (since the repair of the r13 finding field-name-case the lookup is Paragraph.lookupFold: C9F) *)
Definition decode_para (sch : SchemaDefs.schema) (p : R2.para) : option (list cval) :=
  C9F.decode_fold fd cval czero cdecode (gschema sch) (R2.values p).
Definition decode_text (sch : SchemaDefs.schema) (text : str) : option (list cval) :=
  match R2u.next_u R2.empty_para [] (GS.lines_of text) with
  | R2.RPara p _ => decode_para sch p
  | _ => None
  end.

(* control.Marshal of a struct: convertToParagraph then WriteTo; None = error *)
Definition marshal_ok (r : list cval) : bool := forallb (fun v => match marshal_kind (fst v) (snd v) with Some _ => true | None => false end) r.
Definition to_r2 (p : C9G.para) : R2.para := {| R2.order := C9G.order p; R2.values := map (fun k => (k, match C9G.lookup k (C9G.values p) with Some v => v | None => [] end)) (C9G.order p) |}.
Definition convert_para (sch : SchemaDefs.schema) (has_para : bool) (found : R2.para) (r : list cval) : option R2.para :=
  if marshal_ok r then
    let f0 := if has_para then {| C9G.order := R2.order found; C9G.values := R2.values found |} else {| C9G.order := []; C9G.values := [] |} in
    Some (to_r2 (C9F.convert_fold fd cval cmarshal (gschema sch) r f0))
  else None.
Definition marshal_text (sch : SchemaDefs.schema) (has_para : bool) (found : R2.para) (r : list cval) : option str :=
  option_map R2u.write_para_u (convert_para sch has_para found r).

(* ---- the generic theorems, for these functions ---- *)
Theorem CX_required_missing : forall sch p f, In f (gschema sch) -> C9G.frequired fd f = true ->
  C9G.lookup (C9G.fkey fd f) p = None -> C9G.decode fd cval czero cdecode (gschema sch) p = None.
Proof. intros sch. exact (C9G.C09_required_missing fd cval czero cdecode (gschema sch)). Qed.

Theorem CX_passthrough_order : forall sch r found,
  filter (fun k => negb (C9G.mem k (map (C9G.fkey fd) (gschema sch)))) (C9G.order (C9G.convert fd cval cmarshal (gschema sch) r found))
  = filter (fun k => negb (C9G.mem k (map (C9G.fkey fd) (gschema sch)))) (C9G.order found).
Proof. intros sch. exact (C9G.C09_passthrough_order fd cval cmarshal (gschema sch)). Qed.

Theorem CX_decode_pointwise : forall sch p r,
  C9G.decode fd cval czero cdecode (gschema sch) p = Some r <->
  Forall2 (C9G.field_spec fd cval czero cdecode p) (gschema sch) r.
Proof. intros sch. exact (C9G.C10_decode_pointwise fd cval czero cdecode (gschema sch)). Qed.
(* the decoder the code runs (fold lookup) *)
Theorem CX_decode_fold_pointwise : forall sch p r,
  C9F.decode_fold fd cval czero cdecode (gschema sch) p = Some r <->
  Forall2 (C9F.field_spec_fold fd cval czero cdecode p) (gschema sch) r.
Proof. intros sch. exact (C9F.decode_fold_pointwise fd cval czero cdecode (gschema sch)). Qed.
Print Assumptions CX_passthrough_order.
