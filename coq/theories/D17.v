(* C14: loading a well-formed package yields exactly what was packaged; malformed ones are rejected *)
From Coq Require Import List Ascii String Bool Arith Lia.
Require Import GS D16.
Import ListNotations.

Section Deb2.
  Variables ctl : Type.
  Variable untar : str -> option (list (str * str)).
  Variable decompress : str -> str -> option str.
  Variable path_clean : str -> str.
  Variable decode_control : str -> option ctl.
  Variable ext_of : str -> str.
  Variable is_tarfile : str -> bool.
  Variable pick : list member -> option member.
  Hypothesis pick_in : forall l m, pick l = Some m -> In m l.
  Hypothesis pick_some : forall l, l <> [] -> pick l <> None.
  Notation load := (load_deb ctl untar decompress path_clean decode_control ext_of is_tarfile pick).
  Notation find_control := (find_control_entry path_clean).

  Lemma pick_single m : pick [m] = Some m.
  Proof.
    destruct (pick [m]) as [m'|] eqn:E; [|exfalso; apply (pick_some [m]); [discriminate|exact E]].
    apply pick_in in E as [->|[]]. reflexivity.
  Qed.
  Lemma pick_nil : pick [] = None.
  Proof. destruct (pick []) as [m|] eqn:E; [apply pick_in in E; contradiction|reflexivity]. Qed.

  (* the control entry is the first tar member whose cleaned name is "control" *)
  Lemma find_control_at pre name text post :
    Forall (fun f => path_clean (fst f) <> s "control") pre -> path_clean name = s "control" ->
    find_control (pre ++ (name, text) :: post) = Some text.
  Proof.
    intros Hp Hn. unfold find_control_entry. induction Hp as [|f pre Hf _ IH]; cbn [app find fst].
    - rewrite Hn. destruct (str_eqb_spec (s "control") (s "control")); [reflexivity|congruence].
    - destruct (str_eqb_spec (path_clean (fst f)) (s "control")); [contradiction|exact IH].
  Qed.

  (* C14, positive half, for any arrangement of the members *)
  Theorem C14_load ms b cn cb dn db ctar dtar cfiles dfiles text c :
    dup_names ms = false -> lookup binary_name ms = Some b -> upto_nl b = Some ver20 ->
    with_prefix (s "control.") ms = [(cn, cb)] -> with_prefix (s "data.") ms = [(dn, db)] ->
    is_tarfile cn = true -> is_tarfile dn = true ->
    decompress (ext_of cn) cb = Some ctar -> decompress (ext_of dn) db = Some dtar ->
    untar ctar = Some cfiles -> untar dtar = Some dfiles ->
    find_control cfiles = Some text -> decode_control text = Some c ->
    load ms = Some {| d_control := c; d_control_bytes := cb; d_data_bytes := db;
                      d_control_ext := skipn 8 cn; d_data_ext := skipn 5 dn;
                      d_members := ms; d_data_files := dfiles |}.
  Proof.
    intros Hd Hb Hv Hc Hdt Tc Td Dc Dd Uc Ud Fc De. unfold load_deb.
    rewrite Hd, Hb, Hv. destruct (str_eqb_spec ver20 ver20); [|congruence]. cbn [negb].
    rewrite Hc, Hdt. cbn [List.length Nat.ltb Nat.leb orb]. rewrite !pick_single, Tc, Td. cbn [negb orb].
    rewrite Dc, Dd, Uc, Ud, Fc, De. reflexivity.
  Qed.

  (* C14, negative half *)
  Theorem C14_no_binary ms : lookup binary_name ms = None -> load ms = None.
  Proof. intros H. unfold load_deb. destruct (dup_names ms); [reflexivity|]. now rewrite H. Qed.
  Theorem C14_bad_version ms b : lookup binary_name ms = Some b -> upto_nl b <> Some ver20 -> load ms = None.
  Proof.
    intros H V. unfold load_deb. destruct (dup_names ms); [reflexivity|]. rewrite H.
    destruct (upto_nl b) as [l|]; [|reflexivity]. destruct (str_eqb_spec l ver20) as [->|]; [congruence|reflexivity].
  Qed.
  Theorem C14_no_control ms : with_prefix (s "control.") ms = [] -> load ms = None.
  Proof.
    intros H. unfold load_deb. destruct (dup_names ms); [reflexivity|]. destruct (lookup binary_name ms) as [b|]; [|reflexivity].
    destruct (negb _); [reflexivity|]. rewrite H. destruct (_ || _); [reflexivity|]. now rewrite pick_nil.
  Qed.
  Theorem C14_no_data ms : with_prefix (s "data.") ms = [] -> load ms = None.
  Proof.
    intros H. unfold load_deb. destruct (dup_names ms); [reflexivity|]. destruct (lookup binary_name ms) as [b|]; [|reflexivity].
    destruct (negb _); [reflexivity|]. rewrite H. destruct (_ || _); [reflexivity|]. rewrite pick_nil.
    destruct (pick _) as [[? ?]|]; reflexivity.
  Qed.

  (* the usual arrangement: debian-binary, control.tar<cext>, data.tar<dext>, then members of other names *)
  Definition other (m : member) : Prop :=
    has_prefix_s (s "control.") (fst m) = false /\ has_prefix_s (s "data.") (fst m) = false /\ fst m <> binary_name.
  Lemma with_prefix_other p extras : Forall (fun m => has_prefix_s p (fst m) = false) extras -> with_prefix p extras = [].
  Proof. induction 1 as [|m r H _ IH]; [reflexivity|]. unfold with_prefix in *. cbn [filter]. now rewrite H. Qed.

  Theorem C14_load_standard junk cext cb dext db extras ctar dtar cfiles dfiles text c :
    let cn := s "control.tar" ++ cext in let dn := s "data.tar" ++ dext in
    let ms := (binary_name, ver20 ++ junk) :: (cn, cb) :: (dn, db) :: extras in
    Forall other extras -> dup_names extras = false ->
    is_tarfile cn = true -> is_tarfile dn = true ->
    decompress (ext_of cn) cb = Some ctar -> decompress (ext_of dn) db = Some dtar ->
    untar ctar = Some cfiles -> untar dtar = Some dfiles ->
    find_control cfiles = Some text -> decode_control text = Some c ->
    load ms = Some {| d_control := c; d_control_bytes := cb; d_data_bytes := db;
                      d_control_ext := s "tar" ++ cext; d_data_ext := s "tar" ++ dext;
                      d_members := ms; d_data_files := dfiles |}.
  Proof.
    intros cn dn ms Ho Hdup Tc Td Dc Dd Uc Ud Fc De.
    assert (O1 : Forall (fun m => has_prefix_s (s "control.") (fst m) = false) extras) by (eapply Forall_impl; [|exact Ho]; now intros m (A&_&_)).
    assert (O2 : Forall (fun m => has_prefix_s (s "data.") (fst m) = false) extras) by (eapply Forall_impl; [|exact Ho]; now intros m (_&A&_)).
    assert (NoName : forall n, (has_prefix_s (s "control.") n = true \/ has_prefix_s (s "data.") n = true \/ n = binary_name) ->
                     existsb (fun m : str * str => str_eqb (fst m) n) extras = false).
    { intros n Hn. clear -Ho Hn. induction Ho as [|m r (A&B&C) _ IH]; [reflexivity|]. cbn [existsb].
      destruct (str_eqb_spec (fst m) n) as [E|_]; [|exact IH]. exfalso. rewrite E in A, B, C.
      destruct Hn as [H|[H|H]]; congruence. }
    apply (C14_load ms (ver20 ++ junk) cn cb dn db ctar dtar cfiles dfiles text c); try assumption.
    - unfold ms. cbn [dup_names existsb fst]. rewrite (NoName binary_name) by auto.
      rewrite (NoName cn) by (left; reflexivity). rewrite (NoName dn) by (right; left; reflexivity). rewrite Hdup.
      change (str_eqb cn binary_name) with false. change (str_eqb dn binary_name) with false. change (str_eqb dn cn) with false. reflexivity.
    - reflexivity.
    - reflexivity.
    - unfold ms, with_prefix. cbn [filter fst]. change (has_prefix_s (s "control.") binary_name) with false.
      change (has_prefix_s (s "control.") cn) with true. change (has_prefix_s (s "control.") dn) with false.
      cbv iota. f_equal. now apply with_prefix_other.
    - unfold ms, with_prefix. cbn [filter fst]. change (has_prefix_s (s "data.") binary_name) with false.
      change (has_prefix_s (s "data.") cn) with false. change (has_prefix_s (s "data.") dn) with true.
      cbv iota. f_equal. now apply with_prefix_other.
  Qed.
End Deb2.
Print Assumptions C14_load_standard.
Print Assumptions C14_no_data.
