(* More accessors of the typed documents (C10): the on-demand dependency fields of the Packages / Sources indexes
   (control/index.go Get*, control/control.go getOptionalDependencyField), DSC.DebianSource, Changes.GetDSC's choice of
   file, FileHash.ByHashPath. *)
From Coq Require Import List Ascii String Bool Arith Lia.
Require Import GS R2 D3 ACC PATH.
Import ListNotations.

(* ---------- on-demand dependency fields ----------
   val := para.Values[field] (the empty string when absent); dependency.Parse(val); an error gives the empty value *)
Definition get_optional_dep (field : str) (p : R2.para) : D3.dep :=
  match D3.parse (R2.lookup field (R2.values p)) with D3.Ok d => d | _ => [] end.

Lemma lookup_absent k vs : R2.mem k vs = false -> R2.lookup k vs = [].
Proof.
  induction vs as [|[k' v] r IH]; cbn; [reflexivity|]. destruct (str_eqb k' k); cbn; [discriminate|exact IH].
Qed.
Lemma parse_empty : D3.parse [] = D3.Ok [].
Proof. vm_compute. reflexivity. Qed.

(* a field the paragraph does not have gives the empty dependency; a field whose text the parser accepts gives exactly
   the parsed value; a field whose text is malformed gives the empty dependency (the accessor has no error result) *)
Theorem ondemand_absent field p : R2.mem field (R2.values p) = false -> get_optional_dep field p = [].
Proof. intros M. unfold get_optional_dep. rewrite (lookup_absent _ _ M), parse_empty. reflexivity. Qed.
Theorem ondemand_present field p d : D3.parse (R2.lookup field (R2.values p)) = D3.Ok d -> get_optional_dep field p = d.
Proof. intros H. unfold get_optional_dep. now rewrite H. Qed.
Theorem ondemand_malformed field p : D3.parse (R2.lookup field (R2.values p)) = D3.Err -> get_optional_dep field p = [].
Proof. intros H. unfold get_optional_dep. now rewrite H. Qed.
(* it depends on nothing but that one field *)
Theorem ondemand_only_its_field field p q :
  R2.lookup field (R2.values p) = R2.lookup field (R2.values q) -> get_optional_dep field p = get_optional_dep field q.
Proof. intros H. unfold get_optional_dep. now rewrite H. Qed.

(* ---------- substring search (strings.Contains) ---------- *)
Fixpoint contains_sub (needle x : str) : bool :=
  has_prefix needle x || match x with [] => false | _ :: r => contains_sub needle r end.

Lemma has_prefix_app n r : has_prefix n (n ++ r) = true.
Proof.
  unfold has_prefix. rewrite firstn_app, firstn_all, Nat.sub_diag. cbn. rewrite app_nil_r.
  destruct (str_eqb_spec n n); [reflexivity|contradiction].
Qed.
Lemma contains_sub_intro needle a b : contains_sub needle (a ++ needle ++ b) = true.
Proof.
  induction a as [|c a IH]; cbn [app].
  - destruct (needle ++ b) eqn:E; cbn [contains_sub]; rewrite <- E, has_prefix_app; reflexivity.
  - cbn [contains_sub]. rewrite IH. apply orb_true_r.
Qed.
Lemma has_prefix_split n x : has_prefix n x = true -> exists r, x = n ++ r.
Proof.
  unfold has_prefix. intros H. destruct (str_eqb_spec (firstn (List.length n) x) n) as [E|]; [|discriminate].
  exists (skipn (List.length n) x). rewrite <- E at 1. symmetry. apply firstn_skipn.
Qed.
Lemma contains_sub_elim needle x : contains_sub needle x = true -> exists a b, x = a ++ needle ++ b.
Proof.
  induction x as [|c x IH]; cbn [contains_sub]; intros H.
  - rewrite orb_false_r in H. apply has_prefix_split in H as [r ->]. now exists [], r.
  - apply orb_true_iff in H as [H|H].
    + apply has_prefix_split in H as [r ->]. now exists [], r.
    + destruct (IH H) as (a & b & ->). now exists (c :: a), b.
Qed.
Theorem contains_sub_spec needle x : contains_sub needle x = true <-> exists a b, x = a ++ needle ++ b.
Proof. split; [apply contains_sub_elim|]. intros (a & b & ->). apply contains_sub_intro. Qed.

(* ---------- DSC.DebianSource: the first listed file whose name contains ".debian." ---------- *)
Definition debian_source (names : list str) : option str := find (contains_sub (s ".debian.")) names.
Theorem debian_source_some names n : debian_source names = Some n ->
  exists pre post, names = pre ++ n :: post /\ (exists a b, n = a ++ s ".debian." ++ b) /\
                   Forall (fun m => contains_sub (s ".debian.") m = false) pre.
Proof.
  unfold debian_source. induction names as [|m r IH]; cbn [find]; [discriminate|].
  destruct (contains_sub (s ".debian.") m) eqn:C.
  - intros E. inversion E; subst. exists [], r. repeat split; [now apply contains_sub_spec|constructor].
  - intros E. destruct (IH E) as (pre & post & -> & Hn & Hp). exists (m :: pre), post. repeat split; auto.
Qed.
Theorem debian_source_none names : debian_source names = None <-> Forall (fun m => contains_sub (s ".debian.") m = false) names.
Proof.
  unfold debian_source. induction names as [|m r IH]; cbn [find]; [split; [constructor|reflexivity]|].
  destruct (contains_sub (s ".debian.") m) eqn:C.
  - split; [discriminate|]. intros H. inversion H; subst. congruence.
  - rewrite IH. split; [now constructor|]. intros H. now inversion H.
Qed.

(* ---------- Changes.GetDSC: the first listed file whose name ends in ".dsc", looked up beside the .changes ---------- *)
Definition dsc_of_changes (names : list str) : option str := find (has_suffix (s ".dsc")) names.
Theorem dsc_of_changes_some names n : dsc_of_changes names = Some n ->
  In n names /\ has_suffix (s ".dsc") n = true.
Proof. unfold dsc_of_changes. intros H. apply find_some in H. exact H. Qed.
Theorem dsc_of_changes_none names : dsc_of_changes names = None -> forall n, In n names -> has_suffix (s ".dsc") n = false.
Proof. unfold dsc_of_changes. intros H n I. exact (find_none _ _ H n I). Qed.

(* ---------- FileHash.ByHashPath ---------- *)
Section ByHash.
  Variable dir : str -> str.                     (* ORACLE: filepath.Dir *)
  Definition by_hash_path (byhash hash path : str) : str := dir path ++ s "/by-hash/" ++ byhash ++ s "/" ++ hash.
  Theorem by_hash_path_shape byhash hash path :
    exists r, by_hash_path byhash hash path = dir path ++ r /\ has_suffix (s "/" ++ hash) r = true /\ has_prefix (s "/by-hash/" ++ byhash) r = true.
  Proof.
    exists (s "/by-hash/" ++ byhash ++ s "/" ++ hash). split; [reflexivity|]. split.
    - unfold has_suffix. rewrite !rev_app_distr. rewrite <- !app_assoc. rewrite <- rev_app_distr. rewrite app_assoc. apply has_prefix_app.
    - rewrite app_assoc. apply has_prefix_app.
  Qed.
End ByHash.

(* ---------- AbsFiles with the path model in the place of the oracle ---------- *)
(* every listed plain name becomes <directory>/<name>; order and the other columns are kept *)
Theorem abs_files_plain base cs files : PATH.clean_abs base cs -> cs <> [] ->
  Forall (fun e => PATH.plain (fst e) = true) files ->
  ACC.abs_files PATH.join2 base files = map (fun e => (base ++ PATH.slash :: fst e, snd e)) files.
Proof.
  intros C NE F. unfold ACC.abs_files. apply map_ext_in. intros e I. rewrite Forall_forall in F.
  destruct (PATH.join_plain base cs (fst e) C (F e I)) as [J _]. destruct cs; [congruence|]. cbn beta. f_equal. exact J.
Qed.
(* ... and ByHashPath with filepath.Dir from the model: for an index file <dir>/<name> it is <dir>/by-hash/<alg>/<hash> *)
Theorem by_hash_path_of_entry d cs n byhash hash : PATH.clean_abs d cs -> cs <> [] -> PATH.plain n = true ->
  by_hash_path PATH.dir byhash hash (d ++ PATH.slash :: n) = d ++ s "/by-hash/" ++ byhash ++ s "/" ++ hash.
Proof. intros C NE P. unfold by_hash_path. now rewrite (PATH.dir_of_entry d cs n C NE P). Qed.

Example acc2_ex :
  debian_source [s "x_1.0.orig.tar.gz"; s "x_1.0-1.debian.tar.xz"; s "y.debian.z"] = Some (s "x_1.0-1.debian.tar.xz") /\
  dsc_of_changes [s "x_1.0-1_amd64.deb"; s "x_1.0-1.dsc"] = Some (s "x_1.0-1.dsc") /\
  get_optional_dep (s "Depends") {| R2.order := [s "Depends"]; R2.values := [(s "Depends", s "foo (>= 1.0) | bar")] |} <> [] /\
  get_optional_dep (s "Depends") {| R2.order := [s "Depends"]; R2.values := [(s "Depends", s "foo (")] |} = [].
Proof. vm_compute. repeat split. discriminate. Qed.
