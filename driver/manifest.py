#!/usr/bin/env python3
"""Writes MANIFEST.json from the table below (so that it is always valid JSON)."""
import json, os
ROOT = os.path.dirname(os.path.dirname(os.path.abspath(__file__)))

CHECKS = {
 "C01": dict(
   text="Proof (Coq): sign(Compare a b) = epoch order, then Debian Policy 5.6.12 part-wise order of upstream, then of revision, for all versions without NUL bytes and of any length (C01.v: 5 theorems, closed under the global context). Tie: the hand-written model of Compare/verrevcmp is run against version.Compare on all pairs of short words over the version alphabet plus random long versions, and the implementation's sign is compared with the extracted Policy spec directly.",
   note="Trusted: Coq kernel; extraction (sampled in-kernel each run); Go harness and Python driver; the generator bounds the tie. Model: three loops of verrevcmp as suffix recursion, unbounded N epochs (Go: uint).",
   technique="Coq proof over a hand-written model + differential correspondence against version.Compare", ref="5/C01"),
 "C02": dict(
   text="Proof (Coq): reflexivity, antisymmetry, transitivity of <=, interchangeability of equal versions, Slice.Less is a strict weak order (sort.Sort's contract), and a merge sort over the same order returns a non-decreasing permutation, for all NUL-free versions of any length (C02.v: 8 theorems, closed). Tie: the laws are re-evaluated on version.Compare's own answers over all triples of a pool of adversarial versions, and sort.Sort(version.Slice) outputs are checked to be non-decreasing permutations under the model's order.",
   note="Trusted: as C01. sort.Sort is the Go standard library (oracle): the theorem proves its precondition and the postcondition for Coq's Mergesort over the same order; the real sort's outputs are checked by the tie. NUL bytes are excluded (C02_needs_no_nul gives the counterexample).",
   technique="Coq proof (order embedding into a lexicographic key) + differential correspondence and law evaluation on the implementation", ref="5/C02"),
 "C03": dict(
   text="Proof (Coq): any Unicode whitespace around the canonical text of a well-formed (epoch, upstream, revision) parses to exactly the triple; each rejection class of the property (non-numeric, negative, oversized, empty epoch; nothing after the colon; non-digit first character; character outside the upstream or revision alphabet; embedded or only whitespace) is rejected for every string of that shape; every accepted string round-trips through String (C03.v: 16 theorems, closed). Tie: version.Parse / String / MarshalControl / UnmarshalControl / MarshalText / UnmarshalText / encoding/json against the model on grammar renderings x Unicode whitespace, all short strings over a 14-symbol alphabet, single/double-edit near misses and raw bytes (valid and invalid UTF-8).",
   note="Trusted: as C01. The model states Go's TrimSpace/IsSpace UTF-8 behaviour as 'a space encoding starts at a non-continuation byte' (argument in V11.v), validated by the tie. Error messages are not compared.",
   technique="Coq proof over a hand-written model + differential correspondence against version.Parse/String", ref="5/C03"),
 "C04": dict(
   text="Proof (Coq): every field of the grammar - relations separated by commas, alternatives by '|', each name[:arch] with one version clause, one architecture list and any number of profile groups in any order, or a ${substvar} - with any run of blanks between any two tokens parses to exactly its relations, alternatives and clause values in order (C04_parse_render, for the model's concrete fuel); a second version or architecture clause is rejected by Parse for the first alternative of a field; every malformed class of the property is rejected by the scanner that meets it, in any context (local facts). Tie: dependency.Parse vs the model on bounded-exhaustive small ASTs x layouts, random ASTs x layouts (expected structure computed independently by the driver), the eight malformed classes, single-edit corruptions and raw bytes.",
   note="Trusted: as C01. Partial: the lifting of the malformed classes to Parse is proved for two classes and the first alternative only; the others are local facts plus the tie. Model D3 is a function-by-function transliteration of parser.go with explicit fuel 4*len+8 (C04_total: it never runs out).",
   technique="Coq proof (parser o renderer composition with an eventually-enough-fuel predicate) + differential correspondence against dependency.Parse", ref="5/C04"),
 "C05": dict(
   text="Proof (Coq): for every byte string the parser accepts, the rendering is accepted and parses to the same value, and rendering is a one-step fixpoint (C05_dep_roundtrip, C05_fixpoint, for all inputs, unless the value contains the architecture spelled '--'); parse/render/parse of any architecture name gives the same triple unless it is the triple of empty strings (C05_arch_roundtrip). Tie: Parse/String/re-Parse and the MarshalControl/UnmarshalControl interface on accepted strings from grammar renderings, their mutations and raw bytes; all architecture names of 1-4 dash-separated tokens over a 9-token vocabulary (exhaustive).",
   note="Trusted: as C01. Known finding (class blank-arch): the architecture '--' parses to the zero triple, which String() prints as ''; the theorems carry blank_arch d = false and C05_blank_arch_refuted records the witness.",
   technique="Coq proof (parser-output invariant + canonical-layout composition) + differential correspondence against Parse/String", ref="5/C05"),
 "C06": dict(
   text="Proof (Coq): Arch.Is equals the property's matching rule on its domain and is symmetric there; ArchSet.Matches is (some entry matches) xor negated with the empty list admitting everything; GetPossibilities is, per relation and in order, the first non-substvar alternative whose list admits the architecture; SatisfiedBy holds iff the number parses and Compare has the sign the operator asks for (C06.v: 5 theorems, generic in the type of component names, closed). Tie: all 65x65 pairs of the abstract domain (exhaustive) against both the model and an independent statement of the rule, real names through ParseArch, all lists of <=3 entries x negation x targets, random dependency fields x architectures, (op, N, V) over a version pool incl. equal-but-different and unparsable N and unknown operators.",
   note="Trusted: as C01. The model compares component names as opaque values; the tie instantiates them with byte strings. SatisfiedBy composes the C03 parser and the C01 comparison.",
   technique="Coq proof (finite case analysis, generic in the name type) + exhaustive correspondence on the abstract domain", ref="5/C06"),
 "C07": dict(
   text="Proof (Coq): for every document laid out from the model - paragraphs of fields with distinct keys, any blanks around the colon and at line ends (CR included), space or tab continuation markers, ' .' lines, comments anywhere, skippable lines before each paragraph, a blank line (or the end of input, with or without final newline) after it - read_all returns exactly the paragraphs' (key, logical value) lists in order; and for ANY list of lines every returned paragraph has NoDup keys and a value for exactly the keys it lists (C07.v: 4 theorems, closed). Tie: documents from the model x layouts with the expected result computed independently by the driver, mutations (orphan continuation, duplicate field, stray CR, whitespace-only lines, missing colon), raw bytes; Next loop, All, Unmarshal into a slice and Decoder.Decode loop compared with each other and with the model; the invariant re-checked on the implementation's output.",
   note="Trusted: as C01. The model's whitespace is ASCII; inputs containing UTF-8 encodings of non-ASCII Unicode spaces are not generated. In-memory readers only (no I/O errors). The three entry points are one function in the model; their agreement is established by the tie.",
   technique="Coq proof (reader o layout-renderer composition, invariant by induction over lines) + differential correspondence against ParagraphReader", ref="5/C07"),
 "C08": dict(
   text="Proof (Coq): a paragraph of reader-form fields written by WriteTo reads back as exactly the same paragraph (followed by a blank line and more text, or by nothing) - so read-write-read is the identity and the text is a fixpoint; for ANY value no line written is empty or whitespace-only; paragraphs written through the encoder read back as the same paragraphs (C08.v: 3 theorems, closed). Tie: WriteTo on all sequences of <=4 lines over 6 line shapes with and without trailing newline, random paragraphs, and three write/read cycles through the Encoder on every document the reader accepts (model documents and their mutations), with the property's own predicates (same fields/order/logical lines, text fixpoint, no blank line inside a paragraph, paragraph count) evaluated on the implementation.",
   note="Trusted: as C01. Known finding (class empty-first-line): a multi-line value whose first logical line is empty loses that line (C08_empty_first_line_refuted). Lines that are '.' alone or whitespace-only are not representable in deb822 and are excluded.",
   technique="Coq proof (writer o reader composition) + differential correspondence against WriteTo/Encoder/ParagraphReader", ref="5/C08"),
 "C13": dict(
   text="Proof (Coq): iterating the rendering of any list of well-formed members (names of 1-16 bytes with optional trailing '/', numeric columns as digit texts with blank = 0, any data, odd sizes padded) returns exactly their entries in order and then a clean end of archive; each member's reader yields exactly its bytes and depends only on the archive bytes and the member's own header (C13.v: 4 theorems, closed). Tie: deb.LoadAr/Next against the model and against the member list itself on all lists of <=2 (thorough: 3) members over 36 shapes, random archives of up to 12 members, and archives written by ar(1); earlier members are re-read after the iterator has reached the end.",
   note="Trusted: as C01. io.ReaderAt is an in-memory buffer; io.SectionReader's Seek/Read are exercised by the tie (data compared by length and Adler-32). The runner executes iterate_z, proved equal to the model's iterate.",
   technique="Coq proof (reader o renderer composition over fixed-width columns) + differential correspondence against deb.Ar", ref="5/C13"),
 "C15": dict(
   text="Proof (Coq), for ANY byte string: a returned member consumed >= 60 bytes, came from a header with both magic bytes, has a non-negative size and a reader of exactly that many bytes; at most one step per 60 input bytes; the loop never runs out of fuel (one unit per input byte), so it ends in not-an-archive, end-of-archive or an error; loading as a package gives the same outcome for any order of walking the member map and uses only such members (C15.v: 6 theorems, closed; tar/decompressors/control decoding are oracles). Tie: every numeric column of every header set to hostile text, every truncation point, magic bytes flipped, duplicated/reordered members, random mutations and raw bytes, with the property's predicate evaluated on the implementation's answers and repeated loads compared; .deb loading on stored and gzip members.",
   note="Trusted: as C01. Absence of panics in the real readers is observed by the tie (recover + watchdog), not proved about Go. Third-party decoders on hostile streams are outside the claim.",
   technique="Coq proof (progress measure / fuel sufficiency) + differential correspondence and predicate evaluation on hostile inputs", ref="5/C15"),
 "C17": dict(
   text="Proof (Coq): a changelog of dpkg-format entries (any number of empty lines before each entry and at the end) parses to exactly one entry per block, in order, with source, version, distributions, option pairs, verbatim text, maintainer and date; and for ANY input, when Parse succeeds every header line has produced an entry - so truncated or malformed input gives all entries or an error, never a shortened list; None is an error, never fuel exhaustion (C17.v: 3 theorems, generic in the version and date oracles, closed). Tie: changelog.Parse vs the model on generated changelogs (expected entries computed independently, dates via Python datetime), EVERY truncation point of a sample of them, and header/trailer/date mutations; the date oracle is time.Parse asked directly.",
   note="Trusted: as C01. time.Parse(RFC1123Z) is an oracle (cross-checked against Python email.utils in the evidence); version.Parse is the C03 model. C17_parse_render is stated for text with a final newline; the missing-final-newline case is covered by C17_never_silently_shortened and the tie.",
   technique="Coq proof (header-count invariant over arbitrary input; parser o renderer composition) + differential correspondence against changelog.Parse", ref="5/C17"),
 "C19": dict(
   text="Proof (Coq): when OrderDSCForBuild returns an order it is a permutation of the input in which every source comes after the provider (last source listing the binary) of each binary picked from its three build-dependency fields; when it reports a cycle no topological order exists; the pass loop never runs out of fuel (C19.v: 5 theorems incl. the generic topsort statements, closed). Tie: random graphs over 1-12 sources rendered as .dsc text with folded Binary / Build-Depends, parsed by ParseDsc and ordered for two architectures, compared with the model's whole text-to-order pipeline and with a graph-level oracle in the driver (permutation, providers first, error iff cyclic, same on re-run).",
   note="Trusted: as C01. pault.ag/go/topsort v0.1.1 is modelled (TS.sort), not verified beyond the tie. Sources are identified by position (distinct names). The text-to-graph path composes the C07/C10/C04/C06 models (TS3, definitions only).",
   technique="Coq proof (invariant over sorting passes; first-element argument for cycles) + differential correspondence from .dsc text", ref="5/C19"),
 "C09": dict(
   text="Proof (Coq): every scalar value round-trips; string lists of trimmed delimiter-free elements round-trip; at record level - generic in the family of value codecs, instantiated with scalars, lists and custom types given by their own codec (version: C03, dependency/architecture: C05) - unmarshalling the marshalled paragraph reproduces the record; through the text (Marshal, WriteTo, reader, decode) for scalar kinds; a field is written iff required or non-empty; a required field that is absent is an error; unknown fields of the embedded paragraph keep their relative order (C09.v: 7 theorems, closed). Tie: the codec model is an instance of the same generic functions over field descriptors REGENERATED from the compiled Go struct tags; control.Marshal/Unmarshal vs the model on four probe struct types covering every kind and tag combination, with the property's predicates (field-by-field round trip, omission/required, pass-through order and content, no panic, required-missing error) evaluated on the implementation.",
   note="Trusted: as C01, plus harness/cmd/schemadump (reflection dumper) and the probe types in harness/probe. Reflection is abstracted to the dumped descriptors. Multi-line strings compare up to the one trailing newline the reader adds (C08). Pointer fields are not a supported kind.",
   technique="Coq proof (generic record codec) + schema regeneration from struct tags + differential correspondence against control.Marshal/Unmarshal", ref="5/C09"),
 "C10": dict(
   text="Proof (Coq): for each typed document kind (.dsc, .changes, debian/control source and binary paragraphs, Packages, Sources, best checksums, .deb control) the struct tags REGENERATED from the compiled Go types satisfy the table of real Debian fields - key, kind, delimiter, strip set, hash algorithm of the element type, required flags (8 schema lemmas by vm_compute, re-checked on every run); decoding succeeds with r iff every field decodes pointwise; list fields however padded and folded decode to their elements; newline-delimited lists ignore the leading/trailing newline; accessor lemmas (C10.v: 15 statements, closed). Tie: documents rendered in real layout from a model of their fields (presence, folded vs single-line lists, multi-binary, several uploaders, 1..n files) through ParseDsc / ParseChanges / ParseControl / ParseBinaryIndex / ParseSourceIndex / deb.Control, compared with the regenerated-schema decoder of the model and, field by field, with the document model; accessors (Maintainers, HasArchAll, AbsFiles, SourcePackage, SourceName, best checksums) against the model of the document.",
   note="Trusted: as C09. The nested-struct walk of decodeStruct (keys named like fields of nested types: Epoch, Revision, Relations, ABI, OS, CPU) is not modelled and such keys are not generated. path.Join is an oracle (Python posixpath in the driver).",
   technique="Coq proof + schema regeneration (struct tags dumped by reflection, lemmas re-checked) + differential correspondence against the typed parsers", ref="5/C10"),
}
NOT_YET = {}

def main():
    props = [json.loads(l) for l in open(os.path.join(ROOT, "properties.jsonl"))]
    checks = []
    na = []
    for p in props:
        pid = p["id"]
        if pid in CHECKS:
            c = CHECKS[pid]
            checks.append({
                "property_id": pid,
                "quick_cmd": "./check %s --tier quick" % pid,
                "thorough_cmd": "./check %s --tier thorough" % pid,
                "evidence_file": "/verif/evidence/%s.json" % pid,
                "replay_cmd_template": "./check %s --replay {path}" % pid,
                "engine": "coq-model-correspondence",
                "level_claimed": {"category": "proof", "text": c["text"], "design_ref": "DESIGN.md section " + c["ref"]},
                "level_note": c["note"],
                "technique": c["technique"],
            })
        else:
            na.append({"property_id": pid, "reason": NOT_YET.get(pid, "check not built yet in this revision of /verif (models and theorems exist under coq/theories; the tie is being wired up)")})
    m = {
        "version": 1,
        "setup_cmd": "./setup.sh",
        "hooks": {"guard": "verif", "enable": "go build -tags verif (harness/ is a separate module with replace pault.ag/go/debian => /repo; no source hooks were needed)",
                  "baseline_off_cmd": "cd /repo && GOFLAGS=-mod=mod GOPROXY=off GOSUMDB=off go test -json -vet=off -count=1 ./...",
                  "source_commits": [], "add_only": True},
        "engines": [{"name": "coq-model-correspondence", "path": "/verif/check",
                     "serves_properties": [c["property_id"] for c in checks],
                     "kind_free_text": "Coq 8.16.1 theorems over hand-written Gallina models (coq/theories), tied to /repo by a differential correspondence check: extracted OCaml model runner vs Go harness built from /repo's working tree, plus an in-kernel vm_compute sample of the same cases"}],
        "checks": checks,
        "not_applicable": na,
        "notes": "See DESIGN.md. known_findings.txt lists fixed and known findings.",
    }
    if not na:
        del m["not_applicable"]
    json.dump(m, open(os.path.join(ROOT, "MANIFEST.json"), "w"), indent=1)

if __name__ == "__main__":
    main()
