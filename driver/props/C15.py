"""C15 - ar and .deb readers terminate and stay consistent on arbitrary bytes."""
import lib
import gen
import argen
import debgen


PROOF_FILES = ["C15.v", "C14w.v"]    # the witnesses for the .deb theorems live with C14's

def entries_of(res):
    out = []
    for t in res.split("( ")[1:]:
        f = t.split()
        # xname ts uid gid xmode size len a b re len a b
        out.append({"size": int(f[5]), "len": f[6], "first": f[6:9], "re": f[10:13]})
    return out


def check_consistency(chk, case, res, buflen):
    """the property's own predicate on the implementation's answer"""
    why = None
    if res in ("timeout", "panic") or res.startswith("runner-died"):
        why = "opening/iterating did not finish normally: " + res
    elif res != "notar":
        if not (res.endswith(" eof") or res.endswith(" err")):
            why = "iteration ended in neither end-of-archive nor an error"
        else:
            try:
                es = entries_of(res)
            except Exception:
                es = None
            if es is None:
                why = "unreadable answer"
            else:
                if len(es) * 60 + 8 > buflen + 1 and es:
                    why = "more than one step per 60 input bytes"
                # every returned member came from a header carrying the two-byte header magic: the header offsets
                # follow from the sizes (8, then 60 + size rounded up to even further on each time)
                buf = case[1][0]
                off = 8
                for e in es:
                    if buf[off + 58:off + 60] != b"`\n":
                        why = "a member was returned from a header (offset %d) that does not carry the two-byte header magic" % off
                        break
                    off += 60 + max(e["size"], 0) + (max(e["size"], 0) & 1)
                for e in es:
                    if e["size"] < 0:
                        why = "a member with a negative size was returned"
                    elif e["first"][0] != str(e["size"]) or e["re"] != e["first"]:
                        why = "a member's reader does not deliver exactly Size bytes (or differs on re-reading)"
    if why:
        chk.violate({"kind": "property", "case": lib.show_case(case), "impl": res[:1500], "explanation": why})


def has_uspace_header(b):
    return debgen.has_uspace(b)


def run(chk):
    rng = chk.rng
    bufs = []
    valid = []
    for _ in range(chk.n(6, 40)):
        ms = [argen.member(rng, size=rng.choice([0, 1, 7, 10, 60, 61, 130])) for _ in range(rng.randrange(1, 4))]
        valid.append(ms)
    for ms in valid:
        bufs += argen.corruptions(rng, ms)
        base = argen.render(ms)
        # truncation at every offset
        bufs += [base[:k] for k in range(len(base) + 1)]
        # a trailing newline / garbage after the last member
        bufs += [base + b"\n", base + b"\n\n", base + b"x", base + b" " * 59, base + b" " * 60]
    for _ in range(chk.n(4000, 80000)):
        base = argen.render(rng.choice(valid))
        b = bytearray(base)
        for _ in range(rng.randrange(1, 4)):
            k = rng.randrange(8, len(b)) if len(b) > 8 else 0
            b[k:k + 1] = rng.choice([b"-", b"9", b" ", b"`", b"\n", b"", b"\x00", b"6", b"/", b"+"])
        bufs.append(bytes(b))
    for _ in range(chk.n(2000, 40000)):
        bufs.append(argen.MAGIC + gen.rand_bytes(rng, 200, [b" ", b"1", b"-", b"`", b"\n", b"a", b"/", b"`\n", b" " * 10, b"0" * 5]))
    for _ in range(chk.n(500, 10000)):
        bufs.append(gen.rand_bytes(rng, 100))
    # header with size -60 (the pinned code never terminated on it), one good magic byte, truncated member
    m = {"name": b"x", "ts": b"0", "uid": b"0", "gid": b"0", "mode": b"644", "data": b"", "size_text": b"-60"}
    bufs.append(argen.render([m]))
    m2 = dict(m, size_text=b"10"); bufs.append(argen.render([m2]) + b"ab")
    bufs.append(argen.render([dict(m, name=b'n\xc2\xa0', size_text=b'0')]))        # a name ending in U+00A0
    bufs.append(argen.render([dict(m, ts=b'\xe2\x80\x831\xc2\xa0', size_text=b'0')]))
    cases = [("ariter", [b]) for b in bufs]
    impl, model = chk.run_both(cases)
    chk.compare("hostile-archives", cases, impl, model, nontrivial=lambda c, r: r != "notar", spec=False)   # consistency is judged by check_consistency
    for c, i in zip(cases, impl):
        check_consistency(chk, c, i, len(c[1][0]))
    # the reader underneath: the same hostile bytes behind an io.ReaderAt that reports EOF with the last bytes, behind an
    # open-ended SectionReader (Size() far beyond the data) or a reader whose cursor was moved give the same outcome
    k = max(1, len(cases) // chk.n(700, 7000))
    for mode in (b"eagereof", b"bigsection", b"sniff"):
        rc = [("ariterlazy", [c[1][0], mode]) for c in cases[::k]]
        ri = chk.run_impl(rc)
        chk.record("reader-" + mode.decode(), rc, ri)
        for c, a, b in zip(rc, ri, impl[::k]):
            if a != b:
                chk.violate({"kind": "property", "case": lib.show_case(c), "plain_reader": b[:800], "this_reader": a[:800],
                             "explanation": "the same bytes give another outcome (members, sizes, delivered bytes or end) through another kind of io.ReaderAt (%s)" % mode.decode()})
            else:
                check_consistency(chk, c, a, len(c[1][0]))
    # repeated loads give the same outcome
    again = chk.run_impl(cases[::5])
    for c, a, b in zip(cases[::5], impl[::5], again):
        if a != b:
            chk.violate({"kind": "property", "case": lib.show_case(c), "first": a[:800], "second": b[:800],
                         "explanation": "loading the same bytes twice gives different outcomes"})
    # ... also when other packages were loaded, closed (twice, through either way of closing) and are alive at the same
    # time: in any history, every load of the same bytes exposes the same content
    import debpkg, debhist
    pk = []
    for cenc, denc in ((".gz", ".gz"), (".gz", ".gz"), ("", ".gz"), (".xz", ".xz"), (".zst", ".zst"), (".bz2", ".bz2"), ("", ""), (".gz", ".lzma")):
        pk.append(debpkg.build(chk, rng, cenc, denc)[0])
    so = chk.run_impl([("debload", [b]) for b in pk])
    hc, hw = [], []
    for sc in debhist.FIXED:
        for trio in ((0, 1, 2), (3, 4, 5), (0, 0, 1), (4, 4, 4), (1, 6, 7)):
            hc.append(("debhist", [sc.encode()] + [pk[i] for i in trio])); hw.append(debhist.expected_of(sc, [so[i] for i in trio]))
    for _ in range(chk.n(80, 1600)):
        trio = [rng.randrange(len(pk)) for _ in range(3)]
        sc, want = debhist.rand_script(rng, 3, [so[i] for i in trio])
        hc.append(("debhist", [sc.encode()] + [pk[i] for i in trio])); hw.append(want)
    hi = chk.run_impl(hc)
    chk.record("load-histories", hc, hi, lambda c, r: r.startswith("["))
    for c, got, want in zip(hc, hi, hw):
        w = "[ " + " ".join(want) + " ]" if want else "[]"
        if got != w:
            chk.violate({"kind": "property", "case": lib.show_case(("debhist", [c[1][0]] + [b"<%d bytes>" % len(x) for x in c[1][1:]])), "impl": got[:1200], "expected": w[:1200],
                         "explanation": "in a history of loads and closes over several packages, loading the same bytes does not expose the same content as a single fresh load"})
    try:
        from props import C14
        C14.hostile_debs(chk)
    except ImportError:
        chk.notes.append(".deb streams not built yet")
    chk.assumptions += ["in-memory io.ReaderAt", "the third-party xz/lzma/bzip2/zstd decoders on hostile streams are outside the claim (property text)",
                        "the executed header parser trims Unicode whitespace exactly as Go does (ARu)"]


def replay(chk, d):
    c = lib.case_from_replay(d)
    i, m = chk.run_both([c])
    print("impl:", i[0][:500], "model:", m[0][:500])
    return 1 if i[0] != m[0] else 0
