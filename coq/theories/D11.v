(* C04: a whole relationship field in free layout parses to exactly its relations and alternatives *)
From Coq Require Import List Ascii String Bool Arith NArith Lia.
Require Import A1 D3 D4 D5 D6 D14 D9 D10.
Import ListNotations.

(* what the relation loop needs from the text t of one alternative denoting p *)
Record alt_ok (t : str) (p : possi) : Prop := {
  alt_rel : forall rel d rest rest' x, tail_ok rest rest' ->
    evOk (fun f => relation_loop f (rel ++ [p]) d rest') x -> evOk (fun f => relation_loop f rel d (t ++ rest)) x;
  alt_head : exists c t', t = c :: t' /\ is_ws c = false /\ eqc c 0 = false /\ eqc c 44 = false /\ eqc c 124 = false }.

(* the canonical rendering of a well-formed alternative (including substvars) is one *)
Lemma alt_canonical p : wf_any p -> alt_ok (possi_string p) p.
Proof.
  intros W. constructor.
  - intros rel d rest rest' x T. now apply rel_possi.
  - destruct (possi_string_cons p W) as (c&t&E). exists c, t. split; [exact E|].
    pose proof (possi_string_headok p [] W) as Hh. destruct (possi_head_facts p [] W) as (A&B&C).
    rewrite app_nil_r in *. unfold headok in Hh. rewrite E in *. cbn [peek] in *. auto.
Qed.

(* so is a name with optional qualifier and clauses in any order with any blanks (D10) *)
Lemma alt_free name q cl : name <> [] -> forallb namec name = true -> eqc (peek name) 36 = false ->
  (match q with None => True | Some a => forallb mac (arch_string a) = true /\ parse_arch (arch_string a) = a /\ arch_ok (arch_string a) = true end) ->
  clauses_ok (base name q) cl -> alt_ok (name ++ qual_text q ++ clauses_text cl) (result name q cl).
Proof.
  intros Hne Hc Hd Ha W.
  assert (Hd0 : exists c0 n0, name = c0 :: n0 /\ is_ws c0 = false /\ eqc c0 0 = false /\ eqc c0 44 = false /\ eqc c0 124 = false).
  { destruct name as [|c0 n0]; [congruence|]. exists c0, n0.
    assert (Hc0 : namec c0 = true) by (cbn in Hc; now apply andb_true_iff in Hc as [? _]).
    destruct (namec_head_facts c0 Hc0) as (W0&S0&_&_).
    unfold stop3 in S0. apply orb_false_iff in S0 as [S0 Z]. apply orb_false_iff in S0 as [A B]. auto. }
  destruct Hd0 as (c0&n0&En&W0&Z&A&B).
  constructor.
  - intros rel d rest rest' x T (f2&H2).
    pose proof (possi_any_order name q cl rel rest rest' Hne Hc Hd Ha W T) as (f1&H1).
    exists (S (f1 + f2)). intros [|f] Hf; [lia|]. rewrite relation_loop_S.
    assert (Pk : peek ((name ++ qual_text q ++ clauses_text cl) ++ rest) = c0) by (rewrite En; reflexivity).
    rewrite Pk, Z, A, B. cbn [orb]. rewrite <- !app_assoc. rewrite (H1 f ltac:(lia)). apply H2. lia.
  - exists c0, (n0 ++ qual_text q ++ clauses_text cl). rewrite En. cbn [app]. auto.
Qed.

(* ---- a relation: alternatives separated by '|' with an optional blank before and any blanks after ---- *)
Definition item : Type := bool * str * str * possi.       (* blank before '|'?, blanks after '|', text, value *)
Definition item_p (it : item) : possi := snd it.
Definition item_text (it : item) : str :=
  let '(b, w, t, _) := it in (if b then [ch 32] else []) ++ ch 124 :: w ++ t.
Definition item_ok (it : item) : Prop := let '(_, w, t, p) := it in all_ws w /\ alt_ok t p.
Definition more_text (more : list item) : str := List.concat (map item_text more).

Lemma alt_headok t p rest : alt_ok t p -> headok (t ++ rest).
Proof. intros [_ (c&t'&->&H&_)]. exact H. Qed.

Lemma rel_gen : forall more t p rel d rest, alt_ok t p -> Forall item_ok more ->
  (eqc (peek rest) 0 || eqc (peek rest) 44 = true) ->
  evOk (fun f => relation_loop f rel d (t ++ more_text more ++ rest)) (d ++ [rel ++ p :: map item_p more], rest).
Proof.
  induction more as [|[[[b w] t2] p2] more IH]; intros t p rel d rest At W Hstop.
  - cbn [more_text map List.concat app].
    assert (St : stop3 (peek rest) = true).
    { unfold stop3. apply orb_true_iff in Hstop as [H|H]; rewrite H; now rewrite ?orb_true_r. }
    apply (alt_rel t p At rel d rest rest _ (or_introl (conj eq_refl St))).
    exists 1%nat. intros [|f] Hf; [lia|]. rewrite relation_loop_S, Hstop. destruct (rel ++ [p]) eqn:E; [destruct rel; discriminate|].
    rewrite <- E. reflexivity.
  - inversion W as [|? ? Wit Wm]; subst. unfold item_ok in Wit. destruct Wit as [Hw At2].
    set (J := t2 ++ more_text more ++ rest).
    assert (Next : evOk (fun f => relation_loop f (rel ++ [p]) d (ch 124 :: w ++ J)) (d ++ [rel ++ p :: p2 :: map item_p more], rest)).
    { destruct (IH t2 p2 (rel ++ [p]) d rest At2 Wm Hstop) as (f0&H0).
      exists (S f0). intros [|f] Hf; [lia|]. rewrite relation_loop_S. cbn [peek].
      change (eqc (ch 124) 0 || eqc (ch 124) 44) with false. change (eqc (ch 124) 124) with true. cbv iota.
      cbn [adv tl]. rewrite (eat_ws_app w J Hw). subst J. rewrite (eat_ws_id _ (alt_headok t2 p2 _ At2)).
      rewrite (H0 f ltac:(lia)). now rewrite <- app_assoc. }
    cbn [map item_p snd].
    assert (Tx : more_text ((b, w, t2, p2) :: more) ++ rest = (if b then [ch 32] else []) ++ ch 124 :: w ++ J).
    { subst J. unfold more_text. cbn [map List.concat item_text]. destruct b; cbn [app]; now rewrite <- !app_assoc. }
    match goal with |- evOk (fun f => relation_loop f rel d (t ++ ?m)) _ =>
      replace m with ((if b then [ch 32] else []) ++ ch 124 :: w ++ J) by (symmetry; exact Tx) end.
    destruct b; cbn [app].
    + apply (alt_rel t p At rel d (ch 32 :: ch 124 :: w ++ J) (ch 124 :: w ++ J) _ (or_intror (conj eq_refl eq_refl))). exact Next.
    + apply (alt_rel t p At rel d (ch 124 :: w ++ J) (ch 124 :: w ++ J) _ (or_introl (conj eq_refl eq_refl))). exact Next.
Qed.

(* ---- the field: relations separated by ',' followed by any blanks ---- *)
Definition lrel : Type := str * possi * list item.          (* first alternative, then the others *)
Definition lrel_ok (r : lrel) : Prop := let '(t, p, more) := r in alt_ok t p /\ Forall item_ok more.
Definition lrel_text (r : lrel) : str := let '(t, _, more) := r in t ++ more_text more.
Definition lrel_val (r : lrel) : relation := let '(_, p, more) := r in p :: map item_p more.
Definition tail_text (more : list (str * lrel)) : str :=
  List.concat (map (fun wr => ch 44 :: fst wr ++ lrel_text (snd wr)) more).

Lemma dep_gen : forall more r0 d, lrel_ok r0 -> Forall (fun wr => all_ws (fst wr) /\ lrel_ok (snd wr)) more ->
  evOk (fun f => dependency_loop f d (lrel_text r0 ++ tail_text more))
       (d ++ lrel_val r0 :: map (fun wr => lrel_val (snd wr)) more).
Proof.
  induction more as [|[w r1] more IH]; intros [[t p] its] d [At Wi] W.
  - cbn [tail_text map List.concat]. rewrite app_nil_r. cbn [lrel_text lrel_val].
    destruct (rel_gen its t p [] d [] At Wi eq_refl) as (f1&H1). rewrite app_nil_r in H1.
    exists (S (S f1)). intros [|[|f]] Hf; try lia. rewrite dependency_loop_S.
    pose proof At as [_ (c&t'&Et&Hws&C0&C44&_)].
    assert (Pk : peek (t ++ more_text its) = c) by (rewrite Et; reflexivity). rewrite Pk, C0, C44.
    pose proof (alt_headok t p (more_text its) At) as HO. rewrite (eat_ws_id _ HO).
    rewrite (H1 (S f) ltac:(lia)). cbn [app]. reflexivity.
  - inversion W as [|? ? Wit Wm]; subst. cbn [fst snd] in Wit. destruct Wit as [Hw Wr1].
    set (J := lrel_text r1 ++ tail_text more).
    assert (Tx : lrel_text (t, p, its) ++ tail_text ((w, r1) :: more) = t ++ more_text its ++ ch 44 :: w ++ J).
    { subst J. unfold tail_text. cbn [lrel_text map List.concat fst snd]. cbn [app]. now rewrite <- !app_assoc. }
    match goal with |- evOk (fun f => dependency_loop f d ?m) _ =>
      replace m with (t ++ more_text its ++ ch 44 :: w ++ J) by (symmetry; exact Tx) end.
    cbn [lrel_val].
    destruct (rel_gen its t p [] d (ch 44 :: w ++ J) At Wi eq_refl) as (f1&H1).
    destruct (IH r1 (d ++ [p :: map item_p its]) Wr1 Wm) as (f2&H2).
    exists (S (S (f1 + f2))). intros [|[|f]] Hf; try lia. rewrite dependency_loop_S.
    pose proof At as [_ (c&t'&Et&Hws&C0&C44&_)].
    assert (Pk : peek (t ++ more_text its ++ ch 44 :: w ++ J) = c) by (rewrite Et; reflexivity). rewrite Pk, C0, C44.
    pose proof (alt_headok t p (more_text its ++ ch 44 :: w ++ J) At) as HO. rewrite (eat_ws_id _ HO).
    cbn [app] in H1. rewrite (H1 (S f) ltac:(lia)).
    rewrite dependency_loop_S. cbn [peek]. change (eqc (ch 44) 0) with false. change (eqc (ch 44) 44) with true. cbv iota.
    cbn [adv tl]. rewrite (eat_ws_app w J Hw).
    assert (HJ : headok J).
    { subst J. destruct r1 as [[t1 p1] its1]. destruct Wr1 as [At1 _]. cbn [lrel_text]. rewrite <- app_assoc. now apply (alt_headok t1 p1). }
    rewrite (eat_ws_id _ HJ). subst J. pose proof (H2 f ltac:(lia)) as K. rewrite <- app_assoc in K. cbn [app] in K.
    rewrite K. cbn [map snd]. reflexivity.
Qed.

(* C04: leading blanks, first relation, then ", relation" groups; every alternative canonical or in free layout *)
Theorem C04_field w0 r0 more : all_ws w0 -> lrel_ok r0 -> Forall (fun wr => all_ws (fst wr) /\ lrel_ok (snd wr)) more ->
  parse (w0 ++ lrel_text r0 ++ tail_text more) = Ok (lrel_val r0 :: map (fun wr => lrel_val (snd wr)) more).
Proof.
  intros Hw W0 Wm. destruct (dep_gen more r0 [] W0 Wm) as (f0&H0). cbn [app] in H0.
  set (x := w0 ++ lrel_text r0 ++ tail_text more).
  pose proof (C18_dep_terminates x) as NF. unfold parse in *.
  assert (E : eat_ws x = lrel_text r0 ++ tail_text more).
  { subst x. rewrite (eat_ws_app w0 _ Hw). apply eat_ws_id. destruct r0 as [[t p] its]. destruct W0 as [At _].
    cbn [lrel_text]. rewrite <- app_assoc. now apply (alt_headok t p). }
  rewrite E in *. set (N := (4 * List.length x + 8)%nat) in *.
  set (F := fun f => dependency_loop f [] (lrel_text r0 ++ tail_text more)) in *.
  assert (M : mono F) by (intros f r; apply dependency_loop_mono).
  destruct (Nat.le_ge_cases N f0) as [L|L].
  - pose proof (mono_ge F M N f0 (F N) L eq_refl NF) as K. pose proof (H0 f0 (le_n _)) as K2. change (F N = Ok (lrel_val r0 :: map (fun wr => lrel_val (snd wr)) more)). rewrite <- K. exact K2.
  - exact (H0 N L).
Qed.
Print Assumptions C04_field.
