// Package probe holds the struct types the C09 check marshals and unmarshals (every supported field
// kind and tag combination) and the registry of typed Debian documents for C10.  Both the harness and
// the schema dumper use it, so the Coq-side schemas are regenerated from exactly these compiled types.
package probe

import (
	"reflect"

	"pault.ag/go/debian/control"
	"pault.ag/go/debian/deb"
	"pault.ag/go/debian/dependency"
	"pault.ag/go/debian/version"
)

// scalars, renamed, required, skipped, multi-line; embeds the raw paragraph
type Scalars struct {
	control.Paragraph

	Name     string
	Count    int
	SizeOf   uint `control:"Size-Of"`
	Flag     bool
	Must     string `required:"true"`
	Hidden   string `control:"-"`
	Text     string `control:"Long-Text" multiline:"true"`
	MustNum  int    `control:"Must-Num" required:"true"`
	Optional string `control:"X-Optional"`
}

// delimiter-separated lists
type Lists struct {
	control.Paragraph

	Words  []string
	Commas []string          `control:"Comma-List" delim:"," strip:" \n\r\t"`
	Lines  []string          `control:"Line-List" delim:"\n" strip:"\n\r\t "`
	Pipes  []string          `delim:"|" strip:" "`
	Nums   []int             `delim:","`
	Archs  []dependency.Arch `control:"Architecture"`
	// a REQUIRED list is written even when it is empty ("Must-List: "), and reads back as the empty list
	MustList []string `control:"Must-List" delim:"," strip:" " required:"true"`
	MustNums []int    `control:"Must-Nums" delim:"," required:"true"`
}

// nested custom types
type Custom struct {
	control.Paragraph

	Version version.Version
	Depends dependency.Dependency
	Arch    dependency.Arch          `control:"Architecture"`
	Hashes  []control.SHA256FileHash `control:"Checksums-Sha256" delim:"\n" strip:"\n\r\t " multiline:"true"`
	Source  string                   `required:"true"`
}

// no embedded paragraph: unknown fields are dropped
type Plain struct {
	Package string `required:"true"`
	Version version.Version
	Tags    []string `control:"Tag" delim:"," strip:"\n\r\t "`
	Size    uint
	Yes     bool
}

// Types is the registry: name -> zero value
var Types = map[string]interface{}{
	"probe_scalars":  Scalars{},
	"probe_lists":    Lists{},
	"probe_custom":   Custom{},
	"probe_plain":    Plain{},
	"dsc":            control.DSC{},
	"changes":        control.Changes{},
	"source_par":     control.SourceParagraph{},
	"binary_par":     control.BinaryParagraph{},
	"binary_index":   control.BinaryIndex{},
	"source_index":   control.SourceIndex{},
	"best_checksums": control.BestChecksums{},
	"deb_control":    deb.Control{},
}

var Order = []string{"probe_scalars", "probe_lists", "probe_custom", "probe_plain", "dsc", "changes", "source_par",
	"binary_par", "binary_index", "source_index", "best_checksums", "deb_control"}

func New(name string) reflect.Value { return reflect.New(reflect.TypeOf(Types[name])) }
