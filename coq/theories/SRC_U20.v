(* The dispatch tables of the hand-written models ARE the tables of today's source text (see SRC_D3.v).
   internal/copy.go: the destination is opened write-only, created, EXCLUSIVELY - after the name was looked at with Lstat
   and removed.  That is the arrangement U20.copy_file (a name that was there disappears, then appears) and
   U20L.copy_replace (the name becomes a file of its own: no link is followed) are models of; os.Create, or O_TRUNC in the
   place of O_EXCL, is the arrangement U20L.copy_through refutes. *)
From Coq Require Import List String Bool.
Require Import U20 U20L Consts_gen.
Import ListNotations.

Lemma src_copy_creates_exclusively :
  Consts_gen.copy_open_flags = ["O_WRONLY"; "O_CREATE"; "O_EXCL"]%string /\ Consts_gen.copy_removes_first = true.
Proof. split; reflexivity. Qed.
