(* C20: DSC/Changes Copy, Move, Remove (after repairs #29, #30) over a file-system model with faults *)
From Coq Require Import List Ascii String Bool Arith Lia.
Require Import GS.
Import ListNotations.

(* A file is an entry (directory, plain name). ORACLE about the path library: for a plain name n,
   path.Join(dir, n) is entry n of dir and filepath.Base of it is n. *)
Definition entry := (str * str)%type.
Definition entry_eqb (a b : entry) : bool := str_eqb (fst a) (fst b) && str_eqb (snd a) (snd b).
Definition fsys := list (entry * str).
Fixpoint fs_get (e : entry) (f : fsys) : option str :=
  match f with (k, v) :: r => if entry_eqb k e then Some v else fs_get e r | [] => None end.
Fixpoint fs_del (e : entry) (f : fsys) : fsys :=
  match f with (k, v) :: r => if entry_eqb k e then fs_del e r else (k, v) :: fs_del e r | [] => [] end.
Definition fs_put (e : entry) (v : str) (f : fsys) : fsys := (e, v) :: fs_del e f.

Lemma entry_eqb_refl e : entry_eqb e e = true.
Proof. unfold entry_eqb. destruct (str_eqb_spec (fst e) (fst e)); [|congruence]. destruct (str_eqb_spec (snd e) (snd e)); [reflexivity|congruence]. Qed.
Lemma get_del e f : fs_get e (fs_del e f) = None.
Proof. induction f as [|[k v] r IH]; cbn; [reflexivity|]. destruct (entry_eqb k e) eqn:K; [exact IH|]. cbn. now rewrite K. Qed.
Lemma get_put e v f : fs_get e (fs_put e v f) = Some v.
Proof. unfold fs_put. cbn. now rewrite entry_eqb_refl. Qed.

Inductive event := EvCreate (e : entry) | EvDone (e : entry) | EvRemove (e : entry) | EvRename (a b : entry).
Definition touches (ev : event) : list entry :=
  match ev with EvCreate e | EvDone e | EvRemove e => [e] | EvRename a b => [a; b] end.

Definition slash : ascii := "/"%char.
Definition plain (n : str) : bool :=
  negb (str_eqb n []) && negb (str_eqb n (s ".")) && negb (str_eqb n (s "..")) && negb (existsb (fun c => ceq c slash) n).

Section Upload.
  (* fault oracle: the i-th primitive call fails *)
  Variable fault : nat -> bool.

  Record st := { fs : fsys; log : list event; tick : nat }.
  Definition step (x : st) : st * bool := ({| fs := fs x; log := log x; tick := S (tick x) |}, fault (tick x)).

  (* internal.Copy: open, create (file visible, empty), copy, close; on failure the destination is removed.
     "Create" since the repair of the r14 finding copy-follows-destination-symlink: whatever the destination holds under
     the name is REMOVED and the file created exclusively (the name then denotes a new file of its own: U20L) - a name
     that was there disappears before it appears *)
  Definition replaced (dst : entry) (f : fsys) : list event :=
    match fs_get dst f with Some _ => [EvRemove dst] | None => [] end.
  Definition copy_file (src dst : entry) (x : st) : st * bool (* ok *) :=
    let (x, f1) := step x in                                   (* os.Open *)
    match fs_get src (fs x) with
    | None => (x, false)
    | Some content =>
        if f1 then (x, false) else
        let (x, f2) := step x in                               (* os.Create *)
        if f2 then (x, false) else
        let x := {| fs := fs_put dst [] (fs x); log := log x ++ replaced dst (fs x) ++ [EvCreate dst]; tick := tick x |} in
        let (x, f3) := step x in                               (* io.Copy / Close *)
        if f3 then ({| fs := fs_del dst (fs x); log := log x ++ [EvRemove dst]; tick := tick x |}, false)
        else ({| fs := fs_put dst content (fs x); log := log x ++ [EvDone dst]; tick := tick x |}, true)
    end.
  Definition rename_file (src dst : entry) (x : st) : st * bool :=
    let (x, f) := step x in
    match fs_get src (fs x) with
    | None => (x, false)
    | Some content => if f then (x, false)
        else ({| fs := fs_put dst content (fs_del src (fs x)); log := log x ++ [EvRename src dst]; tick := tick x |}, true)
    end.
  Definition remove_file (e : entry) (x : st) : st * bool :=
    let (x, f) := step x in
    match fs_get e (fs x) with
    | None => (x, false)
    | Some _ => if f then (x, false) else ({| fs := fs_del e (fs x); log := log x ++ [EvRemove e]; tick := tick x |}, true)
    end.

  Record handle := { h_dir : str; h_file : str; h_listed : list str }.

  Fixpoint each (op : entry -> entry -> st -> st * bool) (dir dest : str) (names : list str) (x : st) : st * bool :=
    match names with
    | [] => (x, true)
    | n :: r => let (x, ok) := op (dir, n) (dest, n) x in if ok then each op dir dest r x else (x, false)
    end.

  (* the listed names are plain file names, and none of them is the control file itself (checkListedFilename; the second
     condition is repair 7cf001d: a control file that lists itself was handled as one of its own files - first) *)
  Definition listed_ok (h : handle) : bool :=
    forallb plain (h_listed h) && negb (existsb (str_eqb (h_file h)) (h_listed h)).
  Lemma listed_ok_plain h : listed_ok h = true -> forallb plain (h_listed h) = true.
  Proof. unfold listed_ok. intros H. now apply andb_true_iff in H as [H _]. Qed.
  Lemma listed_ok_not_self h : listed_ok h = true -> ~ In (h_file h) (h_listed h).
  Proof.
    unfold listed_ok. intros H Hin. apply andb_true_iff in H as [_ H]. apply negb_true_iff in H.
    assert (E : existsb (str_eqb (h_file h)) (h_listed h) = true).
    { apply existsb_exists. exists (h_file h). split; [exact Hin|]. destruct (str_eqb_spec (h_file h) (h_file h)); [reflexivity|congruence]. }
    congruence.
  Qed.

  Lemma listed_self_not_ok h : In (h_file h) (h_listed h) -> listed_ok h = false.
  Proof. intros Hin. destruct (listed_ok h) eqn:E; [|reflexivity]. exfalso. exact (listed_ok_not_self h E Hin). Qed.

  (* DSC.Copy / Changes.Copy, DSC.Move / Changes.Move: referenced files first, the control file last *)
  Definition transfer (op : entry -> entry -> st -> st * bool) (h : handle) (dest : str) (x : st) : st * bool :=
    if negb (listed_ok h) then (x, false)        (* repair #30 *)
    else let (x, ok) := each op (h_dir h) dest (h_listed h) x in
         if ok then op (h_dir h, h_file h) (dest, h_file h) x else (x, false).
  Definition do_copy := transfer copy_file.
  Definition do_move := transfer rename_file.
  Definition do_remove (h : handle) (x : st) : st * bool :=
    if negb (listed_ok h) then (x, false)
    else let (x, ok) := each (fun src _ => remove_file src) (h_dir h) [] (h_listed h) x in
         if ok then remove_file (h_dir h, h_file h) x else (x, false).

  (* ---------- logs only grow, and say what happened ---------- *)
  Definition arrives (dst : entry) (ev : event) : Prop := ev = EvCreate dst \/ (exists a, ev = EvRename a dst).
  Definition completed (dst : entry) (l : list event) : Prop := In (EvDone dst) l \/ exists a, In (EvRename a dst) l.

  Lemma copy_log src dst x x' ok : copy_file src dst x = (x', ok) ->
    exists ext, log x' = log x ++ ext /\ (forall ev, In ev ext -> touches ev = [dst]) /\
      (ok = true -> In (EvDone dst) ext /\ fs_get dst (fs x') = fs_get src (fs x)) /\
      (ok = false -> fs_get dst (fs x') = None \/ ext = []).
  Proof.
    unfold copy_file, step. cbn [fs log tick]. destruct (fs_get src (fs x)) as [content|] eqn:G.
    2:{ intros E. inversion E; subst. exists []. cbn. rewrite app_nil_r. repeat split; try discriminate; auto. contradiction. }
    destruct (fault (tick x)).
    { intros E. inversion E; subst. exists []. cbn. rewrite app_nil_r. repeat split; try discriminate; auto. contradiction. }
    destruct (fault (S (tick x))).
    { intros E. inversion E; subst. exists []. cbn. rewrite app_nil_r. repeat split; try discriminate; auto. contradiction. }
    cbn [fs log tick]. destruct (fault (S (S (tick x)))); intros E; inversion E; subst; cbn [fs log].
    - exists (replaced dst (fs x) ++ [EvCreate dst; EvRemove dst]). rewrite <- !app_assoc. repeat split; try discriminate; auto.
      + intros ev Hin. apply in_app_or in Hin as [Hin|[<-|[<-|[]]]]; try reflexivity.
        unfold replaced in Hin. destruct (fs_get dst (fs x)); [destruct Hin as [<-|[]]; reflexivity|contradiction].
      + intros _. left. rewrite entry_eqb_refl. apply get_del.
    - exists (replaced dst (fs x) ++ [EvCreate dst; EvDone dst]). rewrite <- !app_assoc. repeat split; try discriminate; auto.
      + intros ev Hin. apply in_app_or in Hin as [Hin|[<-|[<-|[]]]]; try reflexivity.
        unfold replaced in Hin. destruct (fs_get dst (fs x)); [destruct Hin as [<-|[]]; reflexivity|contradiction].
      + apply in_or_app. right. cbn. auto.
      + apply get_put.
  Qed.

  (* what the ordering argument needs from a primitive transfer *)
  Definition op_ok (op : entry -> entry -> st -> st * bool) : Prop :=
    forall src dst x x' ok, op src dst x = (x', ok) ->
      exists ext, log x' = log x ++ ext /\
        (forall ev e, In ev ext -> arrives e ev -> e = dst) /\
        (ok = true -> completed dst ext).

  Lemma copy_ok : op_ok copy_file.
  Proof.
    intros src dst x x' ok E. destruct (copy_log src dst x x' ok E) as (ext&L&T&S&_). exists ext. repeat split; auto.
    - intros ev e Hin [->|(a&->)]; specialize (T _ Hin); cbn in T; congruence.
    - intros ->. left. now apply S.
  Qed.

  Lemma rename_ok : op_ok rename_file.
  Proof.
    intros src dst x x' ok. unfold rename_file, step. cbn [fs log tick].
    destruct (fs_get src (fs x)) as [content|].
    2:{ intros E. inversion E; subst. exists []. cbn. rewrite app_nil_r. repeat split; try discriminate; auto. contradiction. }
    destruct (fault (tick x)); intros E; inversion E; subst; cbn [log].
    - exists []. rewrite app_nil_r. repeat split; try discriminate; auto. contradiction.
    - exists [EvRename src dst]. repeat split; auto.
      + intros ev e [<-|[]] [H|(a&H)]; congruence.
      + intros _. right. exists src. now left.
  Qed.

  Lemma each_log op : op_ok op -> forall names dir dest x x' ok, each op dir dest names x = (x', ok) ->
    exists ext, log x' = log x ++ ext /\
      (forall ev e, In ev ext -> arrives e ev -> exists n, In n names /\ e = (dest, n)) /\
      (ok = true -> forall n, In n names -> completed (dest, n) ext).
  Proof.
    intros OK. induction names as [|n r IH]; intros dir dest x x' ok E; cbn [each] in E.
    - inversion E; subst. exists []. rewrite app_nil_r. repeat split; auto; contradiction.
    - destruct (op (dir, n) (dest, n) x) as [x1 ok1] eqn:O. destruct (OK _ _ _ _ _ O) as (e1&L1&A1&C1).
      destruct ok1.
      + destruct (IH dir dest x1 x' ok E) as (e2&L2&A2&C2). exists (e1 ++ e2). rewrite L2, L1, <- app_assoc.
        repeat split; auto.
        * intros ev e Hin Ha. apply in_app_or in Hin as [Hin|Hin].
          -- exists n. split; [now left|]. eapply A1; eauto.
          -- destruct (A2 ev e Hin Ha) as (m&Hm&->). exists m. split; [now right|reflexivity].
        * intros -> m [<-|Hm].
          -- destruct (C1 eq_refl) as [D|(a&D)]; [left|right; exists a]; apply in_or_app; now left.
          -- destruct (C2 eq_refl m Hm) as [D|(a&D)]; [left|right; exists a]; apply in_or_app; now right.
      + inversion E; subst. exists e1. repeat split; auto; try discriminate.
        intros ev e Hin Ha. exists n. split; [now left|]. eapply A1; eauto.
  Qed.

  (* C20: whenever the control file arrives in the destination, every referenced file is already complete there *)
  Theorem C20_control_last op h dest x x' ok : op_ok op -> ~ In (h_file h) (h_listed h) ->
    transfer op h dest x = (x', ok) ->
    exists ext, log x' = log x ++ ext /\
      forall pre ev post, ext = pre ++ ev :: post -> arrives (dest, h_file h) ev ->
        forall n, In n (h_listed h) -> completed (dest, n) pre.
  Proof.
    intros OK Hnot. unfold transfer. destruct (negb (listed_ok h)).
    { intros E. inversion E; subst. exists []. rewrite app_nil_r. split; [reflexivity|]. intros [|? ?] ? ? E2; discriminate. }
    destruct (each op (h_dir h) dest (h_listed h) x) as [x1 ok1] eqn:EA.
    destruct (each_log op OK _ _ _ _ _ _ EA) as (e1&L1&A1&C1). destruct ok1.
    - intros O. destruct (OK _ _ _ _ _ O) as (e2&L2&A2&_). exists (e1 ++ e2). rewrite L2, L1, <- app_assoc. split; [reflexivity|].
      intros pre ev post E Ha n Hn.
      (* ev is not among e1: those arrivals concern listed names only *)
      assert (Hpre : exists q, pre = e1 ++ q).
      { clear -E Ha A1 Hnot. revert pre E. induction e1 as [|a e1 IH]; intros pre E; [now exists pre|].
        destruct pre as [|b pre].
        - cbn in E. inversion E; subst. destruct (A1 ev (dest, h_file h) (or_introl eq_refl) Ha) as (m&Hm&Em). inversion Em; subst. contradiction.
        - cbn in E. inversion E; subst. destruct (IH (fun ev e Hin => A1 ev e (or_intror Hin)) pre H1) as (q&->). now exists q. }
      destruct Hpre as (q&->). destruct (C1 eq_refl n Hn) as [D|(a&D)]; [left|right; exists a]; apply in_or_app; now left.
    - intros E. inversion E; subst. exists e1. split; [exact L1|].
      intros pre ev post E2 Ha. assert (In ev e1) by (rewrite E2; apply in_or_app; right; now left).
      destruct (A1 ev _ H Ha) as (m&Hm&Em). inversion Em; subst. contradiction.
  Qed.

  (* confinement: with the plain-name check, every entry touched lies in the control file's directory or in dest *)
  Definition op_touch (op : entry -> entry -> st -> st * bool) : Prop :=
    forall src dst x x' ok, op src dst x = (x', ok) ->
      exists ext, log x' = log x ++ ext /\ forall ev e, In ev ext -> In e (touches ev) -> e = src \/ e = dst.
  Lemma copy_touch : op_touch copy_file.
  Proof.
    intros src dst x x' ok E. destruct (copy_log src dst x x' ok E) as (ext&L&T&_). exists ext. split; [exact L|].
    intros ev e Hin He. rewrite (T _ Hin) in He. destruct He as [<-|[]]. now right.
  Qed.
  Lemma rename_touch : op_touch rename_file.
  Proof.
    intros src dst x x' ok. unfold rename_file, step. cbn [fs log tick]. destruct (fs_get src (fs x)).
    2:{ intros E. inversion E; subst. exists []. rewrite app_nil_r. split; [reflexivity|contradiction]. }
    destruct (fault (tick x)); intros E; inversion E; subst; cbn [log].
    - exists []. rewrite app_nil_r. split; [reflexivity|contradiction].
    - exists [EvRename src dst]. split; [reflexivity|]. intros ev e [<-|[]] [<-|[<-|[]]]; auto.
  Qed.

  Lemma each_touch op : op_touch op -> forall names dir dest x x' ok, each op dir dest names x = (x', ok) ->
    exists ext, log x' = log x ++ ext /\
      forall ev e, In ev ext -> In e (touches ev) -> exists n, In n names /\ (e = (dir, n) \/ e = (dest, n)).
  Proof.
    intros OT. induction names as [|n r IH]; intros dir dest x x' ok E; cbn [each] in E.
    - inversion E; subst. exists []. rewrite app_nil_r. split; [reflexivity|contradiction].
    - destruct (op (dir, n) (dest, n) x) as [x1 ok1] eqn:O. destruct (OT _ _ _ _ _ O) as (e1&L1&T1). destruct ok1.
      + destruct (IH dir dest x1 x' ok E) as (e2&L2&T2). exists (e1 ++ e2). rewrite L2, L1, <- app_assoc. split; [reflexivity|].
        intros ev e Hin He. apply in_app_or in Hin as [Hin|Hin].
        * exists n. split; [now left|]. eapply T1; eauto.
        * destruct (T2 ev e Hin He) as (m&Hm&Hd). exists m. split; [now right|exact Hd].
      + inversion E; subst. exists e1. split; [exact L1|]. intros ev e Hin He. exists n. split; [now left|]. eapply T1; eauto.
  Qed.

  Theorem C20_confined op h dest x x' ok : op_touch op -> transfer op h dest x = (x', ok) ->
    exists ext, log x' = log x ++ ext /\
      forall ev e, In ev ext -> In e (touches ev) ->
        exists n, plain n = true /\ (e = (h_dir h, n) \/ e = (dest, n)) \/ (n = h_file h /\ (e = (h_dir h, n) \/ e = (dest, n))).
  Proof.
    intros OT. unfold transfer. destruct (listed_ok h) eqn:P; cbn [negb].
    2:{ intros E. inversion E; subst. exists []. rewrite app_nil_r. split; [reflexivity|contradiction]. }
    apply listed_ok_plain in P. rewrite forallb_forall in P.
    destruct (each op (h_dir h) dest (h_listed h) x) as [x1 ok1] eqn:EA.
    destruct (each_touch op OT _ _ _ _ _ _ EA) as (e1&L1&T1). destruct ok1.
    - intros O. destruct (OT _ _ _ _ _ O) as (e2&L2&T2). exists (e1 ++ e2). rewrite L2, L1, <- app_assoc. split; [reflexivity|].
      intros ev e Hin He. apply in_app_or in Hin as [Hin|Hin].
      + destruct (T1 ev e Hin He) as (n&Hn&Hd). exists n. left. split; [now apply P|exact Hd].
      + exists (h_file h). right. split; [reflexivity|]. eapply T2; eauto.
    - intros E. inversion E; subst. exists e1. split; [exact L1|]. intros ev e Hin He.
      destruct (T1 ev e Hin He) as (n&Hn&Hd). exists n. left. split; [now apply P|exact Hd].
  Qed.

  (* a listed name with a path separator (or "", ".", "..") stops the operation before anything is touched *)
  Theorem C20_traversal_refused op h dest x : listed_ok h = false -> transfer op h dest x = (x, false).
  Proof. intros H. unfold transfer. now rewrite H. Qed.

  (* ---------- frame: an operation on (src, dst) leaves every other entry alone ---------- *)
  Lemma entry_eqb_sym a b : entry_eqb a b = entry_eqb b a.
  Proof.
    unfold entry_eqb. destruct (str_eqb_spec (fst a) (fst b)), (str_eqb_spec (fst b) (fst a)); try congruence;
    destruct (str_eqb_spec (snd a) (snd b)), (str_eqb_spec (snd b) (snd a)); try congruence; reflexivity.
  Qed.
  Lemma get_del_other e d f : entry_eqb d e = false -> fs_get e (fs_del d f) = fs_get e f.
  Proof.
    intros H. induction f as [|[k v] r IH]; cbn; [reflexivity|]. destruct (entry_eqb k d) eqn:K.
    - destruct (entry_eqb k e) eqn:K2; [|exact IH].
      exfalso. unfold entry_eqb in *. destruct (str_eqb_spec (fst k) (fst d)), (str_eqb_spec (snd k) (snd d)); try discriminate.
      destruct (str_eqb_spec (fst k) (fst e)), (str_eqb_spec (snd k) (snd e)); try discriminate.
      destruct (str_eqb_spec (fst d) (fst e)), (str_eqb_spec (snd d) (snd e)); try discriminate; congruence.
    - cbn. destruct (entry_eqb k e); [reflexivity|exact IH].
  Qed.
  Lemma get_put_other e d v f : entry_eqb d e = false -> fs_get e (fs_put d v f) = fs_get e f.
  Proof. intros H. unfold fs_put. cbn. rewrite H. now apply get_del_other. Qed.

  Lemma copy_frame src dst x x' ok e : copy_file src dst x = (x', ok) -> entry_eqb dst e = false -> fs_get e (fs x') = fs_get e (fs x).
  Proof.
    unfold copy_file, step. cbn [fs log tick]. destruct (fs_get src (fs x)); [|intros E; now inversion E].
    destruct (fault (tick x)); [intros E; now inversion E|]. destruct (fault (S (tick x))); [intros E; now inversion E|].
    cbn [fs log tick]. destruct (fault (S (S (tick x)))); intros E H; inversion E; subst; cbn [fs].
    - unfold fs_put. cbn [fs_del]. rewrite entry_eqb_refl. rewrite !get_del_other by exact H. reflexivity.
    - unfold fs_put. cbn [fs_del fs_get]. rewrite entry_eqb_refl. rewrite H. rewrite !get_del_other by exact H. reflexivity.
  Qed.

  Lemma each_copy_frame : forall names dir dest x x' ok e, each copy_file dir dest names x = (x', ok) ->
    (forall n, In n names -> entry_eqb (dest, n) e = false) -> fs_get e (fs x') = fs_get e (fs x).
  Proof.
    induction names as [|n r IH]; intros dir dest x x' ok e E H; cbn [each] in E; [now inversion E|].
    destruct (copy_file (dir, n) (dest, n) x) as [x1 ok1] eqn:C.
    pose proof (copy_frame _ _ _ _ _ e C (H n (or_introl eq_refl))) as F1. destruct ok1.
    - rewrite (IH _ _ _ _ _ e E); [exact F1|]. intros m Hm. apply H. now right.
    - inversion E; subst. exact F1.
  Qed.

  Lemma copy_fail src dst x x' : copy_file src dst x = (x', false) -> fs_get dst (fs x') = None \/ fs x' = fs x.
  Proof.
    unfold copy_file, step. cbn [fs log tick]. destruct (fs_get src (fs x)); [|intros E; inversion E; now right].
    destruct (fault (tick x)); [intros E; inversion E; now right|]. destruct (fault (S (tick x))); [intros E; inversion E; now right|].
    cbn [fs log tick]. destruct (fault (S (S (tick x)))); intros E; inversion E; subst; cbn [fs].
    left. rewrite entry_eqb_refl. apply get_del.
  Qed.

  Lemma entry_neq dest a b : a <> b -> entry_eqb (dest, a) (dest, b) = false.
  Proof.
    intros H. unfold entry_eqb. cbn. destruct (str_eqb_spec dest dest); [|congruence]. destruct (str_eqb_spec a b); [contradiction|reflexivity].
  Qed.

  (* C20: if Copy fails, the control file is not in the destination (it was not there before) *)
  Theorem C20_copy_fail_clean h dest x x' : ~ In (h_file h) (h_listed h) ->
    fs_get (dest, h_file h) (fs x) = None ->
    do_copy h dest x = (x', false) -> fs_get (dest, h_file h) (fs x') = None.
  Proof.
    intros Hnot H0. unfold do_copy, transfer. destruct (negb (listed_ok h)); [intros E; inversion E; subst; exact H0|].
    destruct (each copy_file (h_dir h) dest (h_listed h) x) as [x1 ok1] eqn:EA.
    assert (F : fs_get (dest, h_file h) (fs x1) = None).
    { rewrite (each_copy_frame _ _ _ _ _ _ (dest, h_file h) EA); [exact H0|]. intros n Hn. apply entry_neq. intros ->. contradiction. }
    destruct ok1.
    - intros C. destruct (copy_fail _ _ _ _ C) as [K|K]; [exact K|]. now rewrite K.
    - intros E. inversion E; subst. exact F.
  Qed.

  (* C20: after a successful Copy the control file is in the destination with the source's content *)
  Theorem C20_copy_success h dest x x' : do_copy h dest x = (x', true) ->
    exists x1, fs_get (dest, h_file h) (fs x') = fs_get (h_dir h, h_file h) (fs x1) /\ fs_get (h_dir h, h_file h) (fs x1) <> None.
  Proof.
    unfold do_copy, transfer. destruct (negb (listed_ok h)); [discriminate|].
    destruct (each copy_file (h_dir h) dest (h_listed h) x) as [x1 ok1]; destruct ok1; [|discriminate].
    intros C. exists x1. destruct (copy_log _ _ _ _ _ C) as (ext&_&_&S&_). destruct (S eq_refl) as [_ G]. split; [exact G|].
    unfold copy_file, step in C. cbn [fs log tick] in C. destruct (fs_get (h_dir h, h_file h) (fs x1)); [discriminate|]. inversion C.
  Qed.
End Upload.
Print Assumptions C20_control_last.
Print Assumptions C20_confined.
Print Assumptions C20_copy_fail_clean.
