From Coq Require Import List Bool Arith ZArith Lia.
Require Import M6.
Import ListNotations.

Section More.
  Variable T : Type.
  Variable eqb : T -> T -> bool.
  Hypothesis eqb_spec : forall a b, reflect (a = b) (eqb a b).
  Variables any all : T.
  Hypothesis any_all : any <> all.
  Notation arch := (arch T).
  Notation arch_is := (arch_is T eqb any all).
  Notation matches := (matches T any all).
  Notation dom := (dom T all).

  Lemma matches_sym a b : matches a b -> matches b a.
  Proof.
    unfold M6.matches. intros [[H1 H2]|[(H1&H2&H3)|[(H1&H2&H3)|(H1&H2&H3)]]].
    - left; auto.
    - right; left; auto.
    - right; right; right; auto.
    - right; right; left; auto.
  Qed.

  Theorem C06_is_sym a b : dom a -> dom b -> arch_is a b = arch_is b a.
  Proof.
    intros Da Db. pose proof (C06_is_spec T eqb eqb_spec any all any_all a b Da Db) as H1.
    pose proof (C06_is_spec T eqb eqb_spec any all any_all b a Db Da) as H2.
    destruct (arch_is a b) eqn:E1, (arch_is b a) eqn:E2; try reflexivity.
    - assert (matches b a) by (apply matches_sym; now apply H1). apply H2 in H. congruence.
    - assert (matches a b) by (apply matches_sym; now apply H2). apply H1 in H. congruence.
  Qed.

  (* ---- ArchSet.Matches: the early-return loop ---- *)
  Record archset := { a_not : bool; a_list : list arch }.
  Fixpoint matches_loop (nt : bool) (l : list arch) (o : arch) : bool :=
    match l with
    | [] => nt
    | el :: r => if arch_is el o then negb nt else matches_loop nt r o
    end.
  Definition set_matches (s : archset) (o : arch) : bool :=
    match a_list s with [] => true | l => matches_loop (a_not s) l o end.

  Theorem C06_set s o : set_matches s o =
    match a_list s with [] => true | l => xorb (existsb (fun e => arch_is e o) l) (a_not s) end.
  Proof.
    unfold set_matches. destruct (a_list s) as [|e l]; [reflexivity|].
    generalize (e :: l). intros l0. induction l0 as [|x r IH]; cbn.
    - now destruct (a_not s).
    - destruct (arch_is x o); cbn; [now destruct (a_not s)|exact IH].
  Qed.

  (* ---- Dependency.GetPossibilities ---- *)
  Variable name : Type.
  Record possi := { p_name : name; p_archs : archset; p_subst : bool }.
  Fixpoint first_alt (alts : list possi) (o : arch) : list possi :=   (* inner loop with continue / break *)
    match alts with
    | [] => []
    | p :: r => if p_subst p then first_alt r o
                else if set_matches (p_archs p) o then [p] else first_alt r o
    end.
  Fixpoint get_possibilities (rels : list (list possi)) (o : arch) : list possi :=
    match rels with [] => [] | r :: rs => first_alt r o ++ get_possibilities rs o end.

  Definition admits (o : arch) (p : possi) : bool := negb (p_subst p) && set_matches (p_archs p) o.
  Theorem C06_select rels o : get_possibilities rels o =
    flat_map (fun r => match find (admits o) r with Some p => [p] | None => [] end) rels.
  Proof.
    induction rels as [|r rs IH]; [reflexivity|]. cbn [get_possibilities flat_map]. rewrite IH. f_equal.
    induction r as [|p r IHr]; [reflexivity|]. cbn [first_alt find]. unfold admits at 1.
    destruct (p_subst p); cbn [negb andb]; [exact IHr|]. destruct (set_matches (p_archs p) o); [reflexivity|exact IHr].
  Qed.
End More.

(* ---- VersionRelation.SatisfiedBy: operator switch over the sign of Compare ---- *)
Section Sat.
  Variable ver : Type.
  Variable parse : list nat -> option ver.      (* version.Parse on the Number text *)
  Variable compare : ver -> ver -> Z.          (* version.Compare *)
  Inductive op := OLt | OLe | OEq | OGe | OGt | OUnknown.
  Definition satisfied_by (o : op) (number : list nat) (v : ver) : bool :=
    match parse number with
    | None => false
    | Some n =>
        let q := compare v n in
        match o with
        | OGe => (0 <=? q)%Z | OLe => (q <=? 0)%Z | OGt => (0 <? q)%Z | OLt => (q <? 0)%Z | OEq => (q =? 0)%Z
        | OUnknown => false
        end
    end.
  Definition holds (o : op) (q : Z) : Prop :=
    match o with OLt => (q < 0)%Z | OLe => (q <= 0)%Z | OEq => q = 0%Z | OGe => (q >= 0)%Z | OGt => (q > 0)%Z | OUnknown => False end.
  Theorem C06_satisfied o number v :
    satisfied_by o number v = true <-> exists n, parse number = Some n /\ holds o (compare v n).
  Proof.
    unfold satisfied_by. destruct (parse number) as [n|].
    - split.
      + intros H. exists n. split; [reflexivity|]. destruct o; cbn in *; try discriminate; lia.
      + intros (n'&E&H). inversion E; subst. destruct o; cbn in *; try contradiction; lia.
    - split; [discriminate|]. intros (n&E&_). discriminate.
  Qed.
End Sat.
Print Assumptions C06_is_sym.
Print Assumptions C06_select.
Print Assumptions C06_satisfied.
