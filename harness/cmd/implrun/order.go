package main

import (
	"bufio"
	"strings"

	"pault.ag/go/debian/control"
	"pault.ag/go/debian/dependency"
)

// otherKinds decodes one document of every other typed kind: a program that orders sources has usually read
// .changes files and indexes before, in the same process
func otherKinds() {
	// ... and has parsed architecture names and re-used the values it got (they are the caller's), as a build driver moving
	// from one target to the next does
	for _, n := range []string{"amd64", "i386", "hurd-i386", "linux-any", "any-amd64", "hurd-any", "any", "all", "kfreebsd-amd64", "musl-linux-amd64"} {
		if x, err := dependency.ParseArch(n); err == nil {
			x.UnmarshalControl("sparc64")
			x.ABI, x.OS = "edited", "edited"
		}
	}
	control.ParseChanges(bufio.NewReader(strings.NewReader("Format: 1.8\nSource: w\nBinary: w1 w2 w3\nArchitecture: source amd64\nVersion: 1-1\nMaintainer: A <a@b.c>\nCloses: 1 2\nFiles:\n d41d8cd98f00b204e9800998ecf8427e 0 devel optional w_1-1.dsc\n")), "")
	control.ParseSourceIndex(bufio.NewReader(strings.NewReader("Package: v\nBinary: v1, v2\nVersion: 1\nArchitecture: any all\nFiles:\n d41d8cd98f00b204e9800998ecf8427e 0 v_1.dsc\n")))
	control.ParseBinaryIndex(bufio.NewReader(strings.NewReader("Package: u\nVersion: 1\nArchitecture: amd64\nTag: a::b, c::d\nBuild-Ids: 1 2\n")))
	control.ParseDsc(bufio.NewReader(strings.NewReader("Format: 3.0 (quilt)\nSource: s\nBinary: s1, s2, s3\nArchitecture: any all\nVersion: 1-1\nMaintainer: A <a@b.c>\nUploaders: B <b@b.c>, C <c@b.c>\nFiles:\n d41d8cd98f00b204e9800998ecf8427e 0 s_1.orig.tar.gz\n")), "")
	control.ParseControl(bufio.NewReader(strings.NewReader("Source: t\nMaintainer: A <a@b.c>\nUploaders: B <b@b.c>, C <c@b.c>\nBuild-Depends: x, y\n\nPackage: t1\nArchitecture: any all\n")), "")
}

func init() {
	// tdocafter kind text: the typed parser in a process that has decoded documents of the other kinds first
	ops["tdocafter"] = func(a []string) string {
		otherKinds()
		return ops["tdoc"](a)
	}
	// dscorderafter: the same, in a process that has decoded documents of the other kinds first
	ops["dscorderafter"] = func(a []string) string {
		otherKinds()
		return ops["dscorder"](a)
	}
	// dscorderv: as dscorder, but every source is shown as Source_Version: several versions of one source in one set
	ops["dscorderv"] = func(a []string) string {
		arch := mkArch(a, 0)
		dscs := []control.DSC{}
		for _, text := range a[3:] {
			d, err := control.ParseDsc(bufio.NewReader(strings.NewReader(text)), "")
			if err != nil {
				return "parse-error"
			}
			dscs = append(dscs, *d)
		}
		out, err := control.OrderDSCForBuild(dscs, arch)
		if err != nil {
			return "err"
		}
		names := []string{}
		for _, d := range out {
			names = append(names, hx(d.Source+"_"+d.Version.String()))
		}
		return "ok " + showList(names)
	}
	ops["dscorder"] = func(a []string) string {
		arch := mkArch(a, 0)
		dscs := []control.DSC{}
		for _, text := range a[3:] {
			d, err := control.ParseDsc(bufio.NewReader(strings.NewReader(text)), "")
			if err != nil {
				return "parse-error"
			}
			dscs = append(dscs, *d)
		}
		out, err := control.OrderDSCForBuild(dscs, arch)
		if err != nil {
			if len(out) != 0 {
				return "err-with-value"
			}
			return "err"
		}
		names := []string{}
		for _, d := range out {
			names = append(names, hx(d.Source))
		}
		return "ok " + showList(names)
	}
}
