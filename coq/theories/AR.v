(* deb/ar.go after the drafted repairs: model, progress/termination/consistency (C15) *)
From Coq Require Import List Ascii String Bool Arith ZArith Lia.
Require Import GS.
Import ListNotations.

(* ---- strconv.Atoi on short fields: optional sign, at least one digit, digits only ---- *)
Definition is_digit (c : ascii) : bool := (48 <=? code c) && (code c <=? 57).
Fixpoint digits_val (acc : Z) (x : str) : option Z :=
  match x with
  | [] => Some acc
  | c :: r => if is_digit c then digits_val (10 * acc + Z.of_nat (code c - 48)) r else None
  end.
Definition plus : ascii := "+"%char.
Definition minus : ascii := "-"%char.
Definition atoi (x : str) : option Z :=
  match x with
  | [] => None
  | c :: r =>
      if ceq c plus then (match r with [] => None | _ => digits_val 0 r end)
      else if ceq c minus then (match r with [] => None | _ => option_map Z.opp (digits_val 0 r) end)
      else digits_val 0 x
  end.

(* ---- io.ReaderAt over an in-memory buffer, offsets are never negative after the repair ---- *)
Definition sub (buf : str) (off n : nat) : str := firstn n (skipn off buf).

Record entry := { e_name : str; e_ts : Z; e_uid : Z; e_gid : Z; e_mode : str; e_size : Z;
                  e_hdr : nat (* offset of the header: model-only bookkeeping *) }.

Definition slash : ascii := "/"%char.
Definition bq : ascii := "`"%char.

Definition field_num (f : str) : option Z :=
  let t := trim_space f in if str_eqb t [] then Some 0%Z else atoi t.

(* strings.TrimRight(x, " "): only the column's trailing SPACE padding goes (byte-wise: the cutset is ASCII); blanks in
   front of the name, and trailing tabs or carriage returns, are part of the recorded name (repair 215f837) *)
Fixpoint drop_sp (x : str) : str := match x with c :: r => if ceq c sp then drop_sp r else x | [] => [] end.
Definition trim_right_sp (x : str) : str := rev (drop_sp (rev x)).

(* parseArEntry on the 60 bytes at offset off *)
Definition parse_entry (off : nat) (line : str) : option entry :=
  if negb (List.length line =? 60) then None
  else if negb (ceq (nth 58 line zero) bq && ceq (nth 59 line zero) nl) then None
  else
    match field_num (sub line 16 12), field_num (sub line 28 6), field_num (sub line 34 6), field_num (sub line 48 10) with
    | Some ts, Some uid, Some gid, Some size =>
        if (size <? 0)%Z then None
        else Some {| e_name := trim_suffix [slash] (trim_right_sp (sub line 0 16));
                     e_ts := ts; e_uid := uid; e_gid := gid;
                     e_mode := trim_space (sub line 40 8); e_size := size; e_hdr := off |}
    | _, _, _, _ => None
    end.

Inductive nres := NEntry (e : entry) (off' : nat) | NEof | NErr.

Definition ar_next (buf : str) (off : nat) : nres :=
  let line := sub buf off 60 in
  let count := List.length line in
  if count =? 0 then NEof
  else if (count =? 1) && str_eqb line [nl] then NEof
  else if negb (count =? 60) then NErr
  else match parse_entry off line with
       | None => NErr
       | Some e =>
           let size := Z.to_nat (e_size e) in
           if (0 <? size) && negb (off + 60 + size - 1 <? List.length buf) then NErr   (* truncated member *)
           else NEntry e (off + 60 + size + size mod 2)
       end.

Definition data_of (buf : str) (e : entry) : str := sub buf (e_hdr e + 60) (Z.to_nat (e_size e)).

Fixpoint iterate (fuel : nat) (buf : str) (off : nat) : option (list entry * bool (* true = clean EOF *)) :=
  match fuel with
  | O => None
  | S f => match ar_next buf off with
           | NEof => Some ([], true)
           | NErr => Some ([], false)
           | NEntry e off' => option_map (fun r => (e :: fst r, snd r)) (iterate f buf off')
           end
  end.

(* ================= C15 ================= *)
Lemma nth_firstn' {A} : forall n i (l : list A) d, i < n -> nth i (firstn n l) d = nth i l d.
Proof.
  induction n as [|n IH]; intros i l d H; [lia|]. destruct l as [|x l]; [reflexivity|].
  destruct i as [|i]; [reflexivity|]. cbn. apply IH. lia.
Qed.
Lemma nth_skipn' {A} : forall n i (l : list A) d, nth i (skipn n l) d = nth (n + i) l d.
Proof.
  induction n as [|n IH]; intros i l d; [reflexivity|]. destruct l as [|x l]; [now destruct i|].
  cbn. apply IH.
Qed.
Lemma sub_length buf off n : List.length (sub buf off n) = Nat.min n (List.length buf - off).
Proof. unfold sub. now rewrite firstn_length, skipn_length. Qed.

Lemma parse_entry_props off line e : parse_entry off line = Some e ->
  List.length line = 60 /\ nth 58 line zero = bq /\ nth 59 line zero = nl /\ (0 <= e_size e)%Z /\ e_hdr e = off.
Proof.
  unfold parse_entry. destruct (List.length line =? 60) eqn:L; cbn [negb]; [|discriminate].
  apply Nat.eqb_eq in L.
  destruct (ceq_spec (nth 58 line zero) bq) as [M1|]; cbn [andb negb]; [|discriminate].
  destruct (ceq_spec (nth 59 line zero) nl) as [M2|]; cbn [negb]; [|discriminate].
  destruct (field_num (sub line 16 12)); [|discriminate].
  destruct (field_num (sub line 28 6)); [|discriminate].
  destruct (field_num (sub line 34 6)); [|discriminate].
  destruct (field_num (sub line 48 10)) as [size|]; [|discriminate].
  destruct (Z.ltb_spec size 0); [discriminate|]. intros E. inversion E; subst. cbn. auto.
Qed.

Theorem C15_progress buf off e off' : ar_next buf off = NEntry e off' ->
  off + 60 <= List.length buf /\ off + 60 <= off' /\
  (* the header carries the magic, the size is non-negative, the data is all there *)
  nth (off + 58) buf zero = bq /\ nth (off + 59) buf zero = nl /\
  (0 <= e_size e)%Z /\ List.length (data_of buf e) = Z.to_nat (e_size e) /\
  off' <= List.length buf + 1 /\ e_hdr e = off.
Proof.
  unfold ar_next. set (line := sub buf off 60).
  destruct (List.length line =? 0) eqn:C0; [discriminate|].
  destruct ((List.length line =? 1) && str_eqb line [nl]); [discriminate|].
  destruct (List.length line =? 60) eqn:C60; cbn [negb]; [|discriminate].
  apply Nat.eqb_eq in C60.
  destruct (parse_entry off line) as [e0|] eqn:P; [|discriminate].
  destruct (parse_entry_props off line e0 P) as (_&M1&M2&Hs&Hh).
  set (size := Z.to_nat (e_size e0)).
  destruct ((0 <? size) && negb (off + 60 + size - 1 <? List.length buf)) eqn:T; [discriminate|].
  intros E. inversion E; subst e0 off'. clear E.
  assert (Hlen : off + 60 <= List.length buf).
  { unfold line in C60. rewrite sub_length in C60. lia. }
  assert (Hdata : off + 60 + size <= List.length buf).
  { destruct (Nat.ltb_spec 0 size) as [Hp|Hp]; cbn [andb] in T.
    - apply negb_false_iff in T. apply Nat.ltb_lt in T. lia.
    - lia. }
  repeat split; try lia; try assumption.
  - (* magic bytes are the bytes of buf *)
    unfold line, sub in M1. rewrite nth_firstn' in M1 by lia. rewrite nth_skipn' in M1. exact M1.
  - unfold line, sub in M2. rewrite nth_firstn' in M2 by lia. rewrite nth_skipn' in M2. exact M2.
  - unfold data_of. rewrite Hh, sub_length. fold size. lia.
  - destruct (snd (Nat.divmod size 1 0 1)); lia.
Qed.

(* every successful step consumes at least 60 bytes, so the number of members is bounded *)
Theorem C15_steps : forall fuel buf off es clean,
  iterate fuel buf off = Some (es, clean) -> off + 60 * List.length es <= List.length buf + 1 \/ es = [].
Proof.
  induction fuel as [|f IH]; intros buf off es clean H; [discriminate|].
  cbn [iterate] in H. destruct (ar_next buf off) as [e off'| | ] eqn:N.
  - destruct (iterate f buf off') as [[es' c']|] eqn:I; [|discriminate]. cbn in H. inversion H; subst.
    destruct (C15_progress buf off e off' N) as (H1&H2&_&_&_&_&H7&_).
    left. destruct (IH buf off' es' clean I) as [B | ->]; cbn [List.length]; lia.
  - inversion H; subst. now right.
  - inversion H; subst. now right.
Qed.

Lemma iterate_S f buf off : iterate (S f) buf off =
  match ar_next buf off with
  | NEof => Some ([], true)
  | NErr => Some ([], false)
  | NEntry e off' => option_map (fun r => (e :: fst r, snd r)) (iterate f buf off')
  end.
Proof. reflexivity. Qed.

Theorem C15_terminates : forall n buf off, List.length buf + 1 - off <= 60 * n ->
  iterate (S n) buf off <> None.
Proof.
  induction n as [|n IH]; intros buf off Hb; rewrite iterate_S.
  - destruct (ar_next buf off) as [e off'| | ] eqn:N; try discriminate.
    destruct (C15_progress buf off e off' N) as (H1&_). lia.
  - destruct (ar_next buf off) as [e off'| | ] eqn:N; try discriminate.
    destruct (C15_progress buf off e off' N) as (H1&H2&_).
    specialize (IH buf off' ltac:(lia)).
    destruct (iterate (S n) buf off'); [discriminate|congruence].
Qed.

Theorem C15_members : forall fuel buf off es clean e,
  iterate fuel buf off = Some (es, clean) -> In e es ->
  nth (e_hdr e + 58) buf zero = bq /\ nth (e_hdr e + 59) buf zero = nl /\
  (0 <= e_size e)%Z /\ List.length (data_of buf e) = Z.to_nat (e_size e).
Proof.
  induction fuel as [|f IH]; intros buf off es clean e H Hin; [discriminate|].
  cbn [iterate] in H. destruct (ar_next buf off) as [e0 off'| | ] eqn:N.
  - destruct (iterate f buf off') as [[es' c']|] eqn:I; [|discriminate]. cbn in H. inversion H; subst.
    destruct Hin as [->|Hin].
    + destruct (C15_progress buf off e off' N) as (_&_&M1&M2&S1&S2&_&Hh). rewrite Hh. auto.
    + eapply IH; eauto.
  - inversion H; subst. contradiction.
  - inversion H; subst. contradiction.
Qed.
Print Assumptions C15_members.
Print Assumptions C15_terminates.
