(* C20, continued: after a successful Copy every file in the destination equals its original *)
From Coq Require Import List Ascii String Bool Arith Lia.
Require Import GS U20.
Import ListNotations.

Section Upload3.
  Variable fault : nat -> bool.
  Notation copy_file := (copy_file fault).
  Notation each := U20.each.

  Lemma entry_neq_fst d1 d2 a b : d1 <> d2 -> entry_eqb (d1, a) (d2, b) = false.
  Proof. intros H. unfold entry_eqb. cbn [fst snd]. destruct (str_eqb_spec d1 d2); [contradiction|reflexivity]. Qed.

  Lemma copy_success src dst x x' : copy_file src dst x = (x', true) ->
    fs_get dst (fs x') = fs_get src (fs x) /\ fs_get src (fs x) <> None.
  Proof.
    intros C. destruct (copy_log fault _ _ _ _ _ C) as (ext&_&_&S&_). destruct (S eq_refl) as [_ G]. split; [exact G|].
    unfold U20.copy_file, step in C. cbn [fs log tick] in C. destruct (fs_get src (fs x)); [discriminate|]. inversion C.
  Qed.

  Lemma each_copy_all : forall names dir dest x x', dir <> dest -> NoDup names ->
    each copy_file dir dest names x = (x', true) ->
    forall n, In n names -> fs_get (dest, n) (fs x') = fs_get (dir, n) (fs x) /\ fs_get (dir, n) (fs x) <> None.
  Proof.
    induction names as [|n r IH]; intros dir dest x x' Hd ND E m Hm; [contradiction|]. cbn [U20.each] in E.
    destruct (copy_file (dir, n) (dest, n) x) as [x1 ok1] eqn:C. destruct ok1; [|discriminate].
    inversion ND as [|? ? Hnot ND']; subst. destruct (copy_success _ _ _ _ C) as [G NE].
    destruct Hm as [<-|Hm].
    - split; [|exact NE]. rewrite <- G. apply (each_copy_frame fault _ _ _ _ _ _ _ E).
      intros k Hk. apply entry_neq. intros ->. contradiction.
    - destruct (IH dir dest x1 x' Hd ND' E m Hm) as [G2 NE2].
      assert (F : fs_get (dir, m) (fs x1) = fs_get (dir, m) (fs x)).
      { apply (copy_frame fault _ _ _ _ _ _ C). apply entry_neq_fst. congruence. }
      rewrite <- F. split; assumption.
  Qed.

  (* C20: a successful Copy leaves, for the control file and every listed file, a destination file equal to the
     original as it was when the operation started; the originals are unchanged *)
  Theorem C20_copy_identical h dest x x' : h_dir h <> dest -> NoDup (h_listed h) -> ~ In (h_file h) (h_listed h) ->
    do_copy fault h dest x = (x', true) ->
    forall n, In n (h_file h :: h_listed h) ->
      fs_get (dest, n) (fs x') = fs_get (h_dir h, n) (fs x) /\ fs_get (h_dir h, n) (fs x) <> None /\
      fs_get (h_dir h, n) (fs x') = fs_get (h_dir h, n) (fs x).
  Proof.
    intros Hd ND Hnot. unfold do_copy, transfer. destruct (negb (listed_ok h)); [discriminate|].
    destruct (each copy_file (h_dir h) dest (h_listed h) x) as [x1 ok1] eqn:EA. destruct ok1; [|discriminate].
    intros C n Hn. destruct (copy_success _ _ _ _ C) as [G NE].
    assert (Src : forall k, fs_get (h_dir h, k) (fs x') = fs_get (h_dir h, k) (fs x)).
    { intros k. rewrite (copy_frame fault _ _ _ _ _ (h_dir h, k) C) by (apply entry_neq_fst; congruence).
      apply (each_copy_frame fault _ _ _ _ _ _ _ EA). intros m _. apply entry_neq_fst. congruence. }
    destruct Hn as [<-|Hn].
    - rewrite G. rewrite <- (copy_frame fault _ _ _ _ _ (h_dir h, h_file h) C) by (apply entry_neq_fst; congruence).
      rewrite Src. split; [reflexivity|]. split; [|reflexivity].
      rewrite <- Src, (copy_frame fault _ _ _ _ _ (h_dir h, h_file h) C) by (apply entry_neq_fst; congruence). exact NE.
    - destruct (each_copy_all _ _ _ _ _ Hd ND EA n Hn) as [G2 NE2]. split; [|split; [exact NE2|apply Src]].
      rewrite <- G2. apply (copy_frame fault _ _ _ _ _ _ C). apply entry_neq. intros E. apply Hnot. rewrite E. exact Hn.
  Qed.
End Upload3.
Print Assumptions C20_copy_identical.
