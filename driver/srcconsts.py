"""Constants of the models, re-read from /repo's SOURCE TEXT on every run and emitted as coq/gen/Consts_gen.v.
The lemmas of coq/theories/SRC.v state that each dispatch table of the hand-written models (which bytes end a package
name, which end a qualifier, what is a blank, where the columns of an ar header lie, the changelog date layout, the
format version of a .deb) is the table the source has today.  An edit of one of those tables breaks SRC.v before any
case is run.  This is a translator for tables only - the control flow around them is tied by the correspondence."""
import os
import re

ESC = {"t": 9, "n": 10, "r": 13, "\\": 92, "'": 39, "0": 0}


def func_body(src, name):
    m = re.search(r"^func (?:\([^)]*\) )?%s\(" % re.escape(name), src, re.M)
    if not m:
        return ""
    rest = src[m.start():]
    n = re.search(r"^}\n", rest, re.M)
    return rest[:n.end()] if n else rest


def lit_bytes(text):
    """the byte values of a comma-separated list of Go rune / integer literals"""
    out = []
    for tok in re.findall(r"'(?:\\.|[^'\\])'|0x[0-9a-fA-F]+|\b\d+\b", text):
        if tok.startswith("'"):
            body = tok[1:-1]
            out.append(ESC[body[1]] if body.startswith("\\") else ord(body))
        else:
            out.append(int(tok, 0))
    return out


def cases(body):
    return [lit_bytes(m) for m in re.findall(r"^\s*case ([^:\n]*(?:':'[^:\n]*)?):\s*(?:/\*.*)?$", body, re.M)]


def extract(repo):
    rd = lambda p: open(os.path.join(repo, p)).read()
    parser, ar, cl, deb = rd("dependency/parser.go"), rd("deb/ar.go"), rd("changelog/changelog.go"), rd("deb/deb.go")
    c = {}
    c["blank"] = sorted(sum(cases(func_body(parser, "eatWhitespace")), []))
    pc = cases(func_body(parser, "parsePossibility"))
    c["possi_cases"] = pc                       # [[':'], [blank ( [ <], [, | 0]]
    c["multiarch_stop"] = sorted(sum(cases(func_body(parser, "parseMultiarch")), []))
    c["controllers_cases"] = cases(func_body(parser, "parsePossibilityControllers"))
    # the four clause loops: which bytes end the clause with an error, which close it
    c["number_cases"] = cases(func_body(parser, "parsePossibilityNumber"))
    c["arch_cases"] = cases(func_body(parser, "parsePossibilityArch"))
    c["stage_cases"] = cases(func_body(parser, "parsePossibilityStage"))
    c["substvar_cases"] = cases(func_body(parser, "parseSubstvar"))
    arb = func_body(ar, "parseArEntry")
    cols = [(int(a), int(b)) for a, b in re.findall(r"line\[(\d+):(\d+)\]", arb)]
    c["ar_columns"] = sorted(set(cols))
    c["ar_magic"] = [(int(i), int(v, 0)) for i, v in re.findall(r"line\[(\d+)\] != (0x[0-9A-Fa-f]+|\d+)", arb)]
    c["ar_header_len"] = [int(x) for x in re.findall(r"len\(line\) != (\d+)", arb)]
    m = re.search(r'const whenLayout = (?:"([^"]*)"|time\.(\w+))', cl)
    c["when_layout"] = (m.group(1) if m and m.group(1) is not None else ("time." + m.group(2) if m else ""))
    c["deb_versions"] = re.findall(r'case "([^"]*)":\s*\n\s*return loadDeb2', func_body(deb, "loadDeb"))
    return c


def coq_list(xs):
    return "[" + "; ".join(str(x) for x in xs) + "]"


def coq_str(s):
    return '"' + s.replace('"', '""') + '"'


def render(c):
    go_unescape = lambda s: s.encode().decode("unicode_escape")
    lines = ["(* GENERATED on every run by driver/srcconsts.py from the source text of /repo - do not edit *)",
             "From Coq Require Import List String NArith.", "Import ListNotations.", "Open Scope N_scope.", "",
             "Definition blank : list N := %s." % coq_list(c["blank"]),
             "Definition possi_cases : list (list N) := [%s]." % "; ".join(coq_list(x) for x in c["possi_cases"]),
             "Definition multiarch_stop : list N := %s." % coq_list(c["multiarch_stop"]),
             "Definition controllers_cases : list (list N) := [%s]." % "; ".join(coq_list(x) for x in c["controllers_cases"]),
             "Definition number_cases : list (list N) := [%s]." % "; ".join(coq_list(x) for x in c["number_cases"]),
             "Definition arch_cases : list (list N) := [%s]." % "; ".join(coq_list(x) for x in c["arch_cases"]),
             "Definition stage_cases : list (list N) := [%s]." % "; ".join(coq_list(x) for x in c["stage_cases"]),
             "Definition substvar_cases : list (list N) := [%s]." % "; ".join(coq_list(x) for x in c["substvar_cases"]),
             "Definition ar_columns : list (N * N) := [%s]." % "; ".join("(%d, %d)" % p for p in c["ar_columns"]),
             "Definition ar_magic : list (N * N) := [%s]." % "; ".join("(%d, %d)" % p for p in c["ar_magic"]),
             "Definition ar_header_len : list N := %s." % coq_list(c["ar_header_len"]),
             "Definition when_layout : string := %s%%string." % coq_str(c["when_layout"]),
             "Definition deb_versions : list (list N) := [%s]." % "; ".join(coq_list(list(go_unescape(v).encode("latin1"))) for v in c["deb_versions"]),
             ""]
    return "\n".join(lines)


if __name__ == "__main__":
    import sys
    print(render(extract(sys.argv[1] if len(sys.argv) > 1 else "/repo")))
