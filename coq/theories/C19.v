(* C19 - Build ordering respects build-dependencies between the given sources.
   Property theorems only.  Model: TS.sort = pault.ag/go/topsort v0.1.1 (repeated passes with in-pass
   marking), TS2.order_dscs = control.OrderDSCForBuild over sources identified by position (distinct names):
   binary -> sources map (EVERY source whose Binary field lists the binary, in input order), one edge from each of
   them per picked build-dependency name.  TS3 composes it with the reader, the list decoder, the dependency parser
   and GetPossibilities so that the tie runs the whole path from .dsc text. *)
From Coq Require Import List Ascii String Bool Arith Lia Permutation.
Require Import GS TS TS2 TS3 TS4.
Require R2 R2u L10.
Import ListNotations.

(* the order is a permutation of the input in which every source comes after EVERY source that builds a binary it
   picked from Build-Depends, Build-Depends-Arch and Build-Depends-Indep (until repair 0173c55 this theorem said "after the
   LAST source listing the binary" - the model was faithful, and the property asks for each of them) *)
Theorem C19_order_respects_build_dependencies : forall srcs l, order_dscs srcs = SOk l ->
  Permutation l (seq 0 (List.length srcs)) /\
  forall l1 i l2, l = l1 ++ i :: l2 -> forall b t, In b (picked (nth_src srcs i)) ->
    t < List.length srcs -> builds b (nth_src srcs t) = true -> In t l1.
Proof. exact C19_order. Qed.
Print Assumptions C19_order_respects_build_dependencies.

(* a cycle yields an error, and only a cycle does: when the sort reports one, no arrangement of the sources
   satisfies the constraints *)
Theorem C19_cycle_is_an_error : forall srcs, order_dscs srcs = SCycle -> forall t, ~ topological (build_graph srcs) t.
Proof. exact C19_cycle. Qed.
Print Assumptions C19_cycle_is_an_error.

(* the outcome is an order or a cycle error: the pass loop never runs out of fuel; being a Gallina function
   of its input it is the same on every run (the tie checks that of the Go function) *)
Theorem C19_terminates : forall srcs, order_dscs srcs <> SFuel.
Proof. exact TS2.C19_terminates. Qed.
Print Assumptions C19_terminates.

(* the generic statements about the sort itself *)
Theorem C19_sort_sound : forall g l, NoDup (nodes g) -> sort g = SOk l -> Permutation l (nodes g) /\ ordered g l.
Proof. exact sort_sound. Qed.
Theorem C19_sort_cycle : forall g, wf_graph g -> sort g = SCycle -> forall t, ~ topological g t.
Proof. exact sort_cycle. Qed.

(* ---- from .dsc TEXT ("for sources parsed from ordinary multi-binary .dsc files") ----
   order_texts = ParseDsc on every text (deb822 reader, Binary as a comma list, the dependency parser and
   GetPossibilities for the architecture on the three build-dependency fields), then OrderDSCForBuild *)
Theorem C19_order_from_dsc_texts : forall arch ts names, order_texts arch ts = OOrder names ->
  exists ds l, dscs_of_texts arch ts = Some ds /\ List.length ds = List.length ts /\
    names = map (fun i => d_source (nth i ds no_dsc)) l /\
    Permutation l (seq 0 (List.length ts)) /\
    forall l1 i l2, l = l1 ++ i :: l2 -> forall b t, In b (picked (d_src (nth i ds no_dsc))) ->
      t < List.length ts -> In b (binaries (d_src (nth t ds no_dsc))) -> In t l1.
Proof. exact C19_order_from_texts. Qed.
Theorem C19_cycle_from_dsc_texts : forall arch ts, order_texts arch ts = OCycle ->
  exists ds, dscs_of_texts arch ts = Some ds /\ forall t, ~ topological (build_graph (map d_src ds)) t.
Proof. exact C19_cycle_from_texts. Qed.
Theorem C19_dsc_texts_never_out_of_fuel : forall arch ts, order_texts arch ts <> OFuel.
Proof. exact C19_texts_never_out_of_fuel. Qed.
(* what one .dsc contributes: Source, the trimmed elements of Binary, and the names picked from Build-Depends,
   Build-Depends-Arch and Build-Depends-Indep, in this order *)
Theorem C19_what_a_dsc_contributes : forall arch text d, dsc_of_text arch text = Some d ->
  exists p rest a b c, R2u.read_all_u text = Some (p :: rest) /\
    picked_of_field arch (R2.lookup (s "Build-Depends") (R2.values p)) = Some a /\
    picked_of_field arch (R2.lookup (s "Build-Depends-Arch") (R2.values p)) = Some b /\
    picked_of_field arch (R2.lookup (s "Build-Depends-Indep") (R2.values p)) = Some c /\
    picked (d_src d) = a ++ b ++ c /\ d_source d = R2.lookup (s "Source") (R2.values p) /\
    (R2.mem (s "Binary") (R2.values p) = true -> binaries (d_src d) = L10.decode_list comma strip4 (R2.lookup (s "Binary") (R2.values p))).
Proof. exact C19_dsc_of_text. Qed.
Print Assumptions C19_order_from_dsc_texts.
Print Assumptions C19_what_a_dsc_contributes.

Example C19_instance :
  order_texts {| M6.abi := s "gnu"; M6.os := s "linux"; M6.cpu := s "amd64" |}
    [ s "Source: app" ++ [nl] ++ s "Binary: app" ++ [nl] ++ s "Build-Depends: libb-dev [amd64] | other," ++ [nl] ++ s " ${misc:Depends}" ++ [nl];
      s "Source: lib" ++ [nl] ++ s "Binary: liba," ++ [nl] ++ s " libb-dev" ++ [nl] ]
  = OOrder [s "lib"; s "app"].
Proof. vm_compute. reflexivity. Qed.
