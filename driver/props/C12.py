"""C12 - checksums computed and verified by the library are the true digests."""
import hashlib
import itertools
import re
import lib

ALGS = ["md5", "sha1", "sha256", "sha512"]
LENS = [0, 1, 2, 55, 56, 63, 64, 65, 111, 112, 119, 120, 127, 128, 129, 1000, 4095, 4096, 4097]


def digest(alg, data):
    return hashlib.new(alg, data).digest()


def chunkings(rng, data):
    n = len(data)
    out = [[data], [data[i:i + 1] for i in range(n)] if n <= 300 else [data[:1], data[1:]], [b"", data, b""]]
    for _ in range(3):
        cuts = sorted(rng.randrange(n + 1) for _ in range(rng.randrange(1, 6)))
        prev = 0; ch = []
        for c in cuts + [n]:
            ch.append(data[prev:c]); prev = c
        out.append(ch)
    return out


def complete(model_line):
    """turn the bytes every hasher saw (model) into the digests the implementation must report"""
    def rep(m):
        name = bytes.fromhex(m.group(1)).decode("latin1")
        buf = bytes.fromhex(m.group(3))
        alg = name
        try:
            d = digest(alg, buf)
        except ValueError:
            return m.group(0)
        return "( x%s %s x%s )" % (m.group(1), m.group(2), d.hex())
    return re.sub(r"\( x([0-9a-f]*) (-?\d+) x([0-9a-f]*) \)", rep, model_line)


def run(chk):
    rng = chk.rng
    datas = [bytes(rng.randrange(256) for _ in range(n)) for n in LENS]
    datas += [bytes(rng.randrange(256) for _ in range(rng.randrange(0, 3000))) for _ in range(chk.n(40, 800))]
    datas += [bytes(rng.randrange(256) for _ in range(n)) for n in ([70000] if chk.tier == "quick" else [70000, 65536, 131073])]
    subsets = [[]] + [[a] for a in ALGS] + [list(p) for p in itertools.permutations(ALGS, 2)][:6] + [ALGS, ALGS[::-1], ["sha256", "sha256"], ["md5!"], ["sha512!"]]
    wcases, meta = [], []
    for data in datas:
        for ch in (chunkings(rng, data) if len(data) < 5000 else [[data], [data[:60000], data[60000:]]]):
            for names in rng.sample(subsets, 4):
                arg0 = (",".join(names) if names else "-").encode()
                wcases.append(("hwrite", [arg0] + ch)); meta.append((data, names))
                if len(ch) > 1:
                    # the same chunks delivered through io.WriteString / fmt.Fprint as well as Write
                    wcases.append(("hwrites", [arg0] + ch)); meta.append((data, names))
                sizes = [str(len(c) or 1).encode() for c in ch][:8]
                wcases.append(("hread", [arg0, data] + sizes)); meta.append((data, names))
                if not arg0.endswith(b"!") or True:
                    # sources that deliver their last bytes together with io.EOF, or only short reads
                    v = rng.choice([b"@dataerr", b"@dataerr", b"@onebyte", b"@half"]) if len(data) < 5000 else b"@dataerr"
                    wcases.append(("hread", [arg0 + v, data] + sizes)); meta.append((data, names))
    # a target that accepts only part of a Write and reports the rest with an error (k bytes per call), the caller carrying on
    # with p[n:]: the target ends up holding the stream, and every hasher reports ITS length and digests
    import hashlib as _hl
    pc = []
    for data in datas[:chk.n(40, 400)]:
        if not data:
            continue
        for k in (1, 3, 64, max(1, len(data) - 1)):
            pc.append(("hpartial", [b"sha256 md5 sha1 sha512", str(k).encode(), data[:3000]]))
    pi = chk.run_impl(pc)
    chk.record("targets-that-accept-part-of-a-write", pc, pi, lambda c, r: r.startswith("true"))
    for c, r in zip(pc, pi):
        d = c[1][2]
        want = " | ".join("true %d:%s" % (len(d), getattr(_hl, a)(d).hexdigest()) for a in ["sha256", "sha256", "md5", "sha1", "sha512"])
        if r != want:
            chk.violate({"kind": "property", "case": lib.show_case(c), "impl": r[:500], "expected": want[:500],
                         "explanation": "behind a target that accepts part of each Write the hashing writers do not report the length and digests of the bytes that went through"})
    # a Hasher on its own is an io.Writer: Write, io.WriteString and fmt.Fprint in turn
    hc = []
    for data in datas[:chk.n(30, 300)]:
        for ch in chunkings(rng, data[:2000])[:2]:
            hc.append(("hbare", [rng.choice([b"md5", b"sha1", b"sha256", b"sha512"])] + ch))
    hi = chk.run_impl(hc)
    chk.record("a-hasher-on-its-own", hc, hi, lambda c, r: True)
    for c, r in zip(hc, hi):
        d = b"".join(c[1][1:])
        want = "%d:%s" % (len(d), getattr(_hl, c[1][0].decode())(d).hexdigest())
        if r != want:
            chk.violate({"kind": "property", "case": lib.show_case(c), "impl": r, "expected": want,
                         "explanation": "a Hasher fed through Write / io.WriteString / fmt.Fprint does not report the length and digest of what it was given"})
    for bad in (["sha3"], ["md5", "crc32"], [""], ["SHA256"]):
        wcases.append(("hwrite", [",".join(bad).encode(), b"abc"])); meta.append((b"abc", bad))
    impl = chk.run_impl(wcases)
    # the model runs the same chunks: for hread the chunks are the reads the tee reader saw
    mcases = []
    for c in wcases:
        if c[0] == "hread":
            data = c[1][1]; sizes = [int(s) for s in c[1][2:]] or [4096]
            chs = []; pos = 0; i = 0
            while pos < len(data):
                k = sizes[i % len(sizes)]; chs.append(data[pos:pos + k]); pos += k; i += 1
            mcases.append(("hread", [c[1][0].split(b"@")[0].replace(b"!", b"")] + chs))
        else:
            mcases.append(("hwrite", [c[1][0].replace(b"!", b"")] + c[1][1:]))
    model = [complete(m) for m in chk.run_model(mcases)]
    chk.compare("hashing-writers-and-readers", mcases, impl, model, nontrivial=lambda c, r: r.startswith("ok"), kernel=False)
    for c, i, (data, names) in zip(wcases, impl, meta):
        names = [n.rstrip("!") for n in names]
        if all(n in ALGS for n in names):
            import zlib
            s = zlib.adler32(data)
            want = "ok %d %d %d " % (len(data), s & 0xffff, s >> 16) + ("[]" if not names else "[ " + " ".join(
                "( x%s %d x%s )" % (n.encode().hex(), len(data), digest(n, data).hex()) for n in names) + " ]")
            if i != want:
                chk.violate({"kind": "property", "case": lib.show_case((c[0], c[1][:1] + [b"<%d bytes in %d pieces>" % (len(data), len(c[1]) - 1)])),
                             "impl": i[:600], "expected": want[:600],
                             "explanation": "hashing writers/readers do not pass the bytes through unchanged and report the stream's true length and digests"})
    # hashers observed in mid-stream (Size and Sum after every write): the observation does not disturb them and
    # reports the digest of the bytes written so far
    ocases, ometa = [], []
    for data in datas[:80]:
        if len(data) > 5000:
            continue
        for ch in chunkings(rng, data)[2:5]:
            names = rng.choice([["sha256"], ALGS, ["md5", "sha1"], ["sha512", "md5"]])
            ocases.append(("hwriteobs", [",".join(names).encode()] + ch)); ometa.append((data, names, ch))
    oi = chk.run_impl(ocases)
    chk.record("mid-stream-observation", ocases, oi, lambda c, r: r.startswith("ok"))
    def hashers_text(names, buf):
        return "[]" if not names else "[ " + " ".join("( x%s %d x%s )" % (n.encode().hex(), len(buf), digest(n, buf).hex()) for n in names) + " ]"
    for c, i, (data, names, ch) in zip(ocases, oi, ometa):
        import zlib
        sm = zlib.adler32(data)
        mids, sofar = [], b""
        for piece in ch:
            sofar += piece
            mids.append(hashers_text(names, sofar))
        want = "ok %d %d %d " % (len(data), sm & 0xffff, sm >> 16) + hashers_text(names, data) + " | " + ("[]" if not mids else "[ " + " ".join(mids) + " ]")
        if i != want:
            chk.violate({"kind": "property", "case": lib.show_case((c[0], c[1][:1] + [b"<%d bytes in %d pieces>" % (len(data), len(ch))])), "impl": i[:800], "expected": want[:800],
                         "explanation": "a hasher read in mid-stream does not report the length and digest of the bytes written so far, or reading it disturbed the final result"})
    # verifiers
    vcases, want = [], []
    for data in datas[:60]:
        ch = rng.choice(chunkings(rng, data))
        for alg in ALGS:
            good = digest(alg, data).hex().encode()
            variants = [(good, "accept"), (good.upper(), "accept"),
                        ((b"1" if good[:1] == b"0" else b"0") + good[1:], "reject"),
                        (good[:-2], "reject"), (good + b"00", "reject"), (good[:-1], "error"), (b"zz" + good[2:], "error"), (b"", "reject")]
            other = ALGS[(ALGS.index(alg) + 1) % 4]
            variants.append((digest(other, data).hex().encode(), "reject"))
            for h, w in variants:
                vcases.append(("hverify", [alg.encode(), h, digest(alg, data)] + ch)); want.append(w)
        vcases.append(("hverify", [b"sha3", b"00", b""] + ch)); want.append("error")
        vcases.append(("hverify", [b"", b"00", b""] + ch)); want.append("error")
    # two verifiers of one algorithm alive at the same time, their streams written alternately: each answers for its
    # own stream (a shared hash state would make both see the mixture)
    pcases, pwant = [], []
    for _ in range(chk.n(300, 6000)):
        alg = rng.choice(ALGS)
        da, db = rng.choice(datas[:60]), rng.choice(datas[:60])
        ha, hb = digest(alg, da).hex().encode(), digest(alg, db).hex().encode()
        k = rng.randrange(4)
        if k == 1:
            hb = digest(alg, da + db).hex().encode()        # what a shared state would compute
        elif k == 2:
            ha, hb = hb, ha
        pcases.append(("hverify2", [alg.encode(), ha, hb, da, db]))
        pwant.append(("accept" if ha == digest(alg, da).hex().encode() else "reject") + " " + ("accept" if hb == digest(alg, db).hex().encode() else "reject"))
    pi = chk.run_impl(pcases)
    chk.record("two-verifiers-at-once", pcases, pi, lambda c, r: "accept" in r)
    for c, i, w in zip(pcases, pi, pwant):
        if i != w:
            chk.violate({"kind": "property", "case": lib.show_case((c[0], c[1][:3] + [b"<%d bytes>" % len(c[1][3]), b"<%d bytes>" % len(c[1][4])])), "impl": i, "expected": w,
                         "explanation": "with two verifiers open at once, a verifier does not accept exactly when its own stream has the recorded digest"})
    vi, vm = chk.run_both(vcases)
    chk.compare("verifier", vcases, vi, vm, nontrivial=lambda c, r: r == "accept")
    for c, i, w in zip(vcases, vi, want):
        if i != w:
            chk.violate({"kind": "property", "case": lib.show_case((c[0], c[1][:2])), "impl": i, "expected": w,
                         "explanation": "a checksum entry's verifier does not accept exactly the streams whose digest under the entry's own algorithm equals the recorded hash"})
    # entries parsed from checksum lines, entries built from a hasher, the best-checksum selector
    pcases, want = [], []
    for data in datas[:40]:
        ch = rng.choice(chunkings(rng, data))
        for alg in ALGS:
            good = digest(alg, data).hex().encode()
            for line, ok in [(good + b" " + str(len(data)).encode() + b" file.bin", True), (b"  " + good + b"\t7   x ", True),
                             (b"name.bin " + good, True), (good[:-1] + b"0 1 f", good[-1:] == b"0"),
                             # file names that LOOK like digests (by-hash style names: all hex, as long as a digest of this or of
                             # another algorithm): the name is the name and the hash is the hash
                             (digest(alg, b"other content").hex().encode() + b" " + good, True),
                             (digest(ALGS[(ALGS.index(alg) + 1) % 4], b"x").hex().encode() + b" " + good, True),
                             (good + b" 12 " + digest(alg, b"other content").hex().encode(), True),
                             (b"deadbeef " + good, True)]:
                pcases.append(("hparsed", [alg.encode(), line, digest(alg, data)] + ch)); want.append("accept" if ok else "reject")
    pi, pm = chk.run_both(pcases)
    chk.compare("parsed-entries", pcases, pi, pm, nontrivial=lambda c, r: r.endswith("accept"))
    for c, i, w in zip(pcases, pi, want):
        if not i.endswith(" " + w) or ("x" + c[1][0].hex()) not in i.split()[1]:
            chk.violate({"kind": "property", "case": lib.show_case((c[0], c[1][:2])), "impl": i, "expected": w,
                         "explanation": "an entry parsed from a Checksums field is not verified under that field's algorithm"})
    # entries handed out for one paragraph stay that paragraph's entries when later paragraphs are decoded into the same
    # variable (a Decoder.Decode loop over an index that keeps the checksum lists it has seen)
    rc = []
    for _ in range(chk.n(150, 3000)):
        paras = []
        for _ in range(rng.randrange(2, 5)):
            t = b"Source: s%d\nBinary: %s\n" % (len(paras), b", ".join(rng.choice([b"a", b"libb1", b"c-dev"]) for _ in range(rng.randrange(1, 4))))
            for alg, key in (("sha256", b"Checksums-Sha256"), ("sha512", b"Checksums-Sha512")):
                if rng.random() < 0.75:
                    t += key + b":" + b"".join(b"\n " + digest(alg, bytes([rng.randrange(256)])).hex().encode() + b" %d f%d" % (rng.randrange(999), k) for k in range(rng.randrange(1, 4))) + b"\n"
            paras.append(t)
        rc.append(("cretained", [b"\n".join(paras)]))
    ri = chk.run_impl(rc)
    chk.record("entries-kept-across-paragraphs", rc, ri, lambda c, r: r.startswith("kept"))
    for c, r in zip(rc, ri):
        if r != "kept %d" % (c[1][0].count(b"Source: ")):
            chk.violate({"kind": "property", "case": lib.show_case(c), "impl": r[:900],
                         "explanation": "checksum entries (or list values) read from an earlier paragraph changed when a later paragraph was decoded into the same variable: their verifiers no longer answer for the recorded hashes"})
    fcases = []
    for data in datas[:40]:
        for alg in ALGS:
            fcases.append(("hfrom", [alg.encode(), b"pool/f.deb"] + rng.choice(chunkings(rng, data))))
    fi = chk.run_impl(fcases)
    chk.record("from-hasher", fcases, fi, lambda c, r: True)
    for c, i in zip(fcases, fi):
        data = b"".join(c[1][2:]); alg = c[1][0].decode()
        w = "( x%s x%s %d x%s ) accept reject" % (alg.encode().hex(), digest(alg, data).hex().encode().hex(), len(data), b"pool/f.deb".hex())
        if i != w:
            chk.violate({"kind": "property", "case": lib.show_case((c[0], c[1][:2])), "impl": i[:400], "expected": w[:400],
                         "explanation": "an entry built from a hasher does not carry the true digest / is not accepted for exactly the hashed stream"})
    bcases, want = [], []
    for data in datas[:30]:
        g256 = digest("sha256", data).hex(); g512 = digest("sha512", data).hex()
        for use256, use512 in ((True, True), (True, False), (False, True)):
            t = ""
            if use256:
                t += "Checksums-Sha256:\n %s %d a.deb\n %s %d b.deb\n" % (g256, len(data), "0" * 64, len(data))
            if use512:
                t += "Checksums-Sha512:\n %s %d a.deb\n %s %d b.deb\n" % (g512, len(data), "0" * 128, len(data))
            alg = b"sha256" if use256 else b"sha512"
            bcases.append(("hbest", [t.encode(), data])); want.append("ok [ ( x%s x%s accept ) ( x%s x%s reject ) ]" % (alg.hex(), b"a.deb".hex(), alg.hex(), b"b.deb".hex()))
    bi = chk.run_impl(bcases)
    chk.record("best-checksums", bcases, bi, lambda c, r: True)
    for c, i, w in zip(bcases, bi, want):
        if i != w:
            chk.violate({"kind": "property", "case": lib.show_case((c[0], c[1][:1])), "impl": i[:400], "expected": w[:400],
                         "explanation": "entries returned by the best-checksum selector are not verified under their own algorithm"})
    chk.trusted.append("digest oracle: Python hashlib (md5, sha1, sha256, sha512), independent of Go's crypto/*")
    chk.assumptions += ["the digest algorithms themselves are an oracle (hashlib in the tie); the theorems are about the plumbing around them"]


def replay(chk, d):
    c = lib.case_from_replay(d)
    print("impl:", chk.run_impl([c])[0][:600])
    return 0
