#!/usr/bin/env python3
"""Writes MANIFEST.json from the table below (so that it is always valid JSON)."""
import json, os
ROOT = os.path.dirname(os.path.dirname(os.path.abspath(__file__)))

CHECKS = {
 "C01": dict(
   text="Proof (Coq): sign(Compare a b) = epoch order, then Debian Policy 5.6.12 part-wise order of upstream, then of revision, for all versions without NUL bytes and of any length (C01.v: 5 theorems, closed under the global context). Tie: the hand-written model of Compare/verrevcmp is run against version.Compare on all pairs of short words over the version alphabet plus random long versions, and the implementation's sign is compared with the extracted Policy spec directly.",
   note="Trusted: Coq kernel; extraction (sampled in-kernel each run); Go harness and Python driver; the generator bounds the tie. Model: three loops of verrevcmp as suffix recursion, unbounded N epochs (Go: uint).",
   technique="Coq proof over a hand-written model + differential correspondence against version.Compare", ref="5/C01"),
 "C02": dict(
   text="Proof (Coq): reflexivity, antisymmetry, transitivity of <=, interchangeability of equal versions, Slice.Less is a strict weak order (sort.Sort's contract), and a merge sort over the same order returns a non-decreasing permutation, for all NUL-free versions of any length (C02.v: 8 theorems, closed). Tie: the laws are re-evaluated on version.Compare's own answers over all triples of a pool of adversarial versions, and sort.Sort(version.Slice) outputs are checked to be non-decreasing permutations under the model's order.",
   note="Trusted: as C01. sort.Sort is the Go standard library (oracle): the theorem proves its precondition and the postcondition for Coq's Mergesort over the same order; the real sort's outputs are checked by the tie. NUL bytes are excluded (C02_needs_no_nul gives the counterexample).",
   technique="Coq proof (order embedding into a lexicographic key) + differential correspondence and law evaluation on the implementation", ref="5/C02"),
 "C03": dict(
   text="Proof (Coq): any Unicode whitespace around the canonical text of a well-formed (epoch, upstream, revision) parses to exactly the triple; each rejection class of the property (non-numeric, negative, oversized, empty epoch; nothing after the colon; non-digit first character; character outside the upstream or revision alphabet; embedded or only whitespace) is rejected for every string of that shape; every accepted string round-trips through String (C03.v: 16 theorems, closed). Tie: version.Parse / String / MarshalControl / UnmarshalControl / MarshalText / UnmarshalText / encoding/json against the model on grammar renderings x Unicode whitespace, all short strings over a 14-symbol alphabet, single/double-edit near misses and raw bytes (valid and invalid UTF-8).",
   note="Trusted: as C01. The model states Go's TrimSpace/IsSpace UTF-8 behaviour as 'a space encoding starts at a non-continuation byte' (argument in V11.v), validated by the tie. Error messages are not compared.",
   technique="Coq proof over a hand-written model + differential correspondence against version.Parse/String", ref="5/C03"),
}
NOT_YET = {}

def main():
    props = [json.loads(l) for l in open(os.path.join(ROOT, "properties.jsonl"))]
    checks = []
    na = []
    for p in props:
        pid = p["id"]
        if pid in CHECKS:
            c = CHECKS[pid]
            checks.append({
                "property_id": pid,
                "quick_cmd": "./check %s --tier quick" % pid,
                "thorough_cmd": "./check %s --tier thorough" % pid,
                "evidence_file": "/verif/evidence/%s.json" % pid,
                "replay_cmd_template": "./check %s --replay {path}" % pid,
                "engine": "coq-model-correspondence",
                "level_claimed": {"category": "proof", "text": c["text"], "design_ref": "DESIGN.md section " + c["ref"]},
                "level_note": c["note"],
                "technique": c["technique"],
            })
        else:
            na.append({"property_id": pid, "reason": NOT_YET.get(pid, "check not built yet in this revision of /verif (models and theorems exist under coq/theories; the tie is being wired up)")})
    m = {
        "version": 1,
        "setup_cmd": "./setup.sh",
        "hooks": {"guard": "verif", "enable": "go build -tags verif (harness/ is a separate module with replace pault.ag/go/debian => /repo; no source hooks were needed)",
                  "baseline_off_cmd": "cd /repo && GOFLAGS=-mod=mod GOPROXY=off GOSUMDB=off go test -json -vet=off -count=1 ./...",
                  "source_commits": [], "add_only": True},
        "engines": [{"name": "coq-model-correspondence", "path": "/verif/check",
                     "serves_properties": [c["property_id"] for c in checks],
                     "kind_free_text": "Coq 8.16.1 theorems over hand-written Gallina models (coq/theories), tied to /repo by a differential correspondence check: extracted OCaml model runner vs Go harness built from /repo's working tree, plus an in-kernel vm_compute sample of the same cases"}],
        "checks": checks,
        "not_applicable": na,
        "notes": "See DESIGN.md. known_findings.txt lists fixed and known findings.",
    }
    if not na:
        del m["not_applicable"]
    json.dump(m, open(os.path.join(ROOT, "MANIFEST.json"), "w"), indent=1)

if __name__ == "__main__":
    main()
