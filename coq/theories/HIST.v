(* Entry points and histories, as corollaries: the models are functions, so "a second use of the same object" and
   "another door to the same code" are equations between function applications.  They state what the harness ops
   clvariants (C17), rmix (C07) and hwriteobs (C12) compare on the implementation. *)
From Coq Require Import List Ascii String Bool Arith ZArith Lia.
Require Import GS R2 CL H12.
Import ListNotations.

Section Changelog.
  Variables V T : Type.
  Variable pv : str -> option V.
  Variable pd : str -> option T.
  (* ParseOne on the text returns the first entry that Parse returns, and Parse continues on what ParseOne left *)
  Theorem C17_parse_one_is_first_entry x e es : CL.parse V T pv pd x = Some (e :: es) ->
    exists rest, CL.parse_one V T pv pd (lines_of x) = @CL.ROk _ e rest /\
                 CL.parse_fuel V T pv pd (List.length (lines_of x)) rest = Some es.
  Proof.
    unfold CL.parse. cbn [CL.parse_fuel]. destruct (CL.parse_one V T pv pd (lines_of x)) as [e' r| |]; try discriminate.
    destruct (CL.parse_fuel V T pv pd (List.length (lines_of x)) r) as [es'|] eqn:E; cbn [option_map]; [|discriminate].
    intros H. inversion H; subst. exists r. auto.
  Qed.
  Theorem C17_parse_one_error_is_parse_error x : CL.parse_one V T pv pd (lines_of x) = @CL.RErr _ -> CL.parse V T pv pd x = None.
  Proof. unfold CL.parse. cbn [CL.parse_fuel]. now intros ->. Qed.
End Changelog.

(* C07: Next once, then All for the rest, is All *)
Theorem C07_next_then_all x p ps : R2.read_all x = Some (p :: ps) ->
  exists rest, R2.next R2.empty_para [] (lines_of x) = R2.RPara p rest /\ R2.all_fuel (List.length (lines_of x)) rest = Some ps.
Proof.
  unfold R2.read_all. cbn [R2.all_fuel]. destruct (R2.next R2.empty_para [] (lines_of x)) as [p' rest| |]; try discriminate.
  destruct (R2.all_fuel (List.length (lines_of x)) rest) as [ps'|] eqn:E; cbn [option_map]; [|discriminate].
  intros H. inversion H; subst. exists rest. auto.
Qed.

(* C12: a hasher read in mid-stream reports the length and digest of the bytes written so far, and writing on gives
   the state of the whole stream (reading is not a state change in the model: hasher_sum is a function of the state) *)
Theorem C12_mid_stream H names c1 c2 st1 : run_writers names c1 = Some st1 ->
  exists st2, run_writers names (c1 ++ c2) = Some st2 /\
    w_target st1 = List.concat c1 /\ w_target st2 = List.concat (c1 ++ c2) /\
    Forall2 (fun n h => h_size h = Z.of_nat (List.length (List.concat c1)) /\ hasher_sum H h = H (h_alg h) (List.concat c1)) names (w_hashers st1) /\
    Forall2 (fun n h => h_size h = Z.of_nat (List.length (List.concat (c1 ++ c2))) /\ hasher_sum H h = H (h_alg h) (List.concat (c1 ++ c2))) names (w_hashers st2).
Proof.
  intros R1. unfold run_writers in *. destruct (new_hashers names) as [hs|] eqn:N; [|discriminate].
  cbn [option_map] in *. eexists. split; [reflexivity|].
  assert (R1' : run_writers names c1 = Some st1) by (unfold run_writers; rewrite N; exact R1).
  assert (R2' : run_writers names (c1 ++ c2) = Some (fold_left multi_write (c1 ++ c2) {| w_hashers := hs; w_target := [] |})) by (unfold run_writers; now rewrite N).
  destruct (C12_chunking H names c1 st1 R1') as (T1&F1). destruct (C12_chunking H names (c1 ++ c2) _ R2') as (T2&F2).
  repeat split; auto.
  - clear -F1. induction F1 as [|n h ns hs' (_&_&A&B) _ IH]; constructor; auto.
  - clear -F2. induction F2 as [|n h ns hs' (_&_&A&B) _ IH]; constructor; auto.
Qed.
Print Assumptions C17_parse_one_is_first_entry.
Print Assumptions C07_next_then_all.
Print Assumptions C12_mid_stream.
