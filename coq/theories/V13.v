(* version.go: the small accessors StringWithoutEpoch / IsNative / Empty, and how String is built from
   StringWithoutEpoch.  Model: V3.without_epoch (the Go function of the same name), is_native, is_empty. *)
From Coq Require Import List Ascii String Bool Arith NArith ZArith Lia.
Require Import GS V3 V11.
Import ListNotations.

Definition is_native (v : version) : bool := str_eqb (revision v) [].
Definition is_empty (v : version) : bool := (epoch v =? 0)%N && str_eqb (upstream v) [] && str_eqb (revision v) [].
Definition drop_epoch (v : version) : version := {| epoch := 0; upstream := upstream v; revision := revision v |}.

(* String() is the epoch prefix (when one is needed) followed by StringWithoutEpoch() *)
Lemma to_string_split v : to_string v = without_epoch v \/ to_string v = itoa (epoch v) ++ colon :: without_epoch v.
Proof. unfold to_string. destruct ((0 <? epoch v)%N || contains colon (upstream v)); auto. Qed.

Lemma without_epoch_drop v : without_epoch (drop_epoch v) = without_epoch v.
Proof. reflexivity. Qed.

Lemma wf_drop v : wf_v v -> wf_v (drop_epoch v).
Proof. intros [He Hf Hu Hr]. split; cbn [drop_epoch epoch upstream revision]; auto. unfold max_epoch. lia. Qed.

(* for a well-formed version whose upstream part has no colon, the text without the epoch parses to the same
   version with epoch 0: nothing but the epoch is lost *)
Theorem without_epoch_parses v : wf_v v -> contains colon (upstream v) = false ->
  parse (without_epoch v) = Some (drop_epoch v).
Proof.
  intros W C. pose proof (roundtrip_wf (drop_epoch v) (wf_drop v W)) as R.
  unfold to_string in R. cbn [drop_epoch epoch upstream] in R. rewrite C in R. cbn in R. exact R.
Qed.

(* ... and for every string the parser accepts *)
Theorem without_epoch_of_parsed x v : parse_u x = Some v -> contains colon (upstream v) = false ->
  parse (without_epoch v) = Some (drop_epoch v).
Proof. intros P. apply without_epoch_parses. exact (parse_u_wf x v P). Qed.

(* a parsed version is never Empty (the upstream part starts with a digit), and it is native exactly when the text
   without epoch is the upstream part alone or ends in the hyphen that keeps an upstream hyphen apart *)
Theorem parsed_not_empty x v : parse_u x = Some v -> is_empty v = false.
Proof.
  intros P. destruct (parse_u_wf x v P) as [_ (c&r&Hu&_) _ _]. unfold is_empty. rewrite Hu.
  destruct (epoch v =? 0)%N; reflexivity.
Qed.
Theorem native_without_epoch v : is_native v = true ->
  without_epoch v = upstream v ++ (if contains minus (upstream v) then [minus] else []).
Proof.
  unfold is_native, without_epoch. destruct (str_eqb_spec (revision v) []) as [->|]; [|discriminate]. intros _.
  cbn. destruct (contains minus (upstream v)); reflexivity.
Qed.

Example without_epoch_ex :
  without_epoch {| epoch := 3; upstream := s "1.0"; revision := s "2" |} = s "1.0-2" /\
  without_epoch {| epoch := 3; upstream := s "1-0"; revision := [] |} = s "1-0-" /\
  parse (s "1-0-") = Some {| epoch := 0; upstream := s "1-0"; revision := [] |} /\
  is_native {| epoch := 3; upstream := s "1-0"; revision := [] |} = true /\
  is_empty {| epoch := 0; upstream := []; revision := [] |} = true.
Proof. vm_compute. repeat split. Qed.
