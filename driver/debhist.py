"""Lifetime histories over several .deb packages for the harness op `debhist` (see harness/cmd/implrun/deb.go):
load (L from memory, F LoadFile), observe (O: control, member index, whole payload), close (C Deb.Close, X the function
LoadFile returned; closing twice is allowed), load again after a close.  Every observation must be what a single
fresh Load of that package exposes."""


def rand_script(rng, npk, single_o, sig=None):
    """-> (script, expected items).  sig: optional list of (token suffix, expected) per package for S tokens"""
    state = {i: "new" for i in range(npk)}          # new | open | seen (payload read) | closed
    toks, want = [], []
    for _ in range(rng.randrange(4, 14)):
        i = rng.randrange(npk)
        st = state[i]
        if st in ("new", "closed"):
            toks.append(rng.choice("LF") + str(i)); state[i] = "open"
            continue
        act = rng.choice(["O", "S", "C", "X", "CC", "XC", "CX", "XX"])
        if act == "O" and st == "open":
            toks.append("O%d" % i); want.append("( " + single_o[i] + " )"); state[i] = "seen"
        elif act == "S" and sig is not None:
            toks.append("S%d:%s" % (i, sig[i][0])); want.append(sig[i][1])
        elif act[0] in "CX":
            for ch in act:
                toks.append(ch + str(i))
            state[i] = "closed"
    for i in range(npk):
        if state[i] == "open":
            toks.append("O%d" % i); want.append("( " + single_o[i] + " )")
    return " ".join(toks), want


FIXED = ["F0 X0 C0 L1 L2 O1 O2", "L0 C0 C0 L1 L2 O2 O1", "F0 O0 X0 X0 F1 O1 X1 L2 O2", "L0 L1 L2 C1 O0 O2", "F0 F1 X0 C0 F0 F2 O1 O0 O2",
         "F0 C0 X0 F1 F2 O2 O1", "L0 O0 C0 C0 L0 L1 O0 O1", "F0 X0 X0 L1 F2 O1 O2", "F1 C1 C1 F0 F2 O0 O2"]


def expected_of(script, single_o):
    return ["( " + single_o[int(t[1:])] + " )" for t in script.split() if t[0] == "O"]
