(* C08 - Writing paragraphs and reading them back preserves their content.
   Property theorems only.  Model: R2.write_para = Paragraph.WriteTo (line-wise folding: one trailing
   newline dropped, every empty or blank-only continuation line written as " .", an indented first line moved
   to a continuation line), R4.encode = Encoder.Encode once per paragraph (blank line between paragraphs). *)
From Coq Require Import List Ascii String Bool Arith Lia.
Require Import GS R2 R3 R4.
Import ListNotations.

(* a paragraph of well-formed fields in reader form (non-empty first line without surrounding blanks,
   continuation lines without trailing blanks and different from "."; empty lines allowed), written by
   WriteTo, reads back as exactly the same paragraph - whether more text follows a blank line, or nothing.
   Since the values are the reader's own form, this is read-write-read = identity and a fixpoint of
   write-read cycles. *)
Theorem C08_write_read : forall fs, fs <> [] -> Forall wf_field fs -> NoDup (map fst fs) ->
  let p := {| order := map fst fs; values := map field_pair fs |} in
  (forall more, next empty_para [] (lines_of (write_para p) ++ [] :: more) = RPara p more) /\
  next empty_para [] (lines_of (write_para p)) = RPara p [].
Proof. exact C08_para_write_read. Qed.
Print Assumptions C08_write_read.

(* for ANY value: no line WriteTo produces is empty or whitespace-only *)
Theorem C08_no_blank_line_inside_paragraph : forall k v, key_ok k ->
  forall l, In l (field_lines k (fold_lines v)) -> ~ blankish l.
Proof. exact C08_no_blank_lines. Qed.
Print Assumptions C08_no_blank_line_inside_paragraph.

(* paragraphs written one after another through the encoder read back as the same paragraphs (hence the
   same number of them) *)
Theorem C08_encoder : forall ps, Forall wf_fields ps ->
  forall fuel, (List.length ps < fuel)%nat -> all_fuel fuel (lines_of (encode ps)) = Some (map para_of ps).
Proof. exact C08_encoder_roundtrip. Qed.
Print Assumptions C08_encoder.

(* the encoder as a state machine over a HISTORY of Encode calls, some of which fail (a value that cannot be marshalled,
   anywhere in a slice): whatever was written - every element before the first failure of each call - reads back as
   exactly those paragraphs, in order: never one fewer, never two glued together *)
Require ENC.
Theorem C08_encoder_history : forall calls, Forall (Forall ENC.elem_ok) calls ->
  read_all (ENC.out (ENC.enc_calls ENC.enc_init calls)) = Some (map para_of (ENC.written_of calls)).
Proof. exact ENC.encoder_history_reads_back. Qed.
Theorem C08_encoder_history_count : forall calls ps, Forall (Forall ENC.elem_ok) calls ->
  read_all (ENC.out (ENC.enc_calls ENC.enc_init calls)) = Some ps -> List.length ps = List.length (ENC.written_of calls).
Proof. exact ENC.encoder_history_count. Qed.
Print Assumptions C08_encoder_history.

(* the writer the tie executes tests blank lines with Go's Unicode whitespace (R2u); on values without the UTF-8
   encoding of a non-ASCII Unicode space it folds exactly as the writer of the theorems above *)
Require R2u.
Theorem C08_exact_writer_agrees : forall v, Forall R2u.uclean (split nl (trim_suffix [nl] v)) -> R2u.fold_lines_u v = fold_lines v.
Proof. exact R2u.fold_lines_u_clean. Qed.
Print Assumptions C08_exact_writer_agrees.

(* the excluded class (KNOWN-FINDING empty-first-line): a value whose first logical line is empty and whose
   second is empty too is not reproduced *)
Example C08_empty_first_line_refuted :
  exists x p, read_all x = Some [p] /\ read_all (write_para p) <> Some [p].
Proof.
  exists (s "K:" ++ [nl; sp; dot; nl; sp] ++ s "a" ++ [nl]). eexists. split; [vm_compute; reflexivity|]. vm_compute. discriminate.
Qed.
