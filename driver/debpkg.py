"""Builds .deb packages from a model (spec side of C14/C15/C16): tar via tarfile, gzip/bzip2/xz/lzma via the
Python standard library, zstd via the harness's encoder; ar via argen."""
import bz2
import gzip
import io
import lzma
import tarfile
import zlib
import argen

ENCODINGS = ["", ".gz", ".bz2", ".xz", ".lzma", ".zst"]


def make_tar(files, fmt=tarfile.GNU_FORMAT):
    buf = io.BytesIO()
    with tarfile.open(fileobj=buf, mode="w", format=fmt) as tf:
        for name, content in files:
            ti = tarfile.TarInfo(name.decode("latin1"))
            if name.endswith(b"/"):
                ti.type = tarfile.DIRTYPE
                tf.addfile(ti)
                continue
            ti.size = len(content)
            ti.mode = 0o644
            tf.addfile(ti, io.BytesIO(content))
    return buf.getvalue()


def compress(chk, ext, data):
    if ext == "":
        return data
    if ext == ".gz":
        return gzip.compress(data, mtime=0)
    if ext == ".bz2":
        return bz2.compress(data)
    if ext == ".xz":
        return lzma.compress(data, format=lzma.FORMAT_XZ)
    if ext == ".lzma":
        return lzma.compress(data, format=lzma.FORMAT_ALONE)
    if ext == ".zst":
        r = chk.run_impl([("compress", [b"zst", data])])[0]
        return bytes.fromhex(r[1:])
    raise ValueError(ext)


def control_text(rng, pkg=None):
    fields = [(b"Package", pkg or rng.choice([b"hello", b"libfoo1", b"x"])), (b"Version", rng.choice([b"1.0-1", b"2:3.4~rc1-2+b1", b"0.1"])),
              (b"Architecture", rng.choice([b"amd64", b"all", b"any", b"kfreebsd-i386"])), (b"Maintainer", b"A B <a@b.c>")]
    if rng.random() < 0.6:
        fields.append((b"Installed-Size", str(rng.randrange(1, 10**6)).encode()))
    if rng.random() < 0.6:
        fields.append((b"Depends", rng.choice([b"libc6 (>= 2.17), foo | bar", b"a, b (<< 2) [amd64]", b"x"])))
    if rng.random() < 0.5:
        fields.append((b"Section", b"utils"))
    if rng.random() < 0.7:
        # text whose lines end in letters with a last UTF-8 byte 0x85 / 0xA0 (the code points U+0085 and U+00A0 are white
        # space for Go, those BYTES inside a letter are not), on the first and on continuation lines
        first = rng.choice([b"short", b"short", b"Universit\xc3\xa0", b"d\xc3\xa9j\xc3\xa0", b"\xe4\xb8\xa0"])
        conts = [rng.choice([b"long line", b"caf\xc3\xa9 \xc3\x85", b"\xd0\xa0\xd1\x83\xd1\x81\xd1\x81\xd0\xba\xd0\xb8\xd0\xb9 \xd1\x82\xd0\xb5\xd0\xba\xd1\x81\xd1\x85", b"\xc4\x85", b"  indented \xc5\xa0", b".", b"more", b"\xce\xa0"])
                 for _ in range(rng.randrange(0, 4))]
        fields.append((b"Description", b"\n ".join([first] + conts)))
    if rng.random() < 0.3:
        fields.append((b"X-Custom", b"whatever"))
    rng.shuffle(fields)
    return b"".join(k + b": " + v + b"\n" for k, v in fields), dict(fields)


def member(name, data):
    return {"name": name, "slash": False, "ts": b"1700000000", "uid": b"0", "gid": b"0", "mode": b"100644", "data": data}


def build(chk, rng, cenc, denc, extras=(), order=None, ctl_files=None, data_files=None, binary=b"2.0\n"):
    ctext, cfields = control_text(rng)
    cfiles = ctl_files or [(b"./", b""), (b"./md5sums", b"d41d8cd98f00b204e9800998ecf8427e  usr/bin/x\n"), (b"./control", ctext), (b"./conffiles", b"/etc/x\n")]
    cfiles = [(n, ctext if d is None else d) for n, d in cfiles]      # (content None = this package's own control text)
    if ctl_files is None:
        # the control file's name in the tarball: any spelling that path.Clean takes to "control"
        cname = rng.choice([b"./control", b"./control", b"control", b".//control", b"./sub/../control", b"././control"])
        cfiles = [(cname if n == b"./control" else n, d) for n, d in cfiles]
        k = rng.randrange(3)
        if k == 0:
            cfiles = [(cname, ctext), (b"./md5sums", b"x\n")]
        elif k == 1:
            cfiles = [(b"./", b""), (b"./md5sums", b"x\n"), (b"./conffiles", b"/etc/x\n"), (cname, ctext)]
    dfiles = data_files or [(b"./", b""), (b"./usr/", b""), (b"./usr/bin/x", bytes(rng.randrange(256) for _ in range(rng.randrange(0, 300)))),
                            (b"./usr/share/doc/x/README", b"hello\n")]
    ms = [member(b"debian-binary", binary), member(b"control.tar" + cenc.encode(), compress(chk, cenc, make_tar(cfiles))),
          member(b"data.tar" + denc.encode(), compress(chk, denc, make_tar(dfiles)))]
    for n, d in extras:
        if n.startswith(b"_"):
            # deb(5): members that older readers may safely ignore have names starting with '_' and may stand anywhere
            # after debian-binary - before control.tar, between control.tar and data.tar, or at the end
            ms.insert(rng.randrange(1, len(ms) + 1), member(n, d))
        else:
            ms.append(member(n, d))
    if order:
        ms = [ms[i] for i in order]
    return argen.render(ms), {"control": cfields, "ctext": ctext, "cext": b"tar" + cenc.encode(), "dext": b"tar" + denc.encode(),
                              "members": [(m["name"], len(m["data"])) for m in ms], "data_files": dfiles, "ctl_files": cfiles, "ms": ms}
