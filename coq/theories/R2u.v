(* The deb822 reader and writer with Go's exact whitespace: strings.TrimSpace / TrimRightFunc / TrimLeftFunc with
   unicode.IsSpace decode UTF-8, so besides the six one-byte spaces they trim U+0085, U+00A0, U+1680,
   U+2000..U+200A, U+2028, U+2029, U+202F, U+205F and U+3000 (the recognisers are V11's).  This is the model the
   tie executes.  On text that contains none of those encodings it is, provably, the ASCII model R2 about which
   the C07/C08 theorems are stated (transfer theorems at the end). *)
From Coq Require Import List Ascii String Bool Arith Lia.
Require Import GS V11 R2.
Import ListNotations.

Definition trim_right_u (x : str) : str := rev (trim_left_r (rev x)).

Fixpoint next_u (p : para) (last : str) (ls : list str) : rres :=
  match ls with
  | [] => match order p with [] => REOF | _ => RPara p [] end
  | l :: rest =>
      if is_blank_line l then
        match order p with [] => next_u p last rest | _ => RPara p rest end
      else if starts hash l then next_u p last rest
      else if starts sp l || starts tab l then
        match order p with
        | [] => if str_eqb (trim_space_u l) [] then next_u p last rest else RErr
        | _ =>
            let c := trim_right_u (tl l) in
            let c := if str_eqb c [dot] then [] else c in
            next_u {| order := order p; values := setv last (cont_value (lookup last (values p)) c) (values p) |} last rest
        end
      else
        match cut_colon [] l with
        | None => RErr
        | Some (k, v) =>
            let key := trim_space_u k in
            let value := trim_space_u v in
            if starts hash key || starts dashc key then RErr
            else if mem key (values p) then RErr
            else next_u {| order := order p ++ [key]; values := values p ++ [(key, value)] |} key rest
        end
  end.

Fixpoint all_fuel_u (fuel : nat) (ls : list str) : option (list para) :=
  match fuel with
  | O => None
  | S f => match next_u empty_para [] ls with
           | REOF => Some []
           | RErr => None
           | RPara p rest => option_map (cons p) (all_fuel_u f rest)
           end
  end.
Definition read_all_u (x : str) : option (list para) :=
  let ls := lines_of x in all_fuel_u (S (List.length ls)) ls.

Definition dot_line_u (l : str) : str := if str_eqb (trim_space_u l) [] then [dot] else l.
Definition fold_lines_u (v : str) : list str :=
  let ls := split nl (trim_suffix [nl] v) in
  let ls := match ls with
            | l0 :: _ => if str_eqb (trim_left_u l0) l0 then ls else [] :: ls
            | [] => ls end in
  match ls with
  | [] => []
  | l0 :: r => l0 :: map dot_line_u r
  end.
Definition write_field_u (k v : str) : str := k ++ [colon; sp] ++ join [nl; sp] (fold_lines_u v) ++ [nl].
Definition write_para_u (p : para) : str :=
  List.concat (map (fun k => write_field_u k (lookup k (values p))) (order p)).

(* ================= transfer to the ASCII model ================= *)
(* no encoding of a non-ASCII Unicode space occurs anywhere in x *)
Fixpoint has_uenc (x : str) : bool :=
  match x with
  | [] => false
  | c :: r => (match r with
               | d :: r1 => sp2 c d || match r1 with e :: _ => sp3 c d e | [] => false end
               | [] => false
               end) || has_uenc r
  end.
Definition uclean (x : str) : Prop := has_uenc x = false.

Lemma uclean_tl c r : uclean (c :: r) -> uclean r.
Proof. unfold uclean. cbn [has_uenc]. intros H. now apply orb_false_iff in H as [_ H]. Qed.
Lemma uclean_suffix a b : uclean (a ++ b) -> uclean b.
Proof. induction a as [|c a IH]; [auto|]. cbn [app]. intros H. apply IH. eapply uclean_tl; eauto. Qed.

Lemma has_uenc_app_true a b : has_uenc a = true -> has_uenc (a ++ b) = true.
Proof.
  induction a as [|c a IH]; [discriminate|]. cbn [app has_uenc]. intros H. apply orb_true_iff in H as [H|H].
  - destruct a as [|d a1]; [discriminate|]. cbn [app]. apply orb_true_iff in H as [H|H]; [now rewrite H|].
    destruct a1 as [|e a2]; [discriminate|]. cbn [app]. rewrite H. now rewrite orb_true_r.
  - rewrite (IH H). apply orb_true_r.
Qed.
Lemma uclean_prefix a b : uclean (a ++ b) -> uclean a.
Proof. unfold uclean. intros H. destruct (has_uenc a) eqn:E; [|reflexivity]. now rewrite (has_uenc_app_true a b E) in H. Qed.

Lemma uclean_head2 c d r : uclean (c :: d :: r) -> sp2 c d = false.
Proof. unfold uclean. cbn [has_uenc]. intros H. apply orb_false_iff in H as [H _]. now apply orb_false_iff in H as [H _]. Qed.
Lemma uclean_head3 c d e r : uclean (c :: d :: e :: r) -> sp3 c d e = false.
Proof. unfold uclean. cbn [has_uenc]. intros H. apply orb_false_iff in H as [H _]. now apply orb_false_iff in H as [_ H]. Qed.

Lemma trim_left_u_clean x : uclean x -> trim_left_u x = trim_left x.
Proof.
  induction x as [|c r IH]; intros H; [reflexivity|]. cbn [trim_left_u trim_left].
  destruct (is_space c); [apply IH; eapply uclean_tl; eauto|].
  destruct r as [|d r1]; [reflexivity|]. rewrite (uclean_head2 c d r1 H).
  destruct r1 as [|e r2]; [reflexivity|]. now rewrite (uclean_head3 c d e r2 H).
Qed.

(* a pattern at the very end of x *)
Lemma has_uenc_end2 p d c : sp2 d c = true -> has_uenc (p ++ [d; c]) = true.
Proof.
  intros H. induction p as [|a p IH]; cbn [app has_uenc]; [now rewrite H|]. rewrite IH. apply orb_true_r.
Qed.
Lemma has_uenc_end3 p e d c : sp3 e d c = true -> has_uenc (p ++ [e; d; c]) = true.
Proof.
  intros H. induction p as [|a p IH]; cbn [app has_uenc]; [rewrite H; now rewrite orb_true_r|]. rewrite IH. apply orb_true_r.
Qed.

Lemma trim_left_r_clean : forall y, uclean (rev y) -> trim_left_r y = trim_left y.
Proof.
  induction y as [|c r IH]; intros H; [reflexivity|]. cbn [trim_left_r trim_left]. cbn [rev] in H.
  destruct (is_space c); [apply IH; eapply uclean_prefix; eauto|].
  destruct r as [|d r1]; [reflexivity|].
  destruct (sp2 d c) eqn:S2.
  { exfalso. cbn [rev] in H. rewrite <- app_assoc in H. cbn [app] in H. unfold uclean in H. now rewrite (has_uenc_end2 (rev r1) d c S2) in H. }
  destruct r1 as [|e r2]; [reflexivity|].
  destruct (sp3 e d c) eqn:S3; [|reflexivity].
  exfalso. cbn [rev] in H. rewrite <- !app_assoc in H. cbn [app] in H. unfold uclean in H. now rewrite (has_uenc_end3 (rev r2) e d c S3) in H.
Qed.

Lemma trim_left_suffix x : exists w, x = w ++ trim_left x.
Proof.
  induction x as [|c r IH]; [exists []; reflexivity|]. cbn [trim_left]. destruct (is_space c); [|exists []; reflexivity].
  destruct IH as (w&E). exists (c :: w). cbn [app]. now rewrite <- E.
Qed.

Lemma trim_right_u_clean x : uclean x -> trim_right_u x = trim_right x.
Proof. intros H. unfold trim_right_u, trim_right. rewrite trim_left_r_clean; [reflexivity|now rewrite rev_involutive]. Qed.
Lemma trim_space_u_clean x : uclean x -> trim_space_u x = trim_space x.
Proof.
  intros H. unfold trim_space_u, trim_space, trim_right. rewrite (trim_left_u_clean x H).
  rewrite trim_left_r_clean; [reflexivity|]. rewrite rev_involutive.
  destruct (trim_left_suffix x) as (w&E). rewrite E in H. eapply uclean_suffix; eauto.
Qed.

Lemma cut_colon_parts : forall l cur k v, cut_colon cur l = Some (k, v) -> exists k', k = rev cur ++ k' /\ l = k' ++ colon :: v.
Proof.
  induction l as [|c r IH]; intros cur k v H; [discriminate|]. cbn [cut_colon] in H. destruct (ceq_spec c colon) as [->|N].
  - inversion H; subst. exists []. now rewrite app_nil_r.
  - destruct (IH _ _ _ H) as (k'&E1&E2). exists (c :: k'). split; [rewrite E1; cbn [rev]; now rewrite <- app_assoc|now rewrite E2].
Qed.

Theorem next_u_clean : forall ls p last, Forall uclean ls -> next_u p last ls = next p last ls.
Proof.
  induction ls as [|l ls IH]; intros p last H; [reflexivity|]. inversion H as [|? ? Hl Hls]; subst.
  cbn [next_u next]. destruct (is_blank_line l); [destruct (order p); [apply IH|]; auto|].
  destruct (starts hash l); [now apply IH|].
  destruct (starts sp l || starts tab l).
  - destruct (order p).
    + rewrite (trim_space_u_clean l Hl). destruct (str_eqb (trim_space l) []); [now apply IH|reflexivity].
    + assert (Ht : uclean (tl l)) by (destruct l; [exact Hl|eapply uclean_tl; eauto]).
      rewrite (trim_right_u_clean (tl l) Ht). now apply IH.
  - destruct (cut_colon [] l) as [[k v]|] eqn:C; [|reflexivity].
    destruct (cut_colon_parts l [] k v C) as (k'&E1&E2). cbn [rev app] in E1. subst k'.
    assert (Hk : uclean k) by (rewrite E2 in Hl; eapply uclean_prefix; eauto).
    assert (Hv : uclean v) by (rewrite E2 in Hl; apply uclean_suffix in Hl; eapply uclean_tl; eauto).
    rewrite (trim_space_u_clean k Hk), (trim_space_u_clean v Hv).
    destruct (starts hash (trim_space k) || starts dashc (trim_space k)); [reflexivity|]. destruct (mem (trim_space k) (values p)); [reflexivity|]. now apply IH.
Qed.

Lemma next_rest_sub : forall ls p last p' rest, next p last ls = RPara p' rest -> exists pre, ls = pre ++ rest.
Proof.
  induction ls as [|l ls IH]; intros p last p' rest H; cbn [next] in H.
  - destruct (order p); [discriminate|]. inversion H; subst. now exists [].
  - assert (G : forall q la, next q la ls = RPara p' rest -> exists pre, l :: ls = pre ++ rest)
      by (intros q la E; destruct (IH _ _ _ _ E) as (pre&->); now exists (l :: pre)).
    destruct (is_blank_line l).
    { destruct (order p); [eapply G; eauto|]. inversion H; subst. now exists [l]. }
    destruct (starts hash l); [eapply G; eauto|].
    destruct (starts sp l || starts tab l).
    { destruct (order p); [destruct (str_eqb (trim_space l) []); [eapply G; eauto|discriminate]|eapply G; eauto]. }
    destruct (cut_colon [] l) as [[k v]|]; [|discriminate]. destruct (starts hash (trim_space k) || starts dashc (trim_space k)); [discriminate|].
    destruct (mem (trim_space k) (values p)); [discriminate|]. eapply G; eauto.
Qed.

Theorem all_fuel_u_clean : forall fuel ls, Forall uclean ls -> all_fuel_u fuel ls = all_fuel fuel ls.
Proof.
  induction fuel as [|f IH]; intros ls H; [reflexivity|]. cbn [all_fuel_u all_fuel]. rewrite (next_u_clean ls _ _ H).
  destruct (next empty_para [] ls) as [p rest| |] eqn:N; try reflexivity.
  destruct (next_rest_sub _ _ _ _ _ N) as (pre&E). rewrite IH; [reflexivity|]. rewrite E in H. now apply Forall_app in H as [_ H].
Qed.

(* C07/C08 transfer: on text whose lines contain no encoding of a non-ASCII Unicode space, the exact reader is
   the ASCII reader *)
Theorem read_all_u_clean x : Forall uclean (lines_of x) -> read_all_u x = read_all x.
Proof. intros H. unfold read_all_u, read_all. now apply all_fuel_u_clean. Qed.

Theorem fold_lines_u_clean v : Forall uclean (split nl (trim_suffix [nl] v)) -> fold_lines_u v = fold_lines v.
Proof.
  intros H. unfold fold_lines_u, fold_lines. destruct (split nl (trim_suffix [nl] v)) as [|l0 r]; [reflexivity|].
  inversion H as [|? ? H0 Hr]; subst. rewrite (trim_left_u_clean l0 H0).
  assert (M : map dot_line_u r = map dot_line r).
  { apply map_ext_in. intros l Hin. rewrite Forall_forall in Hr. unfold dot_line_u, dot_line. now rewrite (trim_space_u_clean l (Hr l Hin)). }
  destruct (str_eqb (trim_left l0) l0).
  - now rewrite M.
  - cbn [map]. unfold dot_line_u at 1, dot_line at 1. rewrite (trim_space_u_clean l0 H0). now rewrite M.
Qed.
Print Assumptions read_all_u_clean.
Print Assumptions fold_lines_u_clean.
