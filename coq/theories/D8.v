(* C05 (dependencies): the full round-trip theorem for the repaired parser/renderer *)
From Coq Require Import List Ascii String ZArith NArith Lia Bool Arith.
Require A1.
Require Import D3 D4 D5 D6 D7.
Import ListNotations.

Lemma zero_arch_false a : zero_arch a = false -> ~ A1.zero_arch a.
Proof.
  unfold zero_arch, A1.zero_arch, seq, abi, os, cpu. intros H (E1&E2&E3). rewrite E1, E2, E3 in H.
  destruct (list_eq_dec ascii_dec [] []); [discriminate|congruence].
Qed.

Lemma mac_lits : mac A1.dash = true /\ forallb mac A1.gnu = true /\ forallb mac A1.linux = true /\ forallb mac A1.any = true.
Proof. repeat split; reflexivity. Qed.
Lemma archc_lits : archc A1.dash = true /\ forallb archc A1.gnu = true /\ forallb archc A1.linux = true /\ forallb archc A1.any = true.
Proof. repeat split; reflexivity. Qed.

Lemma good_wf p : good p -> blank_arch_possi p = false -> wf_any p.
Proof.
  intros [[I Hne]|W] NB; [left|right; exact W].
  destruct I as [A B C D (a&Ea&(S1&S2)) G H]. unfold blank_arch_possi in NB. apply orb_false_iff in NB as [NB1 NB2].
  constructor; auto.
  - destruct (p_arch p) as [q|]; [|exact I]. destruct D as (w&Hw&->).
    destruct mac_lits as (M1&M2&M3&M4). split.
    + apply (arch_src_chars mac M1 M2 M3 M4 w Hw).
    + apply A1.arch_roundtrip. now apply zero_arch_false.
  - exists a. split; [exact Ea|]. split; [exact S1|]. rewrite Ea in NB2.
    rewrite Forall_forall in *. intros e He. destruct (S2 e He) as (w&Hw&->).
    assert (NZ : zero_arch (parse_arch w) = false).
    { destruct (zero_arch (parse_arch w)) eqn:Z; [|reflexivity].
      assert (existsb zero_arch (a_list a) = true) by (apply existsb_exists; exists (parse_arch w); auto). congruence. }
    destruct archc_lits as (M1&M2&M3&M4). constructor.
    + apply (arch_src_chars archc M1 M2 M3 M4 w Hw).
    + intros _ E. apply arch_string_nonempty in E. apply (zero_arch_false _ NZ). exact E.
    + apply A1.arch_roundtrip. now apply zero_arch_false.
Qed.

Lemma good_dep_wf d : Forall good_rel d -> blank_arch d = false -> wf_dep d.
Proof.
  intros G NB. unfold wf_dep, wf_rel. rewrite Forall_forall in *. intros r Hr. destruct (G r Hr) as [Hne Gr].
  split; [exact Hne|]. rewrite Forall_forall in *. intros p Hp. apply good_wf; [now apply Gr|].
  destruct (blank_arch_possi p) eqn:B; [|reflexivity].
  assert (blank_arch d = true).
  { unfold blank_arch. apply existsb_exists. exists r. split; [exact Hr|]. apply existsb_exists. exists p. auto. }
  congruence.
Qed.

(* C05: for every string the dependency parser accepts, the rendered form is accepted and parses to the
   same value - except when it contains the architecture "--" (the triple ("","","")) *)
Theorem C05_dep_roundtrip x d : parse x = Ok d -> blank_arch d = false -> parse (dep_string d) = Ok d.
Proof. intros P NB. apply C05_partB. apply good_dep_wf; [eapply parse_good; eauto|exact NB]. Qed.

(* ... so rendering reaches a fixpoint in one step *)
Corollary C05_fixpoint x d : parse x = Ok d -> blank_arch d = false ->
  forall d2, parse (dep_string d) = Ok d2 -> dep_string d2 = dep_string d.
Proof. intros P NB d2 E. rewrite (C05_dep_roundtrip x d P NB) in E. now inversion E. Qed.

Print Assumptions C05_dep_roundtrip.
