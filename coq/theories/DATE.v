(* C17: the date of a changelog trailer.  A Gallina model of time.Parse with the library's layout
   "Mon, 2 Jan 2006 15:04:05 -0700" (changelog.whenLayout since repair 1324060; Go 1.26 time/format.go: skip, lookup,
   getnum, the stdDay / stdMonth / stdLongYear / stdHour / stdZeroMinute / stdZeroSecond / stdNumTZ cases, the
   fractional-second special case, the day-of-month validation and Date(...).Unix()).  The result is the pair the
   property speaks about: the instant (Unix seconds) and the zone offset (seconds east of UTC).
   Until this file the date was an ORACLE of the changelog model (the harness asked time.Parse); now the model
   computes it and the tie compares the two on generated and mutated dates. *)
From Coq Require Import List Ascii String Bool Arith NArith ZArith Lia.
Require Import GS V3.
Import ListNotations.
Open Scope Z_scope.

Definition dg (c : ascii) : Z := Z.of_nat (code c) - 48.
Definition isdig_at (s : str) (i : nat) : bool := match nth_error s i with Some c => is_digit c | None => false end.

(* getnum(s, fixed): one or two digits; with fixed, exactly two *)
Definition getnum (s : str) (fixed : bool) : option (Z * str) :=
  match s with
  | c0 :: r0 =>
      if is_digit c0 then
        match r0 with
        | c1 :: r1 => if is_digit c1 then Some (dg c0 * 10 + dg c1, r1)
                      else if fixed then None else Some (dg c0, r0)
        | [] => if fixed then None else Some (dg c0, r0)
        end
      else None
  | [] => None
  end.

Fixpoint cutspace (s : str) : str := match s with c :: r => if ceq c sp then cutspace r else s | [] => [] end.

(* skip(value, prefix): a space in the prefix stands for any run of spaces (also none at the end of the value) *)
Fixpoint skip (fuel : nat) (value prefix : str) : option str :=
  match fuel with O => None | S f =>
    match prefix with
    | [] => Some value
    | p :: pr =>
        if ceq p sp then
          match value with
          | v :: _ => if ceq v sp then skip f (cutspace value) (cutspace prefix) else None
          | [] => skip f [] (cutspace prefix)
          end
        else match value with
             | v :: vr => if ceq v p then skip f vr pr else None
             | [] => None
             end
    end
  end.
Definition skip_lit (value prefix : str) : option str := skip (S (List.length prefix)) value prefix.

(* match(s1, s2): ASCII case-insensitive on letters *)
Definition lower (c : ascii) : N := N.lor (N_of_ascii c) 32.
Definition match1 (c1 c2 : ascii) : bool :=
  ceq c1 c2 || ((lower c1 =? lower c2)%N && (97 <=? lower c1)%N && (lower c1 <=? 122)%N).
Fixpoint match_pre (v name : str) {struct name} : option str :=
  match name with
  | [] => Some v
  | n :: nr => match v with c :: vr => if match1 c n then match_pre vr nr else None | [] => None end
  end.
Fixpoint lookup_tab (i : Z) (tab : list str) (v : str) : option (Z * str) :=
  match tab with
  | [] => None
  | n :: r => match match_pre v n with Some rest => Some (i, rest) | None => lookup_tab (i + 1) r v end
  end.
Definition day_names : list str := map s ["Sun"; "Mon"; "Tue"; "Wed"; "Thu"; "Fri"; "Sat"]%string.
Definition month_names : list str := map s ["Jan"; "Feb"; "Mar"; "Apr"; "May"; "Jun"; "Jul"; "Aug"; "Sep"; "Oct"; "Nov"; "Dec"]%string.

Definition year4 (v : str) : option (Z * str) :=
  match v with
  | a :: b :: c :: d :: r =>
      if is_digit a && is_digit b && is_digit c && is_digit d then Some (((dg a * 10 + dg b) * 10 + dg c) * 10 + dg d, r) else None
  | _ => None
  end.

Definition comma_or_period (c : ascii) : bool := ceq c "."%char || ceq c ","%char.
Fixpoint drop_digits (v : str) : str := match v with c :: r => if is_digit c then drop_digits r else v | [] => [] end.
(* "05.123", "05,5": a fractional second in the input although the layout has none is read and dropped *)
Definition drop_fraction (v : str) : str :=
  match v with
  | c0 :: c1 :: r => if comma_or_period c0 && is_digit c1 then drop_digits r else v
  | _ => v
  end.

Definition is_leap (y : Z) : bool := (y mod 4 =? 0) && (negb (y mod 100 =? 0) || (y mod 400 =? 0)).
Definition days_in (m y : Z) : Z :=
  if m =? 2 then (if is_leap y then 29 else 28)
  else if (m =? 4) || (m =? 6) || (m =? 9) || (m =? 11) then 30 else 31.

(* days since 1970-01-01 of a proleptic Gregorian date (year 0 ... 9999) *)
Definition days_from_civil (y m d : Z) : Z :=
  let y' := if m <=? 2 then y - 1 else y in
  let era := (if 0 <=? y' then y' else y' - 399) / 400 in
  let yoe := y' - era * 400 in
  let mp := (m + 9) mod 12 in
  let doy := (153 * mp + 2) / 5 + d - 1 in
  let doe := yoe * 365 + yoe / 4 - yoe / 100 + doy in
  era * 146097 + doe - 719468.

(* -0700 *)
Definition num_tz (v : str) : option (Z * str) :=
  match v with
  | sg :: h1 :: h2 :: m1 :: m2 :: r =>
      match getnum [h1; h2] true, getnum [m1; m2] true with
      | Some (hr, _), Some (mm, _) =>
          if (24 <? hr) || (60 <? mm) then None
          else if ceq sg "+"%char then Some ((hr * 60 + mm) * 60, r)
          else if ceq sg "-"%char then Some (- ((hr * 60 + mm) * 60), r)
          else None
      | _, _ => None
      end
  | _ => None
  end.

Definition bind {A B} (o : option A) (f : A -> option B) : option B := match o with Some x => f x | None => None end.

Definition parse_when (x : str) : option (Z * Z) :=
  bind (lookup_tab 0 day_names x) (fun '(_, v) =>
  bind (skip_lit v (s ", ")) (fun v =>
  bind (getnum v false) (fun '(day, v) =>
  bind (skip_lit v (s " ")) (fun v =>
  bind (lookup_tab 1 month_names v) (fun '(month, v) =>
  bind (skip_lit v (s " ")) (fun v =>
  bind (year4 v) (fun '(year, v) =>
  bind (skip_lit v (s " ")) (fun v =>
  bind (getnum v false) (fun '(hour, v) => if 24 <=? hour then None else
  bind (skip_lit v (s ":")) (fun v =>
  bind (getnum v true) (fun '(mi, v) => if 60 <=? mi then None else
  bind (skip_lit v (s ":")) (fun v =>
  bind (getnum v true) (fun '(sec, v) => if 60 <=? sec then None else
  let v := drop_fraction v in
  bind (skip_lit v (s " ")) (fun v =>
  bind (num_tz v) (fun '(off, v) =>
  match v with
  | _ :: _ => None                                         (* extra text *)
  | [] =>
      if (day <? 1) || (days_in month year <? day) then None  (* day out of range *)
      else Some (days_from_civil year month day * 86400 + hour * 3600 + mi * 60 + sec - off, off)
  end))))))))))))))).

Example ex1 : parse_when (s "Mon, 02 Jan 2006 15:04:05 -0700") = Some (1136239445, -25200). Proof. vm_compute. reflexivity. Qed.
