(* C10 - Typed Debian documents decode to exactly the fields written in them.
   Property theorems only.  The struct tags of the typed documents ARE the code; they are dumped from the
   compiled Go types into gen/Schema_gen.v on every run, and the schema lemmas below are re-checked against
   them: each row of a table says which real Debian field must land in which Go field and with which syntax
   (scalar, version, architecture list, dependency, comma list, blank-separated list, hash lines of a given
   algorithm, .changes file lines).  A changed or dropped tag makes the corresponding lemma fail to compile. *)
From Coq Require Import List Ascii String Bool Arith NArith ZArith Lia.
Require Import SchemaDefs Schema_gen.
Require GS R2 R2u L10 L12 L13 ACC ACC2 PATH D3 C9G C9F CX CX2 CX3 C10E.
Import ListNotations.

Lemma C10_dsc_schema_ok : schema_ok dsc_schema dsc_table = true.
Proof. vm_compute. reflexivity. Qed.
Lemma C10_changes_schema_ok : schema_ok changes_schema changes_table = true.
Proof. vm_compute. reflexivity. Qed.
Lemma C10_source_paragraph_schema_ok : schema_ok source_par_schema source_par_table = true.
Proof. vm_compute. reflexivity. Qed.
Lemma C10_binary_paragraph_schema_ok : schema_ok binary_par_schema binary_par_table = true.
Proof. vm_compute. reflexivity. Qed.
Lemma C10_packages_index_schema_ok : schema_ok binary_index_schema binary_index_table = true.
Proof. vm_compute. reflexivity. Qed.
Lemma C10_sources_index_schema_ok : schema_ok source_index_schema source_index_table = true.
Proof. vm_compute. reflexivity. Qed.
Lemma C10_best_checksums_schema_ok : schema_ok best_checksums_schema best_checksums_table = true.
Proof. vm_compute. reflexivity. Qed.
Lemma C10_deb_control_schema_ok : schema_ok deb_control_schema deb_control_table = true /\
  required_ok deb_control_schema [s "Package"; s "Version"; s "Architecture"] = true.
Proof. vm_compute. split; reflexivity. Qed.

(* decoding succeeds with r exactly when every schema field, looked up in the paragraph, decodes to its
   component of r (absent optional fields give the zero value) - for the decoder the tie executes *)
Theorem C10_decode_pointwise : forall sch p r,
  C9G.decode CX.fd CX.cval CX.czero CX.cdecode (CX.gschema sch) p = Some r <->
  Forall2 (C9G.field_spec CX.fd CX.cval CX.czero CX.cdecode p) (CX.gschema sch) r.
Proof. exact CX.CX_decode_pointwise. Qed.
Print Assumptions C10_decode_pointwise.

(* the document level: the typed parser applied to a text is the field-by-field decoder applied to the first paragraph
   the deb822 reader (C07) returns for it; a required field absent from that paragraph makes it fail *)
(* (field names are looked up exactly or else in another letter case - C9F.lookup_fold, the repair of the r13 finding
   field-name-case; on a paragraph spelled as the struct spells its fields that is C9G.lookup: C10_lookup_spelled) *)
Theorem C10_document : forall sch text p ps r, Forall R2u.uclean (GS.lines_of text) -> R2.read_all text = Some (p :: ps) ->
  (CX.decode_text sch text = Some r <->
   Forall2 (C9F.field_spec_fold CX.fd CX.cval CX.czero CX.cdecode (R2.values p)) (CX.gschema sch) r).
Proof. exact C10E.C10_document. Qed.
Theorem C10_required_field_missing : forall sch text p ps f, Forall R2u.uclean (GS.lines_of text) -> R2.read_all text = Some (p :: ps) ->
  In f (CX.gschema sch) -> C9G.frequired CX.fd f = true -> C9F.lookup_fold (C9G.fkey CX.fd f) (R2.values p) = None ->
  CX.decode_text sch text = None.
Proof. exact C10E.C10_required_field_missing. Qed.
(* the decoder the code runs and the decoder of the theorems above it agree on paragraphs spelled as the struct spells
   its fields; and the letter case of the field names of a paragraph (no two of which differ in case only) is immaterial *)
Theorem C10_decoder_on_spelled_paragraphs : forall sch p, C9F.spelled CX.fd (CX.gschema sch) p ->
  C9F.decode_fold CX.fd CX.cval CX.czero CX.cdecode (CX.gschema sch) p = C9G.decode CX.fd CX.cval CX.czero CX.cdecode (CX.gschema sch) p.
Proof. intros sch. exact (C9F.decode_fold_spelled CX.fd CX.cval CX.czero CX.cdecode (CX.gschema sch)). Qed.
Theorem C10_field_names_are_case_insensitive : forall sch p p', C9F.fold_distinct p -> C9F.respelled p p' ->
  C9F.decode_fold CX.fd CX.cval CX.czero CX.cdecode (CX.gschema sch) p = C9F.decode_fold CX.fd CX.cval CX.czero CX.cdecode (CX.gschema sch) p'.
Proof. intros sch. exact (C9F.decode_fold_respelled CX.fd CX.cval CX.czero CX.cdecode (CX.gschema sch)). Qed.
(* no struct of the library has two fields whose names differ in letter case only (regenerated schemas, every run) - the
   side condition under which what Marshal writes is spelled as the struct spells it (C9F.own_spelled) *)
Lemma C10_library_schemas_fold_distinct :
  forallb (fun e => let ks := map (fun f => C9F.fold (C9G.fkey CX.fd f)) (CX.gschema (fst (snd e))) in
                    Nat.eqb (List.length (nodup (list_eq_dec Ascii.ascii_dec) ks)) (List.length ks)) Schema_gen.all_schemas = true.
Proof. vm_compute. reflexivity. Qed.
Print Assumptions C10_field_names_are_case_insensitive.
Print Assumptions C10_document.

(* list fields: a delimiter outside the strip set; items = (blanks, element, blanks) joined by the delimiter,
   blanks being stripped characters such as the newline and space of a folded field *)
Theorem C10_list_field : forall (dl : ascii) (st : ascii -> bool), st dl = false -> forall items, items <> [] ->
  Forall (L10.item_ok dl st) items ->
  (* the value is not the empty one: two items or more, or an element that is not empty *)
  ((exists w1 e w2, In (w1, e, w2) items /\ e <> []) \/ (2 <= List.length items)%nat) ->
  L10.decode_list dl st (L10.render_list dl items) = map (fun it => snd (fst it)) items.
Proof. intros dl st H items NE W NT. apply L10.C10_list_field; auto. now apply L10.render_not_empty. Qed.
(* and an empty value - nothing, or nothing but stripped bytes - is the empty list (repair of the r12 finding: "E: " used to
   be one empty element) *)
Theorem C10_list_field_empty : forall (dl : ascii) (st : ascii -> bool) v, L10.trim st v = [] -> L10.decode_list dl st v = [].
Proof. exact L10.decode_list_empty. Qed.
Print Assumptions C10_list_field.
(* newline-delimited lists (Files and the Checksums fields): stripped bytes in front (the newline of the multiline
   convention) and behind (the newline the reader leaves) never change the decoded lines *)
Theorem C10_lines_field : forall (dl : ascii) (st : ascii -> bool) w1 es w2, L10.allP st w1 -> L10.allP st w2 -> es <> [] ->
  Forall (L12.line_ok dl st) es -> L10.decode_list dl st (w1 ++ GS.join [dl] es ++ w2) = es.
Proof. exact L12.C10_lines_field. Qed.
Print Assumptions C10_lines_field.

(* for a field whose REGENERATED descriptor says: slice of strings, delimiter d (not a blank), strip set S, the
   executed decoder is exactly L10.decode_list d S - the function of the list theorems; instance: DSC.Binaries *)
Theorem C10_schema_row_decoder : forall (f : CX.fd) (d : ascii) t,
  has_delim f = true -> delim f = [d] -> d <> " "%char ->
  CX.decode_kind f (KSlice KString) t = Some (CX.XList (map CX.XS (L10.decode_list d (CX.in_set (strip f)) t))).
Proof. exact CX2.CX_slice_of_strings. Qed.
Theorem C10_dsc_binaries_decoder : exists f, find_field dsc_schema (s "Binaries") = Some f /\ key f = s "Binary" /\
  forall t, CX.decode_kind f (kind f) t = Some (CX.XList (map CX.XS (L10.decode_list ","%char (CX.in_set (strip f)) t))).
Proof. exact CX2.dsc_binaries_decoder. Qed.
Print Assumptions C10_schema_row_decoder.

(* checksum and file lists: for ANY element kind a slice field with a one-byte delimiter (not the blank) is decoded
   element-wise over L10.decode_list; a Files / Checksums-* value in the real layout - stripped bytes, one
   "hash size name" line per file, stripped bytes - decodes to the (algorithm, hash, size, name) tuples in order,
   tagged with the algorithm of the field's own struct type (instance: DSC.ChecksumsSha256 of the regenerated schema) *)
Theorem C10_slice_decoder_any_kind : forall (f : CX.fd) (k : fkind) (d : ascii) t,
  has_delim f = true -> delim f = [d] -> d <> " "%char ->
  CX.decode_kind f (KSlice k) t = option_map CX.XList (CX.mapM_opt (CX.decode_kind f k) (L10.decode_list d (CX.in_set (strip f)) t)).
Proof. exact CX3.CX_slice_generic. Qed.
Theorem C10_checksum_list : forall f name alg rows w1 w2,
  kind f = KSlice (KStruct name) -> CX.struct_alg name = Some alg -> has_delim f = true -> delim f = [GS.nl] ->
  (forall c, CX.in_set (strip f) c = true -> GS.is_space c = true) ->
  L10.allP (CX.in_set (strip f)) w1 -> L10.allP (CX.in_set (strip f)) w2 -> rows <> [] -> Forall CX3.row_ok rows ->
  CX.decode_kind f (kind f) (w1 ++ GS.join [GS.nl] (map CX3.row_text rows) ++ w2) = Some (CX.XList (map (CX3.row_val alg) rows)).
Proof. exact CX3.C10_hash_list. Qed.
Theorem C10_dsc_checksums_sha256 : exists f, find_field dsc_schema (s "ChecksumsSha256") = Some f /\ key f = s "Checksums-Sha256" /\
  forall rows w1 w2, L10.allP (CX.in_set (strip f)) w1 -> L10.allP (CX.in_set (strip f)) w2 -> rows <> [] -> Forall CX3.row_ok rows ->
    CX.decode_kind f (kind f) (w1 ++ GS.join [GS.nl] (map CX3.row_text rows) ++ w2) = Some (CX.XList (map (CX3.row_val (CX.lit "sha256")) rows)).
Proof. exact CX3.dsc_sha256_rows. Qed.
Print Assumptions C10_checksum_list.

(* composition with the reader: a comma-separated list FOLDED over continuation lines ("Binary: a,\n b,\n c").
   C07_field_value says the reader's value for such a field is read_conts (first line) (continuation lines); the
   list decoder applied to that value gives exactly the elements *)
Theorem C10_folded_comma_list : forall e0 r, r <> [] -> e0 <> [] -> GS.has_suffix [GS.nl] (e0 ++ [L13.comma]) = false ->
  Forall (L10.elt_ok L13.comma L13.strip4) (e0 :: r) -> Forall L13.line_elt r ->
  L10.decode_list L13.comma L13.strip4 (R2.read_conts (e0 ++ [L13.comma]) (L13.tail_lines r)) = e0 :: r.
Proof. exact L13.C10_folded_comma_list. Qed.
Print Assumptions C10_folded_comma_list.

(* accessors *)
Theorem C10_maintainers : forall m ups, hd [] (ACC.maintainers m ups) = m /\ tl (ACC.maintainers m ups) = ups /\
  List.length (ACC.maintainers m ups) = S (List.length ups).
Proof. exact ACC.C10_maintainers. Qed.
Theorem C10_has_arch_all : forall l, ACC.has_arch_all l = true <-> In (ACC.all_s, ACC.all_s, ACC.all_s) l.
Proof. exact ACC.C10_has_arch_all. Qed.
Theorem C10_source_package_versioned : forall name rest package, name <> [] -> GS.free GS.sp name ->
  ACC.source_package (name ++ GS.sp :: rest) package = name.
Proof. exact ACC.C10_source_package_versioned. Qed.
Theorem C10_source_package_empty : forall package, ACC.source_package [] package = package.
Proof. exact ACC.C10_source_package_empty. Qed.

(* on-demand dependency fields of the Packages / Sources indexes (BinaryIndex.GetDepends ... SourceIndex.GetBuildDepends ...):
   not struct fields - the accessor parses the embedded paragraph's text for that field.  A field the paragraph lacks
   gives the empty dependency, a field whose text the parser accepts gives exactly the parsed value (with
   C04_parse_render: the relations written), malformed text gives the empty dependency, and nothing but that one field
   matters *)
Theorem C10_ondemand_dependency_field : forall field p,
  (R2.mem field (R2.values p) = false -> ACC2.get_optional_dep field p = []) /\
  (forall d, D3.parse (R2.lookup field (R2.values p)) = D3.Ok d -> ACC2.get_optional_dep field p = d) /\
  (D3.parse (R2.lookup field (R2.values p)) = D3.Err -> ACC2.get_optional_dep field p = []) /\
  (forall q, R2.lookup field (R2.values p) = R2.lookup field (R2.values q) -> ACC2.get_optional_dep field p = ACC2.get_optional_dep field q).
Proof.
  exact (fun field p => conj (ACC2.ondemand_absent field p) (conj (ACC2.ondemand_present field p)
          (conj (ACC2.ondemand_malformed field p) (ACC2.ondemand_only_its_field field p)))).
Qed.
(* DSC.DebianSource: the first listed file whose name contains ".debian.", an error when there is none;
   Changes.GetDSC: the first listed file whose name ends in ".dsc" *)
Theorem C10_debian_source : forall names,
  (forall n, ACC2.debian_source names = Some n ->
     exists pre post, names = pre ++ n :: post /\ (exists a b, n = a ++ GS.s ".debian." ++ b) /\
                      Forall (fun m => ACC2.contains_sub (GS.s ".debian.") m = false) pre) /\
  (ACC2.debian_source names = None <-> Forall (fun m => ACC2.contains_sub (GS.s ".debian.") m = false) names).
Proof. exact (fun names => conj (ACC2.debian_source_some names) (ACC2.debian_source_none names)). Qed.
Theorem C10_dsc_of_changes : forall names,
  (forall n, ACC2.dsc_of_changes names = Some n -> In n names /\ GS.has_suffix (GS.s ".dsc") n = true) /\
  (ACC2.dsc_of_changes names = None -> forall n, In n names -> GS.has_suffix (GS.s ".dsc") n = false).
Proof. exact (fun names => conj (ACC2.dsc_of_changes_some names) (ACC2.dsc_of_changes_none names)). Qed.
(* AbsFiles: every listed name joined to the directory of the control file, order and the other columns kept - with the
   path model PATH.join2 (run against path.Join by the tie) in the place of the former oracle: a plain name becomes
   <directory>/<name>.  ByHashPath of an index file <dir>/<name> is <dir>/by-hash/<algorithm>/<hash>. *)
Theorem C10_abs_files : forall base cs files, PATH.clean_abs base cs -> cs <> [] ->
  Forall (fun e => PATH.plain (fst e) = true) files ->
  ACC.abs_files PATH.join2 base files = map (fun e => (base ++ PATH.slash :: fst e, snd e)) files.
Proof. exact ACC2.abs_files_plain. Qed.
Theorem C10_by_hash_path : forall d cs n byhash hash, PATH.clean_abs d cs -> cs <> [] -> PATH.plain n = true ->
  ACC2.by_hash_path PATH.dir byhash hash (d ++ PATH.slash :: n) = d ++ GS.s "/by-hash/" ++ byhash ++ GS.s "/" ++ hash.
Proof. exact ACC2.by_hash_path_of_entry. Qed.
Print Assumptions C10_abs_files.
Print Assumptions C10_ondemand_dependency_field.
