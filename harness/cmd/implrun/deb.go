package main

import (
	"runtime"
	"hash/crc32"
	"archive/tar"
	"bytes"
	"compress/bzip2"
	"compress/gzip"
	"fmt"
	"io"
	"io/ioutil"
	"os"
	"path"
	"path/filepath"
	"reflect"
	"sort"
	"strconv"
	"strings"

	"github.com/kjk/lzma"
	"github.com/klauspost/compress/zstd"
	"github.com/xi2/xz"
	"golang.org/x/crypto/openpgp"
	"pault.ag/go/debian/deb"
)

// oracleDecompress opens the decoder the extension stands for, using the libraries directly.  Like the loader
// it streams: an error may also surface later, while the tar reader pulls bytes through it.
func oracleDecompress(ext string, data []byte) (io.Reader, bool) {
	var r io.Reader
	var err error
	switch ext {
	case ".gz":
		r, err = gzip.NewReader(bytes.NewReader(data))
	case ".bz2":
		r = bzip2.NewReader(bytes.NewReader(data))
	case ".xz":
		r, err = xz.NewReader(bytes.NewReader(data), 0)
	case ".lzma":
		r = lzma.NewReader(bytes.NewReader(data))
	case ".zst":
		r, err = zstd.NewReader(bytes.NewReader(data))
	default:
		r = bytes.NewReader(data)
	}
	if err != nil {
		return nil, false
	}
	return r, true
}

type tarFile struct {
	name    string
	content []byte
}

// oracleUntar lists the entries of a tar stream; with stopAtControl it stops after the first entry whose
// cleaned name is "control" (what loading the control member needs), otherwise it reads to the end.
func oracleUntar(r io.Reader, stopAtControl bool) ([]tarFile, bool) {
	tr := tar.NewReader(r)
	out := []tarFile{}
	for {
		h, err := tr.Next()
		if err == io.EOF {
			return out, !stopAtControl
		}
		if err != nil {
			return out, false
		}
		c, err := ioutil.ReadAll(tr)
		if err != nil {
			return out, false
		}
		out = append(out, tarFile{h.Name, c})
		if stopAtControl && path.Clean(h.Name) == "control" {
			return out, true
		}
	}
}

func init() {
	// deboracle name data keepcontent -> "istar ext decok untarok [ ( cleanedname content shown ) ... ]"
	ops["deboracle"] = func(a []string) string {
		name, data := arg(a, 0), []byte(arg(a, 1))
		ext := filepath.Ext(name)
		istar := ext == ".tar" || filepath.Ext(strings.TrimSuffix(name, ext)) == ".tar"
		stream, decok := oracleDecompress(ext, data)
		files, untarok := []tarFile{}, false
		if decok {
			files, untarok = oracleUntar(stream, strings.HasPrefix(name, "control."))
			// the loader closes the control member's decoder and reports what Close reports (gzip and lzma have
			// a Close that can fail; the other decoders are wrapped in a no-op closer)
			if c, ok := stream.(io.Closer); ok && untarok && strings.HasPrefix(name, "control.") && (ext == ".gz" || ext == ".lzma") {
				if c.Close() != nil {
					untarok = false
				}
			}
		}
		items := []string{}
		for _, f := range files {
			content := ""
			if arg(a, 2) == "1" {
				content = string(f.content)
			}
			// the RAW tar entry name: cleaning it is the model's business (PATH.clean)
			items = append(items, "( "+hx(f.name)+" "+hx(content)+" "+hx(showData(f.content))+" )")
		}
		return fmt.Sprintf("%s %s %s %s %s", showBool(istar), hx(ext), showBool(decok), showBool(untarok), showList(items))
	}
	// what a loaded package exposes: control fields, extensions, member index, data tar listing
	observe := func(d *deb.Deb, limit int) string {
		names := []string{}
		for n := range d.ArContent {
			names = append(names, n)
		}
		sort.Strings(names)
		idx := []string{}
		for _, n := range names {
			idx = append(idx, fmt.Sprintf("( %s %d )", hx(n), d.ArContent[n].Size))
		}
		files := []string{}
		for steps := 0; ; steps++ {
			h, err := d.Data.Next()
			if err == io.EOF {
				break
			}
			if err != nil {
				return "err"
			}
			c, err := ioutil.ReadAll(d.Data)
			if err != nil {
				return "err"
			}
			files = append(files, "( "+hx(path.Clean(h.Name))+" "+showData(c)+" )")
			if steps > limit {
				return "timeout"
			}
		}
		return "ok " + showRecord(reflect.ValueOf(d.Control)) + " | " + hx(d.ControlExt) + " " + hx(d.DataExt) + " " + showList(idx) + " " + showList(files)
	}
	// debload buf -> Load on an in-memory reader
	ops["debload"] = func(a []string) string {
		buf := []byte(arg(a, 0))
		d, err := deb.Load(bytes.NewReader(buf), "x.deb")
		if err != nil {
			if d != nil {
				return "err-with-value"
			}
			return "err"
		}
		defer d.Close()
		return observe(d, len(buf))
	}
	// debloadcost buf -> "ok|err alloc=<bytes>": what Load allocates for this input (runtime TotalAlloc before and after): loading
	// reads what is IN the archive - a member of a few hundred bytes cannot make the loader produce megabytes
	ops["debloadcost"] = func(a []string) string {
		buf := []byte(arg(a, 0))
		var m0, m1 runtime.MemStats
		runtime.GC()
		runtime.ReadMemStats(&m0)
		d, err := deb.Load(bytes.NewReader(buf), "x.deb")
		runtime.ReadMemStats(&m1)
		res := "err"
		if err == nil {
			res = "ok"
			d.Close()
		}
		return fmt.Sprintf("%s alloc=%d", res, m1.TotalAlloc-m0.TotalAlloc)
	}
	// debloadeof buf -> Load through an io.ReaderAt that returns io.EOF together with the last bytes
	ops["debloadeof"] = func(a []string) string {
		buf := []byte(arg(a, 0))
		d, err := deb.Load(eagerEOFReaderAt{buf}, "x.deb")
		if err != nil {
			if d != nil {
				return "err-with-value"
			}
			return "err"
		}
		defer d.Close()
		return observe(d, len(buf))
	}
	// debxzdict n buf: deb.SetXZMaxDict(n) and then deb.SetXZMaxDict(0) - "If zero is supplied, the default max dictionary
	// size will be used" - and then an ordinary Load: the package loads as if the limit had never been touched
	ops["debxzdict"] = func(a []string) string {
		n, _ := strconv.ParseUint(arg(a, 0), 10, 32)
		deb.SetXZMaxDict(uint32(n))
		deb.SetXZMaxDict(0)
		return ops["debload"]([]string{arg(a, 1)})
	}
	// debentries buf: the index of ar members a loaded package exposes (Deb.ArContent), each entry asked whether it is a
	// tarball (IsTarfile) and, if so, opened through ArEntry.Tarfile() - the decompressor chosen by the member's extension -
	// and listed: "( name size istar [ entry names ] )" sorted by name
	ops["debentries"] = func(a []string) string {
		buf := []byte(arg(a, 0))
		d, err := deb.Load(bytes.NewReader(buf), "x.deb")
		if err != nil {
			return "err"
		}
		defer d.Close()
		names := []string{}
		for n := range d.ArContent {
			names = append(names, n)
		}
		sort.Strings(names)
		items := []string{}
		for _, n := range names {
			e := d.ArContent[n]
			listing := "-"
			if e.IsTarfile() {
				// (no rewinding: since repair 649bfd8 every Tarfile() call reads its own view of the member from the first byte,
				// whatever the loader or an earlier call has consumed)
				tr, closer, err := e.Tarfile()
				if err != nil {
					listing = "open-error"
				} else {
					files := []string{}
					for k := 0; k < 10000; k++ {
						h, err := tr.Next()
						if err == io.EOF {
							break
						}
						if err != nil {
							files = append(files, "read-error")
							break
						}
						c, _ := ioutil.ReadAll(tr)
						files = append(files, hx(h.Name)+":"+strconv.Itoa(len(c)))
					}
					closer.Close()
					listing = showList(files)
				}
			}
			// and the entry's own reader, as the loader left it: it delivers the member's bytes, all of them (debian-binary included)
			raw, rerr := ioutil.ReadAll(e.Data)
			rd := fmt.Sprintf("%d:%08x", len(raw), crc32.ChecksumIEEE(raw))
			if rerr != nil {
				rd = "read-error"
			}
			items = append(items, fmt.Sprintf("( %s %d %s %s %s )", hx(n), e.Size, showBool(e.IsTarfile()), listing, rd))
		}
		return "ok " + showList(items)
	}
	// debload2 bufA bufB -> BOTH packages are loaded before either is looked at; each exposes its own content
	ops["debload2"] = func(a []string) string {
		ba, bb := []byte(arg(a, 0)), []byte(arg(a, 1))
		da, err := deb.Load(bytes.NewReader(ba), "a.deb")
		if err != nil {
			return "err"
		}
		defer da.Close()
		db, err := deb.Load(bytes.NewReader(bb), "b.deb")
		if err != nil {
			return "err"
		}
		defer db.Close()
		ra := observe(da, len(ba))
		rb := observe(db, len(bb))
		return ra + " ## " + rb
	}
	// debhist script buf0 buf1 ...: a LIFETIME HISTORY over several packages.  Script tokens (blank separated), i = package index:
	//   L<i> Load from memory   F<i> LoadFile (a real file)   O<i> observe (control, index, whole payload)
	//   C<i> Deb.Close()        X<i> the close function LoadFile returned        S<i>:<role>:<keyring> CheckDebsig
	// A package may be loaded again after it was closed (a new handle); closing twice is allowed (LoadFile documents that
	// callers may use either way of closing).  Emits one item per O and S token, in order.
	ops["debhist"] = func(a []string) string {
		type handle struct {
			d      *deb.Deb
			closer deb.Closer
			size   int
			path   string
		}
		hs := map[int]*handle{}
		var files []string
		defer func() {
			for _, f := range files {
				os.Remove(f)
			}
		}()
		out := []string{}
		for _, tok := range strings.Fields(arg(a, 0)) {
			parts := strings.Split(tok[1:], ":")
			i, _ := strconv.Atoi(parts[0])
			buf := []byte(arg(a, 1+i))
			switch tok[0] {
			case 'L':
				d, err := deb.Load(bytes.NewReader(buf), fmt.Sprintf("p%d.deb", i))
				if err != nil {
					return "loaderr"
				}
				hs[i] = &handle{d: d, size: len(buf)}
			case 'F':
				f, err := ioutil.TempFile("/var/tmp", "verif-deb-*.deb")
				if err != nil {
					return "harness-error"
				}
				files = append(files, f.Name())
				f.Write(buf)
				f.Close()
				d, closer, err := deb.LoadFile(f.Name())
				if err != nil {
					return "loaderr"
				}
				hs[i] = &handle{d: d, closer: closer, size: len(buf), path: f.Name()}
			case 'W':
				// W<i>:<j>: the FILE package i was loaded from (LoadFile) is replaced on disk - a new file renamed over the
				// path - by the bytes of package j.  What was loaded stays what it was.
				j, _ := strconv.Atoi(parts[1])
				if hs[i] == nil || hs[i].path == "" {
					return "bad-script"
				}
				tmp := hs[i].path + ".new"
				ioutil.WriteFile(tmp, []byte(arg(a, 1+j)), 0644)
				os.Rename(tmp, hs[i].path)
			case 'O':
				out = append(out, "( "+observe(hs[i].d, hs[i].size)+" )")
			case 'C':
				hs[i].d.Close()
			case 'X':
				if hs[i].closer != nil {
					hs[i].closer()
				} else {
					hs[i].d.Close()
				}
			case 'S':
				kr := keyringOf(parts[2])
				var el openpgp.EntityList
				if kr != nil {
					el = *kr
				}
				e, err := hs[i].d.CheckDebsig(el, parts[1])
				if err == nil && e == nil {
					out = append(out, "ok-nil")
				} else if err != nil {
					out = append(out, "err")
				} else {
					out = append(out, "ok:"+entityID(e))
				}
			}
		}
		for _, h := range hs {
			h.d.Close()
		}
		return showList(out)
	}
	// debloadfile buf -> the same package through LoadFile (a real file under /var/tmp, closed by the returned closer)
	ops["debloadfile"] = func(a []string) string {
		buf := []byte(arg(a, 0))
		f, err := ioutil.TempFile("/var/tmp", "verif-deb-*.deb")
		if err != nil {
			return "harness-error"
		}
		name := f.Name()
		defer os.Remove(name)
		f.Write(buf)
		f.Close()
		d, closer, err := deb.LoadFile(name)
		if err != nil {
			if d != nil {
				return "err-with-value"
			}
			return "err"
		}
		res := observe(d, len(buf))
		if closer != nil {
			if err := closer(); err != nil {
				return res + " close-error"
			}
		}
		return res
	}
	// sigoracle keyring signeddata sig -> signer id or "-"
	ops["sigoracle"] = func(a []string) string {
		kr := keyringOf(arg(a, 0))
		if kr == nil {
			return "-"
		}
		e, err := openpgp.CheckDetachedSignature(*kr, strings.NewReader(arg(a, 1)), strings.NewReader(arg(a, 2)))
		if err != nil || e == nil {
			return "-"
		}
		return entityID(e)
	}
	// sigmake idx data -> detached binary signature made with the library directly
	ops["sigmake"] = func(a []string) string {
		e := loadKeys()[int(arg(a, 0)[0]-'0')]
		var buf bytes.Buffer
		if err := openpgp.DetachSign(&buf, e, strings.NewReader(arg(a, 1)), pgpConfig()); err != nil {
			return "err"
		}
		return hx(buf.String())
	}
	// debsig buf role keyring -> Load then CheckDebsig
	ops["debsig"] = func(a []string) string {
		d, err := deb.Load(bytes.NewReader([]byte(arg(a, 0))), "x.deb")
		if err != nil {
			return "loaderr"
		}
		defer d.Close()
		kr := keyringOf(arg(a, 2))
		var el openpgp.EntityList
		if kr != nil {
			el = *kr
		}
		e, err := d.CheckDebsig(el, arg(a, 1))
		if err == nil && e == nil {
			// no error and no signer: a caller that tests err alone takes this for a successful verification
			return "ok-nil"
		}
		if err != nil {
			return "err"
		}
		// the payload stream handed out by Load must still be usable after the verification
		n := 0
		for {
			_, err := d.Data.Next()
			if err == io.EOF {
				break
			}
			if err != nil {
				return "ok " + entityID(e) + " payload-broken"
			}
			if _, err := ioutil.ReadAll(d.Data); err != nil {
				return "ok " + entityID(e) + " payload-broken"
			}
			n++
		}
		return fmt.Sprintf("ok %s %d", entityID(e), n)
	}
	// debsigseq buf role1 keyring1 role2 keyring2 ... -> ONE Load, then the checks in that order on the same *Deb
	ops["debsigseq"] = func(a []string) string {
		d, err := deb.Load(bytes.NewReader([]byte(arg(a, 0))), "x.deb")
		if err != nil {
			return "loaderr"
		}
		defer d.Close()
		out := []string{}
		for i := 1; i+1 < len(a); i += 2 {
			kr := keyringOf(a[i+1])
			var el openpgp.EntityList
			if kr != nil {
				el = *kr
			}
			e, err := d.CheckDebsig(el, a[i])
			if err == nil && e == nil {
				out = append(out, "ok-nil")
			} else if err != nil {
				out = append(out, "err")
			} else {
				out = append(out, "ok:"+entityID(e))
			}
		}
		return showList(out)
	}
	// zstd / lzma encoders for the package builder (Python has neither in its standard library here)
	ops["compress"] = func(a []string) string {
		var buf bytes.Buffer
		switch arg(a, 0) {
		case "zst":
			w, err := zstd.NewWriter(&buf)
			if err != nil {
				return "err"
			}
			w.Write([]byte(arg(a, 1)))
			w.Close()
		case "lzma":
			w := lzma.NewWriter(&buf)
			w.Write([]byte(arg(a, 1)))
			w.Close()
		default:
			return "err"
		}
		return hx(buf.String())
	}
}
