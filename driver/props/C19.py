"""C19 - build ordering respects build-dependencies between the given sources."""
import re
import lib
from props.C06 import spec_set, name_to_triple

ARCHS = [b"amd64", b"i386", b"hurd-i386"]
LISTN = [b"amd64", b"i386", b"linux-any", b"any-amd64", b"hurd-any", b"any", b"musl-linux-any", b"gnu-linux-any", b"gnu-kfreebsd-any", b"gnu-any-amd64", b"any-linux-any", b"musl-any-any", b"gnu-hurd-i386"]


def rand_problem(rng):
    n = rng.randrange(1, 13)
    srcs = []
    allbins = []
    for i in range(n):
        bins = []
        for j in range(rng.randrange(1, 5)):
            b = b"bin%d-%d" % (i, j) if rng.random() < 0.93 or not allbins else rng.choice(allbins)
            if rng.random() < 0.18:
                # binaries and sources share one namespace in Debian: a source usually builds a binary of its own name,
                # and a binary may be named like ANOTHER source of the set (which does not build it)
                b = b"src%d" % (i if rng.random() < 0.4 else rng.randrange(n))
            if b not in bins:
                bins.append(b)
        allbins += bins
        srcs.append({"source": b"src%d" % i, "bins": bins, "fields": [[], [], []]})
    cyclic = rng.random() < 0.35
    for i, s in enumerate(srcs):
        for f in range(3):
            for _ in range(rng.randrange(0, 3 if f == 0 else 2)):
                alts = []
                for _ in range(rng.randrange(1, 4)):
                    if rng.random() < 0.15:
                        alts.append((b"${misc:Depends}", None, None))
                        continue
                    if rng.random() < 0.7:
                        pool = allbins if cyclic else [b for k in range(i) for b in srcs[k]["bins"]]
                        name = rng.choice(pool) if pool else b"external"
                    else:
                        name = rng.choice([b"debhelper", b"external-dev", b"gcc"])
                    if rng.random() < 0.45:
                        alts.append((name, rng.random() < 0.4, [rng.choice(LISTN) for _ in range(rng.randrange(1, 3))]))
                    else:
                        alts.append((name, False, []))
                s["fields"][f].append(alts)
    # the input order must not already be a build order: providers are as likely to come after their dependents
    rng.shuffle(srcs)
    return srcs


def render_dep(rels, rng):
    out = []
    for alts in rels:
        parts = []
        for name, neg, lst in alts:
            if neg is None:
                parts.append(name)
            else:
                t = name
                if rng.random() < 0.25:
                    # a multiarch qualifier does not restrict the alternative (only a bracketed list does)
                    t += rng.choice([b":native", b":any", b":i386", b":amd64", b":all"])
                # the blank in front of a restriction is optional ("liba-dev[amd64]", "x(>= 1.0)<!nocheck>")
                if rng.random() < 0.3:
                    t += rng.choice([b" ", b"", b"  "]) + b"(>= 1.0)"
                if lst:
                    t += rng.choice([b" ", b" ", b"", b"\t"]) + b"[" + b" ".join((b"!" if neg else b"") + x for x in lst) + b"]"
                if rng.random() < 0.15:
                    t += rng.choice([b" ", b""]) + b"<!nocheck>"
                parts.append(t)
        out.append(b" | ".join(parts))
    sep = rng.choice([b", ", b",\n ", b" ,\n\t"])
    return sep.join(out)


def render_dsc(s, rng):
    t = b"Format: 3.0 (quilt)\nSource: " + s["source"] + b"\n"
    t += b"Binary: " + rng.choice([b", ", b",\n ", b" ,  "]).join(s["bins"]) + b"\n"
    t += b"Architecture: any all\nVersion: 1.0-1\nMaintainer: A B <a@b.c>\n"
    if rng.random() < 0.5:
        t += b"Uploaders: C D <c@d.e>, E F <e@f.g>\n"
    for key, rels in zip([b"Build-Depends", b"Build-Depends-Arch", b"Build-Depends-Indep"], s["fields"]):
        if rels or rng.random() < 0.2:
            t += key + b": " + render_dep(rels, rng) + b"\n"
    t += b"Files:\n d41d8cd98f00b204e9800998ecf8427e 0 x_1.0.orig.tar.gz\n"
    return t


def graph(srcs, arch):
    tt = name_to_triple(arch)
    # EVERY source that lists a binary builds it ("after each source that builds a binary it build-depends on"; until the r13
    # repair 0173c55 this oracle - like the code - kept the last one only)
    providers = {}
    for i, s in enumerate(srcs):
        for b in s["bins"]:
            providers.setdefault(b, set()).add(i)
    edges = {i: set() for i in range(len(srcs))}
    for i, s in enumerate(srcs):
        for rels in s["fields"]:
            for alts in rels:
                for name, neg, lst in alts:
                    if neg is None:
                        continue
                    if spec_set(neg, [name_to_triple(x) for x in lst], tt):
                        edges[i] |= providers.get(name, set())
                        break
    return edges


def acyclic(edges):
    indeg = {i: 0 for i in edges}
    # i depends on p: p must come first
    left = dict((i, set(ps)) for i, ps in edges.items())
    done = []
    while True:
        ready = [i for i, ps in left.items() if not (ps - set(done))]
        if not ready:
            break
        for i in ready:
            done.append(i); del left[i]
    return not left


def run(chk):
    rng = chk.rng
    cases, meta = [], []
    for _ in range(chk.n(2500, 50000)):
        srcs = rand_problem(rng)
        texts = [render_dsc(s, rng) for s in srcs]
        for arch in rng.sample(ARCHS, 2):
            cases.append(("dscorder", list(name_to_triple(arch)) + texts)); meta.append((srcs, arch))
    impl, model = chk.run_both(cases)
    chk.compare("random-graphs-as-dsc-text", cases, impl, model)
    ncyc = 0
    for c, i, (srcs, arch) in zip(cases, impl, meta):
        edges = graph(srcs, arch)
        ok = acyclic(edges)
        ncyc += (not ok)
        why = None
        if i.startswith("ok"):
            names = [bytes.fromhex(h[1:]) for h in i.split()[1:] if h.startswith("x")]
            pos = {n: k for k, n in enumerate(names)}
            if sorted(names) != sorted(s["source"] for s in srcs):
                why = "the order is not a permutation of the input"
            else:
                for k, s in enumerate(srcs):
                    for p in edges[k]:
                        if pos[srcs[p]["source"]] >= pos[s["source"]]:
                            why = "%s is ordered before %s, which builds a binary it build-depends on" % (s["source"].decode(), srcs[p]["source"].decode())
            if not ok and why is None:
                why = "a dependency cycle did not yield an error"
        elif i == "err":
            if ok:
                why = "an acyclic set of sources yielded an error instead of an order"
        else:
            why = "unexpected outcome " + i[:80]
        if why:
            chk.violate({"kind": "property", "case": lib.show_case(c), "impl": i[:1500], "explanation": why})
    # several VERSIONS of one source in the set (same Source name, other Version): each is a thing to build - the order is a
    # permutation of all of them and respects the edges (the sources are told apart by Source_Version)
    vc, vm = [], []
    for _ in range(chk.n(300, 6000)):
        srcs = rand_problem(rng)
        if len(srcs) < 2:
            continue
        for s_ in rng.sample(srcs, rng.randrange(1, max(2, len(srcs) // 2))):
            s_["source"] = rng.choice(srcs)["source"]
        texts = []
        for k, s_ in enumerate(srcs):
            t = render_dsc(s_, rng)
            texts.append(re.sub(rb"(?m)^Version: .*$", b"Version: 1.0-%d" % k, t) if re.search(rb"(?m)^Version: ", t) else t + b"Version: 1.0-%d\n" % k)
        arch = rng.choice(ARCHS)
        vc.append(("dscorderv", list(name_to_triple(arch)) + texts)); vm.append((srcs, arch))
    vi = chk.run_impl(vc)
    chk.record("several-versions-of-one-source", vc, vi, lambda c, r: r.startswith("ok"))
    for c, i, (srcs, arch) in zip(vc, vi, vm):
        edges = graph(srcs, arch)
        ok = acyclic(edges)
        ids = [s_["source"] + b"_1.0-%d" % k for k, s_ in enumerate(srcs)]
        why = None
        if i.startswith("ok"):
            names = [bytes.fromhex(h[1:]) for h in i.split()[1:] if h.startswith("x")]
            pos = {n: k for k, n in enumerate(names)}
            if sorted(names) != sorted(ids):
                why = "the order is not a permutation of the input (sources that share a Source name)"
            else:
                for k in range(len(srcs)):
                    for p in edges[k]:
                        if pos[ids[p]] >= pos[ids[k]]:
                            why = "%s is ordered before %s, which builds a binary it build-depends on" % (ids[k].decode(), ids[p].decode())
            if not ok and why is None:
                why = "a dependency cycle did not yield an error"
        elif i == "err":
            if ok:
                why = "an acyclic set of sources yielded an error instead of an order"
        else:
            why = "unexpected outcome " + i[:80]
        if why:
            chk.violate({"kind": "property", "case": lib.show_case(c), "impl": i[:1500], "explanation": why})
    # the order does not depend on what the process decoded before: a fresh process that has first read a .changes, a
    # Sources and a Packages index and a debian/control gives the same answers
    k = max(1, len(cases) // chk.n(600, 12000))
    after = chk.run_impl([("dscorderafter", c[1]) for c in cases[::k]])
    chk.record("after-other-document-kinds", [("dscorderafter", c[1]) for c in cases[::k]], after)
    for c, a, b in zip(cases[::k], impl[::k], after):
        if a != b:
            chk.violate({"kind": "property", "case": lib.show_case(("dscorderafter", c[1])), "alone": a[:800], "after_other_kinds": b[:800],
                         "explanation": "the same sources are ordered differently in a process that decoded other document kinds (.changes, indexes, debian/control) before"})
    chk.extra["cyclic_problems"] = ncyc
    again = chk.run_impl(cases[::3])
    for c, a, b in zip(cases[::3], impl[::3], again):
        if a != b:
            chk.violate({"kind": "property", "case": lib.show_case(c), "first": a[:800], "second": b[:800], "explanation": "the outcome differs between runs"})
    chk.assumptions += ["in the streams compared with the model source names are distinct (the model identifies a source by its position, which since repair bd0eb34 is what the code does too; several versions of one source are exercised by the stream several-versions-of-one-source); pault.ag/go/topsort v0.1.1 is part of the modelled behaviour"]


def replay(chk, d):
    c = lib.case_from_replay(d)
    i, m = chk.run_both([c])
    print("impl:", i[0][:500], "model:", m[0][:500])
    return 1 if i[0] != m[0] else 0
