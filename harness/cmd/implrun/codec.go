package main

import (
	"bufio"
	"bytes"
	"fmt"
	"io"
	"io/ioutil"
	"os"
	"path/filepath"
	"reflect"
	"sort"
	"strconv"
	"strings"

	"pault.ag/go/debian/control"
	"pault.ag/go/debian/deb"
	"pault.ag/go/debian/dependency"
	"pault.ag/go/debian/version"
	"verif/harness/probe"
)

var paragraphType = reflect.TypeOf(control.Paragraph{})

func showFileHash(h control.FileHash) string {
	return fmt.Sprintf("( %s %s %d %s %s )", hx(h.Algorithm), hx(h.Hash), h.Size, hx(h.Filename), hx(h.ByHash))
}

// showValue prints a field generically, in the format of Run.show_xval
func showValue(v reflect.Value) string {
	switch v.Kind() {
	case reflect.String:
		return hx(v.String())
	case reflect.Int, reflect.Int64:
		return strconv.FormatInt(v.Int(), 10)
	case reflect.Uint:
		return strconv.FormatUint(v.Uint(), 10)
	case reflect.Bool:
		return showBool(v.Bool())
	case reflect.Slice:
		items := []string{}
		for i := 0; i < v.Len(); i++ {
			items = append(items, showValue(v.Index(i)))
		}
		return showList(items)
	case reflect.Struct:
		switch x := v.Interface().(type) {
		case version.Version:
			return "( " + showV(x) + " )"
		case dependency.Dependency:
			return showDep(&x)
		case dependency.Arch:
			return "( " + showArch(x) + " )"
		case control.MD5FileHash:
			return showFileHash(x.FileHash)
		case control.SHA1FileHash:
			return showFileHash(x.FileHash)
		case control.SHA256FileHash:
			return showFileHash(x.FileHash)
		case control.SHA512FileHash:
			return showFileHash(x.FileHash)
		case control.FileListChangesFileHash:
			return fmt.Sprintf("( %s %d %s %s %s )", hx(x.Hash), x.Size, hx(x.Component), hx(x.Priority), hx(x.Filename))
		}
	}
	return "?"
}

// activeFields walks the struct like the decoder does: embedded helper structs are flattened, the embedded
// Paragraph and fields tagged control:"-" take no part
func activeFields(v reflect.Value, f func(sf reflect.StructField, fv reflect.Value)) {
	t := v.Type()
	for i := 0; i < t.NumField(); i++ {
		sf := t.Field(i)
		if sf.Anonymous {
			if sf.Type != paragraphType && sf.Type.Kind() == reflect.Struct {
				activeFields(v.Field(i), f)
			}
			continue
		}
		if sf.Tag.Get("control") == "-" {
			continue
		}
		f(sf, v.Field(i))
	}
}

func showRecord(v reflect.Value) string {
	parts := []string{}
	activeFields(v, func(sf reflect.StructField, fv reflect.Value) {
		parts = append(parts, sf.Name+"="+showValue(fv))
	})
	return strings.Join(parts, " ")
}

const us = "\x1f"
const rs = "\x1e"

func argInt(s string) int64 {
	n, _ := strconv.ParseInt(s, 10, 64)
	return n
}

// setValue fills a field from the driver's textual argument (same conventions as Run.value_of_arg)
func setValue(fv reflect.Value, x string) {
	switch fv.Kind() {
	case reflect.String:
		fv.SetString(x)
	case reflect.Int:
		fv.SetInt(argInt(x))
	case reflect.Uint:
		n, _ := strconv.ParseUint(x, 10, 64)
		fv.SetUint(n)
	case reflect.Bool:
		fv.SetBool(strings.HasPrefix(x, "1"))
	case reflect.Slice:
		items := strings.Split(x, rs)
		items = items[:len(items)-1]
		out := reflect.MakeSlice(fv.Type(), len(items), len(items))
		for i, it := range items {
			setValue(out.Index(i), it)
		}
		if len(items) == 0 {
			out = reflect.Zero(fv.Type())
		}
		fv.Set(out)
	case reflect.Struct:
		p := strings.Split(x, us)
		for len(p) < 3 {
			p = append(p, "")
		}
		switch fv.Interface().(type) {
		case version.Version:
			fv.Set(reflect.ValueOf(version.Version{Epoch: argUintOr0(p[0]), Version: p[1], Revision: p[2]}))
		case dependency.Dependency:
			d, err := dependency.Parse(x)
			if err != nil || d == nil {
				fv.Set(reflect.ValueOf(dependency.Dependency{}))
			} else {
				fv.Set(reflect.ValueOf(*d))
			}
		case dependency.Arch:
			fv.Set(reflect.ValueOf(dependency.Arch{ABI: p[0], OS: p[1], CPU: p[2]}))
		case control.MD5FileHash:
			fv.Set(reflect.ValueOf(control.MD5FileHash{FileHash: control.FileHash{Algorithm: "md5", Hash: p[0], Size: argInt(p[1]), Filename: p[2]}}))
		case control.SHA1FileHash:
			fv.Set(reflect.ValueOf(control.SHA1FileHash{FileHash: control.FileHash{Algorithm: "sha1", Hash: p[0], Size: argInt(p[1]), Filename: p[2]}}))
		case control.SHA256FileHash:
			fv.Set(reflect.ValueOf(control.SHA256FileHash{FileHash: control.FileHash{Algorithm: "sha256", Hash: p[0], Size: argInt(p[1]), Filename: p[2], ByHash: "SHA256"}}))
		case control.SHA512FileHash:
			fv.Set(reflect.ValueOf(control.SHA512FileHash{FileHash: control.FileHash{Algorithm: "sha512", Hash: p[0], Size: argInt(p[1]), Filename: p[2], ByHash: "SHA512"}}))
		}
	}
}

func argUintOr0(s string) uint {
	n, err := strconv.ParseUint(s, 10, 64)
	if err != nil {
		return 0
	}
	return uint(n)
}

func buildStruct(a []string) (reflect.Value, bool) {
	if _, ok := probe.Types[arg(a, 0)]; !ok {
		return reflect.Value{}, false
	}
	v := probe.New(arg(a, 0))
	n, _ := strconv.Atoi(arg(a, 1))
	found := control.Paragraph{Order: []string{}, Values: map[string]string{}}
	for i := 0; i < n; i++ {
		found.Set(arg(a, 2+2*i), arg(a, 3+2*i))
	}
	t := v.Elem().Type()
	for i := 0; i < t.NumField(); i++ {
		if t.Field(i).Anonymous && t.Field(i).Type == paragraphType {
			v.Elem().Field(i).Set(reflect.ValueOf(found))
		}
	}
	rest := a[2+2*n:]
	k := 0
	activeFields(v.Elem(), func(sf reflect.StructField, fv reflect.Value) {
		if k < len(rest) {
			setValue(fv, rest[k])
		}
		k++
	})
	return v, true
}

// embeddedParagraph returns a deep copy of the struct's embedded control.Paragraph (if it has one)
func embeddedParagraph(v reflect.Value) (control.Paragraph, bool) {
	t := v.Type()
	for i := 0; i < t.NumField(); i++ {
		if t.Field(i).Anonymous && t.Field(i).Type == paragraphType {
			p := v.Field(i).Interface().(control.Paragraph)
			c := control.Paragraph{Order: append([]string{}, p.Order...), Values: map[string]string{}}
			for k, x := range p.Values {
				c.Values[k] = x
			}
			return c, true
		}
	}
	return control.Paragraph{}, false
}

func sameParagraph(a, b control.Paragraph) bool {
	if len(a.Order) != len(b.Order) || len(a.Values) != len(b.Values) {
		return false
	}
	for i := range a.Order {
		if a.Order[i] != b.Order[i] {
			return false
		}
	}
	for k, x := range a.Values {
		if y, ok := b.Values[k]; !ok || x != y {
			return false
		}
	}
	return true
}

// marshalHistory marshals ONE struct value the way a program does over its lifetime: Marshal, ConvertToParagraph,
// Marshal again.  Marshalling is a pure function of the value: every pass gives the same text, ConvertToParagraph
// writes out as that text, and the value (its embedded paragraph included) is the same afterwards.  Any departure
// is reported as an anomaly label instead of the text.
func marshalHistory(v reflect.Value) (string, string) {
	before, has := embeddedParagraph(v.Elem())
	shown := showRecord(v.Elem())
	var buf bytes.Buffer
	if err := control.Marshal(&buf, v.Interface()); err != nil {
		return "", "err"
	}
	first := buf.String()
	para, err := control.ConvertToParagraph(v.Interface())
	if err != nil || para == nil {
		return "", "convert-err-after-marshal"
	}
	var pb bytes.Buffer
	if err := para.WriteTo(&pb); err != nil {
		return "", "convert-err-after-marshal"
	}
	if pb.String() != first {
		return "", "convert-differs-from-marshal"
	}
	var buf2 bytes.Buffer
	if err := control.Marshal(&buf2, v.Interface()); err != nil {
		return "", "second-marshal-err"
	}
	if buf2.String() != first {
		return "", "second-marshal-differs"
	}
	if has {
		after, _ := embeddedParagraph(v.Elem())
		if !sameParagraph(before, after) {
			return "", "marshal-changed-embedded-paragraph"
		}
	}
	if showRecord(v.Elem()) != shown {
		return "", "marshal-changed-struct"
	}
	return first, ""
}

func init() {
	ops["cunmarshal"] = func(a []string) string {
		if _, ok := probe.Types[arg(a, 0)]; !ok {
			return "no-such-type"
		}
		v := probe.New(arg(a, 0))
		if err := control.Unmarshal(v.Interface(), strings.NewReader(arg(a, 1))); err != nil {
			return "err"
		}
		return "ok " + showRecord(v.Elem())
	}
	ops["cmarshal"] = func(a []string) string {
		v, ok := buildStruct(a)
		if !ok {
			return "no-such-type"
		}
		text, anomaly := marshalHistory(v)
		if anomaly != "" {
			return anomaly
		}
		return "ok " + hx(text)
	}
	ops["croundtrip"] = func(a []string) string {
		v, ok := buildStruct(a)
		if !ok {
			return "no-such-type"
		}
		text, anomaly := marshalHistory(v)
		if anomaly != "" {
			return anomaly
		}
		w := probe.New(arg(a, 0))
		if err := control.Unmarshal(w.Interface(), strings.NewReader(text)); err != nil {
			return "ok " + hx(text) + " err"
		}
		return "ok " + hx(text) + " ok " + showRecord(w.Elem())
	}
	// croundtripself: the same, but the marshalled text is unmarshalled INTO THE VALUE IT CAME FROM (and once more into
	// the result): every kind of field is replaced by what the text says - a list is not appended to what the field held
	ops["croundtripself"] = func(a []string) string {
		v, ok := buildStruct(a)
		if !ok {
			return "no-such-type"
		}
		text, anomaly := marshalHistory(v)
		if anomaly != "" {
			return anomaly
		}
		for i := 0; i < 2; i++ {
			if err := control.Unmarshal(v.Interface(), strings.NewReader(text)); err != nil {
				return "ok " + hx(text) + " err"
			}
		}
		return "ok " + hx(text) + " ok " + showRecord(v.Elem())
	}
	// cptr mask version dep arch text num: a struct whose optional fields are POINTERS (nil when the mask bit is 0).
	// Marshalling it must not panic; a nil pointer is an absent field, a non-nil one is written as its value.
	ops["cptr"] = func(a []string) string {
		type pointers struct {
			Package string
			Version *version.Version
			Depends *dependency.Dependency
			Arch    *dependency.Arch `control:"Architecture"`
			Comment *string          `control:"X-Comment"`
			Count   *int
			Section string
		}
		mask := arg(a, 0)
		bit := func(i int) bool { return len(mask) > i && mask[i] == '1' }
		p := pointers{Package: "foo", Section: "misc"}
		if bit(0) {
			v, err := version.Parse(arg(a, 1))
			if err != nil {
				return "bad-arg"
			}
			p.Version = &v
		}
		if bit(1) {
			d, err := dependency.Parse(arg(a, 2))
			if err != nil {
				return "bad-arg"
			}
			p.Depends = d
		}
		if bit(2) {
			x, err := dependency.ParseArch(arg(a, 3))
			if err != nil {
				return "bad-arg"
			}
			p.Arch = x
		}
		if bit(3) {
			t := arg(a, 4)
			p.Comment = &t
		}
		if bit(4) {
			n, _ := strconv.Atoi(arg(a, 5))
			p.Count = &n
		}
		var buf bytes.Buffer
		if err := control.Marshal(&buf, p); err != nil {
			return "err"
		}
		var buf2 bytes.Buffer
		if err := control.Marshal(&buf2, &p); err != nil {
			return "err"
		}
		if buf.String() != buf2.String() {
			return "value-and-pointer-differ"
		}
		return "ok " + hx(buf.String())
	}
	// cmarshalnil type: nil in the place of a value - a nil *T, the untyped nil, a slice holding a nil *T - through Marshal,
	// Encoder.Encode and ConvertToParagraph: "marshalling a supported type never panics" - each call answers with an error
	ops["cmarshalnil"] = func(a []string) string {
		z, ok := probe.Types[arg(a, 0)]
		if !ok {
			return "no-such-type"
		}
		nilPtr := reflect.Zero(reflect.PtrTo(reflect.TypeOf(z))).Interface()
		sl := reflect.MakeSlice(reflect.SliceOf(reflect.PtrTo(reflect.TypeOf(z))), 1, 1).Interface()
		one := func(f func() error) (r string) {
			defer func() {
				if recover() != nil {
					r = "panic"
				}
			}()
			if f() != nil {
				return "err"
			}
			return "ok"
		}
		var buf bytes.Buffer
		enc, _ := control.NewEncoder(&buf)
		return strings.Join([]string{
			one(func() error { return control.Marshal(&buf, nilPtr) }),
			one(func() error { return control.Marshal(&buf, nil) }),
			one(func() error { return enc.Encode(nilPtr) }),
			one(func() error { _, err := control.ConvertToParagraph(nilPtr); return err }),
			one(func() error { _, err := control.ConvertToParagraph(nil); return err }),
			one(func() error { return control.Marshal(&buf, sl) }),
		}, " ") + " written=" + strconv.Itoa(buf.Len())
	}
	// cprivate text: a caller's struct with PRIVATE fields (a flag, a counter, a list) next to its exported ones and the embedded
	// paragraph, decoded from a document that happens to have fields of those names ("seen: yes"), as one struct and as a
	// slice: the private fields are none of the document's business - no panic, they keep their values, the exported fields
	// are decoded, and Marshal does not write them
	ops["cprivate"] = func(a []string) string {
		type T struct {
			control.Paragraph
			Package string
			seen    bool
			count   int
			note    string
			tags    []string
		}
		one := func(f func() string) (r string) {
			defer func() {
				if recover() != nil {
					r = "panic"
				}
			}()
			return f()
		}
		r1 := one(func() string {
			t := T{seen: true, count: 7, note: "mine", tags: []string{"t"}}
			if err := control.Unmarshal(&t, strings.NewReader(arg(a, 0))); err != nil {
				return "err"
			}
			if !t.seen || t.count != 7 || t.note != "mine" || len(t.tags) != 1 {
				return "private-field-changed"
			}
			var buf bytes.Buffer
			if err := control.Marshal(&buf, &T{Package: "p", seen: true, count: 7, note: "mine", tags: []string{"t"}}); err != nil {
				return "marshal-err"
			}
			return "ok " + hx(t.Package) + " " + hx(buf.String())
		})
		r2 := one(func() string {
			var ts []T
			if err := control.Unmarshal(&ts, strings.NewReader(arg(a, 0))); err != nil {
				return "err"
			}
			names := []string{}
			for _, t := range ts {
				names = append(names, hx(t.Package))
			}
			return "ok " + showList(names)
		})
		return r1 + " | " + r2
	}
	// cdecodenil type text: nil in the place of the target - nil, a nil *T - through Unmarshal, Decoder.Decode and
	// UnpackFromParagraph: an error each time, never a panic; and a slice of pointers []*T as the target of a document
	ops["cdecodenil"] = func(a []string) string {
		z, ok := probe.Types[arg(a, 0)]
		if !ok {
			return "no-such-type"
		}
		nilPtr := reflect.Zero(reflect.PtrTo(reflect.TypeOf(z))).Interface()
		one := func(f func() error) (r string) {
			defer func() {
				if recover() != nil {
					r = "panic"
				}
			}()
			if f() != nil {
				return "err"
			}
			return "ok"
		}
		rd := func() io.Reader { return strings.NewReader(arg(a, 1)) }
		para := control.Paragraph{Values: map[string]string{"Package": "x"}, Order: []string{"Package"}}
		ptrs := reflect.New(reflect.SliceOf(reflect.PtrTo(reflect.TypeOf(z))))
		ints := []int{}
		res := []string{
			one(func() error { return control.Unmarshal(nilPtr, rd()) }),
			one(func() error { return control.Unmarshal(nil, rd()) }),
			one(func() error {
				d, err := control.NewDecoder(rd(), nil)
				if err != nil {
					return err
				}
				return d.Decode(nilPtr)
			}),
			one(func() error { return control.UnpackFromParagraph(para, nilPtr) }),
			one(func() error { return control.UnpackFromParagraph(para, nil) }),
			one(func() error { return control.Unmarshal(&ints, rd()) }),
		}
		// []*T: either refused or decoded like []T
		sl := one(func() error { return control.Unmarshal(ptrs.Interface(), rd()) })
		n := -1
		if sl == "ok" {
			n = ptrs.Elem().Len()
			for i := 0; i < n; i++ {
				if ptrs.Elem().Index(i).IsNil() {
					sl = "ok-with-nil-element"
				}
			}
		}
		return strings.Join(res, " ") + " | " + sl + " " + strconv.Itoa(n)
	}
	// cskipstruct: a struct-typed field tagged control:"-" whose own fields are named like fields of the document: the encoder
	// leaves it out, and the decoder leaves it alone ("skipped fields")
	ops["cskipstruct"] = func(a []string) string {
		type Loc struct{ Source, Path string }
		type T struct {
			Source string
			Where  Loc                `control:"-"`
			Stats  struct{ Size int } `control:"-"`
			Size   string
		}
		in := T{Source: arg(a, 0), Where: Loc{"disk", "/srv/incoming"}, Size: arg(a, 1)}
		in.Stats.Size = 3
		var buf bytes.Buffer
		if err := control.Marshal(&buf, &in); err != nil {
			return "marshal-err"
		}
		out := T{Where: in.Where}
		out.Stats.Size = 3
		if err := control.Unmarshal(&out, strings.NewReader(buf.String())); err != nil {
			return "ok " + hx(buf.String()) + " unmarshal-err"
		}
		return fmt.Sprintf("ok %s %s %s %s %s %d", hx(buf.String()), hx(out.Source), hx(out.Size), hx(out.Where.Source), hx(out.Where.Path), out.Stats.Size)
	}
	// what the struct holds right after buildStruct: lets the driver check its own argument conventions
	ops["cshow"] = func(a []string) string {
		v, ok := buildStruct(a)
		if !ok {
			return "no-such-type"
		}
		return "ok " + showRecord(v.Elem())
	}
	// tcontrol text [bufsize]: ParseControl takes a *bufio.Reader - the caller's, of whatever buffer size (bufio.NewReaderSize)
	ops["tcontrol"] = func(a []string) string {
		rd := bufio.NewReader(strings.NewReader(arg(a, 0)))
		if n, err := strconv.Atoi(arg(a, 1)); err == nil && n > 0 {
			rd = bufio.NewReaderSize(strings.NewReader(arg(a, 0)), n)
		}
		c, err := control.ParseControl(rd, "")
		if err != nil {
			if c != nil {
				return "err-with-value"
			}
			return "err"
		}
		items := []string{}
		for _, b := range c.Binaries {
			items = append(items, "<< "+showRecord(reflect.ValueOf(b))+" >>")
		}
		return "ok << " + showRecord(reflect.ValueOf(c.Source)) + " >> " + showList(items)
	}
	ops["tindex"] = func(a []string) string {
		rd := bufio.NewReader(strings.NewReader(arg(a, 1)))
		if n, err := strconv.Atoi(arg(a, 2)); err == nil && n > 0 {
			rd = bufio.NewReaderSize(strings.NewReader(arg(a, 1)), n)
		}
		items := []string{}
		switch arg(a, 0) {
		case "binary_index":
			xs, err := control.ParseBinaryIndex(rd)
			if err != nil {
				if len(xs) != 0 {
					return "err-with-value"
				}
				return "err"
			}
			for _, x := range xs {
				items = append(items, "<< "+showRecord(reflect.ValueOf(x))+" >>")
			}
		case "source_index":
			xs, err := control.ParseSourceIndex(rd)
			if err != nil {
				if len(xs) != 0 {
					return "err-with-value"
				}
				return "err"
			}
			for _, x := range xs {
				items = append(items, "<< "+showRecord(reflect.ValueOf(x))+" >>")
			}
		default:
			return "no-such-type"
		}
		return "ok " + showList(items)
	}
	// accessors derived from the fields
	// taccess kind text: the accessors derived from the parsed fields.  Accessors are observations: the whole set
	// is evaluated twice and the struct is shown before and after - "Pure=T" says that nothing changed (a second
	// AbsFiles() gives the same paths, Files still holds the listed names, ...).
	ops["taccess"] = func(a []string) string {
		text := arg(a, 1)
		rd := bufio.NewReader(strings.NewReader(text))
		var out []string
		add := func(name string, v interface{}) { out = append(out, name+"="+showValue(reflect.ValueOf(v))) }
		var snap func() string
		var calls func()
		switch arg(a, 0) {
		case "dsc":
			d, err := control.ParseDsc(rd, "/base/dir/x.dsc")
			if err != nil {
				return "err"
			}
			snap = func() string { return showRecord(reflect.ValueOf(*d)) }
			calls = func() {
				add("Maintainers", d.Maintainers())
				add("HasArchAll", d.HasArchAll())
				add("AbsFiles", d.AbsFiles())
				ds, derr := d.DebianSource()
				if derr != nil {
					ds = "<none>"
				}
				add("DebianSource", ds)
				add("Filename", d.Filename)
			}
		case "changes":
			c, err := control.ParseChanges(rd, "/base/dir/x.changes")
			if err != nil {
				return "err"
			}
			snap = func() string { return showRecord(reflect.ValueOf(*c)) }
			calls = func() {
				add("AbsFiles", c.AbsFiles())
				add("Filename", c.Filename)
			}
		case "control":
			c, err := control.ParseControl(rd, "/base/dir/control")
			if err != nil {
				return "err"
			}
			snap = func() string { return showRecord(reflect.ValueOf(c.Source)) }
			calls = func() { add("Maintainers", c.Source.Maintainers()) }
		case "binary_index":
			xs, err := control.ParseBinaryIndex(rd)
			if err != nil || len(xs) == 0 {
				return "err"
			}
			x := xs[0]
			snap = func() string { return showRecord(reflect.ValueOf(x)) }
			calls = func() {
				add("SourcePackage", x.SourcePackage())
				add("GetDepends", x.GetDepends())
				add("GetConflicts", x.GetConflicts())
				add("GetPreDepends", x.GetPreDepends())
				add("GetBreaks", x.GetBreaks())
				add("GetSuggests", x.GetSuggests())
				add("GetReplaces", x.GetReplaces())
				add("GetBuiltUsing", x.GetBuiltUsing())
			}
		case "source_index":
			xs, err := control.ParseSourceIndex(rd)
			if err != nil || len(xs) == 0 {
				return "err"
			}
			x := xs[0]
			snap = func() string { return showRecord(reflect.ValueOf(x)) }
			calls = func() {
				add("GetBuildDepends", x.GetBuildDepends())
				add("GetBuildDependsIndep", x.GetBuildDependsIndep())
				add("GetBuildDependsArch", x.GetBuildDependsArch())
			}
		case "best_checksums":
			var b control.BestChecksums
			if err := control.Unmarshal(&b, rd); err != nil {
				return "err"
			}
			snap = func() string { return showRecord(reflect.ValueOf(b)) }
			calls = func() {
				cs := []string{}
				for _, c := range b.Checksums() {
					cs = append(cs, showFileHash(c))
				}
				out = append(out, "Checksums="+showList(cs))
				bh := []string{}
				for _, c := range b.Checksums() {
					bh = append(bh, hx(c.ByHashPath("dists/sid/main/source/Sources")))
				}
				out = append(out, "ByHashPaths="+showList(bh))
			}
		case "deb_control":
			var c deb.Control
			if err := control.Unmarshal(&c, rd); err != nil {
				return "err"
			}
			snap = func() string { return showRecord(reflect.ValueOf(c)) }
			calls = func() { add("SourceName", c.SourceName()) }
		default:
			return "no-such-type"
		}
		before := snap()
		calls()
		first := out
		out = nil
		calls()
		pure := before == snap() && strings.Join(first, " ") == strings.Join(out, " ")
		res := "ok " + strings.Join(first, " ")
		if !pure {
			res += " Pure=F"
		}
		return res
	}
	// tdocfile kind text: the file-based parsers (ParseDscFile, ParseChangesFile, ParseControlFile) on a real file
	// against the reader-based ones given the same path
	// tondemand kind text: the on-demand dependency accessors of the first entry of a Packages / Sources index, in a
	// fixed order (these fields are not struct fields: the accessors parse the embedded paragraph's text on demand)
	ops["tondemand"] = func(a []string) string {
		rd := bufio.NewReader(strings.NewReader(arg(a, 1)))
		out := []string{}
		add := func(name string, d dependency.Dependency) { out = append(out, name+"="+showDep(&d)) }
		switch arg(a, 0) {
		case "binary_index":
			xs, err := control.ParseBinaryIndex(rd)
			if err != nil || len(xs) == 0 {
				return "err"
			}
			x := xs[0]
			add("Depends", x.GetDepends())
			add("Pre-Depends", x.GetPreDepends())
			add("Suggests", x.GetSuggests())
			add("Breaks", x.GetBreaks())
			add("Replaces", x.GetReplaces())
			add("Conflicts", x.GetConflicts())
			add("Built-Using", x.GetBuiltUsing())
		case "source_index":
			xs, err := control.ParseSourceIndex(rd)
			if err != nil || len(xs) == 0 {
				return "err"
			}
			x := xs[0]
			add("Build-Depends", x.GetBuildDepends())
			add("Build-Depends-Arch", x.GetBuildDependsArch())
			add("Build-Depends-Indep", x.GetBuildDependsIndep())
		default:
			return "no-such-type"
		}
		return "ok " + strings.Join(out, " ")
	}
	// tgetdsc changes-text dsc-name dsc-text: both files in one directory; Changes.GetDSC must find the first listed
	// *.dsc beside the .changes and return what ParseDscFile returns for it
	ops["tgetdsc"] = func(a []string) string {
		dir, err := ioutil.TempDir("/var/tmp", "verif-getdsc-")
		if err != nil {
			return "harness-error"
		}
		defer os.RemoveAll(dir)
		cp := dir + "/x_1.0_amd64.changes"
		ioutil.WriteFile(cp, []byte(arg(a, 0)), 0644)
		if arg(a, 1) != "" {
			ioutil.WriteFile(dir+"/"+arg(a, 1), []byte(arg(a, 2)), 0644)
		}
		c, err := control.ParseChangesFile(cp)
		if err != nil {
			return "changes-err"
		}
		d, err := c.GetDSC()
		if err != nil {
			if d != nil {
				return "err-with-value"
			}
			return "none"
		}
		want, err := control.ParseDscFile(dir + "/" + arg(a, 1))
		if err != nil {
			return "dsc-err"
		}
		if d.Filename != dir+"/"+arg(a, 1) {
			return "wrong-file " + hx(strings.TrimPrefix(d.Filename, dir))
		}
		if showRecord(reflect.ValueOf(*d)) != showRecord(reflect.ValueOf(*want)) {
			return "diff"
		}
		return "same " + hx(d.Source)
	}
	// tdocrel kind text1 text2: two directories, each with a file of the SAME relative name; the process changes into the
	// first and parses the relative name, then changes into the second and parses the relative name again (a tool walking
	// over source trees).  Each parse must see the file of the directory the process is in at that moment, and Filename /
	// AbsFiles must point there.
	ops["tdocrel"] = func(a []string) string {
		old, err := os.Getwd()
		if err != nil {
			return "harness-error"
		}
		defer os.Chdir(old)
		out := []string{}
		for _, text := range []string{arg(a, 1), arg(a, 2)} {
			dir, err := ioutil.TempDir("/var/tmp", "verif-rel-")
			if err != nil {
				return "harness-error"
			}
			defer os.RemoveAll(dir)
			real, _ := filepath.EvalSymlinks(dir)
			os.MkdirAll(dir+"/debian", 0755)
			var rel string
			switch arg(a, 0) {
			case "dsc":
				rel = "x_1.0-1.dsc"
			case "changes":
				rel = "x_1.0-1_amd64.changes"
			default:
				rel = "debian/control"
			}
			ioutil.WriteFile(dir+"/"+rel, []byte(text), 0644)
			if err := os.Chdir(dir); err != nil {
				return "harness-error"
			}
			rd := bufio.NewReader(strings.NewReader(text))
			show := func(v interface{}, err error) string {
				if err != nil {
					return "err"
				}
				return "ok " + showRecord(reflect.ValueOf(v).Elem())
			}
			var viaReader, viaFile, where string
			switch arg(a, 0) {
			case "dsc":
				x, e := control.ParseDsc(rd, real+"/"+rel)
				y, e2 := control.ParseDscFile(rel)
				viaReader, viaFile = show(x, e), show(y, e2)
				if e2 == nil {
					where = y.Filename
				}
			case "changes":
				x, e := control.ParseChanges(rd, real+"/"+rel)
				y, e2 := control.ParseChangesFile(rel)
				viaReader, viaFile = show(x, e), show(y, e2)
				if e2 == nil {
					where = y.Filename
				}
			default:
				x, e := control.ParseControl(rd, real+"/"+rel)
				y, e2 := control.ParseControlFile(rel)
				sc := func(c *control.Control, err error) string {
					if err != nil || c == nil {
						return "err"
					}
					return "ok " + showRecord(reflect.ValueOf(c.Source))
				}
				viaReader, viaFile = sc(x, e), sc(y, e2)
				if e2 == nil {
					where = y.Filename
				}
			}
			if viaReader != viaFile {
				out = append(out, "diff")
			} else if r, _ := filepath.EvalSymlinks(filepath.Dir(where)); where != "" && !strings.HasPrefix(r+"/", real+"/") {
				out = append(out, "elsewhere")
			} else {
				out = append(out, "same")
			}
		}
		return strings.Join(out, " ")
	}
	// tfieldnames kind: the Go names of ALL fields that lie inside the struct-typed fields of a typed document type, at any
	// depth, exported or not (version.Version has Epoch ..., a cache struct has whatever it has).  The generators use them
	// as names of UNKNOWN fields: a decoder that walks into such a field instead of looking up its key shows up at once.
	ops["tfieldnames"] = func(a []string) string {
		z, ok := probe.Types[arg(a, 0)]
		if !ok {
			return "no-such-type"
		}
		seen := map[string]bool{}
		var walk func(t reflect.Type, depth int, top bool)
		walk = func(t reflect.Type, depth int, top bool) {
			for t.Kind() == reflect.Ptr || t.Kind() == reflect.Slice {
				t = t.Elem()
			}
			if t.Kind() != reflect.Struct || depth > 4 {
				return
			}
			for i := 0; i < t.NumField(); i++ {
				f := t.Field(i)
				if !top {
					seen[f.Name] = true
				}
				if f.Anonymous && top {
					// the Go name of an embedded member ("Paragraph") is no key of the document either
					seen[f.Name] = true
					walk(f.Type, depth+1, f.Type.Name() != "Paragraph")
					continue
				}
				walk(f.Type, depth+1, false)
			}
		}
		walk(reflect.TypeOf(z), 0, true)
		names := []string{}
		for n := range seen {
			names = append(names, hx(n))
		}
		sort.Strings(names)
		return showList(names)
	}
	ops["tdocfile"] = func(a []string) string {
		text := arg(a, 1)
		f, err := ioutil.TempFile("/var/tmp", "verif-doc-*")
		if err != nil {
			return "harness-error"
		}
		name := f.Name()
		defer os.Remove(name)
		f.WriteString(text)
		f.Close()
		rd := bufio.NewReader(strings.NewReader(text))
		show := func(v interface{}, err error) string {
			if err != nil {
				return "err"
			}
			return "ok " + showRecord(reflect.ValueOf(v).Elem())
		}
		var r1, r2 string
		switch arg(a, 0) {
		case "dsc":
			x, e := control.ParseDsc(rd, name)
			r1 = show(x, e)
			y, e2 := control.ParseDscFile(name)
			r2 = show(y, e2)
		case "changes":
			x, e := control.ParseChanges(rd, name)
			r1 = show(x, e)
			y, e2 := control.ParseChangesFile(name)
			r2 = show(y, e2)
		case "control":
			x, e := control.ParseControl(rd, name)
			y, e2 := control.ParseControlFile(name)
			sc := func(c *control.Control, err error) string {
				if err != nil || c == nil {
					return "err"
				}
				items := []string{showRecord(reflect.ValueOf(c.Source))}
				for _, b := range c.Binaries {
					items = append(items, showRecord(reflect.ValueOf(b)))
				}
				return "ok " + strings.Join(items, " ## ")
			}
			r1, r2 = sc(x, e), sc(y, e2)
		default:
			return "no-such-type"
		}
		if r1 != r2 {
			return "diff reader " + r1 + " file " + r2
		}
		return "same"
	}
	// typed documents through their own parsers
	ops["tdoc"] = func(a []string) string {
		text := arg(a, 1)
		rd := bufio.NewReader(strings.NewReader(text))
		switch arg(a, 0) {
		case "dsc":
			d, err := control.ParseDsc(rd, "")
			if err != nil {
				if d != nil {
					return "err-with-value"
				}
				return "err"
			}
			return "ok " + showRecord(reflect.ValueOf(*d))
		case "changes":
			c, err := control.ParseChanges(rd, "")
			if err != nil {
				if c != nil {
					return "err-with-value"
				}
				return "err"
			}
			return "ok " + showRecord(reflect.ValueOf(*c))
		case "deb_control":
			var c deb.Control
			if err := control.Unmarshal(&c, rd); err != nil {
				return "err"
			}
			return "ok " + showRecord(reflect.ValueOf(c))
		}
		return "no-such-type"
	}
}
