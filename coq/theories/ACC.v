(* C10: accessors derived from parsed fields *)
From Coq Require Import List Ascii String Bool Arith Lia.
Require Import GS.
Import ListNotations.

(* DSC.Maintainers / SourceParagraph.Maintainers *)
Definition maintainers (m : str) (uploaders : list str) : list str := m :: uploaders.
Theorem C10_maintainers m ups : hd [] (maintainers m ups) = m /\ tl (maintainers m ups) = ups /\
  List.length (maintainers m ups) = S (List.length ups).
Proof. repeat split. Qed.

(* DSC.HasArchAll over (abi, os, cpu) triples *)
Definition triple : Type := (str * str * str)%type.
Definition all_s : str := s "all".
Definition is_all (a : triple) : bool := let '(abi, os, cpu) := a in str_eqb cpu all_s && str_eqb os all_s && str_eqb abi all_s.
Definition has_arch_all (l : list triple) : bool := existsb is_all l.
Theorem C10_has_arch_all l : has_arch_all l = true <-> In (all_s, all_s, all_s) l.
Proof.
  unfold has_arch_all. rewrite existsb_exists. split.
  - intros ([[a o] c]&Hin&E). unfold is_all in E.
    destruct (str_eqb_spec c all_s) as [->|]; [|discriminate]. destruct (str_eqb_spec o all_s) as [->|]; [|discriminate].
    destruct (str_eqb_spec a all_s) as [->|]; [|discriminate]. exact Hin.
  - intros H. exists (all_s, all_s, all_s). split; [exact H|]. unfold is_all.
    destruct (str_eqb_spec all_s all_s); [reflexivity|congruence].
Qed.

(* BinaryIndex.SourcePackage: "" -> Package; otherwise the text before the first space *)
Definition source_package (source package : str) : str :=
  if str_eqb source [] then package
  else if negb (existsb (fun c => ceq c sp) source) then source
  else hd [] (split sp source).
Lemma free_no_space x : free sp x -> existsb (fun c => ceq c sp) x = false.
Proof.
  induction 1 as [|c x Hc _ IH]; [reflexivity|]. cbn [existsb]. destruct (ceq_spec c sp); [contradiction|exact IH].
Qed.
Theorem C10_source_package_empty package : source_package [] package = package.
Proof. reflexivity. Qed.
Theorem C10_source_package_plain name package : name <> [] -> free sp name -> source_package name package = name.
Proof.
  intros Hne F. unfold source_package. destruct (str_eqb_spec name []); [contradiction|]. now rewrite (free_no_space name F).
Qed.
Theorem C10_source_package_versioned name rest package : name <> [] -> free sp name ->
  source_package (name ++ sp :: rest) package = name.
Proof.
  intros Hne F. unfold source_package. destruct (str_eqb_spec (name ++ sp :: rest) []) as [E|_]; [destruct name; discriminate|].
  assert (Ex : existsb (fun c => ceq c sp) (name ++ sp :: rest) = true).
  { rewrite existsb_app. cbn [existsb]. destruct (ceq_spec sp sp); [|congruence]. now rewrite orb_true_r. }
  rewrite Ex. cbn [negb]. now rewrite (split_cons sp name rest F).
Qed.

(* AbsFiles: every listed name joined to the directory of the control file; order and the other columns kept *)
Section Abs.
  Variable path_join : str -> str -> str.          (* ORACLE: path.Join *)
  Definition entry : Type := (str * str)%type.     (* file name, the remaining columns *)
  Definition abs_files (base : str) (files : list entry) : list entry :=
    map (fun e => (path_join base (fst e), snd e)) files.
  Theorem C10_abs_files base files :
    List.length (abs_files base files) = List.length files /\
    map snd (abs_files base files) = map snd files /\
    map fst (abs_files base files) = map (fun e => path_join base (fst e)) files.
  Proof. unfold abs_files. rewrite map_length, !map_map. repeat split. Qed.
End Abs.
Print Assumptions C10_source_package_versioned.
Print Assumptions C10_has_arch_all.
