"""C08 - writing paragraphs and reading them back preserves their content."""
import itertools
import lib
import gen
import debgen
from props.C07 import parse_paras, EDIT

LINES = [b"", b"a", b" b", b"x  y", b"\tz", b"c:d"]


def logical(v):
    if v.endswith(b"\n"):
        v = v[:-1]
    return v.split(b"\n")


def lstrip_empty(ls):
    i = 0
    while i < len(ls) - 1 and ls[i] == b"":
        i += 1
    return ls[i:]


def relation(want, got):
    """'same' | 'known' (only leading empty logical lines of a multi-line value were dropped) | 'diff'"""
    a, b = logical(want), logical(got)
    if a == b:
        return "same"
    if len(a) > 1 and a[0] == b"" and lstrip_empty(a) == lstrip_empty(b):
        return "known"
    return "diff"


def vals_of(res):
    """[(keys, values)] as bytes"""
    out = []
    for keys, vals, n in parse_paras(res):
        out.append(([bytes.fromhex(k[1:]) for k in keys], [bytes.fromhex(v[1:]) for v in vals]))
    return out


def blank_lines_ok(text, nparas):
    """no empty or whitespace-only line inside a paragraph: the only empty lines are the separators"""
    lines = text.split(b"\n")
    if lines and lines[-1] == b"":
        lines.pop()
    empties = 0
    for l in lines:
        if l == b"":
            empties += 1
        elif l.strip(b" \t\r\x0b\x0c") == b"":
            return False
    return empties == max(0, nparas - 1)


def run(chk):
    rng = chk.rng
    # 1. values drawn from line sequences (exhaustive up to 4 lines over 6 line shapes), trailing newline or not
    cases, meta = [], []
    seqs = []
    for n in range(1, 5):
        seqs += list(itertools.product(LINES, repeat=n))
    for seq in seqs:
        for tail in (b"", b"\n"):
            v = b"\n".join(seq) + tail
            cases.append(("wpara", [b"Key", v, b"Other", b"x"])); meta.append(v)
    for _ in range(chk.n(1500, 30000)):
        args = []
        vs = []
        for k in rng.sample(debgen.KEYS[:10], rng.randrange(1, 4)):
            seq = [debgen.rand_line(rng, indent=True) for _ in range(rng.randrange(1, 5))]
            seq = [b".." if x == b"." else x for x in seq]
            v = b"\n".join(seq) + rng.choice([b"", b"\n"])
            args += [k, v]; vs.append(v)
        cases.append(("wpara", args)); meta.append(None)
    wi, wm = chk.run_both(cases)
    chk.compare("write", cases, wi, wm, nontrivial=lambda c, r: True)
    chk.extra["exhaustive_line_sequences"] = {"line_shapes": [l.decode() for l in LINES], "max_lines": 4, "values": 2 * len(seqs)}
    texts = [bytes.fromhex(r[1:]) if r.startswith("x") else b"" for r in wi]
    rc = [("rall", [t]) for t in texts]
    ri = chk.run_impl(rc)
    chk.record("read-back", rc, ri)
    for c, t, r in zip(cases, texts, ri):
        keys = c[1][0::2]; vals = c[1][1::2]
        got = vals_of(r)
        ok = r.startswith("ok") and len(got) == 1 and got[0][0] == keys and \
            all(logical(a) == logical(b) for a, b in zip(got[0][1], vals)) and len(got[0][1]) == len(vals)
        viol = None
        if not ok:
            viol = {"kind": "property", "case": lib.show_case(c), "written": t.decode("latin1"), "read_back": r[:1500],
                    "explanation": "the written form does not read back with the same fields and logical lines"}
            if r.startswith("ok") and len(got) == 1 and got[0][0] == keys and len(got[0][1]) == len(vals) and \
                    all(relation(b, a) != "diff" for a, b in zip(got[0][1], vals)) and blank_lines_ok(t, 1):
                viol["class"] = "empty-first-line"
        elif not blank_lines_ok(t, 1):
            viol = {"kind": "property", "case": lib.show_case(c), "written": t.decode("latin1"),
                    "explanation": "the written paragraph contains an empty or whitespace-only line"}
        if viol:
            chk.violate(viol)
    # 2. read-write-read on whatever the reader accepts, several cycles, through the encoder
    docs = []
    for _ in range(chk.n(2500, 50000)):
        t = debgen.render(debgen.rand_doc(rng), rng, free=True)
        docs.append(t)
        docs.append(gen.mutate(rng, t, EDIT))
    docs += [b"K:\n .\n a\n", b"K: a\n b\n", b"K: a\n\n\nL: b\n", b"K:\n a\n", b"K: a\n .\n .\n b\n", b"K:\n  a\n", b"K: \n"]
    docs += [b"K: a\n \xc2\xa0\n b\n", b"K:\xc2\xa0x\n", b"K: a\n\xc2\xa0b: c\n"]
    r0 = chk.run_impl([("rall", [t]) for t in docs])
    acc = [(t, r) for t, r in zip(docs, r0) if r.startswith("ok")]
    cc = [("wcycle", [t]) for t, _ in acc]
    ci, cm = chk.run_both(cc)
    chk.compare("read-write-read-cycles", cc, ci, cm)
    for (t, r), c, res in zip(acc, cc, ci):
        p0 = vals_of(r)
        parts = res.split(" ", 3)
        viol = None
        if len(parts) < 4 or parts[0] != "ok" or not parts[3].startswith("["):
            viol = "a document accepted by the reader is not accepted again after being written"
        else:
            t1, t2 = bytes.fromhex(parts[1][1:]), bytes.fromhex(parts[2][1:])
            p2 = vals_of(parts[3])
            if len(p2) != len(p0):
                viol = "the number of paragraphs changes in a write/read cycle"
            elif any(a[0] != b[0] for a, b in zip(p0, p2)):
                viol = "field names or their order change in a write/read cycle"
            elif any(logical(x) != logical(y) for a, b in zip(p0, p2) for x, y in zip(a[1], b[1])):
                viol = "logical lines of a value change in a write/read cycle"
            elif t1 != t2:
                viol = "the written document keeps changing over repeated cycles"
            elif not blank_lines_ok(t1, len(p0)):
                viol = "the written document has an empty or whitespace-only line inside a paragraph"
        if viol:
            v = {"kind": "property", "case": lib.show_case(c), "read": r[:1500], "cycles": res[:2000], "explanation": viol}
            if viol == "logical lines of a value change in a write/read cycle" and \
                    all(relation(x, y) != "diff" for a, b in zip(p0, p2) for x, y in zip(a[1], b[1])):
                v["class"] = "empty-first-line"
            chk.violate(v)
    # 3. paragraphs written one after another through ONE encoder, handed over in every grouping (slices, structs,
    #    pointers, slice first / struct first): the same number of paragraphs, with the same fields, reads back
    multi = [(t, r) for t, r in acc if len(vals_of(r)) >= 2]
    gc = []
    pats = [b"", b"2", b"2s", b"s2", b"12", b"21", b"3", b"1s", b"p2", b"2p", b"q", b"qs", b"sq", b"22", b"13", b"31", b"1111", b"9"]
    for t, r in multi[:chk.n(600, 12000)]:
        for pat in rng.sample(pats, 4) + [bytes(rng.choice(b"123spq") for _ in range(rng.randrange(1, 5)))]:
            gc.append(("wgroups", [t, pat]))
    gi, gm = chk.run_both(gc)
    chk.compare("encoder-groupings", gc, gi, gm)
    by_doc = dict(acc)
    for c, res in zip(gc, gi):
        p0 = vals_of(by_doc[c[1][0]])
        parts = res.split(" ", 2)
        viol = None
        if len(parts) < 3 or parts[0] != "ok" or not parts[2].startswith("["):
            viol = "paragraphs written through one encoder do not read back"
        else:
            p2 = vals_of(parts[2])
            if len(p2) != len(p0):
                viol = "paragraphs written one after another through the encoder read back as a different number of paragraphs (%d written, %d read)" % (len(p0), len(p2))
            elif any(a[0] != b[0] for a, b in zip(p0, p2)):
                viol = "field names or their order change when written through the encoder"
        if viol:
            chk.violate({"kind": "property", "case": lib.show_case(c), "impl": res[:2000], "explanation": viol})
    # one VALUE encoded several times in a row through one encoder (a struct embedding the paragraph, with fields of its
    # own set by hand): encoding does not wear the value out
    rc = [("wrepeat", [t, str(k).encode()]) for t, r in multi[:chk.n(300, 6000)] for k in (2, 3)]
    ri = chk.run_impl(rc)
    chk.record("same-value-encoded-repeatedly", rc, ri, lambda c, r: r.startswith("same"))
    for c, res in zip(rc, ri):
        n = len(vals_of(by_doc[c[1][0]]))
        if res != "same %d" % (n * int(c[1][1])):
            chk.violate({"kind": "property", "case": lib.show_case(c), "impl": res[:1500], "expected": "same %d" % (n * int(c[1][1])),
                         "explanation": "a value encoded several times in a row through one encoder is not written the same every time, or does not read back as that many paragraphs"})
    # the error path of the encoder: Encode(slice) in which a later element refuses to marshal, then one more Encode through
    # the same encoder - what was written reads back as separate paragraphs, never two values glued into one
    fc = [("wfail", [t, str(k).encode()]) for t, r in multi[:chk.n(300, 6000)] if len(vals_of(by_doc[t])) >= 2 for k in (1, 2)]
    fi = chk.run_impl(fc)
    chk.record("encoder-after-a-failed-slice", fc, fi, lambda c, r: r == "separate")
    for c, res in zip(fc, fi):
        if res != "separate":
            chk.violate({"kind": "property", "case": lib.show_case(c), "impl": res[:1500],
                         "explanation": "after Encode(slice) failed at a later element, the next value written through the same encoder is glued onto an earlier paragraph (or the output does not read back)"})
    chk.assumptions += ["values are sequences of text lines: no line is '.' alone or whitespace-only (deb822 cannot represent them)",
                        "a value whose first logical line is empty while more lines follow is excluded: known finding empty-first-line",
                        "the executed writer/reader model handles Unicode whitespace exactly as Go does (R2u)"]


def replay(chk, d):
    c = lib.case_from_replay(d)
    i, m = chk.run_both([c])
    print("impl:", i[0][:500], "model:", m[0][:500])
    return 1 if i[0] != m[0] else 0
