(* C12: the hashing writers behind a target that accepts only PART of a Write (hashio.hashingWriter since repair bcd84a3:
   the target is written first, every hasher is fed exactly the bytes the target accepted).  For ANY history of writes and
   ANY amounts the target accepts, every hasher holds exactly what the target holds - its length and its digests are those
   of the bytes that went through, whether the caller gives up after a short write or carries on with the rest.
   The two io.MultiWriter arrangements that stood there before are refuted by the same invariant. *)
From Coq Require Import List Ascii String Bool Arith ZArith Lia.
Require Import GS H12.
Import ListNotations.

Section Short.
  Variable H : alg -> str -> str.

  (* one Write(p) of which the target accepts the first n bytes (n > len p counts as all of p) *)
  Definition short_write (st : wstate) (pn : str * nat) : wstate := multi_write st (firstn (snd pn) (fst pn)).

  Definition inv (st : wstate) : Prop :=
    Forall (fun h => h_buf h = w_target st /\ h_size h = Z.of_nat (List.length (w_target st))) (w_hashers st).

  Lemma inv_write st p : inv st -> inv (multi_write st p).
  Proof.
    unfold inv, multi_write. cbn [w_hashers w_target]. intros I. rewrite Forall_forall in *. intros h Hin.
    apply in_map_iff in Hin as (h0&<-&Hin0). destruct (I h0 Hin0) as [B S]. unfold hasher_write. cbn [h_buf h_size].
    split; [now rewrite B|]. rewrite S, app_length. lia.
  Qed.

  Lemma inv_init names hs : new_hashers names = Some hs -> inv {| w_hashers := hs; w_target := [] |}.
  Proof.
    intros E. pose proof (new_hashers_spec names hs E) as F. unfold inv. cbn [w_hashers w_target].
    clear E. induction F as [|n h ns hs' (a&_&->) _ IH]; constructor; [split; reflexivity|exact IH].
  Qed.

  Theorem short_writes_keep_hashers_and_target_equal names hs ws : new_hashers names = Some hs ->
    let st := fold_left short_write ws {| w_hashers := hs; w_target := [] |} in
    w_target st = List.concat (map (fun pn => firstn (snd pn) (fst pn)) ws) /\
    Forall (fun h => hasher_sum H h = H (h_alg h) (w_target st) /\ h_size h = Z.of_nat (List.length (w_target st))) (w_hashers st).
  Proof.
    intros E st.
    assert (G : forall ws st0, inv st0 -> inv (fold_left short_write ws st0) /\
              w_target (fold_left short_write ws st0) = w_target st0 ++ List.concat (map (fun pn => firstn (snd pn) (fst pn)) ws)).
    { induction ws0 as [|pn ws0 IH]; intros st0 I; cbn [fold_left map List.concat].
      - split; [exact I|now rewrite app_nil_r].
      - destruct (IH (short_write st0 pn) (inv_write st0 _ I)) as [A B]. split; [exact A|].
        rewrite B. unfold short_write, multi_write. cbn [w_target]. now rewrite <- app_assoc. }
    destruct (G ws _ (inv_init names hs E)) as [I T]. cbn [w_target app] in T. split; [exact T|].
    fold st in I. unfold inv in I. rewrite Forall_forall in *. intros h Hin. destruct (I h Hin) as [B S].
    split; [unfold hasher_sum; now rewrite B|exact S].
  Qed.
End Short.
Print Assumptions short_writes_keep_hashers_and_target_equal.

(* what stood there before: io.MultiWriter(target, hasher) skips the hasher on a short write, io.MultiWriter(hashers..., target)
   feeds the hashers the whole slice - either way hasher and target part company *)
Definition target_first_old (st : wstate) (pn : str * nat) : wstate :=
  let acc := firstn (snd pn) (fst pn) in
  if (snd pn <? List.length (fst pn))%nat then {| w_hashers := w_hashers st; w_target := w_target st ++ acc |} else multi_write st acc.
Definition hashers_first_old (st : wstate) (pn : str * nat) : wstate :=
  {| w_hashers := map (fun h => hasher_write h (fst pn)) (w_hashers st); w_target := w_target st ++ firstn (snd pn) (fst pn) |}.
Example old_arrangements_refuted :
  let h0 := {| h_name := s "md5"; h_alg := MD5; h_buf := []; h_size := 0 |} in
  let st0 := {| w_hashers := [h0]; w_target := [] |} in
  ~ inv (target_first_old st0 (s "0123456789", 4%nat)) /\ ~ inv (hashers_first_old st0 (s "0123456789", 4%nat)).
Proof. split; intros I; inversion I as [|? ? [B _] _]; discriminate B. Qed.
