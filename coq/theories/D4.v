(* C05 (dependencies), part B: for a well-formed value d, parse (dep_string d) = Ok d.  Model: D3 (repaired parser). *)
From Coq Require Import List Ascii String ZArith NArith Lia Bool Arith.
Require Import D3.
Import ListNotations.

(* ---------- eventually-enough-fuel ---------- *)
Definition evOk {A} (F : nat -> outcome A) (x : A) : Prop := exists f0, forall f, (f0 <= f)%nat -> F f = Ok x.
Lemma evOk_const {A} (x : A) : evOk (fun _ => Ok x) x.
Proof. exists 0%nat. auto. Qed.

(* ---------- characters ---------- *)
Definition all_ascii : list ascii := map ascii_of_nat (List.seq 0 256).
Lemma all_ascii_in c : In c all_ascii.
Proof.
  unfold all_ascii. apply in_map_iff. exists (nat_of_ascii c). split; [apply ascii_nat_embedding|].
  apply in_seq. pose proof (nat_ascii_bounded c). lia.
Qed.
Lemma by_enum (P : ascii -> bool) : forallb P all_ascii = true -> forall c, P c = true.
Proof. intros H c. rewrite forallb_forall in H. apply H, all_ascii_in. Qed.

Definition stop3 (c : ascii) : bool := eqc c 44 || eqc c 124 || eqc c 0.
Definition namec (c : ascii) : bool := negb (eqc c 58 || is_ws c || eqc c 40 || stop3 c || eqc c 91 || eqc c 60).
Definition mac (c : ascii) : bool := negb (multiarch_stop c).
Definition numc (c : ascii) : bool := negb (bad_in_number c || eqc c 41).
Definition archc (c : ascii) : bool := negb (bad_in_arch c || eqc c 33 || eqc c 93 || is_ws c).
Definition stagec (c : ascii) : bool := negb (bad_in_stage c || eqc c 33 || eqc c 62 || is_ws c).
Definition subc (c : ascii) : bool := negb (bad_in_substvar c || eqc c 125).
Lemma bad_number_0 c : bad_in_number c = false -> eqc c 0 = false.
Proof. unfold bad_in_number. intros H. now repeat (apply orb_false_iff in H as [H _]). Qed.
Lemma bad_arch_0 c : bad_in_arch c = false -> eqc c 0 = false.
Proof. unfold bad_in_arch. intros H. now repeat (apply orb_false_iff in H as [H _]). Qed.
Lemma bad_stage_0 c : bad_in_stage c = false -> eqc c 0 = false.
Proof. unfold bad_in_stage. intros H. now repeat (apply orb_false_iff in H as [H _]). Qed.
Lemma bad_substvar_0 c : bad_in_substvar c = false -> eqc c 0 = false.
Proof. unfold bad_in_substvar. intros H. now repeat (apply orb_false_iff in H as [H _]). Qed.

Lemma enc_one c : enc c = [c]. Proof. reflexivity. Qed.

(* ---------- eat_ws ---------- *)
Definition headok (i : str) : Prop := is_ws (peek i) = false.
Lemma eat_ws_id i : headok i -> eat_ws i = i.
Proof. unfold headok. destruct i as [|c r]; cbn; [reflexivity|]. now intros ->. Qed.
Lemma is_ws_zero : is_ws zero = false. Proof. reflexivity. Qed.
Lemma eat_ws_sp i : eat_ws (ch 32 :: i) = eat_ws i. Proof. reflexivity. Qed.

(* ---------- word loops ---------- *)
Lemma substvar_word : forall w name rest, forallb subc w = true ->
  eqc (peek (eat_ws rest)) 44 || eqc (peek (eat_ws rest)) 124 || eqc (peek (eat_ws rest)) 0 = true ->
  substvar_loop name (w ++ ch 125 :: rest) =
  Ok ({| p_name := name ++ w; p_arch := None; p_archs := None; p_stages := []; p_ver := None; p_subst := true |}, eat_ws rest).
Proof.
  induction w as [|c w IH]; intros name rest H St.
  - cbn [app substvar_loop]. change (bad_in_substvar (ch 125)) with false. change (eqc (ch 125) 125) with true. cbv iota. cbv zeta.
    rewrite St. now rewrite app_nil_r.
  - cbn [forallb] in H. apply andb_true_iff in H as [Hc Hw]. unfold subc in Hc. apply negb_true_iff in Hc.
    apply orb_false_iff in Hc as [C1 C2]. cbn [app substvar_loop]. rewrite C1, C2, enc_one, IH by assumption.
    now rewrite <- app_assoc.
Qed.

Lemma arch_named_ok n i : arch_ok n = true -> arch_named n i = Ok (parse_arch n, i).
Proof. unfold arch_named. now intros ->. Qed.
Lemma multiarch_word : forall w name rest, forallb mac w = true -> multiarch_stop (peek rest) = true ->
  multiarch_loop name (w ++ rest) = arch_named (name ++ w) rest.
Proof.
  induction w as [|c w IH]; intros name rest H Hs.
  - cbn [app]. rewrite app_nil_r. destruct rest as [|c r]; [reflexivity|]. cbn in Hs. cbn. now rewrite Hs.
  - cbn [forallb] in H. apply andb_true_iff in H as [Hc Hw]. unfold mac in Hc. apply negb_true_iff in Hc.
    cbn [app multiarch_loop]. rewrite Hc, enc_one, IH by assumption. now rewrite <- app_assoc.
Qed.

Lemma number_word : forall w num rest, forallb numc w = true ->
  number_loop num (w ++ ch 41 :: rest) = Ok (rev (eat_ws (rev (num ++ w))), ch 41 :: rest).
Proof.
  induction w as [|c w IH]; intros num rest H.
  - cbn. now rewrite app_nil_r.
  - cbn [forallb] in H. apply andb_true_iff in H as [Hc Hw]. unfold numc in Hc. apply negb_true_iff in Hc.
    apply orb_false_iff in Hc as [C1 C2]. cbn [app number_loop]. rewrite C1, C2, enc_one, IH by exact Hw.
    now rewrite <- app_assoc.
Qed.

Lemma arch_name_word : forall w name rest, forallb archc w = true ->
  (eqc (peek rest) 93 || is_ws (peek rest) = true) -> rest <> [] ->
  arch_name_loop name (w ++ rest) = arch_named (name ++ w) rest.
Proof.
  induction w as [|c w IH]; intros name rest H Hs Hne.
  - cbn [app]. rewrite app_nil_r. destruct rest as [|c r]; [congruence|]. cbn in Hs. cbn [arch_name_loop].
    apply orb_true_iff in Hs as [Hs|Hs].
    + pose proof (by_enum (fun c => negb (eqc c 93) || (negb (bad_in_arch c) && negb (eqc c 33))) eq_refl c) as F. cbv beta in F.
      rewrite Hs in F. cbn [negb orb] in F. apply andb_true_iff in F as [F1 F2]. apply negb_true_iff in F1, F2.
      now rewrite F1, F2, Hs.
    + pose proof (by_enum (fun c => negb (is_ws c) || (negb (bad_in_arch c) && negb (eqc c 33))) eq_refl c) as F. cbv beta in F.
      rewrite Hs in F. cbn in F. apply andb_true_iff in F as [F1 F2]. apply negb_true_iff in F1, F2.
      rewrite F1, F2, Hs. now rewrite orb_true_r.
  - cbn [forallb] in H. apply andb_true_iff in H as [Hc Hw]. unfold archc in Hc. apply negb_true_iff in Hc.
    apply orb_false_iff in Hc as [Hc C4]. apply orb_false_iff in Hc as [Hc C3]. apply orb_false_iff in Hc as [C1 C2].
    cbn [app arch_name_loop]. rewrite C1, C2, C3, C4. cbn [orb]. rewrite enc_one, IH by assumption. now rewrite <- app_assoc.
Qed.

Lemma stage_word : forall w st rest, forallb stagec w = true ->
  (eqc (peek rest) 62 || is_ws (peek rest) = true) -> rest <> [] ->
  stage_loop st (w ++ rest) = Ok ({| s_not := s_not st; s_name := s_name st ++ w |}, rest).
Proof.
  induction w as [|c w IH]; intros st rest H Hs Hne.
  - cbn [app]. rewrite app_nil_r. destruct rest as [|c r]; [congruence|]. cbn in Hs. cbn [stage_loop].
    pose proof (by_enum (fun c => negb (eqc c 62 || is_ws c) || (negb (bad_in_stage c) && negb (eqc c 33))) eq_refl c) as F. cbv beta in F.
    rewrite Hs in F. cbn in F. apply andb_true_iff in F as [F1 F2]. apply negb_true_iff in F1, F2.
    rewrite F1, F2, Hs. destruct st; reflexivity.
  - cbn [forallb] in H. apply andb_true_iff in H as [Hc Hw]. unfold stagec in Hc. apply negb_true_iff in Hc.
    apply orb_false_iff in Hc as [Hc C4]. apply orb_false_iff in Hc as [Hc C3]. apply orb_false_iff in Hc as [C1 C2].
    cbn [app stage_loop]. rewrite C1, C2, C3, C4. cbn [orb]. rewrite enc_one, IH by assumption. cbn [s_not s_name]. now rewrite <- app_assoc.
Qed.

(* ---------- version clause ---------- *)
Definition ops : list str := [s "="; s ">="; s "<="; s "<<"; s ">>"].
Record wf_ver (v : vrel) : Prop := {
  wv_op : In (v_op v) ops;
  wv_num : forallb numc (v_num v) = true;
  wv_lead : headok (v_num v ++ [ch 41]);
  wv_trail : rev (eat_ws (rev (v_num v))) = v_num v }.

(* what follows an operator does not turn "=" into "==", "=<" or "=>" *)
Definition opnext (rest : str) : bool := negb (eqc (peek rest) 61 || eqc (peek rest) 60 || eqc (peek rest) 62).
Lemma parse_operator_op o rest : In o ops -> opnext rest = true -> parse_operator (o ++ rest) = Ok (o, rest).
Proof.
  intros H N. unfold opnext in N. apply negb_true_iff in N.
  destruct H as [<-|[<-|[<-|[<-|[<-|[]]]]]].
  - unfold parse_operator. cbn [s list_ascii_of_string app eat_ws]. change (is_ws "="%char) with false. cbv iota.
    cbn [peek adv tl]. change (eqc "="%char 61) with true. cbv iota. now rewrite N.
  - unfold parse_operator. cbn [s list_ascii_of_string app eat_ws]. change (is_ws ">"%char) with false. cbv iota.
    cbn [peek adv tl]. change (eqc ">"%char 61) with false. cbv iota. cbn -[eqc peek]. now rewrite N.
  - unfold parse_operator. cbn [s list_ascii_of_string app eat_ws]. change (is_ws "<"%char) with false. cbv iota.
    cbn [peek adv tl]. change (eqc "<"%char 61) with false. cbv iota. cbn -[eqc peek]. now rewrite N.
  - unfold parse_operator. cbn [s list_ascii_of_string app eat_ws]. change (is_ws "<"%char) with false. cbv iota.
    cbn [peek adv tl]. change (eqc "<"%char 61) with false. cbv iota. cbn -[eqc peek]. now rewrite N.
  - unfold parse_operator. cbn [s list_ascii_of_string app eat_ws]. change (is_ws ">"%char) with false. cbv iota.
    cbn [peek adv tl]. change (eqc ">"%char 61) with false. cbv iota. cbn -[eqc peek]. now rewrite N.
Qed.
Lemma op_headok o rest : In o ops -> headok (o ++ rest).
Proof. intros [<-|[<-|[<-|[<-|[<-|[]]]]]]; reflexivity. Qed.

Lemma headok_app x y : x <> [] -> headok (x ++ y) <-> headok x.
Proof. destruct x; [congruence|]. intros _. reflexivity. Qed.

Definition ver_text (v : vrel) : str := ch 40 :: v_op v ++ ch 32 :: v_num v ++ [ch 41].
Lemma parse_version_render v rest : wf_ver v -> parse_version (ver_text v ++ rest) = Ok (v, rest).
Proof.
  intros [Hop Hnum Hlead Htrail]. unfold ver_text, parse_version.
  cbn [app eat_ws]. change (is_ws (ch 40)) with false. cbv iota. cbn [adv tl].
  rewrite <- !app_assoc. cbn [app]. match goal with |- context [parse_operator (v_op v ++ ?r)] => rewrite (parse_operator_op (v_op v) r Hop eq_refl) end. cbv iota beta.
  rewrite eat_ws_sp.
  assert (HL : headok (v_num v ++ ch 41 :: rest)).
  { unfold headok in *. destruct (v_num v); cbn in *; exact Hlead. }
  rewrite <- app_assoc. cbn [app]. rewrite (eat_ws_id _ HL). rewrite (number_word (v_num v) [] rest Hnum). cbn [app]. rewrite Htrail.
  destruct v; reflexivity.
Qed.

(* ---------- architecture list ---------- *)
Definition arch_tok (nt : bool) (e : arch) : str := (if nt then [ch 33] else []) ++ arch_string e.
Record wf_archent (nt : bool) (e : arch) : Prop := {
  wa_chars : forallb archc (arch_string e) = true;
  wa_ne : nt = false -> arch_string e <> [];
  wa_rt : parse_arch (arch_string e) = e;
  wa_ok : arch_ok (arch_string e) = true }.

Lemma tok_headok nt e rest : wf_archent nt e -> headok (arch_tok nt e ++ rest).
Proof.
  intros [Hc Hne _]. unfold arch_tok, headok. destruct nt; [reflexivity|]. cbn [app].
  destruct (arch_string e) as [|c r]; [now specialize (Hne eq_refl)|]. cbn in *.
  apply andb_true_iff in Hc as [Hc _]. unfold archc in Hc. apply negb_true_iff in Hc.
  apply orb_false_iff in Hc as [_ Hc]. exact Hc.
Qed.

Lemma parse_one_arch_render nt acc e rest :
  wf_archent nt e -> (acc = [] \/ True) ->
  (eqc (peek rest) 93 || is_ws (peek rest) = true) -> rest <> [] ->
  parse_one_arch {| a_not := (match acc with [] => false | _ => nt end); a_list := acc |} (arch_tok nt e ++ rest)
  = Ok ({| a_not := nt; a_list := acc ++ [e] |}, rest).
Proof.
  intros W _ Hs Hne. pose proof (tok_headok nt e rest W) as HO. destruct W as [Hc Hn Hrt Hok].
  unfold parse_one_arch. rewrite (eat_ws_id _ HO). unfold arch_tok in *. cbn [a_list a_not].
  assert (HN : eqc (peek ((if nt then [ch 33] else []) ++ arch_string e ++ rest)) 33 = nt).
  { destruct nt; [reflexivity|]. cbn [app]. destruct (arch_string e) as [|c r]; [now specialize (Hn eq_refl)|].
    cbn in *. apply andb_true_iff in Hc as [Hc _]. unfold archc in Hc. apply negb_true_iff in Hc.
    apply orb_false_iff in Hc as [Hc _]. apply orb_false_iff in Hc as [Hc _]. apply orb_false_iff in Hc as [_ Hc]. exact Hc. }
  rewrite <- app_assoc. rewrite HN.
  assert (Hadv : (if nt then adv ((if nt then [ch 33] else []) ++ arch_string e ++ rest) else (if nt then [ch 33] else []) ++ arch_string e ++ rest) = arch_string e ++ rest)
    by (destruct nt; reflexivity).
  rewrite Hadv.
  assert (Hchk : match acc with [] => Some nt | _ :: _ => if Bool.eqb (match acc with [] => false | _ => nt end) nt then Some (match acc with [] => false | _ => nt end) else None end = Some nt).
  { destruct acc; [reflexivity|]. destruct nt; reflexivity. }
  rewrite Hchk. rewrite (arch_name_word (arch_string e) [] rest Hc Hs Hne). cbn [app]. rewrite (arch_named_ok _ _ Hok). now rewrite Hrt.
Qed.

(* the whole bracketed list *)
Definition toks_text (nt : bool) (l : list arch) : str := joinw [ch 32] (map (arch_tok nt) l).

Lemma archs_loop_render nt : forall l acc rest,
  Forall (wf_archent nt) l -> (l <> [] \/ acc <> [] \/ nt = false) ->
  evOk (fun f => archs_loop f {| a_not := (match acc with [] => false | _ => nt end); a_list := acc |}
                  (toks_text nt l ++ ch 93 :: rest))
       ({| a_not := (match acc ++ l with [] => false | _ => nt end); a_list := acc ++ l |}, rest).
Proof.
  induction l as [|e l IH]; intros acc rest W Hne.
  - exists 1%nat. intros [|f] Hf; [lia|]. cbn [toks_text map joinw app archs_loop eat_ws].
    change (is_ws (ch 93)) with false. cbv iota. change (eqc (ch 93) 0) with false. change (eqc (ch 93) 93) with true.
    cbv iota. now rewrite app_nil_r.
  - inversion W as [|? ? We Wl]; subst.
    assert (Hstep : forall more, (eqc (peek more) 93 || is_ws (peek more) = true) -> more <> [] ->
              forall f, archs_loop (S f) {| a_not := (match acc with [] => false | _ => nt end); a_list := acc |} (arch_tok nt e ++ more)
                      = archs_loop f {| a_not := nt; a_list := acc ++ [e] |} more).
    { intros more Hs Hm f. cbn [archs_loop]. pose proof (tok_headok nt e more We) as HO. rewrite (eat_ws_id _ HO).
      assert (Hhd : exists c r, arch_tok nt e ++ more = c :: r /\ eqc c 0 = false /\ eqc c 93 = false).
      { destruct We as [Hc Hn _]. unfold arch_tok. destruct nt.
        - exists (ch 33), (arch_string e ++ more). repeat split; reflexivity.
        - cbn [app]. destruct (arch_string e) as [|c r]; [now specialize (Hn eq_refl)|]. exists c, (r ++ more).
          cbn in Hc. apply andb_true_iff in Hc as [Hc _]. unfold archc in Hc. apply negb_true_iff in Hc.
          apply orb_false_iff in Hc as [Hc _]. apply orb_false_iff in Hc as [Hc C3]. apply orb_false_iff in Hc as [C1 _].
          apply bad_arch_0 in C1. repeat split; auto. }
      destruct Hhd as (c&r&E&C0&C93). rewrite E. rewrite C0, C93. rewrite <- E.
      rewrite (parse_one_arch_render nt acc e more We (or_intror I) Hs Hm). reflexivity. }
    destruct l as [|e2 l'].
    + (* last entry: followed by ']' *)
      cbn [toks_text map joinw]. assert (NEacc : acc ++ [e] <> []) by (destruct acc; discriminate).
      destruct (IH (acc ++ [e]) rest Wl (or_intror (or_introl NEacc))) as (f0&H0).
      exists (S f0). intros [|f] Hf; [lia|]. rewrite Hstep by (try reflexivity; discriminate).
      specialize (H0 f ltac:(lia)). cbn [toks_text map joinw app] in H0.
      replace (match acc ++ [e] with [] => false | _ => nt end) with nt in H0 by (destruct acc; reflexivity).
      rewrite !app_nil_r in H0. exact H0.
    + (* followed by a blank and the next token *)
      change (toks_text nt (e :: e2 :: l')) with (arch_tok nt e ++ [ch 32] ++ toks_text nt (e2 :: l')).
      assert (NEl : e2 :: l' <> []) by discriminate.
      destruct (IH (acc ++ [e]) rest Wl (or_introl NEl)) as (f0&H0).
      exists (S (S f0)). intros [|f] Hf; [lia|]. rewrite <- !app_assoc. cbn [app].
      rewrite Hstep by (try reflexivity; discriminate).
      destruct f as [|f]; [lia|]. specialize (H0 (S f) ltac:(lia)).
      replace (match acc ++ [e] with [] => false | _ => nt end) with nt in H0 by (destruct acc; reflexivity).
      (* the loop eats the blank first *)
      assert (Hsp : forall g st x, archs_loop (S g) st (ch 32 :: x) = archs_loop (S g) st x) by (intros; reflexivity).
      rewrite Hsp. rewrite H0. rewrite <- app_assoc. reflexivity.
Qed.

(* ---------- build-profile groups ---------- *)
Record wf_stage (st : stage) : Prop := {
  ws_chars : forallb stagec (s_name st) = true;
  ws_ne : s_not st = false -> s_name st <> [] }.

Lemma stage_headok st rest : wf_stage st -> headok (stage_string st ++ rest).
Proof.
  intros [Hc Hne]. unfold stage_string, headok. destruct (s_not st); [reflexivity|]. cbn [app].
  destruct (s_name st) as [|c r]; [now specialize (Hne eq_refl)|]. cbn in *.
  apply andb_true_iff in Hc as [Hc _]. unfold stagec in Hc. apply negb_true_iff in Hc.
  apply orb_false_iff in Hc as [_ Hc]. exact Hc.
Qed.

Lemma stage_render st rest : wf_stage st ->
  (eqc (peek rest) 62 || is_ws (peek rest) = true) -> rest <> [] ->
  stage_loop {| s_not := false; s_name := [] |} (stage_string st ++ rest) = Ok (st, rest).
Proof.
  intros [Hc Hne] Hs Hr. unfold stage_string. destruct st as [nt nm]. cbn [s_not s_name] in *. destruct nt.
  - cbn [app stage_loop]. change (eqc (ch 33) 0) with false. change (eqc (ch 33) 33) with true. cbv iota. cbn [s_not s_name].
    rewrite (stage_word nm {| s_not := true; s_name := [] |} rest Hc Hs Hr). reflexivity.
  - cbn [app]. rewrite (stage_word nm {| s_not := false; s_name := [] |} rest Hc Hs Hr). reflexivity.
Qed.

Definition stages_text (l : list stage) : str := joinw [ch 32] (map stage_string l).

Lemma stageset_loop_render : forall l acc rest, Forall wf_stage l ->
  evOk (fun f => stageset_loop f acc (stages_text l ++ ch 62 :: rest)) (acc ++ l, rest).
Proof.
  induction l as [|st l IH]; intros acc rest W.
  - exists 1%nat. intros [|f] Hf; [lia|]. cbn [stages_text map joinw app stageset_loop eat_ws].
    change (is_ws (ch 62)) with false. cbv iota. change (eqc (ch 62) 0) with false. change (eqc (ch 62) 62) with true.
    cbv iota. now rewrite app_nil_r.
  - inversion W as [|? ? Ws Wl]; subst.
    assert (Hstep : forall more, (eqc (peek more) 62 || is_ws (peek more) = true) -> more <> [] ->
              forall f, stageset_loop (S f) acc (stage_string st ++ more) = stageset_loop f (acc ++ [st]) more).
    { intros more Hs Hm f. cbn [stageset_loop]. pose proof (stage_headok st more Ws) as HO. rewrite (eat_ws_id _ HO).
      assert (Hhd : exists c r, stage_string st ++ more = c :: r /\ eqc c 0 = false /\ eqc c 62 = false).
      { destruct Ws as [Hc Hn]. unfold stage_string. destruct (s_not st).
        - exists (ch 33), (s_name st ++ more). repeat split; reflexivity.
        - cbn [app]. destruct (s_name st) as [|c r]; [now specialize (Hn eq_refl)|]. exists c, (r ++ more).
          cbn in Hc. apply andb_true_iff in Hc as [Hc _]. unfold stagec in Hc. apply negb_true_iff in Hc.
          apply orb_false_iff in Hc as [Hc _]. apply orb_false_iff in Hc as [Hc C3]. apply orb_false_iff in Hc as [C1 _].
          apply bad_stage_0 in C1. repeat split; auto. }
      destruct Hhd as (c&r&E&C0&C62). rewrite E. rewrite C0, C62. rewrite <- E.
      rewrite ?(eat_ws_id _ HO). rewrite (stage_render st more Ws Hs Hm). reflexivity. }
    destruct l as [|st2 l'].
    + cbn [stages_text map joinw]. destruct (IH (acc ++ [st]) rest Wl) as (f0&H0).
      exists (S f0). intros [|f] Hf; [lia|]. rewrite Hstep by (try reflexivity; discriminate).
      specialize (H0 f ltac:(lia)). cbn [stages_text map joinw app] in H0. rewrite !app_nil_r in H0. exact H0.
    + change (stages_text (st :: st2 :: l')) with (stage_string st ++ [ch 32] ++ stages_text (st2 :: l')).
      destruct (IH (acc ++ [st]) rest Wl) as (f0&H0).
      exists (S (S f0)). intros [|f] Hf; [lia|]. rewrite <- !app_assoc. cbn [app].
      rewrite Hstep by (try reflexivity; discriminate).
      destruct f as [|f]; [lia|]. specialize (H0 (S f) ltac:(lia)).
      assert (Hsp : forall g a x, stageset_loop (S g) a (ch 32 :: x) = stageset_loop (S g) a x) by (intros; reflexivity).
      rewrite Hsp. rewrite H0. now rewrite <- app_assoc.
Qed.

(* ---------- controllers ---------- *)
Lemma evOk_step {A} (F G : nat -> outcome A) x : (forall f, F (S f) = G f) -> evOk G x -> evOk F x.
Proof. intros H (f0&H0). exists (S f0). intros [|f] Hf; [lia|]. rewrite H. apply H0. lia. Qed.

Definition tail_ok (rest rest' : str) : Prop :=
  (rest = rest' /\ stop3 (peek rest) = true) \/ (rest = ch 32 :: rest' /\ eqc (peek rest') 124 = true).

Lemma stop3_not_ws c : stop3 c = true -> is_ws c = false.
Proof.
  pose proof (by_enum (fun c => negb (stop3 c) || negb (is_ws c)) eq_refl c) as F. cbv beta in F.
  intros H. rewrite H in F. cbn in F. now apply negb_true_iff in F.
Qed.

Lemma controllers_end p rest rest' f : tail_ok rest rest' -> controllers (S f) p rest = Ok (p, rest').
Proof.
  intros [[-> Hs]|[-> Hb]]; cbn [controllers].
  - rewrite eat_ws_id by (unfold headok; now apply stop3_not_ws). unfold stop3 in Hs. now rewrite Hs.
  - rewrite eat_ws_sp. assert (HW : is_ws (peek rest') = false).
    { unfold eqc in Hb. apply N.eqb_eq in Hb. unfold is_ws, eqc. rewrite Hb. reflexivity. }
    rewrite eat_ws_id by exact HW. rewrite Hb. now rewrite orb_true_r.
Qed.

Definition stageset_text (st : list stage) : str := ch 60 :: stages_text st ++ [ch 62].
Lemma stageset_string_ne st : st <> [] -> stageset_string st = stageset_text st.
Proof. destruct st; [congruence|]. reflexivity. Qed.

Definition with_stages p sts := {| p_name := p_name p; p_arch := p_arch p; p_archs := p_archs p;
  p_stages := sts; p_ver := p_ver p; p_subst := p_subst p |}.

Lemma controllers_stages : forall sts p rest rest',
  Forall (fun st => st <> [] /\ Forall wf_stage st) sts -> tail_ok rest rest' ->
  evOk (fun f => controllers f p (List.concat (map (fun st => ch 32 :: stageset_text st) sts) ++ rest))
       (with_stages p (p_stages p ++ sts), rest').
Proof.
  induction sts as [|st sts IH]; intros p rest rest' W T.
  - exists 1%nat. intros [|f] Hf; [lia|]. cbn [map List.concat app]. rewrite (controllers_end p rest rest' f T).
    rewrite app_nil_r. destruct p; reflexivity.
  - inversion W as [|? ? [Hne Ws] Wr]; subst.
    destruct (stageset_loop_render st [] (List.concat (map (fun st0 => ch 32 :: stageset_text st0) sts) ++ rest) Ws) as (f1&H1).
    destruct (IH (add_stages p st) rest rest' Wr T) as (f2&H2).
    exists (S (f1 + f2)). intros [|f] Hf; [lia|].
    cbn [map List.concat]. unfold stageset_text at 1. rewrite <- !app_assoc. cbn [app controllers eat_ws].
    change (is_ws (ch 32)) with true. cbv iota. cbn [eat_ws]. change (is_ws (ch 60)) with false. cbv iota. cbn [peek].
    change (eqc (ch 60) 44 || eqc (ch 60) 124 || eqc (ch 60) 0) with false.
    change (eqc (ch 60) 40) with false. change (eqc (ch 60) 91) with false. change (eqc (ch 60) 60) with true. cbv iota.
    unfold parse_stageset. cbn [eat_ws]. change (is_ws (ch 60)) with false. cbv iota. cbn [adv tl].
    assert (Hf1 : (f1 <= f)%nat) by lia. rewrite <- app_assoc. cbn [app]. rewrite (H1 f Hf1). cbn [app].
    destruct st as [|s0 st']; [congruence|].
    assert (Hf2 : (f2 <= f)%nat) by lia. rewrite (H2 f Hf2). unfold with_stages, add_stages. cbn [p_name p_arch p_archs p_stages p_ver p_subst]. now rewrite <- app_assoc.
Qed.

Lemma controllers_ver p v more f : wf_ver v -> p_ver p = None ->
  controllers (S f) p (ch 32 :: ver_text v ++ more) = controllers f (set_ver p v) more.
Proof.
  intros W Hn. cbn [controllers]. rewrite eat_ws_sp.
  assert (HO : eat_ws (ver_text v ++ more) = ver_text v ++ more) by reflexivity. rewrite HO.
  assert (HP : peek (ver_text v ++ more) = ch 40) by reflexivity. rewrite HP.
  change (eqc (ch 40) 44 || eqc (ch 40) 124 || eqc (ch 40) 0) with false. change (eqc (ch 40) 40) with true. cbv iota.
  rewrite Hn. rewrite (parse_version_render v more W). reflexivity.
Qed.

Definition archs_text (a : archset) : str := ch 91 :: toks_text (a_not a) (a_list a) ++ [ch 93].
Lemma archset_string_ne a : a_list a <> [] -> archset_string a = archs_text a.
Proof. unfold archset_string, archs_text, toks_text, arch_tok. destruct (a_list a); [congruence|]. reflexivity. Qed.

Lemma controllers_archs p a more :
  a_list a <> [] -> Forall (wf_archent (a_not a)) (a_list a) ->
  p_archs p = Some {| a_not := false; a_list := [] |} ->
  forall x, evOk (fun f => controllers f (set_archs p a) more) x ->
  evOk (fun f => controllers f p (ch 32 :: archs_text a ++ more)) x.
Proof.
  intros Hne W Hempty x (f2&H2).
  destruct (archs_loop_render (a_not a) (a_list a) [] more W (or_introl Hne)) as (f1&H1).
  exists (S (f1 + f2)). intros [|f] Hf; [lia|]. cbn [controllers]. rewrite eat_ws_sp. unfold archs_text. cbn [app eat_ws].
  change (is_ws (ch 91)) with false. cbv iota. cbn [peek].
  change (eqc (ch 91) 44 || eqc (ch 91) 124 || eqc (ch 91) 0) with false. change (eqc (ch 91) 40) with false.
  change (eqc (ch 91) 91) with true. cbv iota. unfold archs_of. rewrite Hempty. cbn [a_list].
  unfold parse_archs. cbn [eat_ws]. change (is_ws (ch 91)) with false. cbv iota. cbn [adv tl].
  rewrite <- app_assoc. cbn [app]. cbn [app] in H1. rewrite (H1 f ltac:(lia)).
  assert (Ea : {| a_not := match a_list a with [] => false | _ :: _ => a_not a end; a_list := a_list a |} = a).
  { destruct a as [n l]. cbn in *. destruct l; [congruence|reflexivity]. }
  rewrite Ea. apply H2. lia.
Qed.

(* ---------- one possibility ---------- *)
Record wf_possi (p : possi) : Prop := {
  wp_subst : p_subst p = false;
  wp_ne : p_name p <> [];
  wp_chars : forallb namec (p_name p) = true;
  wp_dollar : eqc (peek (p_name p)) 36 = false;
  wp_arch : match p_arch p with None => True
            | Some a => forallb mac (arch_string a) = true /\ parse_arch (arch_string a) = a /\ arch_ok (arch_string a) = true end;
  wp_archs : exists a, p_archs p = Some a /\ (a_list a = [] -> a_not a = false) /\ Forall (wf_archent (a_not a)) (a_list a);
  wp_ver : match p_ver p with None => True | Some v => wf_ver v end;
  wp_stages : Forall (fun st => st <> [] /\ Forall wf_stage st) (p_stages p) }.

Definition base_of (p : possi) : possi :=
  {| p_name := p_name p; p_arch := p_arch p; p_archs := Some {| a_not := false; a_list := [] |};
     p_stages := []; p_ver := None; p_subst := false |}.
Definition ctl_text (p : possi) : str :=
  (match p_archs p with Some a => (match archset_string a with [] => [] | t => ch 32 :: t end) | None => [] end)
  ++ (match p_ver p with Some v => ch 32 :: ch 40 :: v_op v ++ ch 32 :: v_num v ++ [ch 41] | None => [] end)
  ++ List.concat (map (fun st => match stageset_string st with [] => [] | t => ch 32 :: t end) (p_stages p)).

Lemma stages_concat sts : Forall (fun st => st <> [] /\ Forall wf_stage st) sts ->
  List.concat (map (fun st => match stageset_string st with [] => [] | t => ch 32 :: t end) sts)
  = List.concat (map (fun st => ch 32 :: stageset_text st) sts).
Proof.
  induction 1 as [|st sts [Hne _] _ IH]; [reflexivity|]. cbn [map List.concat]. rewrite IH. f_equal.
  rewrite (stageset_string_ne st Hne). reflexivity.
Qed.

Lemma controllers_all p rest rest' : wf_possi p -> tail_ok rest rest' ->
  evOk (fun f => controllers f (base_of p) (ctl_text p ++ rest)) (p, rest').
Proof.
  intros [Hs Hne Hc Hd Ha (a&Ea&Hnot&Wa) Hv Hst] T. unfold ctl_text. rewrite Ea, (stages_concat _ Hst).
  (* after the optional version clause *)
  assert (Stage3 : forall p3, p_stages p3 = [] ->
     evOk (fun f => controllers f p3 (List.concat (map (fun st => ch 32 :: stageset_text st) (p_stages p)) ++ rest))
          (with_stages p3 (p_stages p), rest')).
  { intros p3 E3. pose proof (controllers_stages (p_stages p) p3 rest rest' Hst T) as K. now rewrite E3 in K. }
  assert (Stage2 : forall p2, p_stages p2 = [] -> p_ver p2 = None ->
     evOk (fun f => controllers f p2
        ((match p_ver p with Some v => ch 32 :: ch 40 :: v_op v ++ ch 32 :: v_num v ++ [ch 41] | None => [] end)
         ++ List.concat (map (fun st => ch 32 :: stageset_text st) (p_stages p)) ++ rest))
        (with_stages {| p_name := p_name p2; p_arch := p_arch p2; p_archs := p_archs p2; p_stages := [];
                        p_ver := p_ver p; p_subst := p_subst p2 |} (p_stages p), rest')).
  { intros p2 E2 V2. destruct (p_ver p) as [v|] eqn:Ev.
    - eapply evOk_step.
      + intros f. change (ch 32 :: ch 40 :: v_op v ++ ch 32 :: v_num v ++ [ch 41]) with (ch 32 :: ver_text v).
        cbn [app]. apply (controllers_ver p2 v _ f Hv V2).
      + exact (Stage3 (set_ver p2 v) E2).
    - cbn [app]. pose proof (Stage3 p2 E2) as K. destruct p2; cbn in *; subst. exact K. }
  destruct (a_list a) as [|e l] eqn:El.
  - (* no architecture clause; a = {false, []} *)
    assert (a = {| a_not := false; a_list := [] |}) as -> by (destruct a; cbn in *; subst; now rewrite (Hnot eq_refl)).
    cbn [archset_string a_list app]. pose proof (Stage2 (base_of p) eq_refl eq_refl) as K.
    assert (Ep : with_stages {| p_name := p_name (base_of p); p_arch := p_arch (base_of p); p_archs := p_archs (base_of p);
                               p_stages := []; p_ver := p_ver p; p_subst := p_subst (base_of p) |} (p_stages p) = p).
    { unfold with_stages, base_of. cbn [p_name p_arch p_archs p_stages p_ver p_subst]. destruct p; cbn in *. subst. reflexivity. }
    rewrite Ep in K. rewrite <- app_assoc. exact K.
  - rewrite (archset_string_ne a) by (rewrite El; discriminate). unfold archs_text at 1.
    change (match ch 91 :: toks_text (a_not a) (a_list a) ++ [ch 93] with [] => [] | t => ch 32 :: t end)
      with (ch 32 :: archs_text a). rewrite <- !app_assoc. cbn [app].
    apply (controllers_archs (base_of p) a); [rewrite El; discriminate|rewrite El; exact Wa|reflexivity|].
    pose proof (Stage2 (set_archs (base_of p) a) eq_refl eq_refl) as K.
    assert (Ep : with_stages {| p_name := p_name (set_archs (base_of p) a); p_arch := p_arch (set_archs (base_of p) a);
                               p_archs := p_archs (set_archs (base_of p) a);
                               p_stages := []; p_ver := p_ver p; p_subst := p_subst (set_archs (base_of p) a) |} (p_stages p) = p).
    { unfold with_stages, base_of, set_archs. cbn [p_name p_arch p_archs p_stages p_ver p_subst]. destruct p; cbn in *. subst. reflexivity. }
    rewrite Ep in K. exact K.
Qed.

Definition with_name p n := {| p_name := n; p_arch := p_arch p; p_archs := p_archs p;
  p_stages := p_stages p; p_ver := p_ver p; p_subst := p_subst p |}.

Lemma possi_loop_name : forall w fuel p rel rest, forallb namec w = true ->
  possi_loop (List.length w + fuel) p rel (w ++ rest) = possi_loop fuel (with_name p (p_name p ++ w)) rel rest.
Proof.
  induction w as [|c w IH]; intros fuel p rel rest H.
  - cbn. rewrite app_nil_r. destruct p; reflexivity.
  - cbn [forallb] in H. apply andb_true_iff in H as [Hc Hw]. unfold namec in Hc. apply negb_true_iff in Hc.
    apply orb_false_iff in Hc as [Hc C6]. apply orb_false_iff in Hc as [Hc C5].
    apply orb_false_iff in Hc as [Hc C4]. apply orb_false_iff in Hc as [Hc C3]. apply orb_false_iff in Hc as [C1 C2].
    unfold stop3 in C4. cbn [List.length plus app possi_loop peek adv tl]. rewrite C1, C2, C3, C5, C6, C4. cbn [orb].
    unfold add_name. rewrite enc_one. rewrite IH by exact Hw. cbn [p_name with_name]. rewrite <- app_assoc. reflexivity.
Qed.

Lemma tail_ok_head rest rest' : tail_ok rest rest' ->
  (is_ws (peek rest) = true /\ rest = ch 32 :: rest') \/ (stop3 (peek rest) = true /\ rest = rest').
Proof. intros [[-> H]|[-> H]]; [right; auto|left; auto]. Qed.
Lemma tail_ok_stop rest rest' : tail_ok rest rest' -> stop3 (peek rest') = true.
Proof.
  intros [[-> H]|[-> H]]; [exact H|]. unfold stop3. rewrite H. now rewrite orb_true_r.
Qed.

(* the clause text is empty or starts with a blank; when empty there are no clauses *)
Lemma ctl_text_shape p : wf_possi p -> (ctl_text p = [] /\ base_of p = p) \/ (exists t, ctl_text p = ch 32 :: t).
Proof.
  intros [Hs Hne Hc Hd Ha (a&Ea&Hnot&Wa) Hv Hst]. unfold ctl_text. rewrite Ea.
  destruct (a_list a) as [|e l] eqn:El.
  - assert (a = {| a_not := false; a_list := [] |}) as -> by (destruct a; cbn in *; subst; now rewrite (Hnot eq_refl)).
    cbn [archset_string a_list app]. destruct (p_ver p) as [v|] eqn:Ev.
    + right. eexists. reflexivity.
    + cbn [app]. destruct (p_stages p) as [|st sts] eqn:Es.
      * left. split; [reflexivity|]. unfold base_of. destruct p; cbn in *; subst. reflexivity.
      * right. inversion Hst as [|? ? [Hn _] _]; subst. cbn [map List.concat].
        rewrite (stageset_string_ne st Hn). unfold stageset_text. eexists. reflexivity.
  - right. rewrite (archset_string_ne a) by (rewrite El; discriminate). unfold archs_text. eexists. reflexivity.
Qed.

(* after the name (and qualifier): clauses, then the end of this possibility *)
Lemma possi_finish p rel rest rest' : wf_possi p -> tail_ok rest rest' ->
  evOk (fun f => possi_loop f (base_of p) rel (ctl_text p ++ rest)) (rel ++ [p], rest').
Proof.
  intros W T. pose proof (wp_ne p W) as Hne.
  assert (Hend : forall f q, p_name q <> [] -> possi_loop (S f) q rel rest' = Ok (rel ++ [q], rest')).
  { intros f q Hq. cbn [possi_loop]. pose proof (tail_ok_stop rest rest' T) as St.
    pose proof (by_enum (fun c => negb (stop3 c) || (negb (eqc c 58) && negb (is_ws c) && negb (eqc c 40) && negb (eqc c 91) && negb (eqc c 60))) eq_refl (peek rest')) as F.
    cbv beta in F. rewrite St in F. cbn in F. apply andb_true_iff in F as [F F5]. apply andb_true_iff in F as [F F4]. apply andb_true_iff in F as [F F3]. apply andb_true_iff in F as [F1 F2].
    apply negb_true_iff in F1, F2, F3, F4, F5. rewrite F1, F2, F3, F4, F5. cbn [orb]. unfold stop3 in St. rewrite St.
    destruct (p_name q); [congruence|reflexivity]. }
  destruct (controllers_all p rest rest' W T) as (f1&H1).
  assert (Via : is_ws (peek (ctl_text p ++ rest)) = true ->
          forall f, (S (S f1) <= f)%nat -> possi_loop f (base_of p) rel (ctl_text p ++ rest) = Ok (rel ++ [p], rest')).
  { intros Hw [|[|f]] Hf; try lia. cbn [possi_loop].
    assert (C58 : eqc (peek (ctl_text p ++ rest)) 58 = false).
    { pose proof (by_enum (fun c => negb (is_ws c) || negb (eqc c 58)) eq_refl (peek (ctl_text p ++ rest))) as F.
      cbv beta in F. rewrite Hw in F. cbn in F. now apply negb_true_iff in F. }
    rewrite C58, Hw. cbn [orb]. rewrite (H1 (S f) ltac:(lia)). apply Hend. exact Hne. }
  destruct (ctl_text_shape p W) as [[E Eb]|(t&E)].
  - rewrite E in *. cbn [app] in *. destruct (tail_ok_head rest rest' T) as [[Hw Er]|[Hs Er]].
    + exists (S (S f1)). apply Via. exact Hw.
    + subst rest'. exists 1%nat. intros [|f] Hf; [lia|]. rewrite Eb. apply Hend. exact Hne.
  - exists (S (S f1)). apply Via. rewrite E. reflexivity.
Qed.

Record wf_subst (p : possi) : Prop := {
  wsb : p_subst p = true; wsb_chars : forallb subc (p_name p) = true;
  wsb_rest : p_arch p = None /\ p_archs p = None /\ p_stages p = [] /\ p_ver p = None }.
Definition wf_any (p : possi) : Prop := wf_possi p \/ wf_subst p.

Lemma namec_head_facts c : namec c = true -> is_ws c = false /\ stop3 c = false /\ eqc c 58 = false /\ eqc c 40 = false.
Proof.
  unfold namec. intros H. apply negb_true_iff in H. apply orb_false_iff in H as [H C6]. apply orb_false_iff in H as [H C5]. apply orb_false_iff in H as [H C4].
  apply orb_false_iff in H as [H C3]. apply orb_false_iff in H as [C1 C2]. auto.
Qed.

Lemma possi_render p rel rest rest' : wf_possi p -> tail_ok rest rest' ->
  evOk (fun f => parse_possibility f rel (possi_string p ++ rest)) (rel ++ [p], rest').
Proof.
  intros W T. pose proof W as [Hs Hne Hc Hd Ha _ _ _].
  destruct (possi_finish p rel rest rest' W T) as (f1&H1).
  unfold possi_string. rewrite Hs. fold (ctl_text p).
  destruct (p_name p) as [|c0 n0] eqn:En; [congruence|].
  assert (Hc0 : namec c0 = true) by (cbn in Hc; now apply andb_true_iff in Hc as [? _]).
  destruct (namec_head_facts c0 Hc0) as (W0&S0&_&_).
  exists (List.length (c0 :: n0) + S (S f1))%nat. intros f Hf.
  replace f with (List.length (c0 :: n0) + (f - List.length (c0 :: n0)))%nat by lia.
  set (g := (f - List.length (c0 :: n0))%nat). assert (Hg : (S (S f1) <= g)%nat) by (subst g; lia).
  unfold parse_possibility. rewrite <- !app_assoc.
  rewrite eat_ws_id by (unfold headok; cbn; exact W0). cbn [app peek]. cbn in Hd. rewrite Hd.
  change (c0 :: n0 ++ (match p_arch p with Some a => ch 58 :: arch_string a | None => [] end) ++ ctl_text p ++ rest)
    with ((c0 :: n0) ++ (match p_arch p with Some a => ch 58 :: arch_string a | None => [] end) ++ ctl_text p ++ rest).
  rewrite (possi_loop_name (c0 :: n0) g fresh rel _ Hc). cbn [p_name fresh app].
  destruct (p_arch p) as [a|] eqn:Ea.
  - destruct Ha as (Hm&Hrt&Hok). destruct g as [|g]; [lia|]. cbn [app possi_loop peek].
    change (eqc (ch 58) 58) with true. cbv iota. unfold parse_multiarch. cbn [adv tl].
    assert (Hstop : multiarch_stop (peek (ctl_text p ++ rest)) = true).
    { destruct (ctl_text_shape p W) as [[E _]|(t&E)]; rewrite E; cbn [app peek]; [|reflexivity].
      destruct (tail_ok_head rest rest' T) as [[Hw _]|[Hst _]].
      - unfold multiarch_stop. rewrite Hw. now rewrite !orb_true_r.
      - unfold multiarch_stop, stop3 in *. apply orb_true_iff in Hst as [Hst|Hst]; [apply orb_true_iff in Hst as [Hst|Hst]|]; rewrite Hst; cbn; now rewrite ?orb_true_r. }
    rewrite (multiarch_word (arch_string a) [] _ Hm Hstop). cbn [app]. rewrite (arch_named_ok _ _ Hok), Hrt.
    replace (set_arch (with_name fresh (c0 :: n0)) a) with (base_of p)
      by (unfold base_of, set_arch, with_name, fresh; cbn; now rewrite En, Ea).
    rewrite H1 by lia. apply guard_added.
  - cbn [app]. replace (with_name fresh (c0 :: n0)) with (base_of p)
      by (unfold base_of, with_name, fresh; cbn; now rewrite En, Ea).
    rewrite H1 by lia. apply guard_added.
Qed.

(* a substvar is a whole alternative: what follows it is blanks and then ',' '|' or the end, and the blanks are consumed *)
Lemma subst_render p rel rest : wf_subst p -> stop3 (peek (eat_ws rest)) = true ->
  forall f, parse_possibility f rel (possi_string p ++ rest) = Ok (rel ++ [p], eat_ws rest).
Proof.
  intros [Hs Hc (A1&A2&A3&A4)] St f. unfold possi_string. rewrite Hs. unfold parse_possibility.
  cbn [app eat_ws]. change (is_ws (ch 36)) with false. cbv iota. cbn [peek]. change (eqc (ch 36) 36) with true. cbv iota.
  unfold parse_substvar. cbn [eat_ws]. change (is_ws (ch 36)) with false. cbv iota. cbn [adv tl].
  rewrite <- app_assoc. cbn [app]. rewrite (substvar_word (p_name p) [] rest Hc St). cbn [app].
  destruct p; cbn in *; subst. reflexivity.
Qed.
Lemma tail_ok_eat rest rest' : tail_ok rest rest' -> eat_ws rest = rest' /\ stop3 (peek rest') = true.
Proof.
  intros [[-> Hs]|[-> Hb]].
  - split; [|exact Hs]. apply eat_ws_id. unfold headok. now apply stop3_not_ws.
  - assert (St : stop3 (peek rest') = true) by (unfold stop3; rewrite Hb; now rewrite orb_true_r).
    split; [|exact St]. rewrite eat_ws_sp. apply eat_ws_id. unfold headok. now apply stop3_not_ws.
Qed.

(* skipping the blank in front of '|' at relation level *)
Lemma relation_skip rel d rest' f : eqc (peek rest') 124 = true ->
  relation_loop (S (S f)) rel d (ch 32 :: rest') = relation_loop (S f) rel d rest'.
Proof.
  intros Hb. cbn [relation_loop peek]. change (eqc (ch 32) 0 || eqc (ch 32) 44) with false. change (eqc (ch 32) 124) with false.
  cbv iota. unfold parse_possibility. rewrite eat_ws_sp.
  assert (HW : is_ws (peek rest') = false) by (unfold eqc in Hb; apply N.eqb_eq in Hb; unfold is_ws, eqc; rewrite Hb; reflexivity).
  rewrite (eat_ws_id _ HW).
  assert (H36 : eqc (peek rest') 36 = false) by (unfold eqc in *; apply N.eqb_eq in Hb; rewrite Hb; reflexivity).
  rewrite H36. cbn [possi_loop].
  assert (H58 : eqc (peek rest') 58 = false) by (unfold eqc in *; apply N.eqb_eq in Hb; rewrite Hb; reflexivity).
  assert (H40 : eqc (peek rest') 40 = false) by (unfold eqc in *; apply N.eqb_eq in Hb; rewrite Hb; reflexivity).
  assert (H91 : eqc (peek rest') 91 = false) by (unfold eqc in *; apply N.eqb_eq in Hb; rewrite Hb; reflexivity).
  assert (H60 : eqc (peek rest') 60 = false) by (unfold eqc in *; apply N.eqb_eq in Hb; rewrite Hb; reflexivity).
  rewrite H58, HW, H40, H91, H60. cbn [orb]. rewrite Hb. rewrite orb_true_r. cbn [orb p_name fresh]. rewrite guard_same. cbn [relation_loop]. rewrite ?Hb. reflexivity.
Qed.

Lemma possi_head_facts p rest : wf_any p ->
  eqc (peek (possi_string p ++ rest)) 0 = false /\ eqc (peek (possi_string p ++ rest)) 44 = false /\
  eqc (peek (possi_string p ++ rest)) 124 = false.
Proof.
  intros [W|W].
  - pose proof W as [Hs Hne Hc _ _ _ _ _]. unfold possi_string. rewrite Hs. destruct (p_name p) as [|c n]; [congruence|].
    cbn in Hc. apply andb_true_iff in Hc as [Hc _]. destruct (namec_head_facts c Hc) as (_&S0&_&_).
    cbn [app peek]. unfold stop3 in S0. apply orb_false_iff in S0 as [S0 Z]. apply orb_false_iff in S0 as [A B]. auto.
  - destruct W as [Hs _ _]. unfold possi_string. rewrite Hs. repeat split; reflexivity.
Qed.

Lemma relation_loop_S f rel d i : relation_loop (S f) rel d i =
  if eqc (peek i) 0 || eqc (peek i) 44 then Ok ((match rel with [] => d | _ => d ++ [rel] end), i)
  else if eqc (peek i) 124 then relation_loop f rel d (eat_ws (adv i))
  else match parse_possibility f rel i with
       | Ok (rel, i) => relation_loop f rel d i
       | Err => Err | OutOfFuel => OutOfFuel end.
Proof. reflexivity. Qed.

Lemma rel_possi p rel d rest rest' : wf_any p -> tail_ok rest rest' ->
  forall x, evOk (fun f => relation_loop f (rel ++ [p]) d rest') x ->
            evOk (fun f => relation_loop f rel d (possi_string p ++ rest)) x.
Proof.
  intros W T x (f2&H2). destruct (possi_head_facts p rest W) as (C0&C44&C124).
  destruct W as [W|W].
  - destruct (possi_render p rel rest rest' W T) as (f1&H1).
    exists (S (f1 + f2)). intros [|f] Hf; [lia|]. rewrite relation_loop_S, C0, C44, C124. cbn [orb].
    assert (A1 : (f1 <= f)%nat) by lia. assert (A2 : (f2 <= f)%nat) by lia. rewrite (H1 f A1). apply H2. exact A2.
  - exists (S (S (S f2))). intros [|[|[|f]]] Hf; try lia. rewrite relation_loop_S, C0, C44, C124. cbn [orb].
    destruct (tail_ok_eat rest rest' T) as [Ee Se].
    rewrite (subst_render p rel rest W) by (now rewrite Ee). rewrite Ee. apply H2. lia.
Qed.

(* ---------- a relation: alternatives joined by " | " ---------- *)
Definition bar : str := s " | ".
Lemma possi_string_headok p rest : wf_any p -> headok (possi_string p ++ rest).
Proof.
  intros [W|W].
  - pose proof W as [Hs Hne Hc _ _ _ _ _]. unfold possi_string, headok. rewrite Hs. destruct (p_name p) as [|c n]; [congruence|].
    cbn in Hc. apply andb_true_iff in Hc as [Hc _]. now destruct (namec_head_facts c Hc) as (W0&_).
  - destruct W as [Hs _ _]. unfold possi_string, headok. rewrite Hs. reflexivity.
Qed.

Lemma joinw_headok ps rest : ps <> [] -> Forall wf_any ps -> headok (joinw bar (map possi_string ps) ++ rest).
Proof.
  intros Hne W. destruct ps as [|p ps]; [congruence|]. inversion W; subst. cbn [map joinw].
  destruct ps as [|q ps]; [now apply possi_string_headok|].
  cbn [map]. change (joinw bar (possi_string p :: possi_string q :: map possi_string ps))
    with (possi_string p ++ bar ++ joinw bar (possi_string q :: map possi_string ps)).
  rewrite <- app_assoc. now apply possi_string_headok.
Qed.

Lemma relation_render : forall ps rel d rest, Forall wf_any ps -> (ps <> [] \/ rel <> []) ->
  (eqc (peek rest) 0 || eqc (peek rest) 44 = true) ->
  evOk (fun f => relation_loop f rel d (joinw bar (map possi_string ps) ++ rest)) (d ++ [rel ++ ps], rest).
Proof.
  induction ps as [|p ps IH]; intros rel d rest W Hne Hstop.
  - destruct Hne as [Hne|Hne]; [congruence|]. exists 1%nat. intros [|f] Hf; [lia|].
    cbn [map joinw app]. rewrite relation_loop_S, Hstop. rewrite app_nil_r. destruct rel; [congruence|reflexivity].
  - inversion W as [|? ? Wp Wps]; subst.
    assert (St : stop3 (peek rest) = true).
    { unfold stop3. apply orb_true_iff in Hstop as [H|H]; rewrite H; now rewrite ?orb_true_r. }
    destruct ps as [|p2 ps'].
    + cbn [map joinw]. apply (rel_possi p rel d rest rest Wp (or_introl (conj eq_refl St))).
      assert (NErel : rel ++ [p] <> []) by (destruct rel; discriminate).
      pose proof (IH (rel ++ [p]) d rest Wps (or_intror NErel) Hstop) as K.
      cbn [map joinw app] in K. now rewrite <- app_assoc in K.
    + change (joinw bar (map possi_string (p :: p2 :: ps'))) with
        (possi_string p ++ bar ++ joinw bar (map possi_string (p2 :: ps'))).
      rewrite <- !app_assoc. set (J := joinw bar (map possi_string (p2 :: ps')) ++ rest).
      change (bar ++ J) with (ch 32 :: ch 124 :: ch 32 :: J).
      apply (rel_possi p rel d _ (ch 124 :: ch 32 :: J) Wp (or_intror (conj eq_refl eq_refl))).
      assert (NEps : p2 :: ps' <> []) by discriminate.
      destruct (IH (rel ++ [p]) d rest Wps (or_introl NEps) Hstop) as (f0&H0).
      exists (S f0). intros [|f] Hf; [lia|]. rewrite relation_loop_S. cbn [peek].
      change (eqc (ch 124) 0 || eqc (ch 124) 44) with false. change (eqc (ch 124) 124) with true. cbv iota.
      cbn [adv tl]. rewrite eat_ws_sp.
      assert (HJ : headok J) by (subst J; apply joinw_headok; [discriminate|exact Wps]).
      rewrite (eat_ws_id _ HJ). subst J. assert (A0 : (f0 <= f)%nat) by lia. rewrite (H0 f A0). now rewrite <- app_assoc.
Qed.

(* ---------- the whole field: relations joined by ", " ---------- *)
Definition comma : str := s ", ".
Definition wf_rel (r : relation) : Prop := r <> [] /\ Forall wf_any r.

Lemma possi_string_cons p : wf_any p -> exists c t, possi_string p = c :: t.
Proof.
  intros [W|W].
  - pose proof W as [Hs Hne _ _ _ _ _ _]. unfold possi_string. rewrite Hs. destruct (p_name p) as [|c n]; [congruence|]. cbn [app]. eexists. eexists. reflexivity.
  - destruct W as [Hs _ _]. unfold possi_string. rewrite Hs. eexists. eexists. reflexivity.
Qed.
Lemma joinw_peek p ps rest : wf_any p -> peek (joinw bar (map possi_string (p :: ps)) ++ rest) = peek (possi_string p ++ rest).
Proof.
  intros W. destruct (possi_string_cons p W) as (c&t&E). cbn [map joinw]. destruct (map possi_string ps); rewrite E; reflexivity.
Qed.

Lemma relation_string_headok r rest : wf_rel r -> headok (relation_string r ++ rest).
Proof. intros [Hne W]. unfold relation_string. now apply joinw_headok. Qed.
Lemma relation_string_head r rest : wf_rel r ->
  eqc (peek (relation_string r ++ rest)) 0 = false /\ eqc (peek (relation_string r ++ rest)) 44 = false.
Proof.
  intros [Hne W]. destruct r as [|p r]; [congruence|]. inversion W; subst. unfold relation_string.
  change (s " | ") with bar. rewrite (joinw_peek p r rest H1). destruct (possi_head_facts p rest H1) as (A&B&_). auto.
Qed.

Lemma dependency_loop_S f d i : dependency_loop (S f) d i =
  if eqc (peek i) 0 then Ok d
  else if eqc (peek i) 44 then dependency_loop f d (eat_ws (adv i))
  else match relation_loop f [] d (eat_ws i) with
       | Ok (d, i) => dependency_loop f d i
       | Err => Err | OutOfFuel => OutOfFuel end.
Proof. reflexivity. Qed.

Lemma dependency_render : forall rs d, Forall wf_rel rs ->
  evOk (fun f => dependency_loop f d (joinw comma (map relation_string rs))) (d ++ rs).
Proof.
  induction rs as [|r rs IH]; intros d W.
  - exists 1%nat. intros [|f] Hf; [lia|]. cbn. now rewrite app_nil_r.
  - inversion W as [|? ? Wr Wrs]; subst. pose proof Wr as [Hne Wps].
    destruct rs as [|r2 rs'].
    + cbn [map joinw]. destruct (relation_render r [] d [] Wps (or_introl Hne) eq_refl) as (f1&H1).
      rewrite app_nil_r in H1. exists (S (S f1)). intros [|[|f]] Hf; try lia. rewrite dependency_loop_S.
      destruct (relation_string_head r [] Wr) as (C0&C44). rewrite app_nil_r in C0, C44. rewrite C0, C44.
      pose proof (relation_string_headok r [] Wr) as HO. rewrite app_nil_r in HO. rewrite (eat_ws_id _ HO).
      assert (A1 : (f1 <= S f)%nat) by lia. unfold relation_string. change (s " | ") with bar. rewrite (H1 (S f) A1).
      cbn [app]. reflexivity.
    + change (joinw comma (map relation_string (r :: r2 :: rs'))) with
        (relation_string r ++ comma ++ joinw comma (map relation_string (r2 :: rs'))).
      set (J := joinw comma (map relation_string (r2 :: rs'))).
      change (comma ++ J) with (ch 44 :: ch 32 :: J).
      destruct (relation_render r [] d (ch 44 :: ch 32 :: J) Wps (or_introl Hne) eq_refl) as (f1&H1).
      destruct (IH (d ++ [r]) Wrs) as (f2&H2).
      exists (S (S (f1 + f2))). intros [|[|f]] Hf; try lia. rewrite dependency_loop_S.
      destruct (relation_string_head r (ch 44 :: ch 32 :: J) Wr) as (C0&C44). rewrite C0, C44.
      rewrite (eat_ws_id _ (relation_string_headok r _ Wr)).
      assert (A1 : (f1 <= S f)%nat) by lia. unfold relation_string at 1. change (s " | ") with bar. rewrite (H1 (S f) A1).
      cbn [app]. rewrite dependency_loop_S. cbn [peek].
      change (eqc (ch 44) 0) with false. change (eqc (ch 44) 44) with true. cbv iota.
      cbn [adv tl]. rewrite eat_ws_sp.
      assert (HJ : headok J).
      { subst J. inversion Wrs as [|? ? W2 W2s]; subst. cbn [map joinw]. destruct rs'.
        - pose proof (relation_string_headok r2 [] W2) as K. now rewrite app_nil_r in K.
        - now apply relation_string_headok. }
      rewrite (eat_ws_id _ HJ). subst J. assert (A2 : (f2 <= f)%nat) by lia. pose proof (H2 f A2) as K. rewrite <- app_assoc in K. exact K.
Qed.

Definition wf_dep (d : dep) : Prop := Forall wf_rel d.

Theorem C05_partB_ev d : wf_dep d -> evOk (fun f => dependency_loop f [] (eat_ws (dep_string d))) d.
Proof.
  intros W. destruct (dependency_render d [] W) as (f0&H0). exists f0. intros f Hf.
  assert (HO : eat_ws (dep_string d) = dep_string d).
  { unfold dep_string. destruct d as [|r d']; [reflexivity|]. inversion W as [|? ? Wr Wd]; subst. apply eat_ws_id.
    cbn [map joinw]. destruct d'; [pose proof (relation_string_headok r [] Wr) as K; now rewrite app_nil_r in K|].
    now apply relation_string_headok. }
  rewrite HO. unfold dep_string. exact (H0 f Hf).
Qed.
Print Assumptions C05_partB_ev.
