(* C04, rejections lifted: a second version / architecture clause, or a stray token, in the first alternative of a
   field makes Parse fail, whatever follows *)
From Coq Require Import List Ascii String Bool Arith NArith Lia.
Require Import A1 D3 D4 D5 D6 D14 D9 D10 D15.
Import ListNotations.

Definition evRes {A} (F : nat -> outcome A) (r : outcome A) : Prop := exists f0, forall f, (f0 <= f)%nat -> F f = r.
Lemma evRes_step {A} (F G : nat -> outcome A) r : (forall f, F (S f) = G f) -> evRes G r -> evRes F r.
Proof. intros H (f0&H0). exists (S f0). intros [|f] Hf; [lia|]. rewrite H. apply H0. lia. Qed.
Lemma evRes_ext {A} (F G : nat -> outcome A) r : (forall f, F f = G f) -> evRes G r -> evRes F r.
Proof. intros H (f0&H0). exists f0. intros f Hf. rewrite H. now apply H0. Qed.

(* the three clause transformers, for an arbitrary final result *)
Lemma ver_res p w1 w2 w3 v more r : all_ws w1 -> all_ws w2 -> all_ws w3 -> wf_ver v -> num_ok w2 v -> p_ver p = None ->
  evRes (fun f => controllers f (set_ver p v) more) r ->
  evRes (fun f => controllers f p (ch 32 :: ver_text_ws w1 w2 w3 v ++ more)) r.
Proof.
  intros H1 H2 H3 W Hne Hn. apply evRes_step. intros f. cbn [controllers]. rewrite eat_ws_sp.
  assert (HO : eat_ws (ver_text_ws w1 w2 w3 v ++ more) = ver_text_ws w1 w2 w3 v ++ more) by reflexivity. rewrite HO.
  assert (HP : peek (ver_text_ws w1 w2 w3 v ++ more) = ch 40) by reflexivity. rewrite HP.
  change (eqc (ch 40) 44 || eqc (ch 40) 124 || eqc (ch 40) 0) with false. change (eqc (ch 40) 40) with true. cbv iota.
  rewrite Hn. rewrite (parse_version_render_ws w1 w2 w3 v more H1 H2 H3 W Hne). reflexivity.
Qed.

Lemma archs_res p nt w0 items more r :
  items <> [] -> Forall (wf_archent nt) (map fst items) -> seps_ok items -> all_ws w0 ->
  p_archs p = Some {| a_not := false; a_list := [] |} ->
  evRes (fun f => controllers f (set_archs p {| a_not := nt; a_list := map fst items |}) more) r ->
  evRes (fun f => controllers f p (ch 32 :: archs_text_ws nt w0 items ++ more)) r.
Proof.
  intros Hne W Sp Hw0 Hempty (f2&H2).
  destruct (archs_loop_render_ws nt items [] more W Sp (or_introl Hne)) as (f1&H1).
  exists (S (f1 + f2)). intros [|f] Hf; [lia|]. cbn [controllers]. rewrite eat_ws_sp. unfold archs_text_ws. cbn [app eat_ws].
  change (is_ws (ch 91)) with false. cbv iota. cbn [peek].
  change (eqc (ch 91) 44 || eqc (ch 91) 124 || eqc (ch 91) 0) with false. change (eqc (ch 91) 40) with false.
  change (eqc (ch 91) 91) with true. cbv iota. unfold archs_of. rewrite Hempty. cbn [a_list].
  unfold parse_archs. cbn [eat_ws]. change (is_ws (ch 91)) with false. cbv iota. cbn [adv tl].
  rewrite <- !app_assoc. rewrite (archs_loop_ws f _ w0 _ Hw0). cbn [app]. cbn [app] in H1. rewrite (H1 f ltac:(lia)).
  assert (Ea : {| a_not := match map fst items with [] => false | _ :: _ => nt end; a_list := map fst items |} =
               {| a_not := nt; a_list := map fst items |}).
  { destruct items; [congruence|reflexivity]. }
  rewrite Ea. apply H2. lia.
Qed.

Lemma stage_res p w0 items more r : items <> [] -> Forall wf_stage (map fst items) -> sseps_ok items -> all_ws w0 ->
  evRes (fun f => controllers f (add_stages p (map fst items)) more) r ->
  evRes (fun f => controllers f p (ch 32 :: stageset_text_ws w0 items ++ more)) r.
Proof.
  intros Hne Ws Sp Hw0 (f2&H2).
  destruct (stageset_loop_render_ws items [] more Ws Sp) as (f1&H1).
  exists (S (f1 + f2)). intros [|f] Hf; [lia|].
  unfold stageset_text_ws. cbn [app controllers eat_ws].
  change (is_ws (ch 32)) with true. cbv iota. cbn [eat_ws]. change (is_ws (ch 60)) with false. cbv iota. cbn [peek].
  change (eqc (ch 60) 44 || eqc (ch 60) 124 || eqc (ch 60) 0) with false.
  change (eqc (ch 60) 40) with false. change (eqc (ch 60) 91) with false. change (eqc (ch 60) 60) with true. cbv iota.
  unfold parse_stageset. cbn [eat_ws]. change (is_ws (ch 60)) with false. cbv iota. cbn [adv tl].
  rewrite <- !app_assoc. rewrite (stageset_loop_ws f _ w0 _ Hw0). cbn [app]. cbn [app] in H1. rewrite (H1 f ltac:(lia)).
  destruct (map fst items) as [|s0 st'] eqn:E; [destruct items; [congruence|discriminate]|]. apply H2. lia.
Qed.

(* a valid clause prefix leaves the rest of the text to the same loop, with the accumulated value *)
Theorem clauses_then : forall cl p more r, clauses_ok p cl ->
  evRes (fun f => controllers f (fold_left apply_clause (map snd cl) p) more) r ->
  evRes (fun f => controllers f p (clauses_text cl ++ more)) r.
Proof.
  induction cl as [|[w c] cl IH]; intros p more r W H; [exact H|].
  inversion W as [|? ? ? ? Hw Hc Wr]; subst. cbn [map snd fold_left] in H. specialize (IH (apply_clause p c) more r Wr H).
  unfold clauses_text in *. cbn [map List.concat fst snd]. rewrite <- !app_assoc.
  eapply evRes_ext; [intros f; apply (controllers_ws_norm f p w _ Hw)|].
  destruct c as [w1 w2 w3 v|nt w0 items|w0 items]; cbn [clause_text apply_clause clause_ok] in *.
  - destruct Hc as (A1&A2&A3&Wv&Hnn&Hn). now apply ver_res.
  - destruct Hc as (Hl&Wa&Sp&Hw0&He). now apply archs_res.
  - destruct Hc as (Hl&Ws&Sp&Hw0). now apply stage_res.
Qed.

(* C04, rejection: after any valid clauses that contain a version clause, a further '(' is an error *)
Theorem controllers_second_version cl p w x v0 : clauses_ok p cl ->
  p_ver (fold_left apply_clause (map snd cl) p) = Some v0 -> all_ws w ->
  evRes (fun f => controllers f p (clauses_text cl ++ w ++ ch 40 :: x)) Err.
Proof.
  intros W Hv Hw. apply clauses_then; [exact W|]. exists 1%nat. intros [|f] Hf; [lia|].
  now apply (reject_second_version f _ w x v0).
Qed.
Theorem controllers_second_archs cl p w x : clauses_ok p cl ->
  a_list (archs_of (fold_left apply_clause (map snd cl) p)) <> [] -> all_ws w ->
  evRes (fun f => controllers f p (clauses_text cl ++ w ++ ch 91 :: x)) Err.
Proof.
  intros W Ha Hw. apply clauses_then; [exact W|]. exists 1%nat. intros [|f] Hf; [lia|].
  now apply (reject_second_archs f _ w x).
Qed.
Print Assumptions controllers_second_version.
Print Assumptions controllers_second_archs.

(* ---- lifted to Parse, for the first alternative of a field ---- *)
Lemma possi_err name q rel T : 
  name <> [] -> forallb namec name = true -> eqc (peek name) 36 = false ->
  (match q with None => True | Some a => forallb mac (arch_string a) = true /\ parse_arch (arch_string a) = a /\ arch_ok (arch_string a) = true end) ->
  ctlhead (peek T) = true ->
  evRes (fun f => controllers f (base name q) T) Err ->
  evRes (fun f => parse_possibility f rel (name ++ qual_text q ++ T)) Err.
Proof.
  intros Hne Hc Hd Ha Hw (f1&H1).
  assert (Fin : forall f, (S f1 <= f)%nat -> possi_loop f (base name q) rel T = Err).
  { intros [|f] Hf; [lia|]. cbn [possi_loop].
    destruct (ctlhead_facts _ Hw) as [C58 _].
    rewrite C58. fold (ctlhead (peek T)). rewrite Hw. now rewrite (H1 f ltac:(lia)). }
  destruct name as [|c0 n0] eqn:En; [congruence|].
  assert (Hc0 : namec c0 = true) by (cbn in Hc; now apply andb_true_iff in Hc as [? _]).
  destruct (namec_head_facts c0 Hc0) as (W0&S0&_&_).
  exists (List.length (c0 :: n0) + S (S f1))%nat. intros f Hf.
  replace f with (List.length (c0 :: n0) + (f - List.length (c0 :: n0)))%nat by lia.
  set (g := (f - List.length (c0 :: n0))%nat). assert (Hg : (S (S f1) <= g)%nat) by (subst g; lia).
  unfold parse_possibility.
  rewrite eat_ws_id by (unfold headok; cbn; exact W0). cbn [app peek]. cbn in Hd. rewrite Hd.
  change (c0 :: n0 ++ qual_text q ++ T) with ((c0 :: n0) ++ qual_text q ++ T).
  rewrite (possi_loop_name (c0 :: n0) g fresh rel _ Hc). cbn [p_name fresh app].
  destruct q as [a|].
  - destruct Ha as (Hm&Hrt&Hok). destruct g as [|g]; [lia|]. cbn [qual_text app possi_loop peek].
    change (eqc (ch 58) 58) with true. cbv iota. unfold parse_multiarch. cbn [adv tl].
    assert (Hstop : multiarch_stop (peek T) = true) by (now destruct (ctlhead_facts _ Hw)).
    rewrite (multiarch_word (arch_string a) [] _ Hm Hstop). cbn [app]. rewrite (arch_named_ok _ _ Hok), Hrt.
    replace (set_arch (with_name fresh (c0 :: n0)) a) with (base (c0 :: n0) (Some a)) by reflexivity.
    rewrite Fin by lia. reflexivity.
  - cbn [qual_text app]. replace (with_name fresh (c0 :: n0)) with (base (c0 :: n0) None) by reflexivity.
    rewrite Fin by lia. reflexivity.
Qed.

Theorem parse_err_first name q T :
  name <> [] -> forallb namec name = true -> eqc (peek name) 36 = false ->
  (match q with None => True | Some a => forallb mac (arch_string a) = true /\ parse_arch (arch_string a) = a /\ arch_ok (arch_string a) = true end) ->
  ctlhead (peek T) = true ->
  evRes (fun f => controllers f (base name q) T) Err ->
  parse (name ++ qual_text q ++ T) = Err.
Proof.
  intros Hne Hc Hd Ha Hw HE.
  destruct (possi_err name q [] T Hne Hc Hd Ha Hw HE) as (f1&H1).
  set (x := name ++ qual_text q ++ T).
  assert (Hd0 : exists c0 n0, name = c0 :: n0 /\ is_ws c0 = false /\ eqc c0 0 = false /\ eqc c0 44 = false /\ eqc c0 124 = false).
  { destruct name as [|c0 n0]; [congruence|]. exists c0, n0.
    assert (Hc0 : namec c0 = true) by (cbn in Hc; now apply andb_true_iff in Hc as [? _]).
    destruct (namec_head_facts c0 Hc0) as (W0&S0&_&_).
    unfold stop3 in S0. apply orb_false_iff in S0 as [S0 Z]. apply orb_false_iff in S0 as [A B]. auto. }
  destruct Hd0 as (c0&n0&En&W0&Z&A&B).
  assert (Pk : peek x = c0) by (subst x; rewrite En; reflexivity).
  assert (HO : eat_ws x = x) by (apply eat_ws_id; unfold headok; now rewrite Pk).
  assert (EV : forall f, (S (S f1) <= f)%nat -> dependency_loop f [] x = Err).
  { intros [|[|f]] Hf; try lia. rewrite dependency_loop_S, Pk, Z, A, HO. rewrite relation_loop_S, Pk, Z, A, B. cbn [orb].
    subst x. now rewrite (H1 f ltac:(lia)). }
  pose proof (C18_dep_terminates x) as NF. unfold parse in *. rewrite HO in *.
  set (N := (4 * List.length x + 8)%nat) in *.
  set (F := fun f => dependency_loop f [] x) in *.
  assert (M : mono F) by (intros f r; apply dependency_loop_mono).
  destruct (Nat.le_ge_cases N (S (S f1))) as [L|L].
  - pose proof (mono_ge F M N (S (S f1)) (F N) L eq_refl NF) as K. pose proof (EV (S (S f1)) (le_n _)) as K2.
    change (F N = Err). rewrite <- K. exact K2.
  - exact (EV N L).
Qed.

(* C04: "foo (>= 1) … (<< 2) …" and "foo [a] … [b] …" are rejected, whatever follows *)
Theorem C04_reject_second_version name q cl w y v0 :
  name <> [] -> forallb namec name = true -> eqc (peek name) 36 = false ->
  (match q with None => True | Some a => forallb mac (arch_string a) = true /\ parse_arch (arch_string a) = a /\ arch_ok (arch_string a) = true end) ->
  clauses_ok (base name q) cl -> cl <> [] -> p_ver (result name q cl) = Some v0 -> all_ws w ->
  parse (name ++ qual_text q ++ clauses_text cl ++ w ++ ch 40 :: y) = Err.
Proof.
  intros Hne Hc Hd Ha W NE Hv Hw. apply parse_err_first; try assumption.
  - now apply (clauses_head cl (base name q)).
  - now apply (controllers_second_version cl (base name q) w y v0).
Qed.
Theorem C04_reject_second_archs name q cl w y :
  name <> [] -> forallb namec name = true -> eqc (peek name) 36 = false ->
  (match q with None => True | Some a => forallb mac (arch_string a) = true /\ parse_arch (arch_string a) = a /\ arch_ok (arch_string a) = true end) ->
  clauses_ok (base name q) cl -> cl <> [] -> a_list (archs_of (result name q cl)) <> [] -> all_ws w ->
  parse (name ++ qual_text q ++ clauses_text cl ++ w ++ ch 91 :: y) = Err.
Proof.
  intros Hne Hc Hd Ha W NE Hv Hw. apply parse_err_first; try assumption.
  - now apply (clauses_head cl (base name q)).
  - now apply (controllers_second_archs cl (base name q) w y).
Qed.
Print Assumptions C04_reject_second_version.
Print Assumptions C04_reject_second_archs.
