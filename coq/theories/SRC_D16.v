(* The dispatch tables of the hand-written models ARE the tables of today's source text.
   coq/gen/Consts_gen.v is written on every run by driver/srcconsts.py, which reads them out of /repo's .go files.  Each
   lemma states that a model constant equals what was read; an edit of one of those tables in the source breaks the lemma -
   a proof obligation - before a single case has been run.  One file per model (SRC_D3, SRC_AR, SRC_DATE, SRC_D16, SRC_U20):
   a broken lemma is held against the properties whose theorems rest on that model (driver/lib.py: the Require closure of the
   property file), not against the others. *)
From Coq Require Import List Ascii String Bool Arith NArith Lia.
Require Import GS D16 Consts_gen.
Import ListNotations.

(* deb/deb.go: the one format version loadDeb hands to loadDeb2 *)
Lemma src_deb_version : Consts_gen.deb_versions = [map N_of_ascii (s "2.0" ++ [nl])].
Proof. reflexivity. Qed.
