(* C13 - ar reader returns every member with exact metadata and bytes.
   Property theorems only.  Model: AR.ar_next = Ar.Next + parseArEntry over an in-memory buffer (io.ReaderAt),
   AR.iterate = the Next loop, AR.data_of = the member's io.SectionReader (a slice of the buffer fixed by the
   member's own header offset and size).  AR2.render_ar is the spec: global magic, 60-byte headers with
   left-justified space-padded columns (a blank numeric column reads as 0, a name may carry a trailing '/'),
   data padded to even length. *)
From Coq Require Import List Ascii String Bool Arith ZArith Lia.
Require Import GS AR AR2 AR3 D16 DEB R2u ARu.
Import ListNotations.

(* iterating a rendered archive returns exactly the members' entries in order, then a clean end of archive *)
Theorem C13_iterate_archive : forall ms, Forall wf_member ms ->
  iterate (S (List.length ms)) (render_ar ms) 8 = Some (entries 8 ms, true).
Proof. exact C13_archive. Qed.
Print Assumptions C13_iterate_archive.

(* each member's reader yields exactly that member's bytes *)
Theorem C13_member_data : forall ms pre i m, Forall wf_member ms -> nth_error ms i = Some m ->
  exists e, nth_error (entries (List.length pre) ms) i = Some e /\ data_of (pre ++ render_members ms) e = m_data m.
Proof. exact C13_data. Qed.
Print Assumptions C13_member_data.

(* a reader is a function of the archive bytes and its own header only: advancing the iterator cannot
   change what an earlier member's reader yields (re-reading after Seek(0) is checked by the tie) *)
Theorem C13_reader_independent_of_iterator : forall buf e, data_of buf e = sub buf (e_hdr e + 60) (Z.to_nat (e_size e)).
Proof. exact C13_readers_independent. Qed.

(* what the runner executes is the proved function *)
Theorem C13_runner_form : forall fuel buf off, iterate_z fuel buf off = iterate fuel buf off.
Proof. exact iterate_z_eq. Qed.
Print Assumptions C13_runner_form.
(* the runner trims the header columns with Go's exact Unicode whitespace; on a header without the encoding of a
   non-ASCII Unicode space each step is the model's step *)
Theorem C13_exact_header_parser_agrees : forall buf off, uclean (sub buf off 60) -> ar_next_u buf off = ar_next buf off.
Proof. exact ar_next_u_clean. Qed.
Print Assumptions C13_exact_header_parser_agrees.

(* the reader underneath: LoadAr takes an io.ReaderAt, whose contract lets a read that ends exactly at the end of the
   input come with io.EOF or without.  Whatever a reader chooses ([eager]), LoadAr and the iteration give the members,
   bytes and end of the buffer model - so every statement above holds for every contract-conforming reader.  The code
   before repair ed23e1b did depend on that choice (witness: the archive without members) *)
Require ARrd.
Theorem C13_any_contract_conforming_reader : forall eager buf, ARrd.ar_open_rd eager buf = ar_open buf.
Proof. exact ARrd.ar_open_any_reader. Qed.
Theorem C13_next_any_contract_conforming_reader : forall eager buf off, ARrd.ar_next_rd eager buf off = ar_next buf off.
Proof. exact ARrd.ar_next_any_reader. Qed.
Theorem C13_pinned_loadar_refuted :
  ARrd.check_ar_pinned (fun _ _ => false) magic = true /\ ARrd.check_ar_pinned (fun _ _ => true) magic = false /\
  ARrd.check_ar (fun _ _ => true) magic = true /\ ARrd.ar_open_rd (fun _ _ => true) magic = Some ([], true).
Proof. exact ARrd.check_ar_pinned_refuted. Qed.
Print Assumptions C13_any_contract_conforming_reader.

Example C13_nonvacuous : wf_member {| m_name := s "debian-binary"; m_slash := true; m_ts := s "1"; m_uid := []; m_gid := s "0";
                                      m_mode := s "100644"; m_size := s "3"; m_data := s "2.0"; m_pad := "000"%char |}.
Proof. constructor; cbn; repeat split; try lia; try reflexivity; repeat constructor. Qed.
(* a recorded name may START with blanks (and end in a tab): only the column's trailing space padding and one '/' are
   removed (repair 215f837 of the r12 finding: TrimSpace made the members " x" and "x" of one archive both "x") *)
Example C13_leading_blank_name : wf_member {| m_name := s " x"; m_slash := true; m_ts := s "1"; m_uid := []; m_gid := s "0";
                                      m_mode := s "100644"; m_size := s "3"; m_data := s "abc"; m_pad := "010"%char |}
  /\ wf_member {| m_name := [sp; sp; "y"%char; "009"%char]; m_slash := false; m_ts := []; m_uid := []; m_gid := [];
                  m_mode := []; m_size := s "0"; m_data := []; m_pad := "010"%char |}.
Proof. split; constructor; cbn; repeat split; try lia; try reflexivity; repeat constructor. Qed.
