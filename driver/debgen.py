"""deb822 document model, renderer with layout, and expected reader result (spec side of C07/C08)."""
import re

USPACE = re.compile(rb"\xc2\x85|\xc2\xa0|\xe1\x9a\x80|\xe2\x80[\x80-\x8a\xa8\xa9\xaf]|\xe2\x81\x9f|\xe3\x80\x80")


def has_uspace(b):
    """non-ASCII Unicode space encodings: outside the (ASCII-space) model's domain"""
    return USPACE.search(b) is not None


KEYS = [b"Package", b"Version", b"Depends", b"Description", b"Files", b"X-Custom", b"Source", b"Architecture", b"a", b"B2", b"Checksums-Sha256", b"k:",
        # field names that are also Go names inside the types a document is decoded into (the embedded member and its members)
        b"Paragraph", b"Values", b"Order",
        # names that differ from another one only in letter case: two fields for the reader and for the writer alike
        b"x-custom", b"PACKAGE"]
WORDS = [b"foo", b"bar (>= 1.0)", b"a: b", b"1.0-1", b"x  y", b"caf\xc3\xa9", b"Universit\xc3\xa0", b"\xc3\x85ngstr\xc3\xb6m \xc3\x85", b"\xe4\xb8\xa0", b".", b"-----BEGIN PGP SIGNED MESSAGE-----", b"-----BEGIN PGP SIGNATURE-----", b"#not-a-comment", b"-x", b"a,", b"| b", b"::", b"\xff\xfe", b"z" * 30, b".x", b"..", b"a."]


def hx(b):
    return "x" + b.hex()


def show_list(items):
    return "[]" if not items else "[ " + " ".join(items) + " ]"


def value_of(first, conts):
    v = first
    for c in conts:
        if v == b"":
            v = c + b"\n"
        else:
            if not v.endswith(b"\n"):
                v += b"\n"
            v += c + b"\n"
    return v


def expected(doc):
    paras = []
    for para in doc:
        keys = [hx(k) for k, _, _ in para]
        vals = [hx(value_of(f, cs)) for _, f, cs in para]
        paras.append("( %s %s %d )" % (show_list(keys), show_list(vals), len(para)))
    return "ok " + show_list(paras)


def rand_line(rng, allow_empty=True, indent=False, long=False):
    if long:
        # a physical line longer than any read buffer (bufio's 4096 bytes): one logical line all the same
        return b" ".join(rng.choice(WORDS) for _ in range(rng.randrange(900, 2200)))
    if allow_empty and rng.random() < 0.15:
        return b""
    t = b" ".join(rng.choice(WORDS) for _ in range(rng.randrange(1, 4)))
    if indent and rng.random() < 0.4:
        t = rng.choice([b" ", b"  ", b"\t", b" \t "]) + t
    return t


def rand_doc(rng, maxpara=4, maxfield=5, maxcont=4, long=0.0):
    doc = []
    for _ in range(rng.randrange(1, maxpara + 1)):
        keys = rng.sample(KEYS, rng.randrange(1, min(maxfield, len(KEYS)) + 1))
        para = []
        for k in keys:
            if k.endswith(b":"):
                k = k[:-1] + b"c"
            first = rand_line(rng, long=rng.random() < long)
            conts = []
            if rng.random() < 0.5:
                for _ in range(rng.randrange(1, maxcont + 1)):
                    c = rand_line(rng, indent=True, long=rng.random() < long)
                    if c == b".":
                        c = b".."
                    conts.append(c)
            para.append((k, first, conts))
        doc.append(para)
    return doc


def render(doc, rng, free=True):
    """layout: per line LF/CRLF, blanks around the colon and at line ends, space or tab markers, comments,
    blank-line runs, final newline present or not"""
    def eol():
        return b"\r\n" if free and rng.random() < 0.25 else b"\n"

    def pad(p=0.3):
        if not free or rng.random() > p:
            return b""
        return rng.choice([b" ", b"  ", b"\t", b" \t"])

    def comment():
        if free and rng.random() < 0.15:
            return b"#" + rng.choice([b"", b" a comment", b"Key: value", b" \t"]) + eol()
        return b""

    out = b""
    # leading skippable lines
    if free:
        for _ in range(rng.randrange(0, 3)):
            out += rng.choice([b"\n", b"\r\n", b"# c\n", b"  \n", b"\t\r\n"])
    for pi, para in enumerate(doc):
        for k, first, conts in para:
            out += comment()
            out += k + pad(0.15) + b":" + (pad(0.7) if free else b" ") + first + pad(0.2) + eol()
            for c in conts:
                out += comment()
                out += (rng.choice([b" ", b"\t"]) if free else b" ") + (c if c != b"" else b".") + pad(0.2) + eol()
        last = pi == len(doc) - 1
        if not last or (free and rng.random() < 0.5):
            out += eol()       # the terminating blank line must be really empty
            if free:
                for _ in range(rng.randrange(0, 3)):
                    out += rng.choice([b"\n", b"\r\n", b"# c\n", b"   \n"])
    if free and rng.random() < 0.3 and out.endswith(b"\n") and not out.endswith(b"\n\n") and not out.endswith(b"\n\r\n"):
        # drop the final newline (only when the last line is a content line)
        body = out[:-1]
        if body.endswith(b"\r"):
            body = body[:-1]
        if body and not body.endswith(b"\n"):
            out = body
    return out
