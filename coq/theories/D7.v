(* C05 (dependencies), part A: whatever the parser returns is well-formed (wf_dep of D4), given no blank architecture *)
From Coq Require Import List Ascii String ZArith NArith Lia Bool Arith.
Require A1.
Require Import D3 D4 D5.
Import ListNotations.

(* ---------- architecture names: characters of the rendering come from the source word ---------- *)
Section ArchChars.
  Variable P : ascii -> bool.
  Hypothesis Pdash : P A1.dash = true.
  Hypothesis Pgnu : forallb P A1.gnu = true.
  Hypothesis Plinux : forallb P A1.linux = true.
  Hypothesis Pany : forallb P A1.any = true.

  Lemma forallb_rev' l : forallb P l = true -> forallb P (rev l) = true.
  Proof. rewrite !forallb_forall. intros H x Hx. apply H. now apply in_rev. Qed.

  Lemma split_pieces : forall x n cur, forallb P cur = true -> forallb P x = true ->
    Forall (fun p => forallb P p = true) (A1.split_dash n cur x).
  Proof.
    induction x as [|c r IH]; intros n cur Hc Hx; cbn [A1.split_dash].
    - constructor; [now apply forallb_rev'|constructor].
    - cbn in Hx. apply andb_true_iff in Hx as [Hc0 Hr]. destruct n as [|[|k]].
      + constructor; [|constructor]. rewrite forallb_app. rewrite (forallb_rev' cur Hc). cbn. now rewrite Hc0, Hr.
      + constructor; [|constructor]. rewrite forallb_app. rewrite (forallb_rev' cur Hc). cbn. now rewrite Hc0, Hr.
      + destruct (A1.is_dash c).
        * constructor; [now apply forallb_rev'|]. now apply IH.
        * apply IH; [cbn; now rewrite Hc0, Hc|exact Hr].
  Qed.

  Lemma parse_arch_chars q : forallb P q = true ->
    forallb P (A1.abi (A1.parse_arch q)) = true /\ forallb P (A1.os (A1.parse_arch q)) = true /\ forallb P (A1.cpu (A1.parse_arch q)) = true.
  Proof.
    intros Hq. unfold A1.parse_arch. pose proof (split_pieces q 3 [] eq_refl Hq) as F.
    destruct (A1.split_dash 3 [] q) as [|p1 [|p2 [|p3 [|p4 l]]]].
    - cbn [A1.abi A1.os A1.cpu A1.mk]. repeat split; exact Pany.
    - inversion F as [|? ? H1 F2]; subst. destruct (A1.str_eqb p1 A1.all || A1.str_eqb p1 A1.any);
        cbn [A1.abi A1.os A1.cpu A1.mk]; repeat split; assumption.
    - inversion F as [|? ? H1 F2]; subst. inversion F2 as [|? ? H2 F3]; subst. cbn [A1.abi A1.os A1.cpu A1.mk].
      destruct (A1.str_eqb p1 A1.any || A1.str_eqb p2 A1.any); repeat split; assumption.
    - inversion F as [|? ? H1 F2]; subst. inversion F2 as [|? ? H2 F3]; subst. inversion F3 as [|? ? H3 F4]; subst.
      cbn [A1.abi A1.os A1.cpu A1.mk]. repeat split; assumption.
    - cbn [A1.abi A1.os A1.cpu A1.mk]. repeat split; exact Pany.
  Qed.

  Lemma arch_string_chars a : forallb P (A1.abi a) = true -> forallb P (A1.os a) = true -> forallb P (A1.cpu a) = true ->
    forallb P (A1.arch_string a) = true.
  Proof.
    intros Ha Ho Hc. unfold A1.arch_string.
    destruct (_ && _ && _); [reflexivity|]. destruct (_ && _ && _); [exact Hc|].
    destruct (_ && _ && _ && _ && _ && _); [exact Hc|]. destruct (_ || _).
    - unfold A1.join2. rewrite forallb_app. cbn [forallb].
      apply andb_true_iff; split; [exact Ho|]. apply andb_true_iff; split; [exact Pdash|exact Hc].
    - unfold A1.join3. rewrite forallb_app. cbn [forallb]. rewrite forallb_app. cbn [forallb].
      apply andb_true_iff; split; [exact Ha|]. apply andb_true_iff; split; [exact Pdash|].
      apply andb_true_iff; split; [exact Ho|]. apply andb_true_iff; split; [exact Pdash|exact Hc].
  Qed.

  Lemma arch_src_chars q : forallb P q = true -> forallb P (A1.arch_string (A1.parse_arch q)) = true.
  Proof. intros H. destruct (parse_arch_chars q H) as (A&B&C). now apply arch_string_chars. Qed.
End ArchChars.

(* a non-zero triple never renders as the empty word *)
Lemma arch_string_nonempty a : A1.arch_string a = [] -> A1.abi a = [] /\ A1.os a = [] /\ A1.cpu a = [].
Proof.
  unfold A1.arch_string.
  match goal with |- (if ?c then _ else _) = [] -> _ => destruct c eqn:Z end.
  - intros _. apply andb_true_iff in Z as [Z Z3]. apply andb_true_iff in Z as [Z1 Z2].
    destruct (A1.str_eqb_spec (A1.abi a) []); [|discriminate]. destruct (A1.str_eqb_spec (A1.os a) []); [|discriminate].
    destruct (A1.str_eqb_spec (A1.cpu a) []); [|discriminate]. auto.
  - match goal with |- (if ?c then _ else _) = [] -> _ => destruct c eqn:C1 end.
    + intros E. exfalso. apply andb_true_iff in C1 as [_ C1]. rewrite E in C1. discriminate.
    + match goal with |- (if ?c then _ else _) = [] -> _ => destruct c eqn:C2 end.
      * intros E. exfalso. apply andb_true_iff in C2 as [_ C2]. rewrite E in C2. discriminate.
      * match goal with |- (if ?c then _ else _) = [] -> _ => destruct c eqn:C3 end;
          unfold A1.join2, A1.join3; intros E; apply app_eq_nil in E as [_ E]; discriminate.
Qed.

(* ---------- scanner outputs ---------- *)
Definition arch_from (P : ascii -> bool) (a : arch) : Prop := exists q, forallb P q = true /\ arch_ok q = true /\ a = parse_arch q.
Lemma arch_named_inv name i a r : arch_named name i = Ok (a, r) -> arch_ok name = true /\ a = parse_arch name /\ r = i.
Proof. unfold arch_named. destruct (arch_ok name); [|discriminate]. intros E. inversion E. auto. Qed.

Lemma substvar_inv : forall i name p r, substvar_loop name i = Ok (p, r) -> forallb subc name = true -> wf_subst p.
Proof.
  induction i as [|c i IH]; intros name p r; cbn [substvar_loop]; [discriminate|].
  destruct (bad_in_substvar c) eqn:C0; [discriminate|]. destruct (eqc c 125) eqn:C125.
  - cbv zeta. destruct (_ || _ || _); [|discriminate]. intros E H. inversion E; subst. constructor; cbn; auto.
  - intros E H. apply (IH _ _ _ E). rewrite forallb_app, H. cbn. unfold subc. now rewrite C0, C125.
Qed.

Lemma multiarch_inv : forall i name a r, multiarch_loop name i = Ok (a, r) -> forallb mac name = true ->
  arch_from mac a /\ multiarch_stop (peek r) = true.
Proof.
  induction i as [|c i IH]; intros name a r; cbn [multiarch_loop].
  - intros E H. apply arch_named_inv in E as (O&->&->). split; [exists name; auto|reflexivity].
  - destruct (multiarch_stop c) eqn:S.
    + intros E H. apply arch_named_inv in E as (O&->&->). split; [exists name; auto|exact S].
    + intros E H. apply (IH _ _ _ E). rewrite forallb_app, H. cbn. unfold mac. now rewrite S.
Qed.

Lemma arch_name_inv : forall i name a r, arch_name_loop name i = Ok (a, r) -> forallb archc name = true -> arch_from archc a.
Proof.
  induction i as [|c i IH]; intros name a r; cbn [arch_name_loop]; [discriminate|].
  destruct (bad_in_arch c) eqn:C0; [discriminate|]. destruct (eqc c 33) eqn:C33; [discriminate|].
  destruct (eqc c 93 || is_ws c) eqn:S.
  - intros E H. apply arch_named_inv in E as (O&->&_). exists name. auto.
  - intros E H. apply (IH _ _ _ E). rewrite forallb_app, H. cbn. unfold archc. apply orb_false_iff in S as [S1 S2].
    now rewrite C0, C33, S1, S2.
Qed.

(* right-trimming of the version number *)
Definition rtrim (x : str) : str := rev (eat_ws (rev x)).
Lemma eat_ws_suffix : forall x, exists w, x = w ++ eat_ws x /\ forallb is_ws w = true.
Proof.
  induction x as [|c r IH]; [exists []; auto|]. cbn [eat_ws]. destruct (is_ws c) eqn:W.
  - destruct IH as (w&E&F). exists (c :: w). split; [cbn; now rewrite <- E|cbn; now rewrite W, F].
  - exists []. auto.
Qed.
Lemma eat_ws_idem x : eat_ws (eat_ws x) = eat_ws x.
Proof. apply eat_ws_id_local. apply eat_ws_head. Qed.
Lemma rtrim_idem x : rtrim (rtrim x) = rtrim x.
Proof. unfold rtrim. now rewrite rev_involutive, eat_ws_idem. Qed.
Lemma forallb_rev P (l : str) : forallb P l = true -> forallb P (rev l) = true.
Proof. rewrite !forallb_forall. intros H x Hx. apply H. now apply in_rev. Qed.
Lemma eat_ws_forallb P x : forallb P x = true -> forallb P (eat_ws x) = true.
Proof.
  induction x as [|c r IH]; [auto|]. cbn. intros H. apply andb_true_iff in H as [H1 H2].
  destruct (is_ws c); [auto|]. cbn. now rewrite H1, H2.
Qed.
Lemma rtrim_forallb P x : forallb P x = true -> forallb P (rtrim x) = true.
Proof. intros H. unfold rtrim. apply forallb_rev, eat_ws_forallb, forallb_rev, H. Qed.
(* trimming on the right keeps a non-blank first character *)
Lemma rtrim_head c x : is_ws c = false -> exists y, rtrim (c :: x) = c :: y.
Proof.
  intros W. unfold rtrim. cbn [rev]. destruct (eat_ws_suffix (rev x ++ [c])) as (w&E&F).
  (* eat_ws (rev x ++ [c]) is non-empty and ends with c *)
  assert (G : forall z, exists y, eat_ws (z ++ [c]) = y ++ [c]).
  { induction z as [|a z IHz]; cbn [app eat_ws]; [rewrite W; now exists []|].
    destruct (is_ws a); [exact IHz|now exists (a :: z)]. }
  destruct (G (rev x)) as (y&->). rewrite rev_app_distr. cbn. now exists (rev y).
Qed.

Lemma number_inv : forall i num n r, number_loop num i = Ok (n, r) -> forallb numc num = true ->
  exists full, n = rtrim full /\ forallb numc full = true /\ (exists t, full = num ++ t).
Proof.
  induction i as [|c i IH]; intros num n r; cbn [number_loop]; [discriminate|].
  destruct (bad_in_number c) eqn:C0; [discriminate|]. destruct (eqc c 41) eqn:C41.
  - intros E H. inversion E; subst. exists num. split; [reflexivity|]. split; [exact H|]. exists []. now rewrite app_nil_r.
  - intros E H. destruct (IH _ _ _ E) as (full&A&B&(t&C)).
    + rewrite forallb_app, H. cbn. unfold numc. now rewrite C0, C41.
    + exists full. split; [exact A|]. split; [exact B|]. exists (c :: t). rewrite C. now rewrite <- app_assoc.
Qed.

Lemma eqc_true c n : eqc c n = true -> c = ch n.
Proof. unfold eqc, code, ch. intros H. apply N.eqb_eq in H. rewrite <- H. symmetry. apply ascii_N_embedding. Qed.

Lemma parse_operator_inv i op r : parse_operator i = Ok (op, r) -> In op ops.
Proof.
  unfold parse_operator. destruct (eqc (peek (eat_ws i)) 61).
  - destruct (_ || _); [discriminate|]. intros E. inversion E; subst. now left.
  - destruct (_ || _); [discriminate|].
    set (l := peek (eat_ws i)). set (m := peek (adv (eat_ws i))).
    set (third := eqc (peek (adv (adv (eat_ws i)))) 61 || eqc (peek (adv (adv (eat_ws i)))) 60 || eqc (peek (adv (adv (eat_ws i)))) 62).
    destruct (eqc l 62 && eqc m 61) eqn:A.
    { cbn [orb]. destruct third; [discriminate|]. intros E. inversion E; subst. apply andb_true_iff in A as [A1 A2].
      rewrite (eqc_true _ _ A1), (eqc_true _ _ A2). right. left. reflexivity. }
    destruct (eqc l 60 && eqc m 61) eqn:B.
    { cbn [orb]. destruct third; [discriminate|]. intros E. inversion E; subst. apply andb_true_iff in B as [A1 A2].
      rewrite (eqc_true _ _ A1), (eqc_true _ _ A2). right. right. left. reflexivity. }
    destruct (eqc l 60 && eqc m 60) eqn:C.
    { cbn [orb]. destruct third; [discriminate|]. intros E. inversion E; subst. apply andb_true_iff in C as [A1 A2].
      rewrite (eqc_true _ _ A1), (eqc_true _ _ A2). right. right. right. left. reflexivity. }
    destruct (eqc l 62 && eqc m 62) eqn:D; [|discriminate].
    cbn [orb]. destruct third; [discriminate|]. intros E. inversion E; subst. apply andb_true_iff in D as [A1 A2].
    rewrite (eqc_true _ _ A1), (eqc_true _ _ A2). right. right. right. right. left. reflexivity.
Qed.

Lemma parse_version_inv i v r : parse_version i = Ok (v, r) -> wf_ver v.
Proof.
  unfold parse_version. destruct (parse_operator _) as [[op k]| |] eqn:O; try discriminate.
  destruct (number_loop [] (eat_ws k)) as [[n m]| |] eqn:N; try discriminate.
  intros E. inversion E; subst. clear E. pose proof (parse_operator_inv _ _ _ O) as Hop.
  destruct (number_inv _ _ _ _ N eq_refl) as (full&En&Hf&(t&Et)). cbn [app] in Et. subst t.
  constructor; cbn [v_op v_num].
  - exact Hop.
  - subst n. now apply rtrim_forallb.
  - (* the first character of the number is the non-blank head of the input *)
    pose proof (eat_ws_head k) as Hh. destruct (eat_ws k) as [|c j] eqn:Ek; [cbn in N; discriminate|].
    cbn [peek] in Hh. cbn [number_loop] in N. destruct (bad_in_number c) eqn:C0; [discriminate|]. destruct (eqc c 41) eqn:C41.
    + inversion N; subst. reflexivity.
    + destruct (number_inv _ _ _ _ N) as (full2&En2&_&(t2&Et2)).
      { cbn. unfold numc. now rewrite C0, C41. }
      subst full2. cbn [app enc] in En2. destruct (rtrim_head c t2 Hh) as (y&Ey). rewrite En2, Ey. unfold headok. cbn. exact Hh.
  - subst n. unfold rtrim. now rewrite rev_involutive, eat_ws_idem.
Qed.

(* ---------- architecture list ---------- *)
Definition set_inv (a : archset) : Prop := (a_list a = [] -> a_not a = false) /\ Forall (arch_from archc) (a_list a).

Lemma parse_one_arch_inv set i s' r : parse_one_arch set i = Ok (s', r) -> set_inv set -> set_inv s' /\ a_list s' <> [].
Proof.
  unfold parse_one_arch. intros E [I1 I2].
  destruct (match a_list set with [] => _ | _ => _ end) as [nt|]; [|discriminate].
  destruct (arch_name_loop [] _) as [[a k]| |] eqn:N; try discriminate. inversion E; subst. cbn [a_list a_not].
  split; [split|].
  - intros H. apply app_eq_nil in H as [_ H]. discriminate.
  - apply Forall_app. split; [exact I2|]. constructor; [|constructor]. eapply arch_name_inv; eauto.
  - intros H. apply app_eq_nil in H as [_ H]. discriminate.
Qed.

Lemma archs_loop_inv : forall f set i s' r, archs_loop f set i = Ok (s', r) -> set_inv set -> set_inv s'.
Proof.
  induction f as [|f IH]; intros set i s' r E I; [discriminate|]. rewrite archs_loop_S in E.
  destruct (eat_ws i) as [|c x]; [discriminate|]. destruct (eqc c 0); [discriminate|]. destruct (eqc c 93).
  - inversion E; subst. exact I.
  - destruct (parse_one_arch set (c :: x)) as [[s1 i1]| |] eqn:P; try discriminate.
    destruct (parse_one_arch_inv _ _ _ _ P I) as [I1 _]. eapply IH; eauto.
Qed.

(* ---------- profile groups ---------- *)
Lemma stage_loop_inv : forall i st st' r, stage_loop st i = Ok (st', r) -> forallb stagec (s_name st) = true ->
  forallb stagec (s_name st') = true /\ (s_not st = true -> s_not st' = true) /\ (s_name st <> [] -> s_name st' <> []).
Proof.
  induction i as [|c i IH]; intros st st' r; cbn [stage_loop]; [discriminate|].
  destruct (bad_in_stage c) eqn:C0; [discriminate|]. destruct (eqc c 33) eqn:C33.
  - destruct (s_not st) eqn:Sn; [discriminate|]. intros E H. destruct (IH _ _ _ E H) as (A&B&C). cbn [s_not s_name] in *.
    split; [exact A|]. split; [discriminate|exact C].
  - destruct (eqc c 62 || is_ws c) eqn:S.
    + intros E H. inversion E; subst. auto.
    + intros E H. apply orb_false_iff in S as [S1 S2].
      destruct (IH _ _ _ E) as (A&B&C).
      { cbn [s_name]. rewrite forallb_app, H. cbn. unfold stagec. now rewrite C0, C33, S1, S2. }
      cbn [s_not s_name] in *. split; [exact A|]. split; [exact B|]. intros _. apply C. intros H0. apply app_eq_nil in H0 as [_ H0]. discriminate.
Qed.

Lemma stage_first i st' r : i <> [] -> is_ws (peek i) = false -> eqc (peek i) 62 = false ->
  stage_loop {| s_not := false; s_name := [] |} i = Ok (st', r) -> wf_stage st'.
Proof.
  intros Hne Hw H62. destruct i as [|c i]; [congruence|]. cbn [peek] in *. cbn [stage_loop].
  destruct (bad_in_stage c) eqn:C0; [discriminate|]. destruct (eqc c 33) eqn:C33.
  - cbn [s_not]. intros E. destruct (stage_loop_inv _ _ _ _ E eq_refl) as (A&B&_). constructor; [exact A|].
    intros Hn. rewrite (B eq_refl) in Hn. discriminate.
  - rewrite H62, Hw. cbn [orb]. intros E.
    destruct (stage_loop_inv _ _ _ _ E) as (A&_&C).
    { cbn. unfold stagec. now rewrite C0, C33, H62, Hw. }
    constructor; [exact A|]. intros _. apply C. discriminate.
Qed.

Lemma stageset_loop_inv : forall f acc i a r, stageset_loop f acc i = Ok (a, r) -> Forall wf_stage acc -> Forall wf_stage a.
Proof.
  induction f as [|f IH]; intros acc i a r E I; [discriminate|]. rewrite stageset_loop_S in E.
  pose proof (eat_ws_head i) as Hh.
  destruct (eat_ws i) as [|c x] eqn:Ei; [discriminate|]. destruct (eqc c 0); [discriminate|]. destruct (eqc c 62) eqn:C62.
  - inversion E; subst. exact I.
  - destruct (stage_loop _ (c :: x)) as [[st i1]| |] eqn:P; try discriminate.
    assert (W : wf_stage st) by (eapply (stage_first (c :: x)); eauto; discriminate).
    eapply IH; [exact E|]. apply Forall_app. split; [exact I|]. constructor; [exact W|constructor].
Qed.

(* ---------- a possibility under construction ---------- *)
Record pinv (p : possi) : Prop := {
  i_subst : p_subst p = false;
  i_chars : forallb namec (p_name p) = true;
  i_dollar : p_name p <> [] -> eqc (peek (p_name p)) 36 = false;
  i_arch : match p_arch p with None => True | Some a => arch_from mac a end;
  i_archs : exists a, p_archs p = Some a /\ set_inv a;
  i_ver : match p_ver p with None => True | Some v => wf_ver v end;
  i_stages : Forall (fun st => st <> [] /\ Forall wf_stage st) (p_stages p) }.

Lemma controllers_inv : forall f p i p' r, controllers f p i = Ok (p', r) -> pinv p -> pinv p'.
Proof.
  induction f as [|f IH]; intros p i p' r E I; [discriminate|]. rewrite controllers_S in E. cbv zeta in E.
  destruct (_ || _ || _); [inversion E; subst; exact I|]. destruct (eqc _ 40).
  - destruct (p_ver p) eqn:Pv; [discriminate|]. destruct (parse_version _) as [[v k]| |] eqn:PV; try discriminate.
    eapply IH; [exact E|]. destruct I as [A B C D F G H]. constructor; cbn; auto. eapply parse_version_inv; eauto.
  - destruct (eqc _ 91).
    + destruct (a_list (archs_of p)) eqn:Al; [|discriminate]. unfold parse_archs in E.
      destruct (archs_loop f (archs_of p) _) as [[a k]| |] eqn:AL; try discriminate.
      eapply IH; [exact E|]. destruct I as [A B C D (a0&Ea&Ia) G H]. constructor; cbn; auto.
      exists a. split; [reflexivity|]. eapply archs_loop_inv; [exact AL|]. unfold archs_of. rewrite Ea. exact Ia.
    + destruct (eqc _ 60); [|discriminate]. unfold parse_stageset in E.
      destruct (stageset_loop f [] _) as [[st k]| |] eqn:SL; try discriminate.
      eapply IH; [exact E|]. pose proof (stageset_loop_inv _ _ _ _ _ SL (Forall_nil _)) as Ws.
      destruct st as [|s0 st']; [exact I|]. destruct I as [A B C D F G H]. constructor; cbn; auto.
      apply Forall_app. split; [exact H|]. constructor; [|constructor]. split; [discriminate|exact Ws].
Qed.

Lemma controllers_stop : forall f p i p' r, controllers f p i = Ok (p', r) -> stop3 (peek r) = true.
Proof.
  induction f as [|f IH]; intros p i p' r E; [discriminate|]. rewrite controllers_S in E. cbv zeta in E.
  destruct (eqc (peek (eat_ws i)) 44 || eqc (peek (eat_ws i)) 124 || eqc (peek (eat_ws i)) 0) eqn:St.
  - inversion E; subst. exact St.
  - destruct (eqc _ 40).
    + destruct (p_ver p); [discriminate|]. destruct (parse_version _) as [[v k]| |]; try discriminate. eapply IH; eauto.
    + destruct (eqc _ 91).
      * destruct (a_list (archs_of p)); [|discriminate]. destruct (parse_archs f _ _) as [[a k]| |]; try discriminate. eapply IH; eauto.
      * destruct (eqc _ 60); [|discriminate]. destruct (parse_stageset f _) as [[st k]| |]; try discriminate. eapply IH; eauto.
Qed.

Lemma not_dollar c : (stop3 c = true \/ multiarch_stop c = true) -> eqc c 36 = false.
Proof.
  pose proof (D4.by_enum (fun c => negb (stop3 c || multiarch_stop c) || negb (eqc c 36)) eq_refl c) as F. cbv beta in F.
  intros [H|H]; rewrite H in F; rewrite ?orb_true_r in F; cbn in F; now apply negb_true_iff in F.
Qed.

Definition good (p : possi) : Prop := (pinv p /\ p_name p <> []) \/ wf_subst p.

Lemma possi_loop_inv : forall f p rel i rel' r, possi_loop f p rel i = Ok (rel', r) ->
  pinv p -> (p_name p = [] -> eqc (peek i) 36 = false) -> Forall good rel -> Forall good rel'.
Proof.
  induction f as [|f IH]; intros p rel i rel' r E I J G; [discriminate|]. rewrite possi_loop_S in E. cbv zeta in E.
  destruct (eqc (peek i) 58) eqn:H58.
  - unfold parse_multiarch in E. destruct (multiarch_loop [] (adv i)) as [[a i1]| |] eqn:M; try discriminate.
    destruct (multiarch_inv _ _ _ _ M eq_refl) as [Af St].
    eapply IH; [exact E| | |exact G].
    + destruct I as [A B C D F H K]. constructor; cbn; auto.
    + intros _. apply not_dollar. now right.
  - destruct (is_ws (peek i) || eqc (peek i) 40 || eqc (peek i) 91 || eqc (peek i) 60) eqn:HC.
    + destruct (controllers f p i) as [[p1 i1]| |] eqn:C; try discriminate.
      eapply IH; [exact E|eapply controllers_inv; eauto| |exact G].
      intros _. apply not_dollar. left. eapply controllers_stop; eauto.
    + destruct (eqc (peek i) 44 || eqc (peek i) 124 || eqc (peek i) 0) eqn:St.
      * destruct (p_name p) eqn:Pn; inversion E; subst; [exact G|].
        apply Forall_app. split; [exact G|]. constructor; [|constructor]. left. split; [exact I|]. rewrite Pn. discriminate.
      * eapply IH; [exact E| | |exact G].
        -- destruct I as [A B C D F H K]. apply orb_false_iff in HC as [HC H60]. apply orb_false_iff in HC as [HC H91]. apply orb_false_iff in HC as [HW H40].
           constructor; cbn [add_name p_subst p_name p_arch p_archs p_ver p_stages]; auto.
           ++ rewrite forallb_app, B. cbn. unfold namec, D4.stop3. now rewrite H58, HW, H40, St, H91, H60.
           ++ intros _. destruct (p_name p) as [|c0 n0] eqn:Pn.
              ** cbn. apply J. reflexivity.
              ** cbn. apply C. discriminate.
        -- cbn [add_name p_name]. intros H0. apply app_eq_nil in H0 as [_ H0]. discriminate.
Qed.

Lemma fresh_pinv : pinv fresh.
Proof.
  constructor; cbn [fresh p_subst p_name p_arch p_archs p_ver p_stages]; auto.
  exists {| a_not := false; a_list := [] |}. split; [reflexivity|]. split; [auto|constructor].
Qed.

Lemma parse_possibility_inv f rel i rel' r : parse_possibility f rel i = Ok (rel', r) -> Forall good rel -> Forall good rel'.
Proof.
  unfold parse_possibility. destruct (eqc (peek (eat_ws i)) 36) eqn:H36.
  - unfold parse_substvar. destruct (substvar_loop [] _) as [[p k]| |] eqn:S; try discriminate.
    intros E G. inversion E; subst. apply Forall_app. split; [exact G|]. constructor; [|constructor]. right. eapply substvar_inv; eauto.
  - intros E G. apply guard_ok_inv in E. eapply possi_loop_inv; [exact E|apply fresh_pinv| |exact G]. intros _. exact H36.
Qed.

Definition good_rel (r : relation) : Prop := r <> [] /\ Forall good r.

Lemma relation_loop_inv : forall f rel d i d' r, relation_loop f rel d i = Ok (d', r) ->
  Forall good rel -> Forall good_rel d -> Forall good_rel d'.
Proof.
  induction f as [|f IH]; intros rel d i d' r E G Gd; [discriminate|]. rewrite D5.relation_loop_S in E.
  destruct (_ || _).
  - inversion E; subst. destruct rel as [|p0 rel0]; [exact Gd|]. apply Forall_app. split; [exact Gd|].
    constructor; [|constructor]. split; [discriminate|exact G].
  - destruct (eqc _ 124); [eapply IH; eauto|].
    destruct (parse_possibility f rel i) as [[rel1 k]| |] eqn:PP; try discriminate.
    eapply IH; [exact E| |exact Gd]. eapply parse_possibility_inv; eauto.
Qed.

Lemma dependency_loop_inv : forall f d i d', dependency_loop f d i = Ok d' -> Forall good_rel d -> Forall good_rel d'.
Proof.
  induction f as [|f IH]; intros d i d' E Gd; [discriminate|]. rewrite D5.dependency_loop_S in E.
  destruct (eqc _ 0); [inversion E; subst; exact Gd|]. destruct (eqc _ 44); [eapply IH; eauto|].
  destruct (relation_loop f [] d (eat_ws i)) as [[d1 k]| |] eqn:RL; try discriminate.
  eapply IH; [exact E|]. eapply relation_loop_inv; [exact RL|constructor|exact Gd].
Qed.

Theorem parse_good x d : parse x = Ok d -> Forall good_rel d.
Proof. unfold parse. intros E. eapply dependency_loop_inv; [exact E|constructor]. Qed.
