(* C04: as D9-D11, with any run of blanks before '|' and ',' as well *)
From Coq Require Import List Ascii String Bool Arith NArith Lia.
Require Import A1 D3 D4 D5 D6 D14 D9 D10.
Import ListNotations.

Theorem controllers_any_order_ws : forall cl p we rest', clauses_ok p cl -> all_ws we -> stop3 (peek rest') = true ->
  evOk (fun f => controllers f p (clauses_text cl ++ we ++ rest')) (fold_left apply_clause (map snd cl) p, rest').
Proof.
  induction cl as [|[w c] cl IH]; intros p we rest' W Hwe St.
  - exists 1%nat. intros [|f] Hf; [lia|]. cbn [clauses_text map List.concat app fold_left].
    rewrite (controllers_ws (S f) p we rest' Hwe). apply controllers_end. left. auto.
  - inversion W as [|? ? ? ? Hw Hc Wr]; subst. specialize (IH (apply_clause p c) we rest' Wr Hwe St).
    unfold clauses_text in *. cbn [map List.concat fst snd fold_left]. rewrite <- !app_assoc.
    eapply evOk_ext; [intros f; apply (controllers_ws_norm f p w _ Hw)|].
    destruct c as [w1 w2 w3 v|nt w0 items|w0 items]; cbn [clause_text apply_clause clause_ok] in *.
    + destruct Hc as (A1&A2&A3&Wv&Hnn&Hn). now apply controllers_ver1.
    + destruct Hc as (Hl&Wa&Sp&Hw0&He). now apply controllers_archs_ws.
    + destruct Hc as (Hl&Ws&Sp&Hw0). now apply controllers_stage_ws.
Qed.

Lemma ws_head w rest : all_ws w -> w <> [] -> is_ws (peek (w ++ rest)) = true.
Proof. intros H NE. destruct w as [|c w]; [congruence|]. inversion H; subst. assumption. Qed.

Lemma stop_or_ws_multiarch c : stop3 c = true \/ is_ws c = true -> multiarch_stop c = true.
Proof.
  pose proof (by_enum (fun c => negb (stop3 c || is_ws c) || multiarch_stop c) eq_refl c) as F. cbv beta in F.
  intros [H|H]; rewrite H in F; cbn in F; rewrite ?orb_true_r in F; exact F.
Qed.

Theorem possi_any_order_ws name q cl rel we rest' :
  name <> [] -> forallb namec name = true -> eqc (peek name) 36 = false ->
  (match q with None => True | Some a => forallb mac (arch_string a) = true /\ parse_arch (arch_string a) = a /\ arch_ok (arch_string a) = true end) ->
  clauses_ok (base name q) cl -> all_ws we -> stop3 (peek rest') = true ->
  evOk (fun f => parse_possibility f rel (name ++ qual_text q ++ clauses_text cl ++ we ++ rest'))
       (rel ++ [result name q cl], rest').
Proof.
  intros Hne Hc Hd Ha W Hwe St.
  assert (Hend : forall f p, p_name p <> [] -> possi_loop (S f) p rel rest' = Ok (rel ++ [p], rest')).
  { intros f p Hq. cbn [possi_loop].
    pose proof (by_enum (fun c => negb (stop3 c) || (negb (eqc c 58) && negb (ctlhead c))) eq_refl (peek rest')) as F.
    cbv beta in F. rewrite St in F. cbn in F. apply andb_true_iff in F as [F1 F2].
    apply negb_true_iff in F1, F2. rewrite F1. fold (ctlhead (peek rest')). rewrite F2. pose proof St as St'. unfold stop3 in St'. rewrite St'.
    destruct (p_name p); [congruence|reflexivity]. }
  assert (Rn : p_name (result name q cl) <> []) by (unfold result; rewrite fold_name; exact Hne).
  destruct (controllers_any_order_ws cl (base name q) we rest' W Hwe St) as (f1&H1).
  set (T := clauses_text cl ++ we ++ rest') in *.
  assert (HeadT : (T = rest' /\ cl = [] /\ we = []) \/ ctlhead (peek T) = true).
  { subst T. destruct cl as [|wc cl'].
    - cbn [clauses_text map List.concat app]. destruct we as [|c we']; [left; auto|right]. unfold ctlhead. rewrite ws_head; [reflexivity|exact Hwe|discriminate].
    - right. apply (clauses_head _ _ _ W). discriminate. }
  assert (Fin : evOk (fun f => possi_loop f (base name q) rel T) (rel ++ [result name q cl], rest')).
  { destruct HeadT as [(ET&Ecl&Ewe)|Hw].
    - rewrite ET. subst cl. exists 1%nat. intros [|f] Hf; [lia|]. apply Hend. exact Hne.
    - exists (S (S f1)). intros [|[|f]] Hf; try lia. cbn [possi_loop].
      destruct (ctlhead_facts _ Hw) as [C58 _].
      rewrite C58. fold (ctlhead (peek T)). rewrite Hw. rewrite (H1 (S f) ltac:(lia)). apply Hend. exact Rn. }
  destruct Fin as (f2&H2).
  destruct name as [|c0 n0] eqn:En; [congruence|].
  assert (Hc0 : namec c0 = true) by (cbn in Hc; now apply andb_true_iff in Hc as [? _]).
  destruct (namec_head_facts c0 Hc0) as (W0&S0&_&_).
  exists (List.length (c0 :: n0) + S (S f2))%nat. intros f Hf.
  replace f with (List.length (c0 :: n0) + (f - List.length (c0 :: n0)))%nat by lia.
  set (g := (f - List.length (c0 :: n0))%nat). assert (Hg : (S (S f2) <= g)%nat) by (subst g; lia).
  unfold parse_possibility.
  rewrite eat_ws_id by (unfold headok; cbn; exact W0). cbn [app peek]. cbn in Hd. rewrite Hd.
  change (c0 :: n0 ++ qual_text q ++ T) with ((c0 :: n0) ++ qual_text q ++ T).
  rewrite (possi_loop_name (c0 :: n0) g fresh rel _ Hc). cbn [p_name fresh app].
  destruct q as [a|].
  - destruct Ha as (Hm&Hrt&Hok). destruct g as [|g]; [lia|]. cbn [qual_text app possi_loop peek].
    change (eqc (ch 58) 58) with true. cbv iota. unfold parse_multiarch. cbn [adv tl].
    assert (Hstop : multiarch_stop (peek T) = true).
    { destruct HeadT as [(ET&_&_)|Hw]; [apply stop_or_ws_multiarch; left; now rewrite ET|now destruct (ctlhead_facts _ Hw)]. }
    rewrite (multiarch_word (arch_string a) [] _ Hm Hstop). cbn [app]. rewrite (arch_named_ok _ _ Hok), Hrt.
    replace (set_arch (with_name fresh (c0 :: n0)) a) with (base (c0 :: n0) (Some a)) by reflexivity.
    rewrite H2 by lia. apply guard_added.
  - cbn [qual_text app]. replace (with_name fresh (c0 :: n0)) with (base (c0 :: n0) None) by reflexivity.
    rewrite H2 by lia. apply guard_added.
Qed.
Print Assumptions possi_any_order_ws.
