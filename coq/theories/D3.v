From Coq Require Import List Ascii String ZArith NArith Lia Bool Arith.
Require A1.
Import ListNotations.

Definition str := list ascii.
Definition code (c : ascii) : N := N_of_ascii c.
Definition ch (n : N) : ascii := ascii_of_N n.
Definition s (x : string) : str := list_ascii_of_string x.

Inductive outcome (A : Type) := Ok (a : A) | Err | OutOfFuel.
Arguments Ok {A} a. Arguments Err {A}. Arguments OutOfFuel {A}.

Definition eqc (c : ascii) (n : N) : bool := (code c =? n)%N.
Definition is_ws (c : ascii) : bool := eqc c 13 || eqc c 10 || eqc c 32 || eqc c 9.

(* input cursor: Peek returns 0 at EOF *)
Definition peek (i : str) : ascii := match i with c :: _ => c | [] => zero end.
Definition adv (i : str) : str := tl i.

Fixpoint eat_ws (i : str) : str :=
  match i with c :: r => if is_ws c then eat_ws r else i | [] => [] end.

(* ---- models.go ---- *)
Definition arch := A1.arch.
Definition abi := A1.abi. Definition os := A1.os. Definition cpu := A1.cpu.
Record archset := { a_not : bool; a_list : list arch }.
Record vrel := { v_num : str; v_op : str }.
Record stage := { s_not : bool; s_name : str }.
Record possi := { p_name : str; p_arch : option arch; p_archs : option archset;
                  p_stages : list (list stage); p_ver : option vrel; p_subst : bool }.
Definition relation := list possi.
Definition dep := list relation.

(* ---- arch.go / string.go for architectures: the definitions of A1, for which the round trip is proved ---- *)
Definition parse_arch : str -> arch := A1.parse_arch.
Definition arch_ok : str -> bool := A1.arch_ok.          (* ParseArch fails on a name with an empty component *)
Definition any : str := A1.any.

(* ---- parser.go ---- *)
(* string(input.Next()): a byte converted as a rune *)
Definition enc (c : ascii) : str := [c].

(* what ends a clause with an ERROR: the end of the input (a NUL), and - since the repair of the r14 finding "foo (>= 1.0, bar (>= 2.0)" -
   the separators ',' '|' and a further opening character of the clause's own kind: an unterminated clause does not swallow
   what follows it *)
Definition bad_in_substvar (c : ascii) : bool := eqc c 0 || eqc c 44 || eqc c 124 || eqc c 36.
Definition bad_in_number (c : ascii) : bool := eqc c 0 || eqc c 44 || eqc c 124 || eqc c 40.
Definition bad_in_arch (c : ascii) : bool := eqc c 0 || eqc c 44 || eqc c 124 || eqc c 91.
Definition bad_in_stage (c : ascii) : bool := eqc c 0 || eqc c 44 || eqc c 124 || eqc c 60.
(* parseSubstvar *)
Fixpoint substvar_loop (name : str) (i : str) : outcome (possi * str) :=
  match i with
  | [] => Err
  | c :: r => if bad_in_substvar c then Err
              else if eqc c 125 then
                (* a substvar is a whole alternative: blanks, then ',' '|' or the end (repair of the r12 finding "${foo} bar") *)
                let r' := eat_ws r in
                if eqc (peek r') 44 || eqc (peek r') 124 || eqc (peek r') 0 then
                  Ok ({| p_name := name; p_arch := None; p_archs := None; p_stages := [];
                         p_ver := None; p_subst := true |}, r')
                else Err
              else substvar_loop (name ++ enc c) r
  end.
Definition parse_substvar (i : str) : outcome (possi * str) :=
  substvar_loop [] (adv (adv (eat_ws i))).

(* parseMultiarch *)
Definition multiarch_stop (c : ascii) : bool :=
  eqc c 44 || eqc c 124 || eqc c 0 || is_ws c || eqc c 40 || eqc c 91 || eqc c 60.
Definition arch_named (name : str) (i : str) : outcome (arch * str) :=
  if arch_ok name then Ok (parse_arch name, i) else Err.
Fixpoint multiarch_loop (name : str) (i : str) : outcome (arch * str) :=
  match i with
  | [] => arch_named name []
  | c :: r => if multiarch_stop c then arch_named name i else multiarch_loop (name ++ enc c) r
  end.
Definition parse_multiarch (i : str) : outcome (arch * str) := multiarch_loop [] (adv i).

(* parsePossibilityOperator *)
Definition parse_operator (i : str) : outcome (str * str) :=
  let i := eat_ws i in
  let leader := peek i in let i := adv i in
  if eqc leader 61 then
    (* "==", "=<" and "=>" are not operators *)
    (if eqc (peek i) 61 || eqc (peek i) 60 || eqc (peek i) 62 then Err else Ok (s "=", i))
  else let secondary := peek i in let i := adv i in
       if eqc leader 0 || eqc secondary 0 then Err
       else if (eqc leader 62 && eqc secondary 61) || (eqc leader 60 && eqc secondary 61)
               || (eqc leader 60 && eqc secondary 60) || (eqc leader 62 && eqc secondary 62)
            then (* ... nor are ">==", "<<<", "<=>": a third operator character refuses the operator (repair b3668d3) *)
                 (if eqc (peek i) 61 || eqc (peek i) 60 || eqc (peek i) 62 then Err else Ok ([leader; secondary], i))
            else Err.

(* parsePossibilityNumber *)
Fixpoint number_loop (num : str) (i : str) : outcome (str * str) :=
  match i with
  | [] => Err
  | c :: r => if bad_in_number c then Err else if eqc c 41 then Ok (rev (eat_ws (rev num)), i) else number_loop (num ++ enc c) r
  end.

(* parsePossibilityVersion *)
Definition parse_version (i : str) : outcome (vrel * str) :=
  let i := adv (eat_ws i) in
  match parse_operator i with
  | Ok (op, i) =>
      match number_loop [] (eat_ws i) with
      | Ok (num, i) => Ok ({| v_num := num; v_op := op |}, adv i)
      | Err => Err | OutOfFuel => OutOfFuel
      end
  | Err => Err | OutOfFuel => OutOfFuel
  end.

(* parsePossibilityArch: inner name loop *)
Fixpoint arch_name_loop (name : str) (i : str) : outcome (arch * str) :=
  match i with
  | [] => Err
  | c :: r => if bad_in_arch c then Err else if eqc c 33 then Err
              else if eqc c 93 || is_ws c then arch_named name i
              else arch_name_loop (name ++ enc c) r
  end.
Definition parse_one_arch (set : archset) (i : str) : outcome (archset * str) :=
  let i := eat_ws i in
  let has_not := eqc (peek i) 33 in
  let i := if has_not then adv i else i in
  let check := match a_list set with [] => Some has_not
               | _ => if Bool.eqb (a_not set) has_not then Some (a_not set) else None end in
  match check with
  | None => Err
  | Some nt => match arch_name_loop [] i with
               | Ok (a, i) => Ok ({| a_not := nt; a_list := a_list set ++ [a] |}, i)
               | Err => Err | OutOfFuel => OutOfFuel end
  end.
(* parsePossibilityArchs *)
Fixpoint archs_loop (fuel : nat) (set : archset) (i : str) : outcome (archset * str) :=
  match fuel with O => OutOfFuel | S f =>
    match eat_ws i with
    | [] => Err
    | c :: r => if eqc c 0 then Err else if eqc c 93 then Ok (set, r)
                else match parse_one_arch set (eat_ws i) with
                     | Ok (set, i) => archs_loop f set i
                     | Err => Err | OutOfFuel => OutOfFuel end
    end end.
Definition parse_archs (fuel : nat) (set : archset) (i : str) := archs_loop fuel set (adv (eat_ws i)).

(* parsePossibilityStage *)
Fixpoint stage_loop (st : stage) (i : str) : outcome (stage * str) :=
  match i with
  | [] => Err
  | c :: r =>
      if bad_in_stage c then Err
      else if eqc c 33 then
        if s_not st then Err
        else stage_loop {| s_not := true; s_name := s_name st |} r
      else if eqc c 62 || is_ws c then Ok (st, i)
      else stage_loop {| s_not := s_not st; s_name := s_name st ++ enc c |} r
  end.
Fixpoint stageset_loop (fuel : nat) (acc : list stage) (i : str) : outcome (list stage * str) :=
  match fuel with O => OutOfFuel | S f =>
    match eat_ws i with
    | [] => Err
    | c :: r => if eqc c 0 then Err else if eqc c 62 then Ok (acc, r)
                else match stage_loop {| s_not := false; s_name := [] |} (eat_ws i) with
                     | Ok (st, i) => stageset_loop f (acc ++ [st]) i
                     | Err => Err | OutOfFuel => OutOfFuel end
    end end.
Definition parse_stageset (fuel : nat) (i : str) := stageset_loop fuel [] (adv (eat_ws i)).

(* parsePossibilityControllers *)
Definition archs_of (p : possi) : archset :=
  match p_archs p with Some a => a | None => {| a_not := false; a_list := [] |} end.
Definition set_ver p v := {| p_name := p_name p; p_arch := p_arch p; p_archs := p_archs p;
  p_stages := p_stages p; p_ver := Some v; p_subst := p_subst p |}.
Definition set_archs p a := {| p_name := p_name p; p_arch := p_arch p; p_archs := Some a;
  p_stages := p_stages p; p_ver := p_ver p; p_subst := p_subst p |}.
Definition add_stages p st := {| p_name := p_name p; p_arch := p_arch p; p_archs := p_archs p;
  p_stages := p_stages p ++ [st]; p_ver := p_ver p; p_subst := p_subst p |}.
Definition set_arch p a := {| p_name := p_name p; p_arch := Some a; p_archs := p_archs p;
  p_stages := p_stages p; p_ver := p_ver p; p_subst := p_subst p |}.
Definition add_name p c := {| p_name := p_name p ++ enc c; p_arch := p_arch p; p_archs := p_archs p;
  p_stages := p_stages p; p_ver := p_ver p; p_subst := p_subst p |}.

Fixpoint controllers (fuel : nat) (p : possi) (i : str) : outcome (possi * str) :=
  match fuel with O => OutOfFuel | S f =>
    let i := eat_ws i in
    let c := peek i in
    if eqc c 44 || eqc c 124 || eqc c 0 then Ok (p, i)
    else if eqc c 40 then
      match p_ver p with
      | Some _ => Err
      | None => match parse_version i with
                | Ok (v, i) => controllers f (set_ver p v) i
                | Err => Err | OutOfFuel => OutOfFuel end
      end
    else if eqc c 91 then
      match a_list (archs_of p) with
      | _ :: _ => Err
      | [] => match parse_archs f (archs_of p) i with
              | Ok (a, i) => controllers f (set_archs p a) i
              | Err => Err | OutOfFuel => OutOfFuel end
      end
    else if eqc c 60 then
      match parse_stageset f i with
      | Ok (st, i) => controllers f (match st with [] => p | _ => add_stages p st end) i
      | Err => Err | OutOfFuel => OutOfFuel end
    else Err
  end.

(* parsePossibility *)
Fixpoint possi_loop (fuel : nat) (p : possi) (rel : relation) (i : str) : outcome (relation * str) :=
  match fuel with O => OutOfFuel | S f =>
    let c := peek i in
    if eqc c 58 then
      match parse_multiarch i with
      | Ok (a, i) => possi_loop f (set_arch p a) rel i
      | Err => Err | OutOfFuel => OutOfFuel end
    else if is_ws c || eqc c 40 || eqc c 91 || eqc c 60 then
      match controllers f p i with
      | Ok (p, i) => possi_loop f p rel i
      | Err => Err | OutOfFuel => OutOfFuel end
    else if eqc c 44 || eqc c 124 || eqc c 0 then
      match p_name p with [] => Ok (rel, i) | _ => Ok (rel ++ [p], i) end
    else possi_loop f (add_name p c) rel (adv i)
  end.
Definition fresh : possi := {| p_name := []; p_arch := None;
  p_archs := Some {| a_not := false; a_list := [] |}; p_stages := []; p_ver := None; p_subst := false |}.
(* (r15) a qualifier or a restriction with no package name in front of it: the loop ends at a separator without having
   added a possibility, yet it has consumed something - refused, not dropped *)
Definition nameless (rel rel' : relation) (i r : str) : bool :=
  Nat.eqb (List.length rel') (List.length rel) && negb (Nat.eqb (List.length r) (List.length i)).
Definition guard_possi (rel : relation) (i : str) (o : outcome (relation * str)) : outcome (relation * str) :=
  match o with
  | Ok (rel', r) => if nameless rel rel' i r then Err else Ok (rel', r)
  | Err => Err
  | OutOfFuel => OutOfFuel
  end.
Definition parse_possibility (fuel : nat) (rel : relation) (i : str) : outcome (relation * str) :=
  let i := eat_ws i in
  if eqc (peek i) 36 then
    match parse_substvar i with
    | Ok (p, i) => Ok (rel ++ [p], i) | Err => Err | OutOfFuel => OutOfFuel end
  else guard_possi rel i (possi_loop fuel fresh rel i).
Lemma guard_added rel i p r : guard_possi rel i (Ok (rel ++ [p], r)) = Ok (rel ++ [p], r).
Proof.
  unfold guard_possi, nameless. rewrite app_length. cbn [List.length].
  replace (Nat.eqb (List.length rel + 1) (List.length rel)) with false by (symmetry; apply Nat.eqb_neq; rewrite Nat.add_1_r; apply Nat.neq_succ_diag_l).
  reflexivity.
Qed.
Lemma guard_same rel i : guard_possi rel i (Ok (rel, i)) = Ok (rel, i).
Proof. unfold guard_possi, nameless. now rewrite !Nat.eqb_refl. Qed.
Lemma guard_ok_inv rel i o x : guard_possi rel i o = Ok x -> o = Ok x.
Proof. unfold guard_possi. destruct o as [[rel' r]| |]; try discriminate. destruct (nameless rel rel' i r); [discriminate|auto]. Qed.
Lemma guard_nofuel rel i o : o <> OutOfFuel -> guard_possi rel i o <> OutOfFuel.
Proof. unfold guard_possi. destruct o as [[rel' r]| |]; try congruence. destruct (nameless rel rel' i r); discriminate. Qed.
Lemma guard_err rel i : guard_possi rel i Err = Err. Proof. reflexivity. Qed.

(* parseRelation *)
Fixpoint relation_loop (fuel : nat) (rel : relation) (d : dep) (i : str) : outcome (dep * str) :=
  match fuel with O => OutOfFuel | S f =>
    let c := peek i in
    if eqc c 0 || eqc c 44 then Ok ((match rel with [] => d | _ => d ++ [rel] end), i)
    else if eqc c 124 then relation_loop f rel d (eat_ws (adv i))
    else match parse_possibility f rel i with
         | Ok (rel, i) => relation_loop f rel d i
         | Err => Err | OutOfFuel => OutOfFuel end
  end.
(* parseDependency *)
Fixpoint dependency_loop (fuel : nat) (d : dep) (i : str) : outcome dep :=
  match fuel with O => OutOfFuel | S f =>
    let c := peek i in
    if eqc c 0 then Ok d
    else if eqc c 44 then dependency_loop f d (eat_ws (adv i))
    else match relation_loop f [] d (eat_ws i) with
         | Ok (d, i) => dependency_loop f d i
         | Err => Err | OutOfFuel => OutOfFuel end
  end.
Definition parse (x : str) : outcome dep := dependency_loop (4 * List.length x + 8) [] (eat_ws x).


(* ---- string.go after the repairs ---- *)
Definition seq (a b : str) : bool := if list_eq_dec ascii_dec a b then true else false.
Definition arch_string : arch -> str := A1.arch_string.
Fixpoint joinw (d : str) (l : list str) : str :=
  match l with [] => [] | [x] => x | x :: r => x ++ d ++ joinw d r end.
Definition archset_string (a : archset) : str :=
  match a_list a with
  | [] => []
  | l => ch 91 :: joinw [ch 32] (map (fun x => (if a_not a then [ch 33] else []) ++ arch_string x) l) ++ [ch 93]
  end.
Definition stage_string (st : stage) : str := (if s_not st then [ch 33] else []) ++ s_name st.
Definition stageset_string (l : list stage) : str :=
  match l with [] => [] | _ => ch 60 :: joinw [ch 32] (map stage_string l) ++ [ch 62] end.
Definition possi_string (p : possi) : str :=
  if p_subst p then ch 36 :: ch 123 :: p_name p ++ [ch 125]
  else
    p_name p
    ++ (match p_arch p with Some a => ch 58 :: arch_string a | None => [] end)
    ++ (match p_archs p with Some a => (match archset_string a with [] => [] | t => ch 32 :: t end) | None => [] end)
    ++ (match p_ver p with Some v => ch 32 :: ch 40 :: v_op v ++ ch 32 :: v_num v ++ [ch 41] | None => [] end)
    ++ List.concat (map (fun st => match stageset_string st with [] => [] | t => ch 32 :: t end) (p_stages p)).
Definition relation_string (r : relation) : str := joinw (s " | ") (map possi_string r).
Definition dep_string (d : dep) : str := joinw (s ", ") (map relation_string d).

(* ---- sanity sweep of the round-trip statement (a test, not a proof) ---- *)
Definition zero_arch (a : arch) : bool := seq (abi a) [] && seq (os a) [] && seq (cpu a) [].
Definition blank_arch_possi (p : possi) : bool :=
  (match p_arch p with Some a => zero_arch a | None => false end)
  || (match p_archs p with Some a => existsb zero_arch (a_list a) | None => false end).
Definition blank_arch (d : dep) : bool := existsb (existsb blank_arch_possi) d.
Definition dep_eqb (a b : dep) : bool.
Proof. refine (if (_ : {a = b} + {a <> b}) then true else false).
  repeat decide equality. Defined.
Definition rt_ok (x : str) : bool :=
  match parse x with
  | Ok d => if blank_arch d then true else match parse (dep_string d) with Ok d2 => dep_eqb d d2 | _ => false end
  | _ => true
  end.
