(* C09 / C10: newline-delimited list fields (Files, Checksums-*, Package-List): the delimiter is itself in the
   strip set, and the multiline tag puts a newline in front of the value *)
From Coq Require Import List Ascii String Bool Arith Lia.
Require Import GS L10.
Import ListNotations.

Section Lines.
  Variable d : ascii.
  Variable strip : ascii -> bool.
  (* no hypothesis on strip d: for these fields strip d = true *)

  Definition line_ok (e : str) : Prop := e <> [] /\ free d e /\ nolead strip e /\ notrail strip e.

  Lemma join_nolead : forall es, es <> [] -> Forall line_ok es -> nolead strip (join [d] es) /\ join [d] es <> [].
  Proof.
    intros [|e r] NE W; [congruence|]. inversion W as [|? ? (Hne&_&Hl&_) _]; subst.
    destruct r as [|e2 r']; cbn [join].
    - split; assumption.
    - destruct e as [|c t]; [congruence|]. split; [exact Hl|discriminate].
  Qed.

  Lemma rev_join_snoc : forall es e, join [d] (es ++ [e]) = match es with [] => e | _ => join [d] es ++ d :: e end.
  Proof.
    induction es as [|x r IH]; intros e; [reflexivity|]. destruct r as [|y r'].
    - reflexivity.
    - change ((x :: y :: r') ++ [e]) with (x :: (y :: r') ++ [e]).
      change (join [d] (x :: (y :: r') ++ [e])) with (x ++ [d] ++ join [d] ((y :: r') ++ [e])).
      rewrite IH. change (join [d] (x :: y :: r')) with (x ++ [d] ++ join [d] (y :: r')). now rewrite <- !app_assoc.
  Qed.

  Lemma join_notrail es : es <> [] -> Forall line_ok es -> notrail strip (join [d] es).
  Proof.
    intros NE W. destruct (exists_last NE) as (es'&e&->). apply Forall_app in W as [_ We].
    inversion We as [|? ? (Hne&_&_&Ht) _]; subst. rewrite rev_join_snoc. unfold notrail in *.
    destruct es' as [|x r].
    - exact Ht.
    - rewrite rev_app_distr. cbn [rev]. rewrite <- app_assoc.
      destruct (rev e) as [|c t] eqn:E; [exfalso; apply Hne; now rewrite <- (rev_involutive e), E|]. exact Ht.
  Qed.

  (* the value as the encoder builds it (blanks such as the multiline newline in front) or as the reader returns it
     (a newline after the last line) decodes to exactly the lines *)
  Theorem C10_lines_field w1 es w2 : allP strip w1 -> allP strip w2 -> es <> [] -> Forall line_ok es ->
    decode_list d strip (w1 ++ join [d] es ++ w2) = es.
  Proof.
    intros H1 H2 NE W. unfold decode_list.
    destruct (join_nolead es NE W) as [Hl Hne]. pose proof (join_notrail es NE W) as Ht.
    rewrite (trim_pad strip w1 (join [d] es) w2 H1 H2 Hl Ht).
    destruct (join [d] es) as [|c0 t0] eqn:J; [congruence|]. rewrite <- J.
    rewrite split_join; [|exact NE|eapply Forall_impl; [|exact W]; now intros e (_&F&_)].
    rewrite <- (map_id es) at 2. apply map_ext_in. intros e He. rewrite Forall_forall in W. destruct (W e He) as (_&_&L&T).
    pose proof (trim_pad strip [] e [] (Forall_nil _) (Forall_nil _) L T) as E. cbn [app] in E. now rewrite app_nil_r in E.
  Qed.
End Lines.
Print Assumptions C10_lines_field.
