(* C09 - Struct marshal/unmarshal round-trips and passes unknown fields through.
   Property theorems only.  Model: C9G.convert / C9G.decode = convertToParagraph / decodeStruct, generic in
   the family of value codecs; CX instantiates it with the field descriptors REGENERATED from the compiled Go
   struct tags (gen/Schema_gen.v) and is what the tie executes; C9 / C9I instantiate it with scalars, string
   lists and custom types given by their own codec (version: C03, dependency and architecture: C05). *)
From Coq Require Import List Ascii String Bool Arith NArith ZArith Lia.
Require Import GS V3 V4 L10 L11 R2 R3 PU C9 C9G C9I C9T CX C9C C9U.
Require C9F.
Import ListNotations.

(* every value kind round-trips: string, int, uint, bool *)
Theorem C09_scalar_value_roundtrip : forall v, C9.decode_value (C9.kind_of v) (C9.marshal_value v) = Some v.
Proof. exact C9.C09_value_roundtrip. Qed.
Print Assumptions C09_scalar_value_roundtrip.

(* delimiter-separated lists of trimmed, delimiter-free elements: EVERY such list - the empty one included, which a required
   field writes as "K: " (repair of the r12 finding: it read back as one empty element, and this theorem needed es <> []) -
   except the single list that is written like the empty one, [""] *)
Theorem C09_list_value_roundtrip : forall d strip, strip d = false -> forall es, es <> [[]] -> Forall (elt_ok d strip) es ->
  decode_list d strip (marshal_list d es) = es.
Proof. exact C09_list_roundtrip. Qed.
Print Assumptions C09_list_value_roundtrip.

(* record level, all kinds: unmarshalling the marshalled paragraph reproduces the record field by field.
   custom types enter through their own codec (cenc/cdec with a round trip on cwf values). *)
Theorem C09_record_roundtrip : forall (custom : Type) cenc cdec czero (cwf : nat -> custom -> Prop),
  (forall tag x, cwf tag x -> cenc tag x <> [] -> cdec tag (cenc tag x) = Some x) ->
  (forall tag x, cwf tag x -> cenc tag x = [] -> x = czero tag) ->
  forall (sch : xschema) r, xtyped custom cenc cdec cwf sch r -> C9G.keys_distinct (xkind) sch ->
  C9G.decode xkind (xvalue custom) (xzero custom czero) (xdecode custom cdec) sch
    (C9G.values (C9G.convert xkind (xvalue custom) (xmarshal custom cenc) sch r {| C9G.order := []; C9G.values := [] |})) = Some r.
Proof. exact C09_roundtrip_all. Qed.
Print Assumptions C09_record_roundtrip.

(* ... instantiated with the library's own custom types: version.Version (C03 codec), dependency.Dependency and
   dependency.Arch (C05 codecs); cwf: a Policy version, a dependency as the parser produces it, an architecture
   that is the parse of some name and not the triple of empty strings *)
Theorem C09_record_roundtrip_library_types : forall (sch : xschema) r,
  xtyped cust cenc cdec cwf sch r -> C9G.keys_distinct xkind sch ->
  C9G.decode xkind (xvalue cust) (xzero cust C9C.czero) (xdecode cust cdec) sch
    (C9G.values (C9G.convert xkind (xvalue cust) (xmarshal cust cenc) sch r {| C9G.order := []; C9G.values := [] |})) = Some r.
Proof. exact C09_roundtrip_with_library_types. Qed.
Print Assumptions C09_record_roundtrip_library_types.

(* the decoder and the encoder the code runs have the field-name layer C9F in front of them (names are looked up exactly, or
   else in another letter case; a field of the embedded paragraph that the struct knows under another spelling is written
   under the struct's name): for any family of value codecs with a round trip, and a struct no two fields of which differ in
   case only, what Marshal writes reads back through THAT decoder to the record *)
Theorem C09_record_roundtrip_through_the_field_name_layer :
  forall (kind value : Type) (kind_of : value -> kind) (zero_of : kind -> value) (marshal_value : value -> GS.str)
         (decode_value : kind -> GS.str -> option value) (wfv : value -> Prop),
  (forall v, wfv v -> marshal_value v <> [] -> decode_value (kind_of v) (marshal_value v) = Some v) ->
  (forall v, wfv v -> marshal_value v = [] -> v = zero_of (kind_of v)) ->
  forall sch r, C9G.typed kind value kind_of marshal_value decode_value wfv sch r -> C9G.keys_distinct kind sch ->
  C9F.keys_fold_distinct kind sch ->
  C9F.decode_fold kind value zero_of decode_value sch
    (C9G.values (C9F.convert_fold kind value marshal_value sch r {| C9G.order := []; C9G.values := [] |})) = Some r.
Proof. exact C9F.roundtrip_fold. Qed.
(* on paragraphs spelled as the struct spells its fields the layer is not there: every theorem of this file about
   C9G.decode / C9G.convert is then a theorem about the code *)
Theorem C09_field_name_layer_is_transparent_on_spelled_paragraphs :
  (forall sch p, C9F.spelled fd (gschema sch) p ->
     C9F.decode_fold fd cval CX.czero cdecode (gschema sch) p = C9G.decode fd cval CX.czero cdecode (gschema sch) p) /\
  (forall sch r found, NoDup (C9G.order found) ->
     C9F.no_respelling (map (C9G.fkey fd) (gschema sch)) (C9G.order found) ->
     C9F.no_respelling (map (C9G.fkey fd) (gschema sch)) (map fst (C9G.values found)) ->
     C9F.convert_fold fd cval cmarshal (gschema sch) r found = C9G.convert fd cval cmarshal (gschema sch) r found).
Proof.
  split.
  - intros sch. exact (C9F.decode_fold_spelled fd cval CX.czero cdecode (gschema sch)).
  - intros sch. exact (C9F.convert_fold_spelled fd cval cmarshal (gschema sch)).
Qed.
(* a field that is no field of the struct in ANY letter case does not reach it, wherever it stands *)
Theorem C09_field_unknown_in_any_letter_case_does_not_reach_the_struct : forall sch k v pre post,
  (forall f, In f (gschema sch) -> C9F.feq k (C9G.fkey fd f) = false) ->
  C9F.decode_fold fd cval CX.czero cdecode (gschema sch) (pre ++ (k, v) :: post) =
  C9F.decode_fold fd cval CX.czero cdecode (gschema sch) (pre ++ post).
Proof. intros sch. exact (C9F.decode_fold_ignores_unknown_field fd cval CX.czero cdecode (gschema sch)). Qed.
Print Assumptions C09_record_roundtrip_through_the_field_name_layer.
Print Assumptions C09_field_name_layer_is_transparent_on_spelled_paragraphs.

(* through the text: Marshal -> WriteTo -> reader -> decode gives the record back (scalar kinds; values that
   are single trimmed lines, which integers, unsigned integers and booleans always are) *)
Theorem C09_text_level_roundtrip : forall sch r, C9.typed sch r -> C9.keys_distinct sch -> C9.own sch r <> [] ->
  Forall (fun kv => key_ok (fst kv) /\ line_ok (snd kv)) (C9.own sch r) ->
  let p := C9.convert sch r {| C9.order := []; C9.values := [] |} in
  R2.read_all (R2.write_para (C9T.to_r2 p)) = Some [C9T.to_r2 p] /\ C9.decode sch (C9.values p) = Some r.
Proof. exact C09_text_roundtrip. Qed.
Print Assumptions C09_text_level_roundtrip.

(* optional fields whose rendering is empty are omitted, required fields are always written *)
Theorem C09_written_iff : forall sch r k, C9.typed sch r ->
  (In k (map fst (C9.own sch r)) <->
   exists f v, In (f, v) (combine sch r) /\ C9.fkey f = k /\ (C9.frequired f = true \/ C9.marshal_value v <> [])).
Proof. exact C9.C09_written. Qed.

(* for the functions the tie executes (regenerated descriptors): a required field that is absent is an error;
   unknown fields of the embedded paragraph keep their relative order and come first *)
Theorem C09_required_missing_is_error : forall sch p f, In f (gschema sch) -> C9G.frequired fd f = true ->
  C9G.lookup (C9G.fkey fd f) p = None -> C9G.decode fd cval CX.czero cdecode (gschema sch) p = None.
Proof. exact CX_required_missing. Qed.
Theorem C09_unknown_fields_pass_through : forall sch r found,
  filter (fun k => negb (C9G.mem k (map (C9G.fkey fd) (gschema sch)))) (C9G.order (C9G.convert fd cval cmarshal (gschema sch) r found))
  = filter (fun k => negb (C9G.mem k (map (C9G.fkey fd) (gschema sch)))) (C9G.order found).
Proof. exact CX_passthrough_order. Qed.
Print Assumptions C09_unknown_fields_pass_through.

(* unknown fields do not reach the struct: a field whose key no field of the schema has - whatever it is called (Epoch,
   Values, Order, the name of any Go field inside a nested struct ...) and wherever it stands - leaves the decoded record
   as it is without it *)
Theorem C09_unknown_field_does_not_reach_the_struct : forall sch k v pre post, ~ In k (map (C9G.fkey fd) (gschema sch)) ->
  C9G.decode fd cval CX.czero cdecode (gschema sch) (pre ++ (k, v) :: post) = C9G.decode fd cval CX.czero cdecode (gschema sch) (pre ++ post).
Proof. intros sch. exact (C9G.decode_ignores_unknown_field _ _ _ _ (gschema sch)). Qed.
Print Assumptions C09_unknown_field_does_not_reach_the_struct.

(* the two paragraph operations the encoder is built from (control/parse.go).  Set and Update keep the paragraph
   invariant of C07 (every listed field has a value, each field listed once); after Update a key listed by the other
   paragraph has the other's value and every other key keeps the receiver's; the receiver's fields come first in their
   own order, then the other's new fields in the other's order, each once *)
Theorem C09_set_update_keep_invariant : forall p q k v, R3.pinv p -> R3.pinv (PU.pset p k v) /\ R3.pinv (PU.update p q).
Proof. exact (fun p q k v I => conj (PU.pset_pinv p k v I) (PU.update_pinv p q I)). Qed.
Theorem C09_set_value : forall p k v j,
  R2.lookup j (R2.values (PU.pset p k v)) = (if str_eqb k j then v else R2.lookup j (R2.values p)) /\
  R2.order (PU.pset p k v) = (if R2.mem k (R2.values p) then R2.order p else R2.order p ++ [k]).
Proof. exact (fun p k v j => conj (PU.pset_lookup p k v j) (PU.pset_order p k v)). Qed.
Theorem C09_update_value : forall p q j,
  R2.lookup j (R2.values (PU.update p q)) =
  if existsb (str_eqb j) (R2.order q) then R2.lookup j (R2.values q) else R2.lookup j (R2.values p).
Proof. exact PU.update_lookup. Qed.
Theorem C09_update_order : forall p q, R3.pinv p ->
  R2.order (PU.update p q) = R2.order p ++ PU.fresh (R2.order p) (R2.order q).
Proof. exact PU.update_order. Qed.
Print Assumptions C09_update_order.

(* convertToParagraph as the code has it - the kept fields of the embedded paragraph put into a fresh paragraph with Set,
   then Update with the struct's own fields - gives the order and the values of C9.convert, the function the round-trip
   theorems above are about; and the result satisfies the paragraph invariant *)
Theorem C09_convert_is_set_then_update : forall sch r found, C9.keys_distinct sch -> R3.pinv (C9U.toR found) ->
  R2.order (C9U.convert_code sch r found) = C9.order (C9.convert sch r found) /\
  (forall k, In k (C9.order (C9.convert sch r found)) ->
     C9.lookup k (C9.values (C9.convert sch r found)) = Some (R2.lookup k (R2.values (C9U.convert_code sch r found)))) /\
  R3.pinv (C9U.convert_code sch r found).
Proof. exact C9U.convert_is_set_then_update. Qed.
Print Assumptions C09_convert_is_set_then_update.

(* marshalling never "panics" in the model: it is a total function returning text or an error *)
Example C09_marshal_total : forall sch hp found r, exists o, marshal_text sch hp found r = o.
Proof. intros. eexists. reflexivity. Qed.
