(* C02: the sort statement in terms of Compare itself, and the NUL witness *)
From Coq Require Import List Ascii String Bool Arith NArith ZArith Lia Permutation Sorted.
Require Import V1 V2 V5 V6 V8.
Import ListNotations.
Local Open Scope Z_scope.

Lemma leb_compare a b : vnonul a -> vnonul b -> (VOrder.leb a b = true <-> compare a b <= 0).
Proof.
  intros Ha Hb. unfold VOrder.leb. pose proof (C01_compare a b Ha Hb) as K.
  destruct (key_cmp a b); cbn in K; split; intros H; try reflexivity; try lia; discriminate.
Qed.

Lemma StronglySorted_impl_in {A} (P Q : A -> A -> Prop) (R : A -> Prop) l :
  Forall R l -> (forall a b, R a -> R b -> P a b -> Q a b) -> StronglySorted P l -> StronglySorted Q l.
Proof.
  intros HR HPQ HS. induction HS as [|a l HS IH Hall]; [constructor|].
  inversion HR as [|? ? Ra Rl]; subst. constructor; [now apply IH|].
  rewrite Forall_forall in *. intros x Hx. apply HPQ; auto.
Qed.

Theorem C02_sort_compare l : Forall vnonul l ->
  Permutation l (VSort.sort l) /\ StronglySorted (fun a b => compare a b <= 0) (VSort.sort l).
Proof.
  intros Hl. destruct (C02_sort l) as [P S]. split; [exact P|].
  assert (Hs : Forall vnonul (VSort.sort l)).
  { rewrite Forall_forall in *. intros x Hx. apply Hl. eapply Permutation_in; [symmetry; exact P|exact Hx]. }
  eapply StronglySorted_impl_in; [exact Hs| |exact S].
  intros a b Ha Hb H. now apply leb_compare.
Qed.

(* why the NUL hypothesis is there: order '\000' = 0 makes a NUL indistinguishable from the end
   of the string and from a digit position, and transitivity fails *)
Definition vz : version := {| epoch := 0; upstream := [zero]; revision := [] |}.
Definition ve : version := {| epoch := 0; upstream := []; revision := [] |}.
Definition v1 : version := {| epoch := 0; upstream := s "1"; revision := [] |}.
Theorem C02_nul_refuted : compare ve vz <= 0 /\ compare vz v1 <= 0 /\ ~ (compare v1 ve <= 0) /\ compare ve v1 < 0 /\ compare vz v1 = 0 /\ compare ve vz = 0.
Proof. vm_compute. repeat split; try discriminate. intros H; apply H; reflexivity. Qed.
