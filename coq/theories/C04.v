(* C04 - Dependency fields parse into exactly the structure they denote.
   Property theorems only.  Model: D3.parse.  The rendered syntax carries its own layout: every clause,
   alternative, relation and the field hold their own runs of blanks (space, tab, CR, LF), the clause list
   of an alternative is in text order (one version clause, one architecture list, any number of profile
   groups, in any order). *)
From Coq Require Import List Ascii String Bool Arith NArith Lia.
Require Import A1 D3 D4 D5 D6 D14 D9 D10 D12 D13 D15 D16r D17r D18r D19r D20r D21r.
Import ListNotations.

(* every field of the grammar, with blanks anywhere between tokens: leading blanks w0; relations
   separated by ',' + blanks; alternatives separated by blanks '|' blanks; each alternative
   name[:arch] + clauses in the free layout (alt_free2), or canonical, or a ${substvar} (alt_ok2);
   parses to exactly the relations / alternatives / clause values, in order *)
Theorem C04_parse_render : forall w0 r0 more, all_ws w0 -> lrel2_ok r0 ->
  Forall (fun wr => all_ws (fst wr) /\ lrel2_ok (snd wr)) more ->
  parse (w0 ++ lrel2_text r0 ++ tail2_text more) = Ok (lrel2_val r0 :: map (fun wr => lrel2_val (snd wr)) more).
Proof. exact C04_field_free. Qed.
Print Assumptions C04_parse_render.

(* the value of an alternative in the free layout is the one denoted by its clauses, whatever their order *)
Theorem C04_alternative_free_layout : forall name q cl,
  name <> [] -> forallb namec name = true -> eqc (peek name) 36 = false ->
  (match q with None => True | Some a => forallb mac (arch_string a) = true /\ parse_arch (arch_string a) = a /\ arch_ok (arch_string a) = true end) ->
  clauses_ok (base name q) cl -> alt_ok2 (name ++ qual_text q ++ clauses_text cl) (result name q cl).
Proof. exact alt_free2. Qed.

(* malformed fields, lifted to Parse for the first alternative of a field: a second version clause, a
   second architecture clause *)
Theorem C04_reject_second_version : forall name q cl w y v0,
  name <> [] -> forallb namec name = true -> eqc (peek name) 36 = false ->
  (match q with None => True | Some a => forallb mac (arch_string a) = true /\ parse_arch (arch_string a) = a /\ arch_ok (arch_string a) = true end) ->
  clauses_ok (base name q) cl -> cl <> [] -> p_ver (result name q cl) = Some v0 -> all_ws w ->
  parse (name ++ qual_text q ++ clauses_text cl ++ w ++ ch 40 :: y) = Err.
Proof. exact D16r.C04_reject_second_version. Qed.
Theorem C04_reject_second_archs : forall name q cl w y,
  name <> [] -> forallb namec name = true -> eqc (peek name) 36 = false ->
  (match q with None => True | Some a => forallb mac (arch_string a) = true /\ parse_arch (arch_string a) = a /\ arch_ok (arch_string a) = true end) ->
  clauses_ok (base name q) cl -> cl <> [] -> a_list (archs_of (result name q cl)) <> [] -> all_ws w ->
  parse (name ++ qual_text q ++ clauses_text cl ++ w ++ ch 91 :: y) = Err.
Proof. exact D16r.C04_reject_second_archs. Qed.
Print Assumptions C04_reject_second_version.
(* two names without a separator, an unknown operator, a version clause that is never closed *)
Theorem C04_reject_two_names : forall name q cl, name <> [] -> forallb namec name = true -> eqc (peek name) 36 = false ->
  (match q with None => True | Some a => forallb mac (arch_string a) = true /\ parse_arch (arch_string a) = a /\ arch_ok (arch_string a) = true end) ->
  clauses_ok (base name q) cl -> cl <> [] -> forall w c x, all_ws w -> is_ws c = false ->
  eqc c 44 || eqc c 124 || eqc c 0 = false -> eqc c 40 = false -> eqc c 91 = false -> eqc c 60 = false ->
  parse (name ++ qual_text q ++ clauses_text cl ++ w ++ c :: x) = Err.
Proof. exact D17r.C04_reject_two_names. Qed.
Theorem C04_reject_unknown_operator : forall name q cl, name <> [] -> forallb namec name = true -> eqc (peek name) 36 = false ->
  (match q with None => True | Some a => forallb mac (arch_string a) = true /\ parse_arch (arch_string a) = a /\ arch_ok (arch_string a) = true end) ->
  clauses_ok (base name q) cl -> cl <> [] -> forall w rest, all_ws w -> p_ver (result name q cl) = None ->
  parse_operator rest = Err -> parse (name ++ qual_text q ++ clauses_text cl ++ w ++ ch 40 :: rest) = Err.
Proof. exact D17r.C04_reject_unknown_operator. Qed.
Theorem C04_reject_unterminated_version : forall name q cl, name <> [] -> forallb namec name = true -> eqc (peek name) 36 = false ->
  (match q with None => True | Some a => forallb mac (arch_string a) = true /\ parse_arch (arch_string a) = a /\ arch_ok (arch_string a) = true end) ->
  clauses_ok (base name q) cl -> cl <> [] -> forall w op rest x, all_ws w -> p_ver (result name q cl) = None ->
  In op ops -> opnext (rest ++ x) = true -> forallb numc rest = true -> bad_in_number (peek x) = true ->
  parse (name ++ qual_text q ++ clauses_text cl ++ w ++ ch 40 :: op ++ rest ++ x) = Err.
Proof. exact D17r.C04_reject_unterminated_version. Qed.
Print Assumptions C04_reject_unterminated_version.
(* mixed negation inside one architecture list; a bracket that is never closed; a substvar that is never closed *)
Theorem C04_reject_mixed_negation : forall name q cl, name <> [] -> forallb namec name = true -> eqc (peek name) 36 = false ->
  (match q with None => True | Some a => forallb mac (arch_string a) = true /\ parse_arch (arch_string a) = a /\ arch_ok (arch_string a) = true end) ->
  clauses_ok (base name q) cl -> cl <> [] -> p_archs (result name q cl) = Some {| a_not := false; a_list := [] |} ->
  forall nt items w w0 T, all_ws w -> all_ws w0 -> items <> [] -> Forall (wf_archent nt) (map fst items) -> seps1 items ->
  is_ws (peek T) = false -> eqc (peek T) 0 = false -> eqc (peek T) 93 = false -> T <> [] ->
  Bool.eqb nt (eqc (peek T) 33) = false ->
  parse (name ++ qual_text q ++ clauses_text cl ++ w ++ ch 91 :: w0 ++ items_text nt items ++ T) = Err.
Proof. exact D18r.C04_reject_mixed_negation. Qed.
Theorem C04_reject_unterminated_bracket : forall name q cl, name <> [] -> forallb namec name = true -> eqc (peek name) 36 = false ->
  (match q with None => True | Some a => forallb mac (arch_string a) = true /\ parse_arch (arch_string a) = a /\ arch_ok (arch_string a) = true end) ->
  clauses_ok (base name q) cl -> cl <> [] -> p_archs (result name q cl) = Some {| a_not := false; a_list := [] |} ->
  forall nt items w w0 tail x, all_ws w -> all_ws w0 -> Forall (wf_archent nt) (map fst items) -> seps1 items ->
  forallb archc tail = true -> bad_in_arch (peek x) = true ->
  parse (name ++ qual_text q ++ clauses_text cl ++ w ++ ch 91 :: w0 ++ items_text nt items ++ tail ++ x) = Err.
Proof. exact D18r.C04_reject_unterminated_bracket. Qed.
Theorem C04_reject_unterminated_substvar : forall w nm x, all_ws w -> forallb subc nm = true -> bad_in_substvar (peek x) = true ->
  parse (w ++ ch 36 :: ch 123 :: nm ++ x) = Err.
Proof. exact D18r.C04_reject_unterminated_substvar. Qed.
(* the r14 finding, now a theorem: a clause that is not closed does not swallow the separator behind it.  In the three
   theorems above x is ANY text that starts with the end of the input (x = []), a NUL, ',' '|' or a further opening
   character of the clause's own kind; before the repair "foo (>= 1.0, bar (>= 2.0)" read as ONE relation on foo with
   the version "1.0, bar (>= 2.0" and the dependency on bar was lost. *)
Theorem C04_bad_in_characters : forall c,
  (bad_in_number c = eqc c 0 || eqc c 44 || eqc c 124 || eqc c 40) /\
  (bad_in_arch c = eqc c 0 || eqc c 44 || eqc c 124 || eqc c 91) /\
  (bad_in_stage c = eqc c 0 || eqc c 44 || eqc c 124 || eqc c 60) /\
  (bad_in_substvar c = eqc c 0 || eqc c 44 || eqc c 124 || eqc c 36).
Proof. intros c. repeat split. Qed.
Example C04_clause_does_not_swallow_the_separator :
  parse (s "foo (>= 1.0, bar (>= 2.0)") = Err /\ parse (s "foo (>= 1.0 | bar") = Err /\ parse (s "foo (>= 1.0 (>= 2)") = Err /\
  parse (s "foo [amd64, bar [i386]") = Err /\ parse (s "foo [amd64 | bar") = Err /\
  parse (s "foo <stage1, bar <cross>") = Err /\ parse (s "foo <!stage1 | bar") = Err /\
  parse (s "${a, b}") = Err /\ parse (s "x, ${a | b}") = Err /\ parse (s "${a${b}") = Err.
Proof. vm_compute. repeat split. Qed.
Print Assumptions C04_reject_mixed_negation.
Print Assumptions C04_reject_unterminated_substvar.

(* (r15) a qualifier or a restriction with NO package name in front of it - a valid field with one ',' or '|' inserted, a
   clause where a relation should begin - is refused, not dropped: when the possibility loop ends at a separator without
   having added a possibility and yet has consumed something, parsePossibility fails; a trailing or doubled separator, which
   consumes nothing, is still nothing *)
Theorem C04_restriction_without_a_name_is_refused : forall f rel i rel' r, eqc (peek (eat_ws i)) 36 = false ->
  possi_loop f fresh rel (eat_ws i) = Ok (rel', r) -> List.length rel' = List.length rel -> List.length r <> List.length (eat_ws i) ->
  parse_possibility f rel i = Err.
Proof.
  intros f rel i rel' r N P L R. unfold parse_possibility. rewrite N, P. unfold guard_possi, nameless.
  rewrite L, Nat.eqb_refl. apply Nat.eqb_neq in R. now rewrite R.
Qed.
Example C04_restrictions_without_a_name :
  parse (s "foo, (>= 2.0)") = Err /\ parse (s "foo | (<< 2.0), bar") = Err /\ parse (s "foo, [amd64]") = Err /\
  parse (s "foo, <!nocheck>") = Err /\ parse (s "(>= 2.0)") = Err /\ parse (s "foo, :any") = Err /\ parse (s "foo | [] , bar") = Err /\
  parse (s "foo, ") = parse (s "foo") /\ parse (s "foo,, bar") = parse (s "foo, bar") /\ parse (s "foo (>= 2.0)") <> Err.
Proof. vm_compute. repeat split; discriminate. Qed.
Print Assumptions C04_restriction_without_a_name_is_refused.

(* the other malformed classes as local facts, valid in every context: each scanner fails at the point of
   the defect (the tie's corruption stream exercises them through Parse) *)
Theorem C04_local_second_version : forall f p w x v0, p_ver p = Some v0 -> all_ws w -> controllers (S f) p (w ++ ch 40 :: x) = Err.
Proof. exact reject_second_version. Qed.
Theorem C04_local_second_archs : forall f p w x, a_list (archs_of p) <> [] -> all_ws w -> controllers (S f) p (w ++ ch 91 :: x) = Err.
Proof. exact reject_second_archs. Qed.
Theorem C04_local_unterminated_paren : forall w num x, forallb numc w = true -> bad_in_number (peek x) = true -> number_loop num (w ++ x) = Err.
Proof. exact reject_open_paren. Qed.
Theorem C04_local_unterminated_substvar : forall w name x, forallb subc w = true -> bad_in_substvar (peek x) = true -> substvar_loop name (w ++ x) = Err.
Proof. exact reject_open_substvar. Qed.
Theorem C04_local_unterminated_bracket : forall w name x, forallb archc w = true -> bad_in_arch (peek x) = true -> arch_name_loop name (w ++ x) = Err.
Proof. exact reject_open_bracket. Qed.
Theorem C04_local_unterminated_stage : forall w st x, forallb stagec w = true -> bad_in_stage (peek x) = true -> stage_loop st (w ++ x) = Err.
Proof. exact reject_open_stage. Qed.
Theorem C04_local_two_names : forall f p w c x, all_ws w -> is_ws c = false ->
  eqc c 44 || eqc c 124 || eqc c 0 = false -> eqc c 40 = false -> eqc c 91 = false -> eqc c 60 = false ->
  controllers (S f) p (w ++ c :: x) = Err.
Proof. exact reject_stray. Qed.
Theorem C04_local_mixed_negation : forall set x, a_list set <> [] -> is_ws (peek x) = false ->
  Bool.eqb (a_not set) (eqc (peek x) 33) = false -> parse_one_arch set x = Err.
Proof. exact reject_mixed_negation. Qed.
Theorem C04_local_unknown_operator : forall c1 c2 x, is_ws c1 = false -> eqc c1 61 = false ->
  (eqc c1 62 && eqc c2 61) || (eqc c1 60 && eqc c2 61) || (eqc c1 60 && eqc c2 60) || (eqc c1 62 && eqc c2 62) = false ->
  parse_operator (c1 :: c2 :: x) = Err.
Proof. exact reject_unknown_operator. Qed.
Theorem C04_local_double_operator : forall c2 x, eqc c2 61 || eqc c2 60 || eqc c2 62 = true ->
  parse_operator ("="%char :: c2 :: x) = Err.
Proof. exact reject_double_operator. Qed.
Print Assumptions C04_local_unterminated_bracket.
Print Assumptions C04_local_double_operator.

(* ---- the rejection classes at ANY position of the field ----
   D19r.bad_alt B: B is name[:arch], valid clauses, then text on which the clause loop fails.  Each listed class is
   such a B (the C04_class_* theorems; a blank or an earlier clause before the offending token), and a field that
   holds a refused alternative anywhere - first or later alternative, first or later relation, any layout of the
   well-formed relations before it - is rejected. *)
Theorem C04_reject_at_any_position : forall B, bad_alt B ->
  (forall w0, all_ws w0 -> parse (w0 ++ B) = Err) /\
  (forall w0 t p its wb wa, all_ws w0 -> alt_okR t p -> Forall itemR_ok its -> all_ws wb -> all_ws wa ->
     parse (w0 ++ t ++ more2_text its ++ wb ++ ch 124 :: wa ++ B) = Err) /\
  (forall w0 r0 more w, all_ws w0 -> lrelR_ok r0 -> Forall (fun wr => all_ws (fst wr) /\ lrelR_ok (snd wr)) more -> all_ws w ->
     parse (w0 ++ lrel2_text r0 ++ tail2_text more ++ ch 44 :: w ++ B) = Err) /\
  (forall w0 r0 more w t p its wb wa, all_ws w0 -> lrelR_ok r0 -> Forall (fun wr => all_ws (fst wr) /\ lrelR_ok (snd wr)) more -> all_ws w ->
     alt_okR t p -> Forall itemR_ok its -> all_ws wb -> all_ws wa ->
     parse (w0 ++ lrel2_text r0 ++ tail2_text more ++ ch 44 :: w ++ t ++ more2_text its ++ wb ++ ch 124 :: wa ++ B) = Err).
Proof. exact C04_reject_anywhere. Qed.
Theorem C04_prefix_alternatives : 
  (forall name q cl, name <> [] -> forallb namec name = true -> eqc (peek name) 36 = false ->
     (match q with None => True | Some a => forallb mac (arch_string a) = true /\ parse_arch (arch_string a) = a /\ arch_ok (arch_string a) = true end) ->
     clauses_ok (base name q) cl -> alt_okR (name ++ qual_text q ++ clauses_text cl) (result name q cl)) /\
  (forall p, wf_subst p -> alt_okR (possi_string p) p).
Proof. exact C04_prefix_alternatives_ok. Qed.
Section Classes.
  Variables (name : str) (q : option arch) (cl : list (str * clause)).
  Hypothesis Hne : name <> [].
  Hypothesis Hc : forallb namec name = true.
  Hypothesis Hd : eqc (peek name) 36 = false.
  Hypothesis Ha : match q with None => True | Some a => forallb mac (arch_string a) = true /\ parse_arch (arch_string a) = a /\ arch_ok (arch_string a) = true end.
  Hypothesis W : clauses_ok (base name q) cl.
  Notation sep w := (cl <> [] \/ w <> []).
  Theorem C04_class_second_version : forall w y v0, p_ver (result name q cl) = Some v0 -> all_ws w -> sep w ->
    bad_alt (name ++ qual_text q ++ clauses_text cl ++ w ++ ch 40 :: y).
  Proof. exact (bad_second_version name q cl Hne Hc Hd Ha W). Qed.
  Theorem C04_class_second_architecture_list : forall w y, a_list (archs_of (result name q cl)) <> [] -> all_ws w -> sep w ->
    bad_alt (name ++ qual_text q ++ clauses_text cl ++ w ++ ch 91 :: y).
  Proof. exact (bad_second_archs name q cl Hne Hc Hd Ha W). Qed.
  Theorem C04_class_two_names : forall w c x, all_ws w -> sep w -> is_ws c = false ->
    eqc c 44 || eqc c 124 || eqc c 0 = false -> eqc c 40 = false -> eqc c 91 = false -> eqc c 60 = false ->
    bad_alt (name ++ qual_text q ++ clauses_text cl ++ w ++ c :: x).
  Proof. exact (bad_two_names name q cl Hne Hc Hd Ha W). Qed.
  Theorem C04_class_unknown_operator : forall w rest, all_ws w -> sep w -> p_ver (result name q cl) = None -> parse_operator rest = Err ->
    bad_alt (name ++ qual_text q ++ clauses_text cl ++ w ++ ch 40 :: rest).
  Proof. exact (bad_unknown_operator name q cl Hne Hc Hd Ha W). Qed.
  Theorem C04_class_unterminated_version : forall w op rest x, all_ws w -> sep w -> p_ver (result name q cl) = None ->
    In op ops -> opnext (rest ++ x) = true -> forallb numc rest = true -> bad_in_number (peek x) = true ->
    bad_alt (name ++ qual_text q ++ clauses_text cl ++ w ++ ch 40 :: op ++ rest ++ x).
  Proof. exact (bad_unterminated_version name q cl Hne Hc Hd Ha W). Qed.
  Hypothesis Hempty : p_archs (result name q cl) = Some {| a_not := false; a_list := [] |}.
  Theorem C04_class_mixed_negation : forall nt items w w0 T, all_ws w -> sep w -> all_ws w0 -> items <> [] ->
    Forall (wf_archent nt) (map fst items) -> seps1 items ->
    is_ws (peek T) = false -> eqc (peek T) 0 = false -> eqc (peek T) 93 = false -> T <> [] ->
    Bool.eqb nt (eqc (peek T) 33) = false ->
    bad_alt (name ++ qual_text q ++ clauses_text cl ++ w ++ ch 91 :: w0 ++ items_text nt items ++ T).
  Proof. exact (bad_mixed_negation name q cl Hne Hc Hd Ha W Hempty). Qed.
  Theorem C04_class_unterminated_bracket : forall nt items w w0 tail x, all_ws w -> sep w -> all_ws w0 ->
    Forall (wf_archent nt) (map fst items) -> seps1 items -> forallb archc tail = true -> bad_in_arch (peek x) = true ->
    bad_alt (name ++ qual_text q ++ clauses_text cl ++ w ++ ch 91 :: w0 ++ items_text nt items ++ tail ++ x).
  Proof. exact (bad_unterminated_bracket name q cl Hne Hc Hd Ha W Hempty). Qed.
End Classes.
Theorem C04_reject_unterminated_substvar_at_any_relation : forall nm x, forallb subc nm = true -> bad_in_substvar (peek x) = true ->
  (forall w0, all_ws w0 -> parse (w0 ++ ch 36 :: ch 123 :: nm ++ x) = Err) /\
  (forall w0 r0 more w, all_ws w0 -> lrelR_ok r0 -> Forall (fun wr => all_ws (fst wr) /\ lrelR_ok (snd wr)) more -> all_ws w ->
     parse (w0 ++ lrel2_text r0 ++ tail2_text more ++ ch 44 :: w ++ ch 36 :: ch 123 :: nm ++ x) = Err).
Proof. exact C04_reject_open_substvar_anywhere. Qed.
Print Assumptions C04_reject_at_any_position.
Print Assumptions C04_class_two_names.
Print Assumptions C04_class_mixed_negation.
Print Assumptions C04_reject_unterminated_substvar_at_any_relation.

(* parse never runs out of fuel and returns a value or an error, never both *)
Theorem C04_total : forall x, parse x <> OutOfFuel.
Proof. exact C18_dep_terminates. Qed.

(* "with any legal spacing" includes NO blank at all between the name (or its qualifier) and a restriction, and between
   restrictions: the blanks in front of a clause in clauses_ok may be empty (repair 4dd4cdf of the r12 finding: a name used
   to swallow '[' and '<', so that "foo[amd64]" was a package named "foo[amd64]" without any restriction) *)
Example C04_no_blank_before_a_restriction :
  let s := A1.s in
  (parse (s "foo[amd64]") = parse (s "foo [amd64]") /\ parse (s "foo<stage1>") = parse (s "foo <stage1>") /\
  parse (s "foo:any[!amd64 !i386](>= 1)<!x>, b<y>|c[i386]") = parse (s "foo:any [!amd64 !i386] (>= 1) <!x>, b <y> | c [i386]") /\
  (exists d, parse (s "foo[amd64]") = Ok d))%string.
Proof. vm_compute. repeat split. eexists. reflexivity. Qed.

(* two names without a separator, the first being a substvar: "${foo} bar", "${a}b", "${a} ${b}", "${a} (>= 1)" are refused -
   a substvar is a whole alternative (repair 2nd r12 series; the parser used to read a new alternative after the brace) *)
Theorem C04_reject_text_after_substvar : forall nm w c x, forallb subc nm = true -> all_ws w -> is_ws c = false -> stop3 c = false ->
  parse (ch 36 :: ch 123 :: nm ++ ch 125 :: w ++ c :: x) = Err.
Proof. exact reject_text_after_substvar. Qed.
Print Assumptions C04_reject_text_after_substvar.

(* an unknown operator made of a known one and a third operator character - ">==", "<<<", "<=>", ">>=" ... - is refused, whatever
   follows (repair b3668d3 of the r13 finding: the third character used to be left to the version number) *)
Theorem C04_three_character_operators : forall o c rest,
  In o [s ">="; s "<="; s "<<"; s ">>"; s "="] -> In c ["="%char; "<"%char; ">"%char] -> parse_operator (o ++ c :: rest) = Err.
Proof.
  intros o c rest Ho Hc.
  destruct Ho as [<-|[<-|[<-|[<-|[<-|[]]]]]]; destruct Hc as [<-|[<-|[<-|[]]]]; reflexivity.
Qed.
