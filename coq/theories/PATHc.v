(* path.Clean is a projection onto canonical paths: the result of Clean is canonical, and Clean leaves a canonical path
   alone - hence Clean (Clean p) = Clean p for every p.  Canonical: "/" followed by plain components joined by "/";
   or some ".." components followed by plain components, joined by "/" (not both empty); or ".". *)
From Coq Require Import List Ascii String Bool Arith Lia.
Require Import GS PATH.
Import ListNotations.

Definition is_dd (c : str) : bool := str_eqb c dotdot.
(* a relative canonical component list: ".."s first, then plain components *)
Definition rel_ok (cs : list str) : Prop := exists k ps, cs = repeat dotdot k ++ ps /\ forallb plain ps = true.

Inductive canon : str -> Prop :=
| canon_dot : canon [dot]
| canon_abs : forall ps, forallb plain ps = true -> canon (slash :: join [slash] ps)
| canon_rel : forall cs, cs <> [] -> rel_ok cs -> canon (join [slash] cs).

(* ---------- the walk produces such lists ---------- *)
(* stack invariant: plain components on top (in reverse), ".."s at the bottom; none of the latter when rooted *)
Definition stack_ok (rooted : bool) (stack : list str) : Prop :=
  exists ps k, stack = ps ++ repeat dotdot k /\ forallb plain ps = true /\ (rooted = true -> k = 0).

Lemma comp_kinds c : free slash c ->
  str_eqb c [] || str_eqb c [dot] = true \/ str_eqb c dotdot = true \/ plain c = true.
Proof.
  intros F. unfold plain. destruct (str_eqb c []) eqn:E1; [now left|]. destruct (str_eqb c [dot]) eqn:E2; [now left|].
  destruct (str_eqb c dotdot) eqn:E3; [right; now left|]. right. right. cbn [negb andb].
  assert (X : existsb (fun x => ceq x slash) c = false).
  { apply not_true_is_false. intros H. apply existsb_exists in H as (x & I & Hx). destruct (ceq_spec x slash); [|discriminate].
    subst x. unfold free in F. rewrite Forall_forall in F. exact (F slash I eq_refl). }
  now rewrite X.
Qed.
Lemma repeat_snoc {A} (x : A) k : repeat x k ++ [x] = x :: repeat x k.
Proof. induction k as [|k IH]; [reflexivity|]. cbn. now rewrite IH. Qed.
Lemma plain_not_dotdot : plain dotdot = false.
Proof. reflexivity. Qed.

Lemma walk_ok rooted : forall cs stack, Forall (free slash) cs -> stack_ok rooted stack -> stack_ok rooted (walk rooted stack cs).
Proof.
  induction cs as [|c r IH]; intros stack F S; [exact S|]. inversion F as [|? ? Fc Fr]; subst. cbn [walk].
  destruct (comp_kinds c Fc) as [K|[K|K]].
  - rewrite K. now apply IH.
  - assert (K0 : str_eqb c [] || str_eqb c [dot] = false).
    { destruct (str_eqb_spec c dotdot) as [->|]; [reflexivity|discriminate]. }
    rewrite K0, K. destruct (str_eqb_spec c dotdot) as [->|]; [|discriminate].
    destruct S as (ps & k & -> & P & Z). destruct ps as [|p ps'].
    + (* only ".."s on the stack *)
      cbn [app]. destruct k as [|k']; cbn [repeat].
      * destruct rooted; apply IH; try exact Fr; [exists [], 0; auto|exists [], 1; repeat split; auto; discriminate].
      * replace (str_eqb dotdot dotdot) with true by reflexivity. apply IH; [exact Fr|].
        exists [], (S (S k')). repeat split; auto. intros Hr. specialize (Z Hr). discriminate.
    + (* a plain component on top: pop it *)
      cbn [app]. cbn [forallb] in P. apply andb_true_iff in P as [Pp Pr].
      destruct (str_eqb_spec p dotdot) as [->|N]; [rewrite plain_not_dotdot in Pp; discriminate|].
      apply IH; [exact Fr|]. exists ps', k. auto.
  - destruct (PATH.plain_kinds c K) as [K1 K2]. rewrite K1, K2. apply IH; [exact Fr|].
    destruct S as (ps & k & -> & P & Z). exists (c :: ps), k. repeat split; auto. cbn [forallb]. now rewrite K, P.
Qed.

Lemma rev_repeat {A} (x : A) k : rev (repeat x k) = repeat x k.
Proof. induction k as [|k IH]; [reflexivity|]. cbn. rewrite IH. apply repeat_snoc. Qed.
Lemma forallb_rev {A} (f : A -> bool) l : forallb f (rev l) = forallb f l.
Proof.
  induction l as [|a l IH]; [reflexivity|]. cbn [rev forallb]. rewrite forallb_app, IH. cbn. rewrite andb_true_r. apply andb_comm.
Qed.

Theorem clean_canon p : canon (clean p).
Proof.
  unfold clean. destruct p as [|c0 r0] eqn:Ep; [constructor|]. rewrite <- Ep.
  assert (S : stack_ok (is_rooted p) (walk (is_rooted p) [] (split slash p))).
  { apply walk_ok; [apply split_free|]. exists [], 0. cbn. auto. }
  destruct S as (ps & k & -> & P & Z). rewrite rev_app_distr, rev_repeat. destruct (is_rooted p) eqn:Rt.
  - rewrite (Z eq_refl). cbn [repeat app]. constructor. now rewrite forallb_rev.
  - destruct (repeat dotdot k ++ rev ps) as [|x xs] eqn:E; [constructor|]. rewrite <- E. apply canon_rel; [rewrite E; discriminate|].
    exists k, (rev ps). split; [reflexivity|now rewrite forallb_rev].
Qed.

(* ---------- Clean leaves canonical paths alone ---------- *)
Lemma dotdot_free : free slash dotdot.
Proof. repeat constructor; discriminate. Qed.
Lemma rel_free cs : rel_ok cs -> Forall (free slash) cs.
Proof.
  intros (k & ps & -> & P). apply Forall_app. split.
  - apply Forall_forall. intros x I. apply repeat_spec in I. subst. apply dotdot_free.
  - apply Forall_forall. intros x I. apply plain_free. rewrite forallb_forall in P. now apply P.
Qed.
Lemma walk_dotdots : forall k stack, (forall t st, stack = t :: st -> t = dotdot) ->
  walk false stack (repeat dotdot k) = repeat dotdot k ++ stack.
Proof.
  induction k as [|k IH]; intros stack H; [reflexivity|]. cbn [repeat walk].
  replace (str_eqb dotdot [] || str_eqb dotdot [dot]) with false by reflexivity.
  replace (str_eqb dotdot dotdot) with true by reflexivity.
  destruct stack as [|t st].
  - rewrite IH by (intros t st E; inversion E; reflexivity). rewrite <- repeat_snoc. now rewrite <- app_assoc.
  - rewrite (H t st eq_refl). replace (str_eqb dotdot dotdot) with true by reflexivity.
    rewrite IH by (intros t' st' E; inversion E; reflexivity). rewrite <- repeat_snoc. now rewrite <- app_assoc.
Qed.
Lemma walk_app rooted : forall a b stack, walk rooted stack (a ++ b) = walk rooted (walk rooted stack a) b.
Proof.
  induction a as [|c r IH]; intros b stack; [reflexivity|]. cbn [app walk].
  destruct (str_eqb c [] || str_eqb c [dot]); [apply IH|]. destruct (str_eqb c dotdot).
  - destruct stack as [|t st]; [destruct rooted; apply IH|]. destruct (str_eqb t dotdot); apply IH.
  - apply IH.
Qed.
Lemma first_not_rooted cs : cs <> [] -> rel_ok cs -> is_rooted (join [slash] cs) = false.
Proof.
  intros NE (k & ps & -> & P).
  assert (H : forall c r, repeat dotdot k ++ ps = c :: r -> is_rooted (join [slash] (c :: r)) = false).
  { intros c r E. assert (Hc : c <> [] /\ is_rooted c = false).
    { destruct k as [|k']; cbn in E.
      - subst ps. cbn in P. apply andb_true_iff in P as [P _]. pose proof (plain_free c P) as F. split; [intros ->; discriminate|].
        destruct c as [|x xs]; [reflexivity|]. cbn. inversion F; subst. destruct (ceq_spec x slash); [contradiction|reflexivity].
      - inversion E; subst. split; [discriminate|reflexivity]. }
    destruct Hc as [Hn Hr]. destruct c as [|x xs]; [congruence|]. destruct r; cbn in *; exact Hr. }
  destruct (repeat dotdot k ++ ps) as [|c r] eqn:E; [congruence|]. now apply H.
Qed.

Theorem clean_of_canon q : canon q -> clean q = q.
Proof.
  intros [ | ps P | cs NE R].
  - reflexivity.
  - apply (clean_clean_abs _ ps). split; [exact P|reflexivity].
  - pose proof (first_not_rooted cs NE R) as Rt. pose proof (rel_free cs R) as F.
    unfold clean. destruct (join [slash] cs) as [|c0 r0] eqn:Ej.
    + (* a non-empty list of non-empty components cannot join to the empty string *)
      exfalso. destruct R as (k & ps & -> & P). destruct k as [|k'].
      * cbn in Ej. destruct ps as [|p pr]; [apply NE; reflexivity|]. cbn in P. apply andb_true_iff in P as [Pp _].
        destruct p; [discriminate|]. destruct pr; discriminate.
      * cbn in Ej. destruct (repeat dotdot k' ++ ps); discriminate.
    + rewrite Rt. rewrite <- Ej. rewrite (split_join slash cs NE F).
      destruct R as (k & ps & -> & P). rewrite walk_app. rewrite walk_dotdots by (intros t st E; discriminate).
      rewrite app_nil_r. 
      (* plain components are pushed *)
      assert (W : forall l stack, forallb plain l = true -> walk false stack l = rev l ++ stack).
      { intros l stack. apply PATH.walk_plain. }
      rewrite W by exact P. rewrite rev_app_distr, rev_involutive, rev_repeat.
      destruct (repeat dotdot k ++ ps) eqn:E; [congruence|]. reflexivity.
Qed.

Theorem clean_idempotent p : clean (clean p) = clean p.
Proof. apply clean_of_canon. apply clean_canon. Qed.
Print Assumptions clean_idempotent.
