(* The dispatch tables of the hand-written models ARE the tables of today's source text.
   coq/gen/Consts_gen.v is written on every run by driver/srcconsts.py, which reads them out of /repo's .go files.  Each
   lemma states that a model constant equals what was read; an edit of one of those tables in the source breaks the lemma -
   a proof obligation - before a single case has been run.  One file per model (SRC_D3, SRC_AR, SRC_DATE, SRC_D16, SRC_U20):
   a broken lemma is held against the properties whose theorems rest on that model (driver/lib.py: the Require closure of the
   property file), not against the others. *)
From Coq Require Import List Ascii String Bool Arith NArith Lia.
Require Import GS DATE Consts_gen.
Import ListNotations.

(* changelog/changelog.go: the layout DATE.parse_when is a model of *)
Definition modelled_layout : string := "Mon, 2 Jan 2006 15:04:05 -0700".
Lemma src_when_layout : Consts_gen.when_layout = modelled_layout.
Proof. reflexivity. Qed.

