(* C11: NewParagraphReader / decodeClearsig glue (after repair #31) *)
From Coq Require Import List Ascii String Bool Arith Lia.
Require Import GS.
Require ARM.
Import ListNotations.

Section Clearsign.
  Variables keyring entity sig para : Type.
  (* ORACLES *)
  Variable cs_decode : str -> option (str * sig * str).          (* clearsign.Decode: body, signature, rest *)
  Variable pgp_verify : keyring -> str -> sig -> option entity.  (* openpgp.CheckDetachedSignature *)
  Variable read_all : str -> option (list para).                 (* the deb822 reader (C07 model) *)

  Definition armor : str := s "-----BEGIN PGP ".
  Definition starts_pgp (x : str) : bool := str_eqb (firstn 15 x) armor.

  Record reader := { r_text : str; r_signer : option entity }.
  Inductive res := ROk (r : reader) | RErr.

  (* what clearsign.Decode consumed: the input without the rest it hands back *)
  Definition consumed (input rest : str) : str := firstn (List.length input - List.length rest) input.
  Definition new_reader (kr : option keyring) (input : str) : res :=
    if negb (starts_pgp input) then
      match kr with
      | Some _ => RErr                                (* repair #31 *)
      | None => ROk {| r_text := input; r_signer := None |}
      end
    else
      match cs_decode input with
      | None => RErr
      | Some (body, sg, rest) =>
          match kr with
          | None => ROk {| r_text := body; r_signer := None |}
          | Some k =>
              (* 5d22f1c: a malformed checksum line in the signature armor (ARM.armor_ok on what clearsign.Decode
                 consumed) is damage - the armor reader would skip the line and compare no checksum *)
              if negb (ARM.armor_ok (consumed input rest)) then RErr else
              match pgp_verify k body sg with
              | None => RErr
              | Some e => ROk {| r_text := body; r_signer := Some e |}
              end
          end
      end.
  Definition paragraphs (r : reader) := read_all (r_text r).

  Theorem C11_sound k input r : new_reader (Some k) input = ROk r ->
    exists body sg rest e, cs_decode input = Some (body, sg, rest) /\ pgp_verify k body sg = Some e /\
      r_signer r = Some e /\ paragraphs r = read_all body /\ ARM.armor_ok (consumed input rest) = true.
  Proof.
    unfold new_reader. destruct (starts_pgp input); cbn [negb]; [|discriminate].
    destruct (cs_decode input) as [[[body sg] rest]|] eqn:D; [|discriminate].
    destruct (ARM.armor_ok (consumed input rest)) eqn:A; cbn [negb]; [|discriminate].
    destruct (pgp_verify k body sg) as [e|] eqn:V; [|discriminate].
    intros E. inversion E; subst. exists body, sg, rest, e. auto.
  Qed.
  (* a malformed checksum line in the signature armor makes reading fail, whatever the signature check would say *)
  Theorem C11_malformed_checksum k input body sg rest : starts_pgp input = true -> cs_decode input = Some (body, sg, rest) ->
    ARM.armor_ok (consumed input rest) = false -> new_reader (Some k) input = RErr.
  Proof. unfold new_reader. intros -> -> ->. reflexivity. Qed.

  Theorem C11_fail k input :
    (starts_pgp input = false \/ cs_decode input = None \/
     (forall b g t, cs_decode input = Some (b, g, t) -> pgp_verify k b g = None)) ->
    new_reader (Some k) input = RErr.
  Proof.
    unfold new_reader. intros [H|[H|H]].
    - now rewrite H.
    - destruct (starts_pgp input); cbn [negb]; [now rewrite H|reflexivity].
    - destruct (starts_pgp input); cbn [negb]; [|reflexivity].
      destruct (cs_decode input) as [[[b g] t]|] eqn:D; [|reflexivity]. destruct (ARM.armor_ok _); cbn [negb]; [|reflexivity]. now rewrite (H b g t eq_refl).
  Qed.

  (* text outside the signed block never reaches the caller: the reader's text is the decoded body *)
  Theorem C11_only_body kr input r : starts_pgp input = true -> new_reader kr input = ROk r ->
    exists body sg rest, cs_decode input = Some (body, sg, rest) /\ r_text r = body.
  Proof.
    unfold new_reader. intros ->. cbn [negb]. destruct (cs_decode input) as [[[body sg] rest]|]; [|discriminate].
    destruct kr as [k|].
    - destruct (ARM.armor_ok _); cbn [negb]; [|discriminate]. destruct (pgp_verify k body sg); [|discriminate]. intros E. inversion E. eauto.
    - intros E. inversion E. eauto.
  Qed.

  Theorem C11_signer_means_verified kr input r e : new_reader kr input = ROk r -> r_signer r = Some e ->
    exists k body sg rest, kr = Some k /\ cs_decode input = Some (body, sg, rest) /\ pgp_verify k body sg = Some e.
  Proof.
    unfold new_reader. destruct (starts_pgp input); cbn [negb].
    - destruct (cs_decode input) as [[[body sg] rest]|]; [|discriminate]. destruct kr as [k|].
      + destruct (ARM.armor_ok _); cbn [negb]; [|discriminate]. destruct (pgp_verify k body sg) as [e'|] eqn:V; [|discriminate]. intros E S. inversion E; subst. cbn in S. inversion S; subst. eauto 8.
      + intros E S. inversion E; subst. discriminate.
    - destruct kr; [discriminate|]. intros E S. inversion E; subst. discriminate.
  Qed.

  Corollary C11_unsigned_no_signer kr input r : starts_pgp input = false -> new_reader kr input = ROk r -> r_signer r = None.
  Proof. unfold new_reader. intros ->. cbn. destruct kr; [discriminate|]. intros E. now inversion E. Qed.
End Clearsign.
Print Assumptions C11_sound.
Print Assumptions C11_signer_means_verified.
