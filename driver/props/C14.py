"""C14 - .deb loading exposes the package's control data and payload faithfully."""
import gzip
import os
import posixpath
import shutil
import subprocess
import tempfile
import zlib
import lib
import argen
import debpkg
from props.C09 import split_record, hx, show_list


def show_data(d):
    s = zlib.adler32(d)
    return "%d %d %d" % (len(d), s & 0xffff, s >> 16)


def oracle_args(chk, bufs):
    """for every package: the oracle answers (tar, decompressors, path.Clean, filepath.Ext) for its control.* and
    data.* members, computed by the harness with the libraries directly; returned as model arguments"""
    mem = chk.run_model([("debmembers", [b]) for b in bufs])
    reqs, owner = [], []
    for k, r in enumerate(mem):
        if r == "notar":
            continue
        toks = r.split()
        i = 0
        while i < len(toks):
            if toks[i] == "(":
                name = bytes.fromhex(toks[i + 1][1:]); data = bytes.fromhex(toks[i + 2][1:])
                if name.startswith(b"control.") or name.startswith(b"data."):
                    reqs.append(("deboracle", [name, data, b"1" if name.startswith(b"control.") else b"0"])); owner.append((k, name))
                i += 4
            else:
                i += 1
    ans = chk.run_impl(reqs)
    tables = [[] for _ in bufs]
    for (k, name), a in zip(owner, ans):
        t = a.split(" ", 4)
        if len(t) < 5:
            continue
        istar, ext, decok, untarok, rest = t
        files = []
        ft = rest.split()
        i = 0
        while i < len(ft):
            if ft[i] == "(":
                files.append((bytes.fromhex(ft[i + 1][1:]), bytes.fromhex(ft[i + 2][1:]), bytes.fromhex(ft[i + 3][1:])))
                i += 5
            else:
                i += 1
        row = [name, b"1" if istar == "T" else b"0", bytes.fromhex(ext[1:]), b"1" if decok == "T" else b"0", b"1" if untarok == "T" else b"0", len(files)]
        for f in files:
            row += list(f)
        tables[k] += row
    return tables, mem


def expected(info):
    return None


def check_loaded(chk, case, res, info):
    if not res.startswith("ok "):
        chk.violate({"kind": "property", "case": lib.show_case(("debload", [b"<%d bytes>" % len(case[1][0])])), "impl": res[:300],
                     "explanation": "a well-formed format-2.0 .deb was not loaded"})
        return
    rec, rest = res[3:].split(" | ", 1)
    got = dict(kv.split("=", 1) for kv in split_record(rec))
    c = info["control"]
    want = {"Package": hx(c[b"Package"]), "Maintainer": hx(c[b"Maintainer"]), "Section": hx(c.get(b"Section", b"")),
            "InstalledSize": c.get(b"Installed-Size", b"0").decode()}
    if b"Description" in c:
        # the field's logical lines: continuation marker removed, " ." an empty line, indentation kept, one newline per continuation line
        ls = c[b"Description"].split(b"\n ")
        want["Description"] = hx(ls[0] if len(ls) == 1 else ls[0] + b"\n" + b"".join((b"" if l == b"." else l) + b"\n" for l in ls[1:]))
    for k, v in want.items():
        if got.get(k) != v:
            chk.violate({"kind": "property", "case": lib.show_case(("debload", [b"<%d bytes>" % len(case[1][0])])), "field": k, "impl": str(got.get(k)), "expected": v,
                         "explanation": "the loaded control fields are not the packaged control paragraph"})
            return
    t = rest.split(" ", 2)
    idx_files = t[2]
    if t[0] != hx(info["cext"]) or t[1] != hx(info["dext"]):
        chk.violate({"kind": "property", "case": lib.show_case(("debload", [b"<%d bytes>" % len(case[1][0])])), "impl": t[0] + " " + t[1],
                     "explanation": "wrong control/data extension"}); return
    idx = show_list(["( %s %d )" % (hx(n), sz) for n, sz in sorted(info["members"])])
    files = show_list(["( %s %s )" % (hx(posixpath.normpath(n.decode("latin1")).encode("latin1")), show_data(d)) for n, d in info["data_files"]])
    if idx_files != idx + " " + files:
        chk.violate({"kind": "property", "case": lib.show_case(("debload", [b"<%d bytes>" % len(case[1][0])])), "impl": idx_files[:800], "expected": (idx + " " + files)[:800],
                     "explanation": "the member index or the data tar listing is not what was packaged"})


def run(chk):
    rng = chk.rng
    pkgs = []
    for cenc in debpkg.ENCODINGS:
        for denc in debpkg.ENCODINGS:
            for _ in range(chk.n(2, 20)):
                extras = rng.choice([[], [(b"_gpgorigin", b"sig")], [(b"unknown-member", b"x" * 3), (b"_underscore", b"")]])
                # deb(5): readers must ignore further lines after the version line
                binary = rng.choice([b"2.0\n", b"2.0\n", b"2.0\nfuture extension line\n", b"2.0\n\n", b"2.0\nx"])
                pkgs.append(debpkg.build(chk, rng, cenc, denc, extras=extras, binary=binary))
    # control tarballs in which './control' comes after MUCH data (a 1.3 MiB md5sums, as packages with many files have) or
    # is itself large, in a stored and a compressed tarball
    for cenc in ("", ".xz"):
        bigsums = b"".join(b"%032x  usr/share/doc/pkg/file-%06d\n" % (rng.getrandbits(128), k) for k in range(18000))
        pkgs.append(debpkg.build(chk, rng, cenc, ".gz", ctl_files=[(b"./", b""), (b"./md5sums", bigsums), (b"./control", None), (b"./postinst", b"#!/bin/sh\n")]))
    pkgs += dpkg_deb_packages(chk, rng)
    bufs = [b for b, _ in pkgs]
    tables, _ = oracle_args(chk, bufs)
    icases = [("debload", [b]) for b in bufs]
    mcases = [("debload", [b] + t) for b, t in zip(bufs, tables)]
    impl = chk.run_impl(icases); model = chk.run_model(mcases)
    chk.compare("well-formed-packages", mcases, impl, model)
    for c, i, (b, info) in zip(icases, impl, pkgs):
        if info is not None:
            check_loaded(chk, c, i, info)
        elif not i.startswith("ok "):
            chk.violate({"kind": "property", "case": lib.show_case(("debload", [b"<dpkg-deb package, %d bytes>" % len(b)])), "impl": i[:300],
                         "explanation": "a package built by dpkg-deb was not loaded"})
    # the same packages through LoadFile (a real file; the lazily read payload stream must outlive the loader), and
    # packages whose payload is far larger than any read-ahead buffer (64 KiB of incompressible data)
    big = []
    for cenc, denc in (("", ""), (".gz", ".gz"), (".xz", ""), (".gz", ".zst"), ("", ".bz2")):
        dfiles = [(b"./", b""), (b"./usr/bin/hello", b"#!/bin/sh\n"), (b"./noise.bin", bytes(rng.randrange(256) for _ in range(65536))), (b"./after", b"tail\n")]
        big.append(debpkg.build(chk, rng, cenc, denc, data_files=dfiles))
    fcases = [("debloadfile", [b]) for b in bufs[::2]] + [("debloadfile", [b]) for b, _ in big]
    fref = chk.run_impl([("debload", c[1]) for c in fcases])
    fi = chk.run_impl(fcases)
    chk.record("load-file", fcases, fi)
    for c, a, r in zip(fcases, fi, fref):
        if a != r:
            chk.violate({"kind": "property", "case": lib.show_case(("debloadfile", [b"<%d bytes>" % len(c[1][0])])), "load": r[:600], "load_file": a[:600],
                         "explanation": "LoadFile does not expose the same control data, member index and payload listing as Load on the same bytes"})
    for (b, info), r in zip(big, fref[len(fcases) - len(big):]):
        check_loaded(chk, ("debload", [b]), r, info)
    # the same packages through an io.ReaderAt that returns io.EOF together with the last bytes (contract-conforming;
    # typical of range-request readers): the package is as well-formed as before
    ec = [("debloadeof", [b]) for b in bufs[1::2]]
    eref = [impl[k] for k in range(1, len(bufs), 2)]
    ei = chk.run_impl(ec)
    chk.record("reader-at-with-eager-eof", ec, ei)
    for c, a, r in zip(ec, ei, eref):
        if a != r:
            chk.violate({"kind": "property", "case": lib.show_case(("debloadeof", [b"<%d bytes>" % len(c[1][0])])), "load": r[:600], "load_eager_eof": a[:600],
                         "explanation": "Load through an io.ReaderAt that reports io.EOF together with the final bytes does not expose what Load on a bytes.Reader exposes"})
    # the member index as a door of its own: every entry of Deb.ArContent asked IsTarfile() (model: PATH.is_tarfile) and, when
    # it is one, opened with ArEntry.Tarfile() and listed - control and data tarballs in every encoding list exactly the
    # packaged files; other members are not tarballs
    ecases = [("debentries", [b]) for (b, info) in pkgs if info is not None][::2]
    einfo = [info for (b, info) in pkgs if info is not None][::2]
    ei = chk.run_impl(ecases)
    chk.record("member-index-entries", ecases, ei)
    mnames = sorted({m["name"] for info in einfo for m in info["ms"]})
    istar = dict(zip(mnames, chk.run_model([("pistar", [n]) for n in mnames])))
    for c, got, info in zip(ecases, ei, einfo):
        items = []
        for m in sorted(info["ms"], key=lambda m: m["name"]):
            if m["name"].startswith(b"control.tar"):
                fl = info["ctl_files"]
            elif m["name"].startswith(b"data.tar"):
                fl = info["data_files"]
            else:
                fl = None
            t = istar[m["name"]]
            listing = "-" if t != "T" else show_list(["x%s:%d" % (n.hex(), len(d)) for n, d in fl]) if fl is not None else "?"
            items.append("( x%s %d %s %s %d:%08x )" % (m["name"].hex(), len(m["data"]), t, listing, len(m["data"]), zlib.crc32(m["data"]) & 0xffffffff))
        want = "ok " + show_list(items)
        if got != want:
            chk.violate({"kind": "property", "case": lib.show_case(("debentries", [b"<%d bytes>" % len(c[1][0])])), "impl": got[:900], "expected": want[:900],
                         "explanation": "the member index of a loaded package does not list the members with their sizes, or a member's IsTarfile / Tarfile() does not expose the packaged files, or an entry's reader does not deliver the member's bytes"})
    # the xz dictionary limit is process-wide state with a documented reset (SetXZMaxDict(0) = the default): after a limit was
    # set and reset, packages with xz members (8 MiB dictionaries, what xz and dpkg-deb write by default) load as before
    xz = [(b, r) for (b, info), r in zip(pkgs, impl) if info is not None and (info["cext"] == b"tar.xz" or info["dext"] == b"tar.xz")][:chk.n(12, 120)]
    xc = [("debxzdict", [lim, b]) for b, _ in xz for lim in (b"1048576", b"4096")]
    xi = chk.run_impl(xc)
    chk.record("xz-dictionary-limit-reset", xc, xi)
    for c, a, r in zip(xc, xi, [r for _, r in xz for _ in (0, 1)]):
        if a != r:
            chk.violate({"kind": "property", "case": lib.show_case(("debxzdict", [c[1][0], b"<%d bytes>" % len(c[1][1])])), "plain_load": r[:400], "after_limit_reset": a[:400],
                         "explanation": "after SetXZMaxDict(n) and SetXZMaxDict(0) a well-formed package with xz members no longer loads as before"})
    # path.Clean (the control entry is the first tar member whose cleaned name is "control") and filepath.Ext (the
    # compression of a member) against their model PATH.v
    import pathgen
    pathgen.stream(chk, ["pclean", "pext"])
    # two packages open at the same time: each exposes its own control data and payload (codec state is per package)
    pairs = []
    for enc in debpkg.ENCODINGS:
        a, _ = debpkg.build(chk, rng, rng.choice(debpkg.ENCODINGS), enc)
        b, _ = debpkg.build(chk, rng, rng.choice(debpkg.ENCODINGS), enc)
        pairs.append((a, b))
    for _ in range(chk.n(6, 60)):
        pairs.append((rng.choice(bufs), rng.choice(bufs)))
    pc = [("debload2", [a, b]) for a, b in pairs]
    pi = chk.run_impl(pc)
    single = dict(zip(bufs, impl))
    need = [x for ab in pairs for x in ab if x not in single]
    single.update(zip(need, chk.run_impl([("debload", [x]) for x in need])))
    chk.record("two-packages-open", pc, pi)
    for c, r, (a, b) in zip(pc, pi, pairs):
        w = single[a] + " ## " + single[b]
        if r != w:
            chk.violate({"kind": "property", "case": lib.show_case(("debload2", [b"<%d bytes>" % len(a), b"<%d bytes>" % len(b)])), "impl": r[:900], "expected": w[:900],
                         "explanation": "with two packages loaded at the same time, a package does not expose its own control data and payload"})
    # rejections: wrong format version, missing members
    bad = []
    base, info = debpkg.build(chk, rng, ".gz", ".xz")
    ms = info["ms"]
    for binary in (b"3.0\n", b"1.0\n", b"2.0", b"", b"2.1\n", b"02.0\n", b" 2.0\n", b"\n", b"\n2.0\n", b"\n\n", b"2", b"2.", b"2\n", b"2.\n", b"\r\n"):
        bad.append((argen.render([debpkg.member(b"debian-binary", binary)] + ms[1:]), "format version %r" % binary))
    bad.append((argen.render(ms[1:]), "no debian-binary"))
    bad.append((argen.render([ms[0], ms[2]]), "no control member"))
    bad.append((argen.render([ms[0], ms[1]]), "no data member"))
    bad.append((argen.render([ms[0], debpkg.member(b"control.txt", ms[1]["data"]), ms[2]]), "control member that is not a tar file"))
    bad.append((argen.render(ms + [debpkg.member(b"control.tar", b"")]), "two control members"))
    bad.append((argen.render(ms + [debpkg.member(b"data.tar.gz", ms[2]["data"])]), "two data members"))
    bad.append((argen.render([ms[0], debpkg.member(b"control.tar.gz", debpkg.compress(chk, ".gz", debpkg.make_tar([(b"./md5sums", b"x")]))), ms[2]]), "control tar without control"))
    bbufs = [b for b, _ in bad]
    tables, _ = oracle_args(chk, bbufs)
    bi = chk.run_impl([("debload", [b]) for b in bbufs]); bm = chk.run_model([("debload", [b] + t) for b, t in zip(bbufs, tables)])
    chk.compare("malformed-packages", [("debload", [b] + t) for b, t in zip(bbufs, tables)], bi, bm, nontrivial=lambda c, r: True)
    for (b, why), i in zip(bad, bi):
        # "2.1\n" has major version 2: the property does not demand its rejection, so it is compared with the model only
        if i != "err" and why not in ("format version %r" % b"2.1\n", "format version %r" % b"2.\n"):
            chk.violate({"kind": "property", "case": lib.show_case(("debload", [b"<%d bytes>" % len(b)])), "impl": i[:300],
                         "explanation": "a package that must be rejected (%s) was loaded" % why})
    # ONE spelling only, in another letter case than the struct's (Policy 5.1: field names are not case-sensitive; dpkg-deb
    # builds such a control file without a warning): the loaded field is the packaged one
    for fld in (b"Package", b"Version", b"Architecture", b"Maintainer"):
        for spell in (fld.lower(), fld.upper()):
            base, info = debpkg.build(chk, rng, ".gz", ".gz")
            ct = info["ctext"]
            line = [l for l in ct.split(b"\n") if l.startswith(fld + b":")]
            if not line:
                continue
            ct2 = ct.replace(line[0] + b"\n", spell + line[0][len(fld):] + b"\n")
            pk, _ = debpkg.build(chk, rng, ".gz", ".gz", ctl_files=[(b"./control", ct2), (b"./md5sums", b"x\n")])
            r = chk.run_impl([("debload", [pk])])[0]
            val = line[0].split(b": ", 1)[1]
            shown = {b"Package": "Package=" + hx(val), b"Maintainer": "Maintainer=" + hx(val)}.get(fld)
            if not r.startswith("ok ") or (shown and shown not in r):
                chk.violate({"kind": "property", "case": lib.show_case(("debload", [pk])), "impl": r[:200], "field": spell.decode(),
                             "explanation": "a control file whose field name is spelled in another letter case was not loaded with that field (field names are not case-sensitive)"})
    # the same bytes always give the same result
    for c, a in zip(icases[::4], impl[::4]):
        for rep in chk.run_impl([c] * 3):
            if rep != a:
                chk.violate({"kind": "property", "case": lib.show_case(("debload", [b"<%d bytes>" % len(c[1][0])])), "first": a[:300], "again": rep[:300],
                             "explanation": "loading the same bytes twice gives different results"})
    chk.extra["encodings"] = debpkg.ENCODINGS
    chk.trusted.append("tar / decompressor / path.Clean / filepath.Ext oracles: the Go libraries called directly by the harness (op deboracle)")
    chk.assumptions += ["the codecs and tar are oracles; packages are built with Python's tarfile/gzip/bz2/lzma and the klauspost zstd encoder, plus dpkg-deb"]


def dpkg_deb_packages(chk, rng):
    if not shutil.which("dpkg-deb"):
        chk.notes.append("dpkg-deb not installed")
        return []
    out = []
    d = tempfile.mkdtemp(prefix="verif-deb-", dir="/var/tmp")
    try:
        for z in ("none", "gzip", "xz", "zstd"):
            root = os.path.join(d, "root-" + z)
            os.makedirs(os.path.join(root, "DEBIAN")); os.makedirs(os.path.join(root, "usr/share/x"))
            with open(os.path.join(root, "DEBIAN/control"), "w") as f:
                f.write("Package: hello-%s\nVersion: 1.0-1\nArchitecture: all\nMaintainer: A B <a@b.c>\nDescription: test\n long\n" % z)
            with open(os.path.join(root, "usr/share/x/file"), "wb") as f:
                f.write(bytes(rng.randrange(256) for _ in range(500)))
            pkg = os.path.join(d, z + ".deb")
            rc = subprocess.run(["dpkg-deb", "--root-owner-group", "-Z" + z, "-b", root, pkg], stdout=subprocess.DEVNULL, stderr=subprocess.DEVNULL).returncode
            if rc == 0:
                out.append((open(pkg, "rb").read(), None))
    finally:
        shutil.rmtree(d, ignore_errors=True)
    chk.extra["dpkg_deb_packages"] = len(out)
    return out


def hostile_debs(chk):
    """C15: .deb loading on corrupted packages whose members are stored or gzip-compressed"""
    rng = chk.rng
    bufs = []
    for cenc, denc in (("", ""), (".gz", ".gz"), ("", ".gz")):
        base, info = debpkg.build(chk, rng, cenc, denc)
        bufs.append(base)
        offs = argen.header_offsets(info["ms"])
        for _ in range(chk.n(150, 3000)):
            b = bytearray(base)
            for _ in range(rng.randrange(1, 3)):
                k = rng.randrange(8, len(b))
                b[k:k + 1] = rng.choice([b"-", b"9", b" ", b"`", b"\n", b"", b"\x00", b"/", b"2", b"."])
            bufs.append(bytes(b))
        for k in range(0, len(base), max(1, len(base) // chk.n(150, 1500))):
            bufs.append(base[:k])
        for off in offs:
            for text in (b"-60", b"-1", b"9999999999", b"", b"x"):
                b = bytearray(base); b[off + 48:off + 58] = argen.col(text, 10); bufs.append(bytes(b))
        # tar headers with a VALID checksum whose size column lies (octal maximum, GNU base-256 values up to 2^63-1, negative,
        # a little more or less than the data): byte flips never get past the checksum, these do
        if cenc == "":
            ctar = info["ms"][1]["data"]
            at = ctar.find(b"control\x00")
            at = ctar.rfind(b"\x00" * 0, 0, at + 1) if at < 0 else (at // 512) * 512
            if at >= 0:
                def with_size(field):
                    h = bytearray(ctar[at:at + 512]); h[124:136] = field; h[148:156] = b" " * 8
                    h[148:156] = b"%06o\x00 " % sum(h)
                    return ctar[:at] + bytes(h) + ctar[at + 512:]
                b256 = lambda v: b"\x80" + v.to_bytes(11, "big")
                for field in (b"77777777777\x00", b"00000000001\x00", b"00000007777\x00", b256(2**33), b256(2**48), b256(2**62), b256(2**63 - 1),
                              b"\xff" * 12, b256(2**64), b"            ", b"0000000000x\x00"):
                    bufs.append(argen.render([info["ms"][0], dict(info["ms"][1], data=with_size(field))] + info["ms"][2:]))
        # every short content of the debian-binary member (empty, one byte, no newline, newline first, ...)
        for binary in [b"", b"\n", b"2", b"2.", b"2\n", b"2.\n", b"\n2.0\n", b"\n\n", b"\r\n", b"2.0", b"2.0\r\n", b"\x00", b"2.0\n\x00"] + \
                [bytes([c]) for c in b"0123. \t"]:
            bufs.append(argen.render([debpkg.member(b"debian-binary", binary)] + info["ms"][1:]))
    # control paragraphs in which a field is present only in other spellings of its name (package: / PACKAGE:), with different
    # values: whatever the loader makes of them, it makes the same of them every time
    casev = []
    for cenc in ("", ".gz"):
        for fld in (b"Package", b"Version", b"Architecture", b"Maintainer"):
            base, info = debpkg.build(chk, rng, cenc, ".gz")
            ct = info["ctext"]
            line = [l for l in ct.split(b"\n") if l.startswith(fld + b":")]
            if not line:
                continue
            val = line[0].split(b": ", 1)[1]
            ct2 = ct.replace(line[0] + b"\n", fld.lower() + b": " + val + b"\n" + fld.upper() + b": " + (b"2.0-2" if fld == b"Version" else b"other") + b"\n")
            pk, _ = debpkg.build(chk, rng, cenc, ".gz", ctl_files=[(b"./control", ct2), (b"./md5sums", b"x\n")])
            casev.append(pk)
    bufs += casev * 6
    cases = [("debload", [b]) for b in bufs]
    first = chk.run_impl(cases)
    outcomes = {}
    for c, r in zip(cases, first):
        if c[1][0] in casev:
            outcomes.setdefault(c[1][0], set()).add(r)
    for b, rs in outcomes.items():
        if len(rs) > 1:
            chk.violate({"kind": "property", "case": lib.show_case(("debload", [b"<%d bytes>" % len(b)])), "outcomes": sorted(r[:200] for r in rs),
                         "explanation": "loading the same bytes repeatedly gives different outcomes (a control paragraph with several spellings of one field name)"})
    tables, _ = oracle_args(chk, bufs)
    mcases = [("debload", [b] + t) for b, t in zip(bufs, tables)]
    model = chk.run_model(mcases)
    chk.compare("hostile-debs", mcases, first, model, nontrivial=lambda c, r: r != "err", kernel=False, spec=False)
    again = chk.run_impl(cases)
    for c, a, b in zip(cases, first, again):
        if a in ("panic", "timeout") or a.startswith("runner-died"):
            chk.violate({"kind": "property", "case": lib.show_case(c), "impl": a, "explanation": "loading a corrupted .deb did not finish normally"})
        elif a != b:
            chk.violate({"kind": "property", "case": lib.show_case(c), "first": a[:300], "again": b[:300], "explanation": "loading the same bytes twice gives different outcomes"})
    # C15: "every member that is returned ... has a non-negative size, and its reader delivers exactly that many bytes" - for the
    # members a successfully LOADED package returns in its index, whatever the archive looked like
    lc = [("debentries", [c[1][0]]) for c, r in zip(cases, first) if r.startswith("ok ")]
    li = chk.run_impl(lc)
    chk.record("loaded-hostile-debs-member-readers", lc, li)
    import re as _re
    for c, r in zip(lc, li):
        for name, size, rd in _re.findall(r"\( x([0-9a-f]*) (-?\d+) [TF] (?:-|open-error|\[(?: [^\]]*)?\]) (\S+) \)", r):
            if int(size) < 0 or not rd.startswith("%d:" % int(size)):
                chk.violate({"kind": "property", "case": lib.show_case(("debentries", [b"<%d bytes>" % len(c[1][0])])), "member": bytes.fromhex(name).decode("latin1"),
                             "size": int(size), "read": rd, "explanation": "a member returned in the index of a loaded package has a negative size or a reader that does not deliver exactly Size bytes"})
                break
    # loading reads what is IN the archive: a control tarball whose 'control' entry is a SPARSE file (512 bytes of header declaring
    # 48 MiB of holes, which archive/tar would deliver as zeros), a directory or a symbolic link, stored and gzip-compressed -
    # Load answers without producing more than a small multiple of its input (runtime TotalAlloc before and after)
    def sparse_header(name, realsize, typeflag=b"S"):
        h = bytearray(512)
        h[0:len(name)] = name
        h[100:108] = b"0000644\x00"; h[108:116] = b"0000000\x00"; h[116:124] = b"0000000\x00"
        h[124:136] = b"00000000000\x00"; h[136:148] = b"00000000000\x00"
        h[156:157] = typeflag
        h[257:265] = b"ustar  \x00"
        b256 = lambda v: bytes([0x80]) + v.to_bytes(11, "big")
        if typeflag == b"S":
            h[386:398] = b256(realsize); h[398:410] = b"00000000000\x00"; h[483:495] = b256(realsize)
        h[148:156] = b"        "
        h[148:156] = b"%06o\x00 " % sum(h)
        return bytes(h)
    costly = []
    for typeflag, size in ((b"S", 48 << 20), (b"S", 1 << 62), (b"5", 0), (b"2", 0)):
        ctar = sparse_header(b"./control", size, typeflag) + bytes(1024)
        for cname, cdata in ((b"control.tar", ctar), (b"control.tar.gz", gzip.compress(ctar))):
            ms = [debpkg.member(b"debian-binary", b"2.0\n"), debpkg.member(cname, cdata), debpkg.member(b"data.tar", bytes(1024))]
            costly.append(argen.render(ms))
    # (the 2^62 variants only where the loader refuses non-regular control entries: ask the 48 MiB one first)
    probe = chk.run_impl([("debloadcost", [costly[0]])])[0]
    cc = [("debloadcost", [b]) for k, b in enumerate(costly) if probe.endswith(" alloc=0") or "alloc=" in probe and int(probe.split("alloc=")[1]) < (8 << 20) or k not in (2, 3)]
    ci = chk.run_impl(cc)
    chk.record("entries-that-declare-more-than-they-store", cc, ci, lambda c, r: True)
    for c, r in zip(cc, ci):
        alloc = int(r.split("alloc=")[1]) if "alloc=" in r else -1
        if alloc < 0 or alloc > 64 * len(c[1][0]) + (8 << 20):
            chk.violate({"kind": "property", "case": lib.show_case(c), "impl": r, "input_bytes": len(c[1][0]),
                         "explanation": "loading a small .deb allocated far more than its input holds: a control entry that declares data it does not store (a sparse file) was expanded"})
            break
    # members that share the control. / data. prefix without being tarballs (control.sig, data.tar.gz.bak, ...): which
    # member the loader meets first depends on Go's map order, so each package is loaded many times - the outcome
    # must be the same every time (that such a package must be refused is C16's business, checked there)
    dec = []
    for cenc, denc in ((".gz", ".gz"), ("", ".xz")):
        base, info = debpkg.build(chk, rng, cenc, denc)
        ms = info["ms"]
        for extra in (b"control.sig", b"control.", b"control.txt", b"data.tar.gz.bak", b"data.", b"data.list"):
            for pos in (1, 3):
                m2 = list(ms); m2.insert(pos, debpkg.member(extra, b"not a tarball\n"))
                dec.append(argen.render(m2))
    dcases = [("debload", [b]) for b in dec]
    runs = [chk.run_impl(dcases) for _ in range(chk.n(8, 40))]
    chk.record("prefix-sharing-non-tar-members", dcases, runs[0], lambda c, r: True)
    for k, c in enumerate(dcases):
        outs = sorted({r[k][:200] for r in runs})
        if len(outs) != 1:
            chk.violate({"kind": "property", "case": lib.show_case(("debload", [b"<%d bytes>" % len(c[1][0])])), "outcomes": outs,
                         "explanation": "loading the same bytes repeatedly gives different outcomes (a control.* / data.* member that is not a tarball)"})


def replay(chk, d):
    c = lib.case_from_replay(d)
    print("impl:", chk.run_impl([c])[0][:800])
    return 0
