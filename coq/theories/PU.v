(* control/parse.go: Paragraph.Set and Paragraph.Update.
   Set: overwrite the value of a key the paragraph has, otherwise append the key to Order and add the value.
   Update(other): a NEW paragraph that starts as a copy of the receiver, then takes every key of other.Order in turn:
   appended to Order unless seen before, value from other.Values (the zero string when other lists a key it has no
   value for).  On a receiver that satisfies the paragraph invariant (pinv: Order has no duplicates and Values has
   exactly those keys - every paragraph the reader returns, C07) that is a left fold of Set over other.Order. *)
From Coq Require Import List Ascii String Bool Arith Lia.
Require Import GS R2 R3.
Import ListNotations.

Definition pset (p : para) (k v : str) : para :=
  if mem k (values p) then {| order := order p; values := setv k v (values p) |}
  else {| order := order p ++ [k]; values := values p ++ [(k, v)] |}.

Definition update (p q : para) : para :=
  fold_left (fun acc k => pset acc k (lookup k (values q))) (order q) p.

(* ---------- Set ---------- *)
Lemma lookup_setv_same k v vs : mem k vs = true -> lookup k (setv k v vs) = v.
Proof.
  induction vs as [|[k' v'] r IH]; cbn; [discriminate|]. destruct (str_eqb_spec k' k) as [->|N]; cbn.
  - destruct (str_eqb_spec k k); [reflexivity|contradiction].
  - intros H. destruct (str_eqb_spec k' k); [contradiction|]. now apply IH.
Qed.
Lemma lookup_setv_other k v j vs : j <> k -> lookup j (setv k v vs) = lookup j vs.
Proof.
  intros N. induction vs as [|[k' v'] r IH]; cbn.
  - destruct (str_eqb_spec k j); [congruence|reflexivity].
  - destruct (str_eqb_spec k' k) as [->|N2]; cbn.
    + destruct (str_eqb_spec k j); [congruence|reflexivity].
    + destruct (str_eqb_spec k' j); [reflexivity|exact IH].
Qed.
Lemma lookup_app_new2 k v j vs : mem k vs = false -> lookup j (vs ++ [(k, v)]) = if str_eqb k j then (if mem j vs then lookup j vs else v) else lookup j vs.
Proof.
  induction vs as [|[k' v'] r IH]; cbn; intros M.
  - destruct (str_eqb k j); reflexivity.
  - apply orb_false_iff in M as [M1 M2]. destruct (str_eqb_spec k' j) as [->|N]; cbn.
    + destruct (str_eqb_spec k j) as [->|]; [|reflexivity]. destruct (str_eqb_spec j j); [discriminate|contradiction].
    + now apply IH.
Qed.
Lemma mem_setv_iff k v j vs : mem j (setv k v vs) = mem j vs || str_eqb k j.
Proof.
  induction vs as [|[k' v'] r IH]; cbn; [now rewrite orb_false_r|].
  destruct (str_eqb_spec k' k) as [->|N]; cbn.
  - destruct (str_eqb_spec k j); cbn; [reflexivity|now rewrite orb_false_r].
  - rewrite IH. now rewrite orb_assoc.
Qed.
Lemma mem_app1 j vs k v : mem j (vs ++ [(k, v)]) = mem j vs || str_eqb k j.
Proof. induction vs as [|[k' v'] r IH]; cbn; [now rewrite orb_false_r|]. rewrite IH. now rewrite orb_assoc. Qed.

Theorem pset_pinv p k v : pinv p -> pinv (pset p k v).
Proof.
  intros [ND K]. unfold pset. destruct (mem k (values p)) eqn:M; split; cbn [order values].
  - exact ND.
  - now rewrite setv_keys.
  - apply NoDup_snoc; [|exact ND]. rewrite <- K. intros Hin. apply mem_in in Hin. congruence.
  - rewrite map_app. cbn. now rewrite K.
Qed.
(* what Set means: the key now has the value, every other key has what it had, and the order grows by the key
   exactly when the key is new *)
Theorem pset_lookup p k v j : lookup j (values (pset p k v)) = if str_eqb k j then v else lookup j (values p).
Proof.
  unfold pset. destruct (mem k (values p)) eqn:M; cbn [values].
  - destruct (str_eqb_spec k j) as [->|N]; [now apply lookup_setv_same|apply lookup_setv_other; congruence].
  - rewrite lookup_app_new2 by exact M. destruct (str_eqb_spec k j) as [->|]; [now rewrite M|reflexivity].
Qed.
Theorem pset_mem p k v j : mem j (values (pset p k v)) = mem j (values p) || str_eqb k j.
Proof. unfold pset. destruct (mem k (values p)) eqn:M; cbn [values]; [apply mem_setv_iff|apply mem_app1]. Qed.
Theorem pset_order p k v : order (pset p k v) = if mem k (values p) then order p else order p ++ [k].
Proof. unfold pset. destruct (mem k (values p)); reflexivity. Qed.

(* ---------- Update ---------- *)
Lemma fold_pset_pinv f : forall ks p, pinv p -> pinv (fold_left (fun acc k => pset acc k (f k)) ks p).
Proof. induction ks as [|k ks IH]; intros p I; [exact I|]. cbn [fold_left]. apply IH. now apply pset_pinv. Qed.
Theorem update_pinv p q : pinv p -> pinv (update p q).
Proof. apply fold_pset_pinv. Qed.

Lemma fold_pset_lookup f j : forall ks p,
  lookup j (values (fold_left (fun acc k => pset acc k (f k)) ks p)) = if existsb (str_eqb j) ks then f j else lookup j (values p).
Proof.
  induction ks as [|k ks IH]; intros p; [reflexivity|]. cbn [fold_left existsb]. rewrite IH. rewrite pset_lookup.
  destruct (existsb (str_eqb j) ks); [now rewrite orb_true_r|]. rewrite orb_false_r.
  destruct (str_eqb_spec k j) as [->|N].
  - destruct (str_eqb_spec j j); [reflexivity|contradiction].
  - destruct (str_eqb_spec j k); [congruence|reflexivity].
Qed.
(* a key listed by the other paragraph takes the other's value, every other key keeps the receiver's *)
Theorem update_lookup p q j :
  lookup j (values (update p q)) = if existsb (str_eqb j) (order q) then lookup j (values q) else lookup j (values p).
Proof. apply fold_pset_lookup. Qed.

Lemma fold_pset_mem f j : forall ks p,
  mem j (values (fold_left (fun acc k => pset acc k (f k)) ks p)) = mem j (values p) || existsb (str_eqb j) ks.
Proof.
  induction ks as [|k ks IH]; intros p; [now rewrite orb_false_r|]. cbn [fold_left existsb]. rewrite IH, pset_mem.
  rewrite <- orb_assoc. f_equal. f_equal. destruct (str_eqb_spec k j) as [->|N].
  - destruct (str_eqb_spec j j); [reflexivity|contradiction].
  - destruct (str_eqb_spec j k); [congruence|reflexivity].
Qed.
Theorem update_mem p q j : mem j (values (update p q)) = mem j (values p) || existsb (str_eqb j) (order q).
Proof. apply fold_pset_mem. Qed.

(* the order of the result: the receiver's fields first, in their order, then the other's NEW fields in the other's
   order, each once *)
Fixpoint fresh (seen : list str) (ks : list str) : list str :=
  match ks with
  | [] => []
  | k :: r => if existsb (str_eqb k) seen then fresh seen r else k :: fresh (k :: seen) r
  end.
Lemma existsb_perm_snoc k (a : list str) j : existsb (str_eqb k) (a ++ [j]) = existsb (str_eqb k) (j :: a).
Proof. rewrite existsb_app. cbn. rewrite orb_false_r. apply orb_comm. Qed.
Lemma fresh_ext : forall ks s1 s2, (forall k, existsb (str_eqb k) s1 = existsb (str_eqb k) s2) -> fresh s1 ks = fresh s2 ks.
Proof.
  induction ks as [|k r IH]; intros s1 s2 E; [reflexivity|]. cbn [fresh]. rewrite (E k).
  destruct (existsb (str_eqb k) s2); [now apply IH|]. f_equal. apply IH. intros j. cbn [existsb]. now rewrite E.
Qed.
Lemma existsb_mem k p : pinv p -> existsb (str_eqb k) (order p) = mem k (values p).
Proof.
  intros [_ K]. rewrite <- K. clear K. generalize (values p). intros vs.
  induction vs as [|[k' v] r IH]; [reflexivity|]. cbn. rewrite IH. f_equal.
  destruct (str_eqb_spec k k'), (str_eqb_spec k' k); congruence.
Qed.
Lemma fold_pset_order f : forall ks p, pinv p ->
  order (fold_left (fun acc k => pset acc k (f k)) ks p) = order p ++ fresh (order p) ks.
Proof.
  induction ks as [|k ks IH]; intros p I; [now rewrite app_nil_r|]. cbn [fold_left fresh].
  rewrite IH by now apply pset_pinv. rewrite pset_order. rewrite (existsb_mem k p I).
  destruct (mem k (values p)) eqn:M; [reflexivity|]. rewrite <- app_assoc. cbn [app]. f_equal. f_equal.
  apply fresh_ext. intros j. apply existsb_perm_snoc.
Qed.
Theorem update_order p q : pinv p -> order (update p q) = order p ++ fresh (order p) (order q).
Proof. apply fold_pset_order. Qed.

(* Update does not depend on the receiver beyond its fields, and updating with nothing changes nothing *)
Theorem update_nothing p : update p empty_para = p.
Proof. reflexivity. Qed.

Example update_ex :
  let p := pset (pset (pset empty_para (s "A") (s "1")) (s "B") (s "2")) (s "C") (s "3") in
  let q := pset (pset empty_para (s "D") (s "4")) (s "B") (s "5") in
  order (update p q) = [s "A"; s "B"; s "C"; s "D"] /\ lookup (s "B") (values (update p q)) = s "5" /\
  lookup (s "A") (values (update p q)) = s "1" /\ pinv p.
Proof. cbn. repeat split; try reflexivity. repeat constructor; cbn; intuition discriminate. Qed.
