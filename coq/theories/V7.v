(* C01 corollaries named in the property: missing revision = revision 0; '~' sorts before the end, the end before '+' *)
From Coq Require Import List Ascii String ZArith NArith Lia Bool Arith.
Require Import V1 V2 V5 V6.
Import ListNotations.
Open Scope Z_scope.

Lemma sgn_zero z : Z.sgn z = 0 -> z = 0. Proof. lia. Qed.

Theorem C01_missing_revision e u : nonul u ->
  compare {| epoch := e; upstream := u; revision := [] |} {| epoch := e; upstream := u; revision := s "0" |} = 0.
Proof.
  intros Hu. apply sgn_zero. rewrite C01_compare.
  - unfold key_cmp. cbn [epoch upstream revision]. now rewrite N.compare_refl, lexpad_refl.
  - split; [exact Hu|constructor].
  - split; [exact Hu|]. repeat constructor; discriminate.
Qed.

(* appending a non-digit character and anything after it appends tokens *)
Lemma toks_aux_app_nd : forall u acc c t, is_digit c = false ->
  toks_aux acc (u ++ c :: t) = toks_aux acc u ++ (order c, 0%N) :: toks t.
Proof.
  induction u as [|a u IH]; intros acc c t Hc; cbn [app toks_aux].
  - rewrite Hc. destruct acc; reflexivity.
  - destruct (is_digit a); [now apply IH|]. rewrite IH by exact Hc. now rewrite <- app_assoc.
Qed.
Lemma lexpad_app_same : forall p X Y, lexpad (p ++ X) (p ++ Y) = lexpad X Y.
Proof. induction p as [|x p IH]; intros X Y; [reflexivity|]. cbn [app lexpad]. now rewrite tok_cmp_refl. Qed.

Lemma nonul_app a b : nonul a -> nonul b -> nonul (a ++ b).
Proof. unfold nonul. intros. apply Forall_app. auto. Qed.

Definition tilde : ascii := "~"%char.
Definition plus : ascii := "+"%char.

(* u~t < u < u+t, whatever follows the '~' or '+', in any epoch and with any revision *)
Theorem C01_tilde_end_plus e u t r : nonul u -> nonul t -> nonul r ->
  compare {| epoch := e; upstream := u ++ tilde :: t; revision := r |} {| epoch := e; upstream := u; revision := r |} < 0 /\
  compare {| epoch := e; upstream := u; revision := r |} {| epoch := e; upstream := u ++ plus :: t; revision := r |} < 0.
Proof.
  intros Hu Ht Hr.
  assert (N1 : nonul (u ++ tilde :: t)) by (apply nonul_app; [exact Hu|constructor; [discriminate|exact Ht]]).
  assert (N2 : nonul (u ++ plus :: t)) by (apply nonul_app; [exact Hu|constructor; [discriminate|exact Ht]]).
  split.
  - assert (K : Z.sgn (compare {| epoch := e; upstream := u ++ tilde :: t; revision := r |} {| epoch := e; upstream := u; revision := r |}) = -1).
    { rewrite C01_compare by (split; assumption). unfold key_cmp. cbn [epoch upstream revision]. rewrite N.compare_refl.
      unfold toks at 1. rewrite (toks_aux_app_nd u None tilde t eq_refl). fold (toks u).
      rewrite <- (app_nil_r (toks u)) at 2. rewrite lexpad_app_same. reflexivity. }
    lia.
  - assert (K : Z.sgn (compare {| epoch := e; upstream := u; revision := r |} {| epoch := e; upstream := u ++ plus :: t; revision := r |}) = -1).
    { rewrite C01_compare by (split; assumption). unfold key_cmp. cbn [epoch upstream revision]. rewrite N.compare_refl.
      unfold toks at 2. rewrite (toks_aux_app_nd u None plus t eq_refl). fold (toks u).
      rewrite <- (app_nil_r (toks u)) at 1. rewrite lexpad_app_same. reflexivity. }
    lia.
Qed.

Example C01_rc : let v (x : string) := {| epoch := 0; upstream := s x; revision := [] |} in
  compare (v "1.0~rc1"%string) (v "1.0"%string) < 0 /\ compare (v "1.0"%string) (v "1.0+b1"%string) < 0.
Proof. vm_compute. split; reflexivity. Qed.
Print Assumptions C01_tilde_end_plus.
