package main

import (
	"bytes"
	"crypto"
	"fmt"
	"io"
	"io/ioutil"
	"os"
	"strconv"
	"strings"
	"sync"

	"golang.org/x/crypto/openpgp"
	"golang.org/x/crypto/openpgp/armor"
	"golang.org/x/crypto/openpgp/clearsign"
	"golang.org/x/crypto/openpgp/packet"
	"pault.ag/go/debian/control"
)

// The OpenPGP entities used by C11/C16 are generated once (op csinit) and stored under build/, so that every
// harness process of a run verifies against the same keys.
var (
	keysOnce sync.Once
	keys     openpgp.EntityList
)

func pgpConfig() *packet.Config {
	return &packet.Config{RSABits: 1024, DefaultHash: crypto.SHA256}
}

func loadKeys() openpgp.EntityList {
	keysOnce.Do(func() {
		path := os.Getenv("VERIF_PGPKEYS")
		f, err := os.Open(path)
		if err != nil {
			panic("harness: no key file " + path)
		}
		defer f.Close()
		el, err := openpgp.ReadArmoredKeyRing(f)
		if err != nil {
			panic("harness: unreadable key file: " + err.Error())
		}
		keys = el
	})
	return keys
}

// keyring "n" = nil, "e" = empty (non-nil slice), "z" = empty (nil slice behind a non-nil pointer), otherwise the digits are indexes into the generated entities
func keyringOf(spec string) *openpgp.EntityList {
	if spec == "n" {
		return nil
	}
	if spec == "z" {
		// a keyring that IS supplied but holds nothing, as a zero-value EntityList (what ReadKeyRing gives for an empty
		// file): the pointer is non-nil, the slice behind it is nil
		var zero openpgp.EntityList
		return &zero
	}
	el := openpgp.EntityList{}
	if spec != "e" {
		for _, c := range spec {
			el = append(el, loadKeys()[int(c-'0')])
		}
	}
	return &el
}

func entityID(e *openpgp.Entity) string {
	if e == nil {
		return "-"
	}
	return hx(fmt.Sprintf("%X", e.PrimaryKey.Fingerprint))
}

// failingReader fails with an error that is not io.EOF
type failingReader struct{}

func (failingReader) Read([]byte) (int, error) { return 0, fmt.Errorf("connection reset") }

func init() {
	ops["csinit"] = func(a []string) string {
		var buf bytes.Buffer
		w, err := armor.Encode(&buf, openpgp.PrivateKeyType, nil)
		if err != nil {
			return "err"
		}
		for i := 0; i < 4; i++ {
			e, err := openpgp.NewEntity(fmt.Sprintf("Key %d", i), "verif", fmt.Sprintf("k%d@example.org", i), pgpConfig())
			if err != nil {
				return "err"
			}
			if err := e.SerializePrivate(w, pgpConfig()); err != nil {
				return "err"
			}
		}
		w.Close()
		if err := ioutil.WriteFile(arg(a, 0), buf.Bytes(), 0600); err != nil {
			return "err"
		}
		return "ok"
	}
	// cssign idx text -> clearsigned document (made with the library directly, not through the code under test)
	ops["cssign"] = func(a []string) string {
		e := loadKeys()[int(arg(a, 0)[0]-'0')]
		var buf bytes.Buffer
		w, err := clearsign.Encode(&buf, e.PrivateKey, pgpConfig())
		if err != nil {
			return "err"
		}
		w.Write([]byte(arg(a, 1)))
		w.Close()
		return hx(buf.String())
	}
	// csmulti text (idx signedtext)* -> a clearsigned document framing `text` whose ONE signature armor holds several
	// signature packets: packet i is key idx_i's signature over signedtext_i (each made with clearsign.Encode and taken
	// out of its own armor).  OpenPGP allows several signatures in one armor (key transitions, co-signed uploads).
	ops["csmulti"] = func(a []string) string {
		frame := func(idx, text string) (*clearsign.Block, []byte, bool) {
			e := loadKeys()[int(idx[0]-'0')]
			var buf bytes.Buffer
			w, err := clearsign.Encode(&buf, e.PrivateKey, pgpConfig())
			if err != nil {
				return nil, nil, false
			}
			w.Write([]byte(text))
			w.Close()
			b, _ := clearsign.Decode(buf.Bytes())
			if b == nil {
				return nil, nil, false
			}
			pk, err := ioutil.ReadAll(b.ArmoredSignature.Body)
			if err != nil {
				return nil, nil, false
			}
			return b, pk, true
		}
		if len(a) < 3 {
			return "bad-arg"
		}
		var doc bytes.Buffer
		_, _, ok := frame(a[1], a[0])
		if !ok {
			return "err"
		}
		// the framing of the text itself (header, dash-escaped body) from a signing of that text
		e := loadKeys()[int(a[1][0]-'0')]
		var whole bytes.Buffer
		w, _ := clearsign.Encode(&whole, e.PrivateKey, pgpConfig())
		w.Write([]byte(a[0]))
		w.Close()
		cut := bytes.Index(whole.Bytes(), []byte("-----BEGIN PGP SIGNATURE-----"))
		if cut < 0 {
			return "err"
		}
		doc.Write(whole.Bytes()[:cut])
		aw, err := armor.Encode(&doc, "PGP SIGNATURE", nil)
		if err != nil {
			return "err"
		}
		for i := 1; i+1 < len(a); i += 2 {
			_, pk, ok := frame(a[i], a[i+1])
			if !ok {
				return "err"
			}
			aw.Write(pk)
		}
		aw.Close()
		doc.WriteString("\n")
		return hx(doc.String())
	}
	// csafterfail keyring first second: the first read delivers `first` completely and then FAILS (a network reader that
	// breaks off); it must fail.  The second read, of `second`, must be judged on its own: a failed read leaves nothing behind.
	ops["csafterfail"] = func(a []string) string {
		kr := keyringOf(arg(a, 0))
		one := func(src io.Reader) string {
			r, err := control.NewParagraphReader(src, kr)
			if err != nil {
				return "err"
			}
			ps, err := r.All()
			if err != nil {
				return "ok-then-read-error"
			}
			sg := "-"
			if r.Signer() != nil {
				sg = entityID(r.Signer())
			}
			return "ok signer=" + sg + " " + showParas(ps)
		}
		first := one(io.MultiReader(strings.NewReader(arg(a, 1)), failingReader{}))
		second := one(strings.NewReader(arg(a, 2)))
		return first + " ## " + second
	}
	// csseq (keyring input)* -> ONE EntityList variable whose contents are replaced in place before each read (the
	// reader is always given the same pointer); each read answers for the keyring as it is at that moment
	ops["csseq"] = func(a []string) string {
		var shared openpgp.EntityList
		out := []string{}
		for i := 0; i+1 < len(a); i += 2 {
			now := keyringOf(a[i])
			shared = shared[:0]
			if now != nil {
				shared = append(shared, (*now)...)
			}
			r, err := control.NewParagraphReader(bytes.NewReader([]byte(a[i+1])), &shared)
			if err != nil {
				out = append(out, "err")
				continue
			}
			ps, err := r.All()
			if err != nil {
				out = append(out, "ok-then-read-error")
				continue
			}
			sg := "-"
			if r.Signer() != nil {
				sg = entityID(r.Signer())
			}
			out = append(out, "( ok signer="+sg+" "+showParas(ps)+" )")
		}
		return showList(out)
	}
	// csread keyring input -> "<oracle> | <implementation>"
	ops["csread"] = func(a []string) string {
		kr := keyringOf(arg(a, 0))
		input := []byte(arg(a, 1))
		// oracle answers, straight from the library
		oracle := "nodecode"
		if block, rest := clearsign.Decode(input); block != nil {
			signer := "-"
			if kr != nil {
				// "the signature verifies": the armored signature block, read to its end (armor checksum included),
				// holds a signature by a key of the keyring over the signed text
				if sig, rerr := ioutil.ReadAll(block.ArmoredSignature.Body); rerr == nil {
					if e, err := openpgp.CheckDetachedSignature(*kr, bytes.NewReader(block.Bytes), bytes.NewReader(sig)); err == nil && e != nil {
						signer = entityID(e)
					}
				}
			}
			oracle = "decoded " + hx(string(block.Bytes)) + " " + signer + " " + strconv.Itoa(len(rest))
		}
		// the code under test
		impl := ""
		r, err := control.NewParagraphReader(bytes.NewReader(input), kr)
		if err != nil {
			impl = "err"
		} else {
			ps, err := r.All()
			if err != nil {
				impl = "ok-then-read-error"
			} else {
				s := "-"
				if r.Signer() != nil {
					s = entityID(r.Signer())
				}
				impl = "ok signer=" + s + " " + showParas(ps)
			}
		}
		// the same through the Decoder
		dec := ""
		d, err := control.NewDecoder(bytes.NewReader(input), kr)
		if err != nil {
			dec = "err"
		} else {
			s := "-"
			if d.Signer() != nil {
				s = entityID(d.Signer())
			}
			dec = "ok signer=" + s
		}
		return oracle + " | " + impl + " | " + dec
	}
	_ = strings.TrimSpace
}
