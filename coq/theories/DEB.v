(* C15 / C14 for .deb input: opening any byte string as an ar archive, then as a package *)
From Coq Require Import List Ascii String Bool Arith ZArith Lia.
Require Import GS AR AR2 D16.
Import ListNotations.

(* LoadAr: the 8-byte global magic, then the member loop; fuel = one more than the number of bytes *)
Definition ar_open (buf : str) : option (list entry * bool) :=
  if has_prefix magic buf then iterate (S (List.length buf)) buf 8 else None.

(* C15: the loop always has enough fuel — None can only mean "not an ar archive" *)
Theorem C15_open_total buf : iterate (S (List.length buf)) buf 8 <> None.
Proof. apply C15_terminates. lia. Qed.

Theorem C15_open_steps buf es clean : ar_open buf = Some (es, clean) -> 8 + 60 * List.length es <= List.length buf + 1 \/ es = [].
Proof.
  unfold ar_open. destruct (has_prefix magic buf); [|discriminate]. intros H. exact (C15_steps _ _ _ _ _ H).
Qed.

Theorem C15_open_members buf es clean e : ar_open buf = Some (es, clean) -> In e es ->
  nth (e_hdr e + 58) buf zero = bq /\ nth (e_hdr e + 59) buf zero = nl /\
  (0 <= e_size e)%Z /\ List.length (data_of buf e) = Z.to_nat (e_size e).
Proof.
  unfold ar_open. destruct (has_prefix magic buf); [|discriminate]. intros H Hin. exact (C15_members _ _ _ _ _ e H Hin).
Qed.

(* C13: a member's reader depends on the archive bytes and its own header only, so readers of earlier
   members are unaffected by how far the iterator has advanced *)
Theorem C13_readers_independent buf e : data_of buf e = sub buf (e_hdr e + 60) (Z.to_nat (e_size e)).
Proof. reflexivity. Qed.

Section Package.
  Variables ctl : Type.
  Variable untar : str -> option (list (str * str)).
  Variable decompress : str -> str -> option str.
  Variable path_clean : str -> str.
  Variable decode_control : str -> option ctl.
  Variable ext_of : str -> str.
  Variable is_tarfile : str -> bool.

  Definition members_of (buf : str) (es : list entry) : list member := map (fun e => (e_name e, data_of buf e)) es.
  (* deb.Load: every member must be read up to a clean end of archive *)
  Definition open_deb (pick : list member -> option member) (buf : str) : option (deb ctl) :=
    match ar_open buf with
    | Some (es, true) => load_deb ctl untar decompress path_clean decode_control ext_of is_tarfile pick (members_of buf es)
    | _ => None
    end.

  (* C14 / C15: loading the same bytes gives the same outcome, whatever order the Go map is walked in *)
  Theorem C15_deb_deterministic pick1 pick2 buf :
    (forall l m, pick1 l = Some m -> In m l) -> (forall l m, pick2 l = Some m -> In m l) ->
    (forall l, l <> [] -> pick1 l <> None) -> (forall l, l <> [] -> pick2 l <> None) ->
    open_deb pick1 buf = open_deb pick2 buf.
  Proof.
    intros I1 I2 S1 S2. unfold open_deb. destruct (ar_open buf) as [[es [|]]|]; try reflexivity.
    now apply C14_deterministic.
  Qed.

  (* a package is only ever built from members that came out of consistent headers *)
  Theorem C15_deb_members pick buf d : open_deb pick buf = Some d ->
    exists es, ar_open buf = Some (es, true) /\ d_members ctl d = members_of buf es.
  Proof.
    unfold open_deb. destruct (ar_open buf) as [[es [|]]|] eqn:E; try discriminate. intros L. exists es. split; [reflexivity|].
    unfold load_deb in L.
    repeat match type of L with
    | (if ?c then _ else _) = Some _ => destruct c; try discriminate
    | match ?x with _ => _ end = Some _ => destruct x; try discriminate
    | (let (_, _) := ?x in _) = Some _ => destruct x
    end.
    destruct (decode_control _) as [c|]; [|discriminate]. cbn [option_map] in L. inversion L; subst. reflexivity.
  Qed.
End Package.
Print Assumptions C15_open_total.
Print Assumptions C15_deb_deterministic.
Print Assumptions C15_deb_members.
