(* control/encode.go: the Encoder as a STATE MACHINE over a history of Encode calls, some of which fail.
   State: (alreadyWritten, the text written so far).  encodeStruct writes the separating newline when something was
   written before, THEN converts the value; a value that cannot be converted (a Marshallable returning an error) ends the
   call with an error after the separator went out; encodeSlice stops at the first element that fails.
   Theorem: after ANY history of calls - structs, slices, failures anywhere - the text written reads back as exactly the
   values that were written (every element before the first failure of each call), in order: never one fewer, never two
   glued together.  (C08: "paragraphs written one after another through the encoder read back as the same number of
   paragraphs", for histories with error paths.) *)
From Coq Require Import List Ascii String Bool Arith Lia.
Require Import GS R2 R3 R4.
Import ListNotations.

Definition fields := list (str * (str * list str)).
Inductive elem := Good (fs : fields) | Bad.

Record enc := { written : bool; out : str }.
Definition enc_init : enc := {| written := false; out := [] |}.

Definition enc_struct (e : enc) (x : elem) : enc * bool :=
  let o := if written e then out e ++ [nl] else out e in
  match x with
  | Bad => ({| written := written e; out := o |}, false)
  | Good fs => ({| written := true; out := o ++ write_para (para_of fs) |}, true)
  end.
Fixpoint enc_slice (e : enc) (xs : list elem) : enc * bool :=
  match xs with
  | [] => (e, true)
  | x :: r => let '(e', ok) := enc_struct e x in if ok then enc_slice e' r else (e', false)
  end.
(* a history: every call is a slice (a struct is a slice of one); an error does not end the history *)
Definition enc_calls (e : enc) (calls : list (list elem)) : enc := fold_left (fun e c => fst (enc_slice e c)) calls e.

(* what the history wrote: per call, the good elements before its first failure *)
Fixpoint prefix_good (xs : list elem) : list fields :=
  match xs with Good fs :: r => fs :: prefix_good r | _ => [] end.
Definition written_of (calls : list (list elem)) : list fields := List.concat (map prefix_good calls).
(* the values of a call are well formed when its good elements are (what the C08 round trip needs) *)
Definition elem_ok (x : elem) : Prop := match x with Good fs => wf_fields fs | Bad => True end.

(* ---------- the text as lines ---------- *)
Definition Lf (fs : fields) : list str := lines_of (write_para (para_of fs)).
Definition blanks (k : nat) : list str := repeat [] k.
Fixpoint render (items : list (nat * fields)) (trail : nat) : list str :=
  match items with
  | [] => blanks trail
  | (k, fs) :: r => blanks k ++ Lf fs ++ render r trail
  end.
Definition seps_ok (items : list (nat * fields)) : Prop :=
  match items with [] => True | _ :: r => Forall (fun it => 1 <= fst it) r end.

Lemma write_para_lines fs : wf_fields fs -> write_para (para_of fs) = unlines (Lf fs) /\ Forall (free nl) (Lf fs).
Proof.
  intros W. pose proof W as (NE & Wf & ND). destruct (para_unlines fs Wf) as (L & E & F).
  unfold Lf. rewrite (write_para_text fs W), E, (lines_of_unlines L F). auto.
Qed.
Lemma Lf_reads fs : wf_fields fs ->
  (forall more, next empty_para [] (Lf fs ++ [] :: more) = RPara (para_of fs) more) /\ next empty_para [] (Lf fs) = RPara (para_of fs) [].
Proof. intros (NE & Wf & ND). exact (C08_para_write_read fs NE Wf ND). Qed.
Lemma Lf_nonempty fs : wf_fields fs -> Lf fs <> [].
Proof. intros W E. destruct (Lf_reads fs W) as [_ B]. rewrite E in B. cbn in B. discriminate. Qed.

Lemma next_skip_blank ls : next empty_para [] ([] :: ls) = next empty_para [] ls.
Proof. reflexivity. Qed.
Lemma next_skip_blanks k ls : next empty_para [] (blanks k ++ ls) = next empty_para [] ls.
Proof. induction k as [|k IH]; [reflexivity|]. cbn [blanks repeat app]. rewrite next_skip_blank. exact IH. Qed.
Lemma next_only_blanks k : next empty_para [] (blanks k) = REOF.
Proof. induction k as [|k IH]; [reflexivity|]. cbn [blanks repeat]. rewrite next_skip_blank. exact IH. Qed.

(* the reader on such lines *)
Lemma read_render_gen : forall fsl items trail fuel, map snd items = fsl -> seps_ok items -> Forall wf_fields fsl ->
  List.length fsl < fuel -> all_fuel fuel (render items trail) = Some (map para_of fsl).
Proof.
  induction fsl as [|fs0 fsl IH]; intros items trail fuel M S W F.
  - destruct items; [|discriminate]. destruct fuel as [|f]; [cbn in F; lia|]. cbn [render all_fuel map]. now rewrite next_only_blanks.
  - destruct items as [|[k fs] r]; [discriminate|]. cbn [map snd] in M. inversion M; subst fs0 fsl.
    destruct fuel as [|f]; [cbn in F; lia|]. cbn [render all_fuel map]. rewrite next_skip_blanks.
    inversion W as [|? ? Wfs Wr]; subst. destruct (Lf_reads fs Wfs) as [A B].
    destruct r as [|[k2 fs2] r2].
    + cbn [render]. destruct trail as [|t].
      * cbn [blanks repeat]. rewrite app_nil_r, B. destruct f as [|f']; [cbn in F; lia|]. reflexivity.
      * cbn [blanks repeat]. rewrite A. fold (blanks t). change (blanks t) with (render (@nil (nat * fields)) t).
        rewrite (IH [] t f) by (cbn in *; try constructor; try reflexivity; lia). reflexivity.
    + cbn [seps_ok] in S. inversion S as [|? ? K2 Sr]; subst. cbn [fst] in K2. destruct k2 as [|k2']; [lia|].
      cbn [render blanks repeat app]. rewrite A. fold (blanks k2').
      change (blanks k2' ++ Lf fs2 ++ render r2 trail) with (render ((k2', fs2) :: r2) trail).
      rewrite (IH ((k2', fs2) :: r2) trail f); [reflexivity|reflexivity|exact Sr|exact Wr|cbn in *; lia].
Qed.
Lemma read_render items trail fuel : seps_ok items -> Forall wf_fields (map snd items) -> List.length items < fuel ->
  all_fuel fuel (render items trail) = Some (map para_of (map snd items)).
Proof. intros S W F. apply read_render_gen; auto. now rewrite map_length. Qed.

Lemma render_free items trail : Forall wf_fields (map snd items) -> Forall (free nl) (render items trail).
Proof.
  induction items as [|[k fs] r IH]; intros W; cbn [render].
  - apply Forall_forall. intros l I. apply repeat_spec in I. subst. constructor.
  - inversion W; subst. apply Forall_app. split; [apply Forall_forall; intros l I; apply repeat_spec in I; subst; constructor|].
    apply Forall_app. split; [now apply write_para_lines|now apply IH].
Qed.
Lemma render_snoc items trail fs : render (items ++ [(trail, fs)]) 0 = render items trail ++ Lf fs.
Proof.
  induction items as [|[k f] r IH]; cbn [app render]; [cbn; now rewrite app_nil_r|]. rewrite IH. now rewrite <- !app_assoc.
Qed.
Lemma render_trail items trail : render items (S trail) = render items trail ++ [[]].
Proof.
  induction items as [|[k f] r IH]; cbn [render].
  - unfold blanks. change (S trail) with (1 + trail). rewrite Nat.add_comm. rewrite repeat_app. reflexivity.
  - rewrite IH. now rewrite <- !app_assoc.
Qed.
Lemma render_length items trail : Forall wf_fields (map snd items) -> List.length items <= List.length (render items trail).
Proof.
  induction items as [|[k fs] r IH]; intros W; cbn [render List.length]; [lia|]. inversion W; subst.
  rewrite !app_length. specialize (IH H2). pose proof (Lf_nonempty fs H1). destruct (Lf fs); [congruence|]. cbn [List.length]. lia.
Qed.

(* ---------- the invariant of the machine ---------- *)
Record Inv (e : enc) (items : list (nat * fields)) (trail : nat) : Prop := {
  inv_out : out e = unlines (render items trail);
  inv_seps : seps_ok items;
  inv_wf : Forall wf_fields (map snd items);
  inv_written : written e = match items with [] => false | _ => true end;
  inv_trail : items = [] -> trail = 0 }.

Lemma inv_init : Inv enc_init [] 0.
Proof. split; try reflexivity; constructor. Qed.

Lemma seps_snoc items k fs : seps_ok items -> (items <> [] -> 1 <= k) -> seps_ok (items ++ [(k, fs)]).
Proof.
  destruct items as [|it r]; intros S K; cbn [app seps_ok]; [constructor|].
  apply Forall_app. split; [exact S|]. constructor; [|constructor]. apply K. discriminate.
Qed.

Lemma step_inv e items trail x : Inv e items trail -> elem_ok x ->
  exists items' trail', Inv (fst (enc_struct e x)) items' trail' /\
    map snd items' = map snd items ++ (match x with Good fs => [fs] | Bad => [] end).
Proof.
  intros [O Sp W Wr T] Ok. destruct x as [fs|]; cbn [enc_struct fst].
  - (* a value that converts: the pending separators become its leading blank lines *)
    destruct (write_para_lines fs Ok) as [E F].
    exists (items ++ [((if written e then S trail else trail), fs)]), 0. split.
    + split; cbn [out written].
      * rewrite render_snoc. destruct (written e) eqn:Wn.
        -- rewrite O, E, render_trail, !unlines_app. cbn. now rewrite <- !app_assoc.
        -- rewrite O, E, unlines_app. reflexivity.
      * apply seps_snoc; [exact Sp|]. intros NE. destruct items; [congruence|]. rewrite Wr. lia.
      * rewrite map_app. apply Forall_app. split; [exact W|]. cbn. constructor; [exact Ok|constructor].
      * destruct items; reflexivity.
      * intros Z. destruct items; discriminate.
    + rewrite map_app. reflexivity.
  - (* a value that refuses: the separator may have gone out already *)
    exists items, (if written e then S trail else trail). split; [|now rewrite app_nil_r].
    split; cbn [out written]; auto.
    + destruct (written e); [|exact O]. rewrite O, render_trail, unlines_app. reflexivity.
    + intros Z. rewrite (T Z). subst items. now rewrite Wr.
Qed.

Lemma slice_inv : forall xs e items trail, Inv e items trail -> Forall elem_ok xs ->
  exists items' trail', Inv (fst (enc_slice e xs)) items' trail' /\ map snd items' = map snd items ++ prefix_good xs.
Proof.
  induction xs as [|x r IH]; intros e items trail I Ok; cbn [enc_slice].
  - exists items, trail. split; [exact I|now rewrite app_nil_r].
  - inversion Ok as [|? ? Ox Or]; subst. destruct (step_inv e items trail x I Ox) as (it1 & t1 & I1 & M1).
    destruct x as [fs|]; cbn [enc_struct] in *; cbn [fst] in I1.
    + destruct (IH _ it1 t1 I1 Or) as (it2 & t2 & I2 & M2). exists it2, t2. split; [exact I2|].
      rewrite M2, M1. cbn [prefix_good]. now rewrite <- app_assoc.
    + exists it1, t1. cbn [fst]. split; [exact I1|]. rewrite M1. reflexivity.
Qed.

Lemma calls_inv : forall calls e items trail, Inv e items trail -> Forall (Forall elem_ok) calls ->
  exists items' trail', Inv (enc_calls e calls) items' trail' /\ map snd items' = map snd items ++ written_of calls.
Proof.
  induction calls as [|c r IH]; intros e items trail I Ok; cbn [enc_calls fold_left].
  - exists items, trail. split; [exact I|]. unfold written_of. cbn. now rewrite app_nil_r.
  - inversion Ok as [|? ? Oc Or]; subst. destruct (slice_inv c e items trail I Oc) as (it1 & t1 & I1 & M1).
    destruct (IH _ it1 t1 I1 Or) as (it2 & t2 & I2 & M2). exists it2, t2. split; [exact I2|].
    rewrite M2, M1. unfold written_of. cbn [map List.concat]. now rewrite <- app_assoc.
Qed.

(* ---------- the theorem ---------- *)
Theorem encoder_history_reads_back calls : Forall (Forall elem_ok) calls ->
  read_all (out (enc_calls enc_init calls)) = Some (map para_of (written_of calls)).
Proof.
  intros Ok. destruct (calls_inv calls enc_init [] 0 inv_init Ok) as (items & trail & [O Sp W _ _] & M).
  cbn [map app] in M. unfold read_all. rewrite O.
  rewrite (lines_of_unlines _ (render_free items trail W)).
  rewrite read_render; [now rewrite M|exact Sp|exact W|].
  pose proof (render_length items trail W) as RL. apply Nat.lt_succ_r. exact RL.
Qed.
Print Assumptions encoder_history_reads_back.

(* the count in particular *)
Corollary encoder_history_count calls ps : Forall (Forall elem_ok) calls ->
  read_all (out (enc_calls enc_init calls)) = Some ps -> List.length ps = List.length (written_of calls).
Proof. intros Ok H. rewrite (encoder_history_reads_back calls Ok) in H. inversion H. now rewrite map_length. Qed.

(* non-vacuity: a slice whose second element refuses, then one more value through the same encoder *)
Example encoder_history_example :
  let a := [(s "Package", (s "one", [])); (s "Note", (s "first", [s "more"]))] in
  let b := [(s "Package", (s "two", []))] in
  let e := enc_calls enc_init [[Good a; Bad; Good b]; [Bad]; [Good b]] in
  written_of [[Good a; Bad; Good b]; [Bad]; [Good b]] = [a; b] /\
  read_all (out e) = Some [para_of a; para_of b] /\
  out e = s "Package: one" ++ [nl] ++ s "Note: first" ++ [nl] ++ s " more" ++ [nl; nl; nl; nl] ++ s "Package: two" ++ [nl].
Proof. vm_compute. repeat split. Qed.
