(* C12: hashio plumbing and FileHash.Verifier (after the drafted repairs) *)
From Coq Require Import List Ascii String Bool Arith ZArith Lia.
Require Import GS.
Import ListNotations.

Inductive alg := MD5 | SHA1 | SHA256 | SHA512.
Definition alg_eqb (a b : alg) : bool :=
  match a, b with MD5, MD5 | SHA1, SHA1 | SHA256, SHA256 | SHA512, SHA512 => true | _, _ => false end.

Section Hashio.
  (* ORACLE: the four digest functions. A hash.Hash is modelled as the bytes written so far, i.e. the
     assumed law is  Sum(after writes c1..cn) = H (c1 ++ ... ++ cn)  *)
  Variable H : alg -> str -> str.

  (* hashio.GetHash *)
  Definition get_hash (name : str) : option alg :=
    if str_eqb name (s "md5") then Some MD5 else if str_eqb name (s "sha1") then Some SHA1
    else if str_eqb name (s "sha256") then Some SHA256 else if str_eqb name (s "sha512") then Some SHA512 else None.

  Record hasher := { h_name : str; h_alg : alg; h_buf : str; h_size : Z }.
  Definition new_hasher (name : str) : option hasher :=
    option_map (fun a => {| h_name := name; h_alg := a; h_buf := []; h_size := 0 |}) (get_hash name).
  Definition hasher_write (h : hasher) (p : str) : hasher :=
    {| h_name := h_name h; h_alg := h_alg h; h_buf := h_buf h ++ p; h_size := h_size h + Z.of_nat (List.length p) |}.
  Definition hasher_sum (h : hasher) : str := H (h_alg h) (h_buf h).

  (* NewHasherWriters: io.MultiWriter(hashers..., target); every writer gets every chunk, in order *)
  Record wstate := { w_hashers : list hasher; w_target : str }.
  Fixpoint new_hashers (names : list str) : option (list hasher) :=
    match names with
    | [] => Some []
    | n :: r => match new_hasher n, new_hashers r with Some h, Some hs => Some (h :: hs) | _, _ => None end
    end.
  Definition multi_write (st : wstate) (p : str) : wstate :=
    {| w_hashers := map (fun h => hasher_write h p) (w_hashers st); w_target := w_target st ++ p |}.
  Definition run_writers (names : list str) (chunks : list str) : option wstate :=
    option_map (fun hs => fold_left multi_write chunks {| w_hashers := hs; w_target := [] |}) (new_hashers names).
  (* NewHasherReaders: io.TeeReader(target, MultiWriter(hashers...)): each Read of n bytes is written on;
     the reader hands the same bytes to its caller *)
  Definition run_readers := run_writers.

  Lemma fold_multi_write chunks : forall st,
    fold_left multi_write chunks st =
    {| w_hashers := map (fun h => {| h_name := h_name h; h_alg := h_alg h; h_buf := h_buf h ++ List.concat chunks;
                                      h_size := h_size h + Z.of_nat (List.length (List.concat chunks)) |}) (w_hashers st);
       w_target := w_target st ++ List.concat chunks |}.
  Proof.
    induction chunks as [|c cs IH]; intros st.
    - cbn. destruct st as [hs t]. cbn. rewrite app_nil_r. f_equal.
      rewrite <- (map_id hs) at 1. apply map_ext. intros [n a b z]. cbn. rewrite app_nil_r. f_equal. lia.
    - cbn [fold_left List.concat]. rewrite IH. unfold multi_write. cbn [w_hashers w_target]. f_equal.
      + rewrite map_map. apply map_ext. intros h. unfold hasher_write. cbn. rewrite <- app_assoc. f_equal.
        rewrite app_length. lia.
      + now rewrite <- app_assoc.
  Qed.

  Lemma new_hashers_spec : forall names hs, new_hashers names = Some hs ->
    Forall2 (fun n h => exists a, get_hash n = Some a /\ h = {| h_name := n; h_alg := a; h_buf := []; h_size := 0 |}) names hs.
  Proof.
    induction names as [|n r IH]; intros hs Hn; cbn in Hn.
    - inversion Hn. constructor.
    - unfold new_hasher in Hn. destruct (get_hash n) as [a|] eqn:G; cbn in Hn; [|discriminate].
      destruct (new_hashers r) as [hs'|]; [|discriminate]. inversion Hn; subst. constructor; eauto.
  Qed.

  (* any chunking of the stream: bytes pass through unchanged, every hasher reports the true length and
     the digest of the whole stream under its own algorithm, in the order requested *)
  Theorem C12_chunking names chunks st : run_writers names chunks = Some st ->
    w_target st = List.concat chunks /\
    Forall2 (fun n h => h_name h = n /\ get_hash n = Some (h_alg h) /\
                        h_size h = Z.of_nat (List.length (List.concat chunks)) /\
                        hasher_sum h = H (h_alg h) (List.concat chunks)) names (w_hashers st).
  Proof.
    unfold run_writers. destruct (new_hashers names) as [hs|] eqn:N; [|discriminate]. cbn. intros E. inversion E; subst. clear E.
    rewrite fold_multi_write. cbn [w_target w_hashers]. split; [reflexivity|].
    pose proof (new_hashers_spec names hs N) as F. clear N. induction F as [|n h ns hs' (a&G&->) F IH]; cbn [map]; constructor; auto.
  Qed.

  Corollary C12_chunking_independent names c1 c2 st1 st2 : List.concat c1 = List.concat c2 ->
    run_writers names c1 = Some st1 -> run_writers names c2 = Some st2 ->
    w_target st1 = w_target st2 /\ map hasher_sum (w_hashers st1) = map hasher_sum (w_hashers st2)
    /\ map h_size (w_hashers st1) = map h_size (w_hashers st2).
  Proof.
    unfold run_writers. destruct (new_hashers names) as [hs|]; [|discriminate]. cbn. intros E E1 E2.
    inversion E1; inversion E2; subst. rewrite !fold_multi_write. cbn [w_target w_hashers]. rewrite E.
    repeat split; reflexivity.
  Qed.

  (* ---- FileHash.Verifier ---- *)
  Definition hexval (c : ascii) : option nat :=
    let n := code c in
    if (48 <=? n) && (n <=? 57) then Some (n - 48)
    else if (97 <=? n) && (n <=? 102) then Some (n - 87)
    else if (65 <=? n) && (n <=? 70) then Some (n - 55) else None.
  Fixpoint hex_decode (x : str) : option str :=
    match x with
    | [] => Some []
    | a :: b :: r => match hexval a, hexval b, hex_decode r with
                     | Some h, Some l, Some t => Some (ascii_of_nat (16 * h + l) :: t) | _, _, _ => None end
    | _ => None
    end.
  Record filehash := { f_alg : str; f_hash : str; f_size : Z; f_name : str }.
  Inductive vres := Accept | Reject | VError.
  Definition verify (fh : filehash) (chunks : list str) : vres :=
    match get_hash (f_alg fh) with
    | None => VError                       (* repaired: an error, no log.Fatalf *)
    | Some a => match hex_decode (f_hash fh) with
                | None => VError
                | Some want => if str_eqb (H a (List.concat chunks)) want then Accept else Reject
                end
    end.
  Theorem C12_verifier fh chunks :
    verify fh chunks = Accept <->
    exists a, get_hash (f_alg fh) = Some a /\ hex_decode (f_hash fh) = Some (H a (List.concat chunks)).
  Proof.
    unfold verify. destruct (get_hash (f_alg fh)) as [a|]; [|split; [discriminate|intros (a&E&_); discriminate]].
    destruct (hex_decode (f_hash fh)) as [want|]; [|split; [discriminate|intros (a'&_&E); discriminate]].
    destruct (str_eqb_spec (H a (List.concat chunks)) want) as [E|N].
    - split; [|reflexivity]. intros _. exists a. split; [reflexivity|now subst].
    - split; [discriminate|]. intros (a'&E1&E2). inversion E1; inversion E2; subst. congruence.
  Qed.

  (* FileHashFromHasher, then Verifier, accepts exactly the stream that was hashed (hex of the digest decodes back) *)
  Variable hex_encode : str -> str.
  Hypothesis hex_round : forall d, hex_decode (hex_encode d) = Some d.     (* ORACLE law of fmt "%x" / hex.DecodeString *)
  Definition from_hasher (path : str) (h : hasher) : filehash :=
    {| f_alg := h_name h; f_hash := hex_encode (hasher_sum h); f_size := h_size h; f_name := path |}.
  Theorem C12_from_hasher names chunks st h path : run_writers names chunks = Some st -> In h (w_hashers st) ->
    forall chunks', verify (from_hasher path h) chunks' = Accept <-> H (h_alg h) (List.concat chunks') = H (h_alg h) (List.concat chunks).
  Proof.
    intros R Hin chunks'. destruct (C12_chunking names chunks st R) as (_&F).
    assert (G : get_hash (h_name h) = Some (h_alg h) /\ hasher_sum h = H (h_alg h) (List.concat chunks)).
    { clear R. induction F as [|n h0 ns hs (A&B&_&D) F IH]; [contradiction|]. destruct Hin as [->|Hin]; [subst; auto|auto]. }
    destruct G as [G1 G2]. rewrite C12_verifier. cbn [from_hasher f_alg f_hash]. rewrite G1, hex_round, G2. split.
    - intros (a&E1&E2). inversion E1; inversion E2; subst. congruence.
    - intros E. exists (h_alg h). split; [reflexivity|]. now rewrite E.
  Qed.
End Hashio.
Print Assumptions C12_chunking.
Print Assumptions C12_verifier.
Print Assumptions C12_from_hasher.
