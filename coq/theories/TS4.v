(* C19 from .dsc text: the ordering theorems of TS2 carried through the text pipeline of TS3. *)
From Coq Require Import List Ascii String Bool Arith Lia Permutation.
Require Import GS R2 R2u L10 TS TS2 TS3.
Require A1 D3 M6 M6b.
Import ListNotations.

Lemma dscs_length arch : forall ts ds, dscs_of_texts arch ts = Some ds -> List.length ds = List.length ts.
Proof.
  induction ts as [|t r IH]; intros ds E; cbn [dscs_of_texts] in E; [inversion E; reflexivity|].
  destruct (dsc_of_text arch t) as [d|]; [|discriminate]. destruct (dscs_of_texts arch r) as [ds'|]; [|discriminate].
  inversion E; subst. cbn [List.length]. now rewrite (IH ds' eq_refl).
Qed.
(* the k-th parsed source is what dsc_of_text reads from the k-th text *)
Lemma dscs_nth arch : forall ts ds k t, dscs_of_texts arch ts = Some ds -> nth_error ts k = Some t ->
  exists d, nth_error ds k = Some d /\ dsc_of_text arch t = Some d.
Proof.
  induction ts as [|t0 r IH]; intros ds k t E N; [destruct k; discriminate|]. cbn [dscs_of_texts] in E.
  destruct (dsc_of_text arch t0) as [d0|] eqn:D0; [|discriminate]. destruct (dscs_of_texts arch r) as [ds'|] eqn:R; [|discriminate].
  inversion E; subst. destruct k as [|k]; cbn [nth_error] in *.
  - inversion N; subst. exists d0. auto.
  - now apply (IH ds' k t eq_refl).
Qed.

Definition no_dsc : dsc := {| d_source := []; d_src := no_src |}.

(* C19: when the pipeline returns an order of source names, every text was parsed, the names are those of a
   permutation l of the input positions, and in l every source comes after EVERY source whose Binary field lists a binary
   it picked for the architecture from its three build-dependency fields *)
Theorem C19_order_from_texts arch ts names : order_texts arch ts = OOrder names ->
  exists ds l, dscs_of_texts arch ts = Some ds /\ List.length ds = List.length ts /\
    names = map (fun i => d_source (nth i ds no_dsc)) l /\
    Permutation l (seq 0 (List.length ts)) /\
    forall l1 i l2, l = l1 ++ i :: l2 -> forall b t, In b (picked (d_src (nth i ds no_dsc))) ->
      t < List.length ts -> In b (binaries (d_src (nth t ds no_dsc))) -> In t l1.
Proof.
  unfold order_texts. destruct (dscs_of_texts arch ts) as [ds|] eqn:E; [|discriminate].
  destruct (order_dscs (map d_src ds)) as [l| |] eqn:O; try discriminate. intros H. inversion H; subst. clear H.
  exists ds, l. pose proof (dscs_length arch ts ds E) as Len.
  destruct (C19_order (map d_src ds) l O) as [P Ord]. rewrite map_length, Len in P.
  repeat split; auto.
  intros l1 i l2 El b t Hb Ht Hbin. apply (Ord l1 i l2 El b t).
  - unfold nth_src. change no_src with (d_src no_dsc). now rewrite map_nth.
  - rewrite map_length, Len. exact Ht.
  - unfold nth_src. change no_src with (d_src no_dsc). rewrite map_nth. unfold builds. apply existsb_exists. exists b. split; [exact Hbin|].
    destruct (str_eqb_spec b b); [reflexivity|congruence].
Qed.
(* a cycle among the parsed sources is reported as a cycle, and then no order of them satisfies the constraints *)
Theorem C19_cycle_from_texts arch ts : order_texts arch ts = OCycle ->
  exists ds, dscs_of_texts arch ts = Some ds /\ forall t, ~ topological (build_graph (map d_src ds)) t.
Proof.
  unfold order_texts. destruct (dscs_of_texts arch ts) as [ds|] eqn:E; [|discriminate].
  destruct (order_dscs (map d_src ds)) as [l| |] eqn:O; try discriminate. intros _. exists ds. split; [reflexivity|].
  now apply C19_cycle.
Qed.
Theorem C19_texts_never_out_of_fuel arch ts : order_texts arch ts <> OFuel.
Proof.
  unfold order_texts. destruct (dscs_of_texts arch ts) as [ds|]; [|discriminate].
  destruct (order_dscs (map d_src ds)) eqn:O; try discriminate. exfalso. now apply (C19_terminates (map d_src ds)).
Qed.
(* what is read from one .dsc: the binaries are the trimmed elements of the Binary field, the picked names come from
   the three fields in this order *)
Theorem C19_dsc_of_text arch text d : dsc_of_text arch text = Some d ->
  exists p rest a b c, read_all_u text = Some (p :: rest) /\
    picked_of_field arch (lookup (s "Build-Depends") (values p)) = Some a /\
    picked_of_field arch (lookup (s "Build-Depends-Arch") (values p)) = Some b /\
    picked_of_field arch (lookup (s "Build-Depends-Indep") (values p)) = Some c /\
    picked (d_src d) = a ++ b ++ c /\ d_source d = lookup (s "Source") (values p) /\
    (mem (s "Binary") (values p) = true -> binaries (d_src d) = decode_list comma strip4 (lookup (s "Binary") (values p))).
Proof.
  unfold dsc_of_text. destruct (read_all_u text) as [[|p rest]|]; try discriminate.
  destruct (picked_of_field arch (lookup (s "Build-Depends") (values p))) as [a|] eqn:Ea; [|discriminate].
  destruct (picked_of_field arch (lookup (s "Build-Depends-Arch") (values p))) as [b|] eqn:Eb; [|discriminate].
  destruct (picked_of_field arch (lookup (s "Build-Depends-Indep") (values p))) as [c|] eqn:Ec; [|discriminate].
  intros E. inversion E; subst. clear E. exists p, rest, a, b, c. cbn [d_src d_source picked binaries].
  split; [reflexivity|]. split; [exact Ea|]. split; [exact Eb|]. split; [exact Ec|]. split; [reflexivity|]. split; [reflexivity|]. intros M. match goal with |- (if ?c then _ else _) = _ => replace c with false; [reflexivity|] end. change (mem (s "Binary") (values p)) with (mem ["B"%char; "i"%char; "n"%char; "a"%char; "r"%char; "y"%char] (values p)) in M. rewrite M. cbn [negb]. now rewrite andb_false_r.
Qed.
Print Assumptions C19_order_from_texts.
Print Assumptions C19_dsc_of_text.
