(* C11, the checksum line of a signature armor.  golang.org/x/crypto's armor reader takes a line of five bytes that
   starts with '=' for the checksum line; where its four characters are base64 for FEWER than three bytes ("=LwA=")
   it goes on as if the line were not there, and no checksum is compared at all (the r13 finding
   armor-crc-line-malformed).  Since /repo 5d22f1c control.armorChecksumLineOK refuses such a document before the
   armor reader sees it.  Here: that function (armor_ok), base64 on one quantum of four characters as
   encoding/base64 decodes it (decode4), the armor reader's three ways with a candidate line (xline), the CRC-24 and
   the checksum line the library WRITES - and the theorems: a line the check lets through is never skipped by the
   reader, a line the reader would skip is refused, the line the library writes for any data is let through. *)
From Coq Require Import List Ascii String Bool Arith NArith Lia.
Require Import GS.
Import ListNotations.
Open Scope N_scope.

(* ---- base64, the standard alphabet ---- *)
Definition b64val (c : ascii) : option N :=
  let n := N_of_ascii c in
  if (65 <=? n) && (n <=? 90) then Some (n - 65)
  else if (97 <=? n) && (n <=? 122) then Some (n - 71)
  else if (48 <=? n) && (n <=? 57) then Some (n + 4)
  else if n =? 43 then Some 62
  else if n =? 47 then Some 63
  else None.
Definition b64chr (v : N) : ascii :=
  ascii_of_N (if v <? 26 then v + 65 else if v <? 52 then v + 71 else if v <? 62 then v - 4 else if v =? 62 then 43 else 47).
Definition pad : ascii := "="%char.
Definition is_crlf (c : ascii) : bool := ceq c nl || ceq c cr.

(* base64.StdEncoding.Decode of exactly four characters: Some n = n bytes and no error, None = an error.
   (CR and LF are skipped by the decoder: four of them are no data and no error - found by the tie, the first version of
   this model said "error" -, fewer leave something that is never a whole quantum.) *)
Definition decode4 (a b c d : ascii) : option nat :=
  if is_crlf a && is_crlf b && is_crlf c && is_crlf d then Some 0%nat else
  if is_crlf a || is_crlf b || is_crlf c || is_crlf d then None else
  match b64val a, b64val b with
  | Some _, Some _ =>
      match b64val c, b64val d with
      | Some _, Some _ => Some 3%nat
      | Some _, None => if ceq d pad then Some 2%nat else None
      | None, _ => if ceq c pad && ceq d pad then Some 1%nat else None
      end
  | _, _ => None
  end.

(* ---- the armor reader (lineReader.Read) on a line: is it taken for the checksum line, and what then ---- *)
Inductive xres := NotCandidate | Checksum | Corrupt | Skipped.
Definition xline (l : str) : xres :=
  match l with
  | e :: a :: b :: c :: d :: [] =>
      if ceq e pad then
        match decode4 a b c d with Some 3%nat => Checksum | Some _ => Skipped | None => Corrupt end
      else NotCandidate
  | _ => NotCandidate
  end.

(* ---- control.armorChecksumLineOK ---- *)
Definition line_ok (l : str) : bool :=
  match l with
  | e :: a :: b :: c :: d :: [] =>
      if ceq e pad then match decode4 a b c d with Some 3%nat => true | _ => false end else true
  | _ => true
  end.
Definition trim_cr (l : str) : str :=
  match rev l with c :: r => if ceq c cr then rev r else l | [] => l end.
(* the armor headers end at the first empty line; every line behind it is looked at *)
Fixpoint body_ok (body : bool) (ls : list str) : bool :=
  match ls with
  | [] => true
  | l :: r => if body then line_ok l && body_ok true r
              else body_ok (match l with [] => true | _ => false end) r
  end.
Fixpoint prefix (p x : str) : bool :=
  match p, x with
  | [], _ => true
  | a :: p', b :: x' => ceq a b && prefix p' x'
  | _ :: _, [] => false
  end.
(* bytes.LastIndex: the part of x from the last occurrence of p on *)
Fixpoint from_last (p x : str) : option str :=
  match x with
  | [] => if prefix p [] then Some [] else None
  | c :: r => match from_last p r with Some t => Some t | None => if prefix p x then Some x else None end
  end.
Definition begin_marker : str := s "-----BEGIN PGP SIGNATURE-----".
Definition armor_ok (armored : str) : bool :=
  match from_last begin_marker armored with
  | None => true
  | Some t => body_ok false (map trim_cr (split nl t))
  end.

(* ---- what the check is for ---- *)
Theorem let_through_is_never_skipped l : line_ok l = true -> xline l <> Skipped.
Proof.
  unfold line_ok, xline. destruct l as [|e [|a [|b [|c [|d [|x r]]]]]]; try discriminate.
  destruct (ceq e pad); [|discriminate]. destruct (decode4 a b c d) as [[|[|[|[|n]]]]|]; discriminate.
Qed.
Theorem skipped_is_refused l : xline l = Skipped -> line_ok l = false.
Proof.
  intros H. destruct (line_ok l) eqn:E; [|reflexivity]. exfalso. exact (let_through_is_never_skipped l E H).
Qed.
(* the other way round: the check refuses nothing the reader would have taken for a checksum or for data *)
Theorem refused_is_skipped_or_corrupt l : line_ok l = false -> xline l = Skipped \/ xline l = Corrupt.
Proof.
  unfold line_ok, xline. destruct l as [|e [|a [|b [|c [|d [|x r]]]]]]; try discriminate.
  destruct (ceq e pad); [|discriminate]. destruct (decode4 a b c d) as [[|[|[|[|n]]]]|]; try discriminate; auto.
Qed.
(* over a whole body: if the armor is let through, no line of the body is skipped *)
Lemma body_ok_lines : forall ls, body_ok true ls = true -> forall l, In l ls -> xline l <> Skipped.
Proof.
  induction ls as [|l0 r IH]; intros H l Hin; [contradiction|]. cbn [body_ok] in H. apply andb_true_iff in H as [H1 H2].
  destruct Hin as [<-|Hin]; [now apply let_through_is_never_skipped|now apply IH].
Qed.

(* the headers: until the first empty line nothing is looked at; behind it, everything *)
Lemma body_ok_false_split : forall ls, body_ok false ls = true ->
  (forall l, In l ls -> l <> []) \/ exists pre post, ls = pre ++ [] :: post /\ (forall l, In l pre -> l <> []) /\ body_ok true post = true.
Proof.
  induction ls as [|l r IH]; intros H; [left; intros l []|]. cbn [body_ok] in H. destruct l as [|c l'].
  - right. exists [], r. repeat split; [intros l []|exact H].
  - destruct (IH H) as [N|(pre&post&E&N&B)].
    + left. intros l [<-|Hin]; [discriminate|now apply N].
    + right. exists ((c :: l') :: pre), post. subst r. repeat split; [|exact B].
      intros l [<-|Hin]; [discriminate|now apply N].
Qed.
(* the whole check: in an armor that is let through, no line behind the headers of the last signature armor is one
   the armor reader skips *)
Theorem armor_ok_no_skipped_line armored t : armor_ok armored = true -> from_last begin_marker armored = Some t ->
  forall pre post, map trim_cr (split nl t) = pre ++ [] :: post -> (forall l, In l pre -> l <> []) ->
  forall l, In l post -> xline l <> Skipped.
Proof.
  unfold armor_ok. intros H F. rewrite F in H. intros pre post E N l Hin.
  destruct (body_ok_false_split _ H) as [NE|(pre'&post'&E'&N'&B)].
  - exfalso. apply (NE []); [|reflexivity]. rewrite E. apply in_or_app. right. now left.
  - (* the first empty line is where both splits cut *)
    assert (P : forall (a b c d : list str), a ++ [] :: b = c ++ [] :: d -> (forall l, In l a -> l <> []) -> (forall l, In l c -> l <> []) -> b = d).
    { induction a as [|x a IHa]; intros b c d Eq Na Nc.
      - destruct c as [|y c]; [now inversion Eq|]. inversion Eq; subst. exfalso. apply (Nc []); [now left|reflexivity].
      - destruct c as [|y c].
        + inversion Eq; subst. exfalso. apply (Na []); [now left|reflexivity].
        + inversion Eq; subst. apply (IHa b c d); auto; intros l0 Hl; [apply Na|apply Nc]; now right. }
    rewrite E in E'. rewrite (P pre post pre' post' E' N N') in Hin. exact (body_ok_lines post' B l Hin).
Qed.

(* ---- the line the library writes: CRC-24 (RFC 4880, 6.1) and base64 of its three bytes ---- *)
Definition crc24_init : N := 11994318.        (* 0xB704CE *)
Definition crc24_poly : N := 25578747.        (* 0x1864CFB *)
Fixpoint crc_bits (n : nat) (crc : N) : N :=
  match n with
  | O => crc
  | S k => let c := N.shiftl crc 1 in crc_bits k (if N.testbit c 24 then N.lxor c crc24_poly else c)
  end.
Definition crc_byte (crc : N) (b : N) : N := crc_bits 8 (N.lxor crc (N.shiftl b 16)).
Definition crc24 (data : list N) : N := N.land (fold_left crc_byte data crc24_init) 16777215.
Definition sextet (v : N) (k : N) : N := N.land (N.shiftr v (6 * k)) 63.
Definition checksum_line (data : list N) : str :=
  let v := crc24 data in [pad; b64chr (sextet v 3); b64chr (sextet v 2); b64chr (sextet v 1); b64chr (sextet v 0)].

Lemma b64val_chr_all : forallb (fun v => match b64val (b64chr v) with Some w => N.eqb w v | None => false end)
                               (map N.of_nat (List.seq 0 64)) = true.
Proof. vm_compute. reflexivity. Qed.
Lemma b64val_chr v : v < 64 -> b64val (b64chr v) = Some v.
Proof.
  intros H. pose proof b64val_chr_all as A. rewrite forallb_forall in A.
  assert (I : In v (map N.of_nat (List.seq 0 64))).
  { apply in_map_iff. exists (N.to_nat v). split; [apply N2Nat.id|]. apply in_seq. lia. }
  specialize (A v I). destruct (b64val (b64chr v)) as [w|]; [|discriminate]. apply N.eqb_eq in A. now subst.
Qed.
Lemma b64chr_not_crlf_all : forallb (fun v => negb (is_crlf (b64chr v))) (map N.of_nat (List.seq 0 64)) = true.
Proof. vm_compute. reflexivity. Qed.
Lemma b64chr_not_crlf v : v < 64 -> is_crlf (b64chr v) = false.
Proof.
  intros H. pose proof b64chr_not_crlf_all as A. rewrite forallb_forall in A.
  assert (I : In v (map N.of_nat (List.seq 0 64))).
  { apply in_map_iff. exists (N.to_nat v). split; [apply N2Nat.id|]. apply in_seq. lia. }
  specialize (A v I). now apply negb_true_iff in A.
Qed.
Lemma sextet_lt v k : sextet v k < 64.
Proof.
  unfold sextet. change 63 with (N.ones 6). rewrite N.land_ones. apply N.mod_lt. discriminate.
Qed.
(* the repair refuses no armor the library writes, whatever the data *)
Theorem written_checksum_line_is_let_through data : line_ok (checksum_line data) = true /\ xline (checksum_line data) = Checksum.
Proof.
  unfold checksum_line, line_ok, xline. set (v := crc24 data).
  assert (D : decode4 (b64chr (sextet v 3)) (b64chr (sextet v 2)) (b64chr (sextet v 1)) (b64chr (sextet v 0)) = Some 3%nat).
  { unfold decode4. rewrite !b64chr_not_crlf by apply sextet_lt. cbn [orb]. now rewrite !b64val_chr by apply sextet_lt. }
  change (ceq pad pad) with true. cbv iota. now rewrite D.
Qed.

(* examples: the finding's lines *)
Example lines : xline (s "=LwA9") = Checksum /\ xline (s "=LwA=") = Skipped /\ xline (s "=Lw==") = Skipped /\
                xline (s "=L===") = Corrupt /\ xline (s "=LwA9x") = NotCandidate /\
                line_ok (s "=LwA9") = true /\ line_ok (s "=LwA=") = false /\ line_ok (s "=Lw==") = false /\ line_ok (s "iQEz") = true.
Proof. vm_compute. repeat split. Qed.
(* RFC 4880 has no test vector for the CRC; the empty input gives the initial value *)
Example crc24_empty : crc24 [] = crc24_init. Proof. reflexivity. Qed.
Print Assumptions let_through_is_never_skipped.
Print Assumptions armor_ok_no_skipped_line.
Print Assumptions written_checksum_line_is_let_through.
