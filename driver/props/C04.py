"""C04 - dependency fields parse into exactly the structure they denote."""
import itertools
import lib
import gen
import depgen

EDIT = [bytes([c]) for c in b"abz019+-.:~ ()[]<>!|,${}=\t\n\r"] + [b"\xc3\xa9", b"\x00", b"\x80", b">=", b"<<"]


def streams(chk):
    """(name, [(text, expected-or-None)])"""
    rng = chk.rng
    out = {}
    # bounded-exhaustive small shapes x layouts
    alts = depgen.small_alts()
    items = []
    shapes = []
    for a in alts:
        shapes.append([[a]])
    for a, b in itertools.product(alts[::3], alts[::4]):
        shapes.append([[a, b]])
        shapes.append([[a], [b]])
    for a, b, c in itertools.product(alts[::7], alts[::9], alts[::11]):
        shapes.append([[a, b], [c]])
    reps = 4 if chk.tier == "quick" else 40
    for d in shapes:
        items.append((depgen.render(d, depgen.Layout(rng, "canon")), depgen.denote(d)))
        items.append((depgen.render(d, depgen.Layout(rng, "tight")), depgen.denote(d)))
        for _ in range(reps):
            items.append((depgen.render(d, depgen.Layout(rng, "free")), depgen.denote(d)))
    out["small-shapes-x-layouts"] = items
    items = []
    for _ in range(chk.n(4000, 80000)):
        d = depgen.rand_dep(rng, 5, 3, rng.choice([0.3, 0.6, 0.9]))
        items.append((depgen.render(d, depgen.Layout(rng, rng.choice(["free", "free", "canon", "tight"]))), depgen.denote(d)))
    out["random-asts-x-layouts"] = items
    return out


def run(chk):
    rng = chk.rng
    valid_texts = []
    for name, items in streams(chk).items():
        cases = [("dparse", [t]) for t, _ in items]
        impl, model = chk.run_both(cases)
        chk.compare(name, cases, impl, model)
        for c, i, (t, want) in zip(cases, impl, items):
            if i != want:
                chk.violate({"kind": "property", "case": lib.show_case(c), "impl": i[:2000], "expected": want[:2000],
                             "explanation": "a field of the Policy grammar did not parse to the structure it denotes"})
        valid_texts += [t for t, _ in items]
    # a receiver that is used again: UnmarshalControl(b) into a value that already holds the parse of a gives the parse of b
    pool = rng.sample(valid_texts, min(len(valid_texts), chk.n(1500, 30000)))
    rc = [("dreuse", [rng.choice(pool), b]) for b in pool]
    ri = chk.run_impl(rc)
    rf = chk.run_impl([("dparse", [c[1][1]]) for c in rc])
    chk.record("reused-receiver", rc, ri)
    for c, a, b in zip(rc, ri, rf):
        if a != b:
            chk.violate({"kind": "property", "case": lib.show_case(c), "impl": a[:1500], "fresh_parse": b[:1500],
                         "explanation": "parsing a field into a value that was used before does not give the structure the field denotes"})
    # what Parse returns is the caller's: after the caller edited an earlier result all the way down, the byte-identical
    # field parsed again (Parse and UnmarshalControl) still gives the structure it denotes
    ac = [("dalias", [t]) for t in pool[::3]]
    ai = chk.run_impl(ac)
    af = [rf[k] for k in range(0, len(pool), 3)]
    chk.record("results-owned-by-caller", ac, ai)
    for c, a, f in zip(ac, ai, af):
        if a != f + " | " + f:
            chk.violate({"kind": "property", "case": lib.show_case(c), "impl": a[:1500], "fresh_parse": f[:1500],
                         "explanation": "after the caller edited the value an earlier Parse returned, parsing the same field again does not give the structure the field denotes"})
    # malformed classes: must be rejected, with no result
    cases, kinds = [], []
    for _ in range(chk.n(600, 12000)):
        for kind, t in depgen.malformed(rng):
            cases.append(("dparse", [t])); kinds.append(kind)
            # the same defect at any position: after complete relations, as a later alternative (C04_reject_at_any_position)
            ly = depgen.Layout(rng, rng.choice(["free", "canon", "tight"]))
            pre = depgen.render(depgen.rand_dep(rng, 3, 2, 0.6), ly)
            alt = depgen.render([[depgen.rand_dep(rng, 1, 1, 0.6)[0][0]]], ly)
            where = rng.randrange(3)
            if where == 0:
                cases.append(("dparse", [pre + ly.ws(0) + b"," + ly.ws(0) + t]))
            elif where == 1:
                cases.append(("dparse", [alt + ly.ws(0) + b"|" + ly.ws(0) + t]))
            else:
                cases.append(("dparse", [pre + ly.ws(0) + b"," + ly.ws(0) + alt + ly.ws(0) + b"|" + ly.ws(0) + t]))
            kinds.append(kind + "@later")
    impl, model = chk.run_both(cases)
    chk.compare("malformed-classes", cases, impl, model, nontrivial=lambda c, r: True)
    for c, i, k in zip(cases, impl, kinds):
        if i != "err":
            chk.violate({"kind": "property", "case": lib.show_case(c), "impl": i[:1000], "malformed_class": k,
                         "explanation": "a malformed field (%s) was not rejected with an error and no result" % k})
    # the same malformed fields through the other door, Dependency.UnmarshalControl (what the control decoder calls for a
    # dependency-typed struct field): rejected there too
    uc = [("dcontrol", c[1]) for c in cases]
    ui = chk.run_impl(uc)
    chk.record("malformed-classes-unmarshalcontrol", uc, ui, lambda c, r: True)
    for c, i, k in zip(uc, ui, kinds):
        if i != "err":
            chk.violate({"kind": "property", "case": lib.show_case(c), "impl": i[:1000], "malformed_class": k,
                         "explanation": "a malformed field (%s) was accepted by Dependency.UnmarshalControl although Parse rejects it" % k})
    # ... and a second time, in the same process right after the first: a field that was rejected is rejected again (nothing
    # about a rejected token is remembered as if it had been accepted)
    tc = [("dtwice", c[1]) for c in cases]
    ti = chk.run_impl(tc)
    chk.record("malformed-classes-twice", tc, ti, lambda c, r: True)
    for c, i, k in zip(tc, ti, kinds):
        if i != "err err err":
            chk.violate({"kind": "property", "case": lib.show_case(c), "impl": i[:1000], "malformed_class": k,
                         "explanation": "a malformed field (%s) was rejected the first time and accepted when it was parsed again in the same process" % k})
    # "rejected with an error and no result" through UnmarshalControl: next to the error the receiver holds nothing of the
    # rejected field - it is left as it was (the parse of "keep (>= 1)"), or empty
    ec = [("dunmarshalerr", c[1]) for c in cases]
    ei = chk.run_impl(ec)
    chk.record("malformed-classes-receiver-after-the-error", ec, ei, lambda c, r: True)
    for c, i, k in zip(ec, ei, kinds):
        if i not in ("err unchanged", "err empty"):
            chk.violate({"kind": "property", "case": lib.show_case(c), "impl": i[:1000], "malformed_class": k,
                         "explanation": "Dependency.UnmarshalControl returned an error for a malformed field (%s) and left relations of that field in the receiver (an error and a result)" % k})
    # an UNTERMINATED clause in front of a separator and a later clause of the same kind (one closing character of a valid field
    # deleted): the later clause's closer must not terminate the earlier one
    uc2 = []
    for sep in (b", ", b" | ", b",", b"|"):
        for a_, b_ in ((b"foo (>= 1.0", b"bar (>= 2.0)"), (b"foo [amd64", b"bar [i386]"), (b"foo <cross", b"bar <nocheck>"), (b"${misc:Depends", b"${shlibs:Depends}"),
                       (b"foo (>= 1.0", b"bar [amd64] (<< 3)"), (b"x:any [!i386", b"y [!amd64]")):
            uc2.append(("dparse", [a_ + sep + b_]))
    # ... and the same defect made from the valid fields of this run: one closing character deleted that has a separator
    # somewhere behind it (')' ']' '}' anywhere, '>' only where it closes a profile group)
    for t in valid_texts:
        depth = 0
        spots = []
        for i, ch_ in enumerate(t):
            if ch_ == 0x28:
                depth += 1
            elif ch_ == 0x29:
                depth = max(0, depth - 1)
            if (ch_ in b")]}" or (ch_ == 0x3e and depth == 0)) and (b"," in t[i:] or b"|" in t[i:]):
                spots.append(i)
        for i in rng.sample(spots, min(len(spots), 2)):
            uc2.append(("dparse", [t[:i] + t[i + 1:]]))
    uc2 = uc2[:chk.n(1500, 30000)]
    ui2, um2 = chk.run_both(uc2)
    chk.compare("unterminated-clause-before-a-separator", uc2, ui2, um2, spec=False)
    for c, r in zip(uc2, ui2):
        if r != "err":
            chk.violate({"kind": "property", "case": lib.show_case(c), "impl": r[:300],
                         "explanation": "an unterminated paren, bracket, profile group or substvar swallowed the separator and was closed by a later clause's closing character"})
    # a qualifier or a restriction with NO package name in front of it (a valid field with one ',' or '|' inserted in front of a
    # clause, or a clause where a relation should begin): not a relation of the grammar - it must be refused, not dropped
    nn = []
    for pre in (b"", b"foo, ", b"foo | ", b"foo (>= 1), bar | "):
        for cl in (b"(>= 2.0)", b"[amd64]", b"[!i386 !amd64]", b"<!nocheck>", b"<a> <!b c>", b":any", b":amd64 (<< 2)", b"(= 1) [amd64] <x>"):
            for suf in (b"", b", baz", b" | baz"):
                nn.append(("dparse", [pre + cl + suf]))
    ni, nm = chk.run_both(nn)
    chk.compare("restriction-without-a-package-name", nn, ni, nm, spec=False)
    for c, r in zip(nn, ni):
        if r != "err":
            chk.violate({"kind": "property", "case": lib.show_case(c), "impl": r[:300],
                         "explanation": "a qualifier or restriction clause with no package name in front of it was accepted: the clause is silently dropped (the constraint vanishes)"})
    chk.extra["malformed_classes"] = sorted(set(kinds))
    # single-edit corruptions of valid fields: model vs implementation (ok/err and structure)
    cases = []
    pool = rng.sample(valid_texts, min(len(valid_texts), 400))
    for t in pool:
        for _ in range(chk.n(40, 800)):
            cases.append(("dparse", [gen.mutate(rng, t, EDIT)]))
    impl, model = chk.run_both(cases)
    chk.compare("single-edit-corruptions", cases, impl, model, spec=False)
    # raw bytes
    cases = [("dparse", [gen.rand_bytes(rng, 24)]) for _ in range(chk.n(3000, 60000))]
    cases += [("dparse", [gen.rand_bytes(rng, 20, EDIT)]) for _ in range(chk.n(6000, 120000))]
    cases += [("dparse", [w]) for w in gen.words([b"a", b" ", b"(", b")", b"[", b"]", b"<", b">", b"!", b"|", b",", b"$", b"{", b"}", b"=", b":"], 3)]
    impl, model = chk.run_both(cases)
    chk.compare("raw-bytes-and-exhaustive-short", cases, impl, model, spec=False)
    # whatever the input, the parser ANSWERS: a value or an error ("rejected with an error and no result") - never a panic,
    # a hang, or a result together with an error
    for c, i in zip(cases, impl):
        if i in ("panic", "timeout", "err-with-value", "ok-nil") or i.startswith("runner-died"):
            chk.violate({"kind": "property", "case": lib.show_case(c), "impl": i,
                         "explanation": "the dependency parser did not answer a field with a value or an error (%s): a malformed field is rejected with an error and no result" % i})
    chk.assumptions += ["legal spacing = any run (also the empty one) of space, tab, CR, LF between tokens; no blank is required between a name and a following '(' '[' or '<'",
                        "error messages are not compared"]


def replay(chk, d):
    c = lib.case_from_replay(d)
    i, m = chk.run_both([c])
    print("impl:", i[0], "model:", m[0])
    return 1 if i[0] != m[0] or ("expected" in d and d["expected"] != i[0]) else 0
