(* C06: Arch.Is / IsWildcard / ArchSet.Matches / GetPossibilities / SatisfiedBy *)
From Coq Require Import List Bool Arith ZArith Lia.
Import ListNotations.

Section ArchMatch.
  (* component names: any type with decidable equality and two distinct distinguished names *)
  Variable T : Type.
  Variable eqb : T -> T -> bool.
  Hypothesis eqb_spec : forall a b, reflect (a = b) (eqb a b).
  Variables any all : T.
  Hypothesis any_all : any <> all.

  Record arch := { abi : T; os : T; cpu : T }.
  Definition ALL := {| abi := all; os := all; cpu := all |}.

  (* arch.go *)
  Definition is_wildcard (a : arch) : bool :=
    if eqb (cpu a) all then false else eqb (abi a) any || eqb (os a) any || eqb (cpu a) any.
  Definition is_direct (a o : arch) : bool :=
    (eqb (cpu a) (cpu o) || (negb (eqb (cpu a) all) && eqb (cpu o) any)) &&
    (eqb (os a) (os o) || eqb (os o) any) &&
    (eqb (abi a) (abi o) || eqb (abi o) any).
  Definition arch_is (a o : arch) : bool :=
    if is_wildcard a && is_wildcard o then false
    else if is_wildcard a then is_direct o a      (* other.Is(arch): other is not a wildcard here *)
    else is_direct a o.

  (* the property's vocabulary *)
  Definition no_all (a : arch) : Prop := abi a <> all /\ os a <> all /\ cpu a <> all.
  Definition dom (a : arch) : Prop := a = ALL \/ no_all a.
  Definition concrete (a : arch) : Prop := no_all a /\ abi a <> any /\ os a <> any /\ cpu a <> any.
  Definition wildcard (a : arch) : Prop := no_all a /\ (abi a = any \/ os a = any \/ cpu a = any).
  Definition covers (w c : arch) : Prop :=   (* every wildcard component is any or equals the concrete one *)
    (abi w = any \/ abi w = abi c) /\ (os w = any \/ os w = os c) /\ (cpu w = any \/ cpu w = cpu c).
  Definition matches (a b : arch) : Prop :=
    (a = ALL /\ b = ALL) \/ (concrete a /\ concrete b /\ a = b) \/
    (concrete a /\ wildcard b /\ covers b a) \/ (wildcard a /\ concrete b /\ covers a b).

  Ltac dec := repeat match goal with
    | |- context [eqb ?x ?y] => destruct (eqb_spec x y); cbn [andb orb negb]
    | H : context [eqb ?x ?y] |- _ => destruct (eqb_spec x y); cbn [andb orb negb] in H
    end.

  Lemma arch_eq a b : abi a = abi b -> os a = os b -> cpu a = cpu b -> a = b.
  Proof. destruct a, b; cbn; intros; subst; reflexivity. Qed.

  Theorem C06_is_spec a b : dom a -> dom b -> (arch_is a b = true <-> matches a b).
  Proof.
    intros Da Db. unfold arch_is, is_wildcard, is_direct, matches, concrete, wildcard, covers, no_all.
    destruct a as [a1 a2 a3], b as [b1 b2 b3]. unfold dom, no_all, ALL in *. cbn [abi os cpu] in *.
    destruct Da as [Ea|(A1&A2&A3)]; destruct Db as [Eb|(B1&B2&B3)];
      try (inversion Ea; subst); try (inversion Eb; subst); dec; subst;
      split; intros H; try discriminate; try reflexivity; try tauto;
      try (exfalso; tauto);
      try (repeat match goal with H : _ \/ _ |- _ => destruct H | H : _ /\ _ |- _ => destruct H
                  | H : {| abi := _; os := _; cpu := _ |} = _ |- _ => inversion H; clear H; subst end;
           try congruence; try tauto);
      try (first [ left; split; reflexivity
                 | right; left; repeat split; congruence
                 | right; right; left; repeat split; solve [congruence | tauto | auto]
                 | right; right; right; repeat split; solve [congruence | tauto | auto] ]).
  Qed.
End ArchMatch.
