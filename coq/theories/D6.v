(* fuel monotonicity; C05 part B for the model's concrete parse *)
From Coq Require Import List Ascii String ZArith NArith Lia Bool Arith.
Require Import D3 D4 D5.
Import ListNotations.

Definition mono {A} (F : nat -> outcome A) : Prop := forall f r, F f = r -> r <> OutOfFuel -> F (S f) = r.

Lemma archs_loop_mono : forall f set i r, archs_loop f set i = r -> r <> OutOfFuel -> archs_loop (S f) set i = r.
Proof.
  induction f as [|f IH]; intros set i r E N; [cbn in E; congruence|].
  rewrite archs_loop_S in E. rewrite archs_loop_S. destruct (eat_ws i) as [|c x]; [exact E|].
  destruct (eqc c 0); [exact E|]. destruct (eqc c 93); [exact E|].
  destruct (parse_one_arch set (c :: x)) as [[s1 i1]| |]; [|exact E|exact E]. now apply IH.
Qed.
Lemma stageset_loop_mono : forall f acc i r, stageset_loop f acc i = r -> r <> OutOfFuel -> stageset_loop (S f) acc i = r.
Proof.
  induction f as [|f IH]; intros acc i r E N; [cbn in E; congruence|].
  rewrite stageset_loop_S in E. rewrite stageset_loop_S. destruct (eat_ws i) as [|c x]; [exact E|].
  destruct (eqc c 0); [exact E|]. destruct (eqc c 62); [exact E|].
  destruct (stage_loop _ (c :: x)) as [[s1 i1]| |]; [|exact E|exact E]. now apply IH.
Qed.

Lemma controllers_mono : forall f p i r, controllers f p i = r -> r <> OutOfFuel -> controllers (S f) p i = r.
Proof.
  induction f as [|f IH]; intros p i r E N; [cbn in E; congruence|].
  rewrite controllers_S in E. rewrite controllers_S. cbv zeta in *.
  destruct (_ || _ || _); [exact E|]. destruct (eqc _ 40).
  - destruct (p_ver p); [exact E|]. destruct (parse_version _) as [[v k]| |]; [|exact E|exact E]. now apply IH.
  - destruct (eqc _ 91).
    + destruct (a_list (archs_of p)); [|exact E]. unfold parse_archs in *.
      destruct (archs_loop f (archs_of p) _) as [[a k]| |] eqn:AL.
      * rewrite (archs_loop_mono f _ _ _ AL) by discriminate. now apply IH.
      * rewrite (archs_loop_mono f _ _ _ AL) by discriminate. exact E.
      * congruence.
    + destruct (eqc _ 60); [|exact E]. unfold parse_stageset in *.
      destruct (stageset_loop f [] _) as [[st k]| |] eqn:SL.
      * rewrite (stageset_loop_mono f _ _ _ SL) by discriminate. now apply IH.
      * rewrite (stageset_loop_mono f _ _ _ SL) by discriminate. exact E.
      * congruence.
Qed.

Lemma possi_loop_mono : forall f p rel i r, possi_loop f p rel i = r -> r <> OutOfFuel -> possi_loop (S f) p rel i = r.
Proof.
  induction f as [|f IH]; intros p rel i r E N; [cbn in E; congruence|].
  rewrite possi_loop_S in E. rewrite possi_loop_S. cbv zeta in *.
  destruct (eqc (peek i) 58).
  - destruct (parse_multiarch i) as [[a k]| |]; [now apply IH|exact E|exact E].
  - destruct (is_ws (peek i) || eqc (peek i) 40 || eqc (peek i) 91 || eqc (peek i) 60).
    + destruct (controllers f p i) as [[p1 k]| |] eqn:C.
      * rewrite (controllers_mono f _ _ _ C) by discriminate. now apply IH.
      * rewrite (controllers_mono f _ _ _ C) by discriminate. exact E.
      * congruence.
    + destruct (_ || _ || _); [exact E|]. now apply IH.
Qed.

Lemma parse_possibility_mono f rel i r : parse_possibility f rel i = r -> r <> OutOfFuel -> parse_possibility (S f) rel i = r.
Proof.
  unfold parse_possibility. destruct (eqc _ 36); [auto|]. intros E N.
  destruct (possi_loop f fresh rel (eat_ws i)) as [[rel' r']| |] eqn:P.
  - now rewrite (possi_loop_mono f _ _ _ _ P) by discriminate.
  - now rewrite (possi_loop_mono f _ _ _ _ P) by discriminate.
  - cbn in E. congruence.
Qed.

Lemma relation_loop_mono : forall f rel d i r, relation_loop f rel d i = r -> r <> OutOfFuel -> relation_loop (S f) rel d i = r.
Proof.
  induction f as [|f IH]; intros rel d i r E N; [cbn in E; congruence|].
  rewrite D5.relation_loop_S in E. rewrite D5.relation_loop_S.
  destruct (_ || _); [exact E|]. destruct (eqc _ 124); [now apply IH|].
  destruct (parse_possibility f rel i) as [[rel1 k]| |] eqn:PP.
  - rewrite (parse_possibility_mono f _ _ _ PP) by discriminate. now apply IH.
  - rewrite (parse_possibility_mono f _ _ _ PP) by discriminate. exact E.
  - congruence.
Qed.

Lemma dependency_loop_mono : forall f d i r, dependency_loop f d i = r -> r <> OutOfFuel -> dependency_loop (S f) d i = r.
Proof.
  induction f as [|f IH]; intros d i r E N; [cbn in E; congruence|].
  rewrite D5.dependency_loop_S in E. rewrite D5.dependency_loop_S.
  destruct (eqc _ 0); [exact E|]. destruct (eqc _ 44); [now apply IH|].
  destruct (relation_loop f [] d (eat_ws i)) as [[d1 k]| |] eqn:RL.
  - rewrite (relation_loop_mono f _ _ _ _ RL) by discriminate. now apply IH.
  - rewrite (relation_loop_mono f _ _ _ _ RL) by discriminate. exact E.
  - congruence.
Qed.

Lemma mono_ge {A} (F : nat -> outcome A) : mono F -> forall f g r, (f <= g)%nat -> F f = r -> r <> OutOfFuel -> F g = r.
Proof. intros M f g r Hle. induction Hle; intros E N; [exact E|]. apply M; auto. Qed.

(* C05, part B, for the model's own Parse: a well-formed value's rendering parses back to it *)
Theorem C05_partB d : wf_dep d -> parse (dep_string d) = Ok d.
Proof.
  intros W. destruct (C05_partB_ev d W) as (f0&H0).
  pose proof (C18_dep_terminates (dep_string d)) as NF. unfold parse in *.
  set (N := (4 * List.length (dep_string d) + 8)%nat) in *.
  set (F := fun f => dependency_loop f [] (eat_ws (dep_string d))) in *.
  assert (M : mono F) by (intros f r; apply dependency_loop_mono).
  destruct (Nat.le_ge_cases N f0) as [L|L].
  - (* N <= f0: F N is not OutOfFuel, so it persists up to f0, where it is Ok d *)
    pose proof (mono_ge F M N f0 (F N) L eq_refl NF) as K. pose proof (H0 f0 (le_n _)) as K2. subst F. cbv beta in *. congruence.
  - exact (H0 N L).
Qed.
Print Assumptions C05_partB.
