(* C07 - Control-file reader recovers every paragraph, field and value.
   Property theorems only.  Model: R2.next = ParagraphReader.Next on the lines of the input
   (GS.lines_of = the bufio ReadString('\n') loop incl. the last line without newline), R2.all_fuel / R2.read_all =
   ParagraphReader.All.  Reading paragraph by paragraph, reading all at once and decoding into a slice call the
   same Next in the Go code; the tie checks the three entry points against this one function.
   Whitespace is the one-byte ASCII class (the tie keeps non-ASCII Unicode space encodings out of its inputs). *)
From Coq Require Import List Ascii String Bool Arith Lia.
Require Import GS R2 R3 R5 R6 HIST.
Import ListNotations.

(* a document: paragraphs, each = skippable lines (empty, CR-only, '#' comments, blank-only), then fields
   with distinct keys in the free layout of lfield (blanks before and after the colon and at line ends incl.
   CR, continuation lines starting with space or tab, " ." for empty lines, comment lines interleaved), then
   a blank line; after the last paragraph only skippable lines.  The reader returns exactly the paragraphs'
   (key, logical value) lists in order, each key once, in file order. *)
Theorem C07_read_document : forall d fin, Forall lpara_ok d -> Forall skip_ok fin -> Forall (free nl) (doc_lines d fin) ->
  read_all (unlines (doc_lines d fin)) = Some (map lpara_val d).
Proof. exact C07_read_text. Qed.
Print Assumptions C07_read_document.

(* the same without a final newline: the last paragraph runs to the end of the text *)
Theorem C07_read_document_no_final_newline : forall d sk fs, Forall lpara_ok d -> Forall skip_ok sk -> fields_ok fs ->
  Forall (free nl) (doc_lines d (sk ++ plines fs)) ->
  read_all (join [nl] (doc_lines d (sk ++ plines fs))) = Some (map lpara_val d ++ [pval fs]).
Proof. exact C07_read_text_open. Qed.
Print Assumptions C07_read_document_no_final_newline.

(* one field under full layout freedom: the value is the field's logical lines (leading marker and trailing
   whitespace removed, indentation kept, "." lines empty) *)
Theorem C07_field_value : forall p last k w0 w1 l0 w2 its rest,
  key_ok k -> mem k (values p) = false -> pad_ok w0 -> all_space w1 -> all_space w2 ->
  no_lead l0 -> no_trail l0 -> Forall item_ok its ->
  next p last ((k ++ w0 ++ [colon] ++ w1 ++ l0 ++ w2) :: map item_line its ++ rest) =
  next {| order := order p ++ [k]; values := values p ++ [(k, read_conts l0 (conts its))] |} k rest.
Proof. exact C07_field. Qed.
Print Assumptions C07_field_value.

(* for any input whatsoever: a returned paragraph lists each field once and has a value for exactly the
   fields it lists *)
Theorem C07_invariant_any_input : forall fuel ls ps, all_fuel fuel ls = Some ps -> Forall pinv ps.
Proof. exact C07_invariant. Qed.
Print Assumptions C07_invariant_any_input.

(* the reader the tie executes trims Unicode whitespace exactly as Go does (R2u); on text without the UTF-8
   encoding of a non-ASCII Unicode space it is the reader of the theorems above *)
Require LR.
(* the source: the incremental line reader (bufio ReadString over any io.Reader), fed whatever chunks the source
   delivers, produces the lines of the whole text; so the reader's result does not depend on the chunking *)
Theorem C07_any_source : forall chunks, LR.read_all_chunked chunks = R2.read_all (List.concat chunks).
Proof. exact LR.read_all_any_source. Qed.
Theorem C07_lines_of_any_chunking : forall chunks, LR.feed_all [] chunks = lines_of (List.concat chunks).
Proof. exact LR.feed_all_is_lines_of. Qed.
Print Assumptions C07_any_source.
Require R2u.
Theorem C07_exact_reader_agrees : forall x, Forall R2u.uclean (lines_of x) -> R2u.read_all_u x = read_all x.
Proof. exact R2u.read_all_u_clean. Qed.
Theorem C07_exact_next_agrees : forall ls p last, Forall R2u.uclean ls -> R2u.next_u p last ls = next p last ls.
Proof. exact R2u.next_u_clean. Qed.
Print Assumptions C07_exact_reader_agrees.

(* non-vacuity: a CRLF document with a comment, a blank-only line, a folded field *)
Require R6ex.
Example C07_instance : Forall lpara_ok R6ex.d1 /\ Forall skip_ok [s "#end"] /\ Forall (free nl) (doc_lines R6ex.d1 [s "#end"]) /\
  read_all (unlines (doc_lines R6ex.d1 [s "#end"])) = Some [ {| order := [s "Package"; s "Depends"];
     values := [(s "Package", s "a" ++ [nl] ++ s "x  y" ++ [nl; nl]); (s "Depends", s "b" ++ [nl])] |} ].
Proof. exact R6ex.C07_nonvacuous. Qed.

(* one reader used both ways: Next once, then All for the rest, sees the sequence that All alone sees *)
Theorem C07_next_then_all_is_all : forall x p ps, R2.read_all x = Some (p :: ps) ->
  exists rest, R2.next R2.empty_para [] (lines_of x) = R2.RPara p rest /\ R2.all_fuel (List.length (lines_of x)) rest = Some ps.
Proof. exact HIST.C07_next_then_all. Qed.

(* a field name does not begin with '-' (Policy 5.1; repair 1b827a1; a line beginning with '#' is a comment - a name such as "-----BEGIN PGP X", read
   behind a comment, would be written back as a line the reader takes for an OpenPGP armor): such a line is an error, wherever
   it stands and whatever paragraph is being read *)
Theorem C07_field_name_starts_with_dash : forall p last k v rest, free colon k ->
  next p last ((dashc :: k ++ colon :: v) :: rest) = RErr.
Proof.
  intros p last k v rest Fk.
  assert (C : cut_colon [] (dashc :: k ++ colon :: v) = Some (dashc :: k, v)).
  { change (dashc :: k ++ colon :: v) with ((dashc :: k) ++ colon :: v). apply (cut_colon_word (dashc :: k) [] v).
    constructor; [discriminate|exact Fk]. }
  cbn [next]. change (is_blank_line (dashc :: k ++ colon :: v)) with (str_eqb (dashc :: k ++ colon :: v) [cr] || false) .
  unfold is_blank_line. destruct (str_eqb_spec (dashc :: k ++ colon :: v) []); [discriminate|].
  destruct (str_eqb_spec (dashc :: k ++ colon :: v) [cr]) as [E|_]; [discriminate E|]. cbn [orb].
  change (starts hash (dashc :: k ++ colon :: v)) with false. change (starts sp (dashc :: k ++ colon :: v)) with false.
  change (starts tab (dashc :: k ++ colon :: v)) with false. cbn [orb]. rewrite C.
  assert (T : exists t, trim_space (dashc :: k) = dashc :: t).
  { unfold trim_space. cbn [trim_left]. change (is_space dashc) with false. cbv iota.
    unfold trim_right. cbn [rev]. 
    assert (G : forall y, exists z, trim_left (y ++ [dashc]) = z ++ [dashc]).
    { induction y as [|b y IHy]; cbn [app trim_left]; [now exists []|]. destruct (is_space b); [exact IHy|]. now exists (b :: y). }
    destruct (G (rev k)) as (z&Ez). rewrite Ez, rev_app_distr. cbn. now exists (rev z). }
  destruct T as (t&Et). rewrite Et. cbn [starts]. change (ceq dashc hash) with false. change (ceq dashc dashc) with true. reflexivity.
Qed.
