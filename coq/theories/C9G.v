(* C09, generic in the field kinds: any family of value codecs with a round trip gives the record-level theorems *)
From Coq Require Import List Ascii String Bool Arith NArith ZArith Lia.
Require Import GS.
Import ListNotations.

Section Codec.
  Variables kind value : Type.
  Variable kind_of : value -> kind.
  Variable zero_of : kind -> value.
  Variable marshal_value : value -> str.
  Variable decode_value : kind -> str -> option value.
  Variable wfv : value -> Prop.                    (* the values the round trip is claimed for *)
  Hypothesis value_roundtrip : forall v, wfv v -> marshal_value v <> [] -> decode_value (kind_of v) (marshal_value v) = Some v.
  Hypothesis empty_marshal : forall v, wfv v -> marshal_value v = [] -> v = zero_of (kind_of v).

  Record fdesc := { fkey : str; fkind : kind; frequired : bool }.
  Definition schema := list fdesc.
  Definition record := list value.

(* ---- paragraphs: association list + order, as in control/parse.go ---- *)
Definition assoc := list (str * str).
Fixpoint lookup (k : str) (vs : assoc) : option str :=
  match vs with (k', v) :: r => if str_eqb k' k then Some v else lookup k r | [] => None end.
Record para := { order : list str; values : assoc }.

(* convertToParagraph: the struct's own contribution *)
Fixpoint own (sch : schema) (r : record) : list (str * str) :=
  match sch, r with
  | f :: sch', v :: r' =>
      let data := marshal_value v in
      if str_eqb data [] && negb (frequired f) then own sch' r' else (fkey f, data) :: own sch' r'
  | _, _ => []
  end.
Fixpoint omitted (sch : schema) (r : record) : list str :=
  match sch, r with
  | f :: sch', v :: r' =>
      if str_eqb (marshal_value v) [] && negb (frequired f) then fkey f :: omitted sch' r' else omitted sch' r'
  | _, _ => []
  end.
Definition mem (k : str) (l : list str) : bool := existsb (str_eqb k) l.
(* Paragraph.Update after dropping the omitted keys from the embedded paragraph (repair #16) *)
Definition convert (sch : schema) (r : record) (found : para) : para :=
  let new := own sch r in
  let base := filter (fun k => negb (mem k (omitted sch r))) (order found) in
  {| order := base ++ filter (fun k => negb (mem k base)) (map fst new);
     values := new ++ filter (fun kv => negb (mem (fst kv) (map fst new))) (values found) |}.

(* decodeStruct on the fields of the schema *)
Fixpoint decode (sch : schema) (p : assoc) : option record :=
  match sch with
  | [] => Some []
  | f :: sch' =>
      match lookup (fkey f) p with
      | Some t => match decode_value (fkind f) t, decode sch' p with Some v, Some r => Some (v :: r) | _, _ => None end
      | None => if frequired f then None
                else option_map (cons (zero_of (fkind f))) (decode sch' p)
      end
  end.

Definition typed (sch : schema) (r : record) : Prop := Forall2 (fun f v => kind_of v = fkind f /\ wfv v /\
    (* a required field whose value prints as the empty string is written as an empty field *)
    (frequired f = true -> marshal_value v = [] -> decode_value (kind_of v) [] = Some v)) sch r.
Definition keys_distinct (sch : schema) : Prop := NoDup (map fkey sch).

Lemma lookup_app_notin k pre X : ~ In k (map fst pre) -> lookup k (pre ++ X) = lookup k X.
Proof.
  induction pre as [|[a b] pre IH]; intros H; [reflexivity|]. cbn [app lookup].
  destruct (str_eqb_spec a k) as [->|]; [exfalso; apply H; now left|]. apply IH. intros I. apply H. now right.
Qed.
Lemma own_keys : forall sch r k, In k (map fst (own sch r)) -> In k (map fkey sch).
Proof.
  induction sch as [|f sch IH]; intros [|v r] k; cbn [own]; try contradiction.
  destruct (_ && _); cbn [map]; [intros H; right; eapply IH; eauto|].
  intros [<-|H]; [now left|right; eapply IH; eauto].
Qed.
Lemma lookup_notin k X : ~ In k (map fst X) -> lookup k X = None.
Proof.
  induction X as [|[a b] X IH]; intros H; [reflexivity|]. cbn [lookup].
  destruct (str_eqb_spec a k) as [->|]; [exfalso; apply H; now left|]. apply IH. intros I. apply H. now right.
Qed.

Lemma decode_own : forall sch r pre, typed sch r -> keys_distinct sch ->
  (forall k, In k (map fkey sch) -> ~ In k (map fst pre)) ->
  decode sch (pre ++ own sch r) = Some r.
Proof.
  induction sch as [|f sch IH]; intros r pre T D Hpre; inversion T as [|? v ? r' (Hk&Hw&Hreq) T']; subst; [reflexivity|].
  inversion D as [|? ? Hnot D']; subst. cbn [decode own].
  assert (Hf : ~ In (fkey f) (map fst pre)) by (apply Hpre; now left).
  destruct (str_eqb_spec (marshal_value v) []) as [Em|Em]; cbn [andb].
  - destruct (frequired f) eqn:R; cbn [negb].
    + (* required: written even though empty *)
      rewrite (lookup_app_notin _ pre _ Hf). cbn [lookup]. destruct (str_eqb_spec (fkey f) (fkey f)); [|congruence].
      assert (RT : decode_value (kind_of v) (marshal_value v) = Some v) by (rewrite Em; exact (Hreq eq_refl Em)). rewrite <- Hk, RT.
      replace (pre ++ (fkey f, marshal_value v) :: own sch r') with ((pre ++ [(fkey f, marshal_value v)]) ++ own sch r') by (now rewrite <- app_assoc).
      rewrite IH; [reflexivity|exact T'|exact D'|].
      intros k Hin. rewrite map_app, in_app_iff. cbn. intros [I|[I|[]]]; [apply (Hpre k); [now right|exact I]|]. subst. contradiction.
    + (* optional and empty: omitted, and decoded to the zero value, which is what it was *)
      rewrite (lookup_app_notin _ pre _ Hf).
      rewrite (lookup_notin (fkey f) (own sch r')) by (intros I; apply Hnot; eapply own_keys; eauto).
      rewrite IH; [|exact T'|exact D'|intros k Hin; apply Hpre; now right]. cbn. f_equal. f_equal.
      rewrite <- Hk. symmetry. now apply empty_marshal.
  - rewrite (lookup_app_notin _ pre _ Hf). cbn [lookup]. destruct (str_eqb_spec (fkey f) (fkey f)); [|congruence].
    rewrite <- Hk, (value_roundtrip v Hw Em).
    replace (pre ++ (fkey f, marshal_value v) :: own sch r') with ((pre ++ [(fkey f, marshal_value v)]) ++ own sch r') by (now rewrite <- app_assoc).
    rewrite IH; [reflexivity|exact T'|exact D'|].
    intros k Hin. rewrite map_app, in_app_iff. cbn. intros [I|[I|[]]]; [apply (Hpre k); [now right|exact I]|]. subst. contradiction.
Qed.

(* C09: unmarshalling the marshalled paragraph reproduces the record field by field *)
Theorem C09_roundtrip sch r : typed sch r -> keys_distinct sch ->
  decode sch (values (convert sch r {| order := []; values := [] |})) = Some r.
Proof.
  intros T D. unfold convert. cbn [values order filter]. rewrite app_nil_r.
  apply (decode_own sch r [] T D). intros k _ [].
Qed.

(* optional empty fields are omitted, required fields are always written *)
Theorem C09_written sch r k : typed sch r ->
  (In k (map fst (own sch r)) <->
   exists f v, In (f, v) (combine sch r) /\ fkey f = k /\ (frequired f = true \/ marshal_value v <> [])).
Proof.
  intros T. induction T as [|f v sch r Hk T IH]; cbn [own combine]; [split; [contradiction|intros (f&v&I&_); inversion I]|].
  destruct (str_eqb_spec (marshal_value v) []) as [Em|Em]; cbn [andb].
  - destruct (frequired f) eqn:R; cbn [negb map].
    + split.
      * intros [<-|H]; [exists f, v; split; [now left|auto]|]. apply IH in H as (f'&v'&I&E&C). exists f', v'. split; [now right|auto].
      * intros (f'&v'&[I|I]&E&C); [inversion I; subst; now left|]. right. apply IH. eauto.
    + rewrite IH. split.
      * intros (f'&v'&I&E&C). exists f', v'. split; [now right|auto].
      * intros (f'&v'&[I|I]&E&C); [inversion I; subst; destruct C; congruence|]. eauto.
  - cbn [map]. split.
    + intros [<-|H]; [exists f, v; split; [now left|auto]|]. apply IH in H as (f'&v'&I&E&C). exists f', v'. split; [now right|auto].
    + intros (f'&v'&[I|I]&E&C); [inversion I; subst; now left|]. right. apply IH. eauto.
Qed.

(* a required field that is absent makes decoding fail *)
Theorem C09_required_missing : forall sch p f, In f sch -> frequired f = true -> lookup (fkey f) p = None -> decode sch p = None.
Proof.
  induction sch as [|g sch IH]; intros p f Hin R L; [contradiction|]. cbn [decode]. destruct Hin as [->|Hin].
  - now rewrite L, R.
  - destruct (lookup (fkey g) p).
    + rewrite (IH p f Hin R L). destruct (decode_value _ _); reflexivity.
    + destruct (frequired g); [reflexivity|]. now rewrite (IH p f Hin R L).
Qed.

(* unknown fields of the embedded paragraph are re-emitted unchanged, in their original relative order,
   and before any field the struct adds *)
Lemma filter_filter_weak {A} (P Q : A -> bool) l : (forall x, P x = true -> Q x = true) -> filter P (filter Q l) = filter P l.
Proof.
  intros H. induction l as [|a l IH]; [reflexivity|]. cbn [filter]. destruct (Q a) eqn:Qa; cbn [filter].
  - now rewrite IH.
  - destruct (P a) eqn:Pa; [rewrite (H a Pa) in Qa; discriminate|exact IH].
Qed.
Lemma filter_none {A} (P : A -> bool) l : (forall x, In x l -> P x = false) -> filter P l = [].
Proof.
  intros H. induction l as [|a l IH]; [reflexivity|]. cbn [filter]. rewrite (H a (or_introl eq_refl)). apply IH. intros x Hx. apply H. now right.
Qed.
Lemma mem_in k l : mem k l = true <-> In k l.
Proof.
  unfold mem. rewrite existsb_exists. split.
  - intros (x&Hx&E). destruct (str_eqb_spec k x); [now subst|discriminate].
  - intros H. exists k. split; [exact H|]. destruct (str_eqb_spec k k); congruence.
Qed.
Lemma omitted_keys : forall sch r k, In k (omitted sch r) -> In k (map fkey sch).
Proof.
  induction sch as [|f sch IH]; intros [|v r] k; cbn [omitted]; try contradiction.
  destruct (_ && _); cbn [map]; [intros [<-|H]; [now left|right; eapply IH; eauto]|intros H; right; eapply IH; eauto].
Qed.

Theorem C09_passthrough_order sch r found :
  filter (fun k => negb (mem k (map fkey sch))) (order (convert sch r found))
  = filter (fun k => negb (mem k (map fkey sch))) (order found).
Proof.
  unfold convert. cbn [order]. rewrite filter_app.
  rewrite (filter_none _ (filter _ (map fst (own sch r)))).
  - rewrite app_nil_r. apply filter_filter_weak. intros k Hk. apply negb_true_iff in Hk. apply negb_true_iff.
    destruct (mem k (omitted sch r)) eqn:M; [|reflexivity]. apply mem_in in M. apply omitted_keys in M. apply mem_in in M. congruence.
  - intros k Hk. apply filter_In in Hk as [Hk _]. apply negb_false_iff. apply mem_in. eapply own_keys; eauto.
Qed.


  (* C10 glue: decoding succeeds with r exactly when every schema field, looked up in the paragraph,
     decodes to its component of r (absent optional fields give the zero value) *)
  Definition field_spec (p : assoc) (f : fdesc) (v : value) : Prop :=
    match lookup (fkey f) p with
    | Some t => decode_value (fkind f) t = Some v
    | None => frequired f = false /\ v = zero_of (fkind f)
    end.
  Theorem C10_decode_pointwise : forall sch p r, decode sch p = Some r <-> Forall2 (field_spec p) sch r.
  Proof.
    induction sch as [|f sch IH]; intros p r; cbn [decode].
    - split; [intros E; inversion E; constructor|intros F; inversion F; reflexivity].
    - unfold field_spec at 1. split.
      + destruct (lookup (fkey f) p) as [t|] eqn:L.
        * destruct (decode_value (fkind f) t) as [v|] eqn:Dv; [|discriminate].
          destruct (decode sch p) as [r'|] eqn:Dr; [|discriminate]. intros E. inversion E; subst.
          constructor; [unfold field_spec; now rewrite L|now apply IH].
        * destruct (frequired f) eqn:R; [discriminate|]. destruct (decode sch p) as [r'|] eqn:Dr; [|discriminate].
          cbn. intros E. inversion E; subst. constructor; [unfold field_spec; rewrite L; auto|now apply IH].
      + intros F. inversion F as [|? v ? r' Hf Hr]; subst. apply IH in Hr. unfold field_spec in Hf.
        destruct (lookup (fkey f) p) as [t|].
        * now rewrite Hf, Hr.
        * destruct Hf as [-> ->]. now rewrite Hr.
  Qed.
(* ---- unknown fields do not reach the struct: whatever a field the schema does not know is called and wherever it
   stands in the paragraph, the decoded record is the same as without it (the decoder looks up the schema's keys and
   nothing else - after repairs 9b74866 and e5a0c35 also when the name is that of a Go field inside a nested struct
   or of the embedded Paragraph) ---- *)
Lemma lookup_insert_other k v j pre post : j <> k -> lookup j (pre ++ (k, v) :: post) = lookup j (pre ++ post).
Proof.
  intros N. induction pre as [|[a b] pre IH]; cbn [app lookup].
  - destruct (str_eqb_spec k j); [congruence|reflexivity].
  - destruct (str_eqb a j); [reflexivity|exact IH].
Qed.
Theorem decode_ignores_unknown_field : forall sch k v pre post, ~ In k (map fkey sch) ->
  decode sch (pre ++ (k, v) :: post) = decode sch (pre ++ post).
Proof.
  induction sch as [|f sch IH]; intros k v pre post N; [reflexivity|]. cbn [decode].
  assert (Nf : fkey f <> k) by (intros E; apply N; left; exact E).
  assert (Ns : ~ In k (map fkey sch)) by (intros I; apply N; right; exact I).
  rewrite (lookup_insert_other k v (fkey f) pre post Nf). rewrite (IH k v pre post Ns). reflexivity.
Qed.
(* ... and several of them *)
Theorem decode_ignores_unknown_fields : forall sch extra p, Forall (fun kv => ~ In (fst kv) (map fkey sch)) extra ->
  decode sch (extra ++ p) = decode sch p.
Proof.
  intros sch extra p F. induction F as [|[k v] extra Hk _ IH]; [reflexivity|].
  change (((k, v) :: extra) ++ p) with ([] ++ (k, v) :: (extra ++ p)). rewrite decode_ignores_unknown_field by exact Hk. exact IH.
Qed.

End Codec.
Print Assumptions C09_roundtrip.
Print Assumptions C09_passthrough_order.
Print Assumptions C10_decode_pointwise.
