(* C18 for the deb822 reader: the loop in ParagraphReader.All always has enough fuel.  A returned paragraph has
   consumed at least one line, so with more fuel than lines the answer no longer changes: None from read_all
   is an error, never exhaustion. *)
From Coq Require Import List Ascii String Bool Arith Lia.
Require Import GS R2.
Import ListNotations.

Lemma next_len : forall ls p last p' rest, next p last ls = RPara p' rest ->
  List.length rest <= List.length ls /\ (order p = [] -> List.length rest < List.length ls).
Proof.
  induction ls as [|l ls IH]; intros p last p' rest H; cbn [next] in H.
  - destruct (order p) eqn:O; [discriminate|]. inversion H; subst. split; [lia|discriminate].
  - cbn [List.length]. destruct (is_blank_line l).
    { destruct (order p) eqn:O.
      - destruct (IH _ _ _ _ H) as [A B]. rewrite O in B. specialize (B eq_refl). split; [lia|intros _; lia].
      - inversion H; subst. split; [lia|discriminate]. }
    destruct (starts hash l).
    { destruct (IH _ _ _ _ H) as [A B]. split; [lia|intros E; specialize (B E); lia]. }
    destruct (starts sp l || starts tab l).
    { destruct (order p) eqn:O.
      - destruct (str_eqb (trim_space l) []); [|discriminate]. destruct (IH _ _ _ _ H) as [A B]. rewrite O in B. specialize (B eq_refl).
        split; [lia|intros _; lia].
      - destruct (IH _ _ _ _ H) as [A _]. split; [lia|discriminate]. }
    destruct (cut_colon [] l) as [[k v]|]; [|discriminate].
    destruct (starts hash (trim_space k) || starts dashc (trim_space k)); [discriminate|].
    destruct (mem (trim_space k) (values p)); [discriminate|].
    destruct (IH _ _ _ _ H) as [A _]. split; [lia|intros _; lia].
Qed.

Theorem C18_all_fuel : forall fuel ls, List.length ls < fuel ->
  forall fuel', fuel <= fuel' -> all_fuel fuel' ls = all_fuel fuel ls.
Proof.
  induction fuel as [|f IH]; intros ls Hl fuel' Hf; [lia|]. destruct fuel' as [|f']; [lia|].
  cbn [all_fuel]. destruct (next empty_para [] ls) as [p rest| |] eqn:N; try reflexivity.
  destruct (next_len _ _ _ _ _ N) as [_ B]. specialize (B eq_refl). rewrite (IH rest) by lia. reflexivity.
Qed.
Print Assumptions C18_all_fuel.
