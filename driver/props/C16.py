"""C16 - debsig verification covers the package content that was actually loaded."""
import lib
import os
import argen
import debpkg
from props.C14 import oracle_args


PROOF_FILES = ["C16.v", "C14w.v"]    # the witnesses for the .deb theorems live with C14's

def members_of(memline):
    out = []
    toks = memline.split()
    i = 0
    while i < len(toks):
        if toks[i] == "(":
            out.append((bytes.fromhex(toks[i + 1][1:]), bytes.fromhex(toks[i + 2][1:]))); i += 4
        else:
            i += 1
    return out


def run(chk):
    rng = chk.rng
    roles = [b"origin", b"maint", b"archive"]
    base = []
    forged_pkgs = []
    for cenc, denc in ((".gz", ".xz"), ("", ""), (".xz", ".gz"), (".bz2", ".zst")):
        for key in (0, 1):
            role = rng.choice(roles)
            # debian-binary may carry further lines after "2.0" (deb(5)); they are part of what is signed
            binary = b"2.0\n" if key == 0 else b"2.0\nminor-format-note\n"
            buf, info = debpkg.build(chk, rng, cenc, denc, binary=binary)
            ms = info["ms"]
            signed = ms[0]["data"] + ms[1]["data"] + ms[2]["data"]
            sig = bytes.fromhex(chk.run_impl([("sigmake", [str(key).encode(), signed])])[0][1:])
            ms2 = ms + [debpkg.member(b"_gpg" + role, sig)]
            base.append((argen.render(ms2), ms2, role, key))
            if binary != b"2.0\n":
                # a signature over "2.0\n" + control + data only: it does NOT cover the member that is there
                forged = bytes.fromhex(chk.run_impl([("sigmake", [str(key).encode(), b"2.0\n" + ms[1]["data"] + ms[2]["data"]])])[0][1:])
                forged_pkgs.append((argen.render(ms + [debpkg.member(b"_gpg" + role, forged)]), role, key))
    cases, tags = [], []
    for buf, ms, role, key in base:
        other = (key + 1) % 3
        for kr in (str(key), str(key) + str(other), str(other), "e"):
            for r in roles:
                cases.append((buf, r, kr)); tags.append("roles-and-keyrings")
        # roles that are not present but are prefixes / extensions of the one that is, and the empty role
        for r in sorted({role[:4], role[:1], b"", role + b"x", role.upper()}):
            cases.append((buf, r, str(key))); tags.append("near-miss-roles")
        # single-byte corruption inside the three signed members and the signature
        offs = argen.header_offsets(ms)
        spans = [(offs[i] + 60, offs[i] + 60 + len(ms[i]["data"])) for i in (0, 1, 2, 3)]
        for _ in range(chk.n(60, 1200)):
            a, b = rng.choice(spans)
            if b <= a:
                continue
            k = rng.randrange(a, b)
            mut = bytearray(buf); mut[k] ^= rng.choice([1, 0x20, 0xff])
            cases.append((bytes(mut), role, str(key))); tags.append("byte-corruption")
        # decoys: a second control.* / data.* member, a repeated name
        decoys = [ms + [debpkg.member(b"control.tar.xz", b"decoy")], ms + [debpkg.member(b"data.tar", b"decoy")],
                  [ms[0], debpkg.member(b"control.evil.tar", ms[1]["data"])] + ms[1:], ms[:3] + [debpkg.member(b"data.tar.gz.bak", ms[2]["data"])] + ms[3:],
                  ms + [debpkg.member(ms[1]["name"], ms[1]["data"])], ms + [debpkg.member(b"debian-binary", b"2.0\n")],
                  [ms[0], debpkg.member(b"control.sig", b"not a tarball\n")] + ms[1:], ms + [debpkg.member(b"data.", b"")],
                  ms[:2] + [debpkg.member(b"control.", b"x")] + ms[2:]]
        for d in decoys:
            for _ in range(5):
                cases.append((argen.render(d), role, str(key))); tags.append("decoy-members")
        # decoys behind bytes the ar reader cannot make sense of, or cut off: a second control / data member is in the file
        # all the same, so loading or verification must fail
        whole = argen.render(ms)
        for junk in (b"\0" * 64, b"\n" * 60, b" " * 60, b"x" * 59, whole[8:68].replace(b"`\n", b"XX")):
            for dec in (debpkg.member(b"control.tar.xz", b"decoy"), debpkg.member(b"data.tar", b"decoy")):
                cases.append((whole + junk + argen.render([dec])[8:], role, str(key))); tags.append("decoy-members")
        for dec in (b"data.tar", b"control.tar.gz", b"data.tar.zst"):
            cut = dict(debpkg.member(dec, b"x" * 10), size_text=b"100")
            cases.append((argen.render(ms + [cut]), role, str(key))); tags.append("decoy-members")
        # unsigned: no _gpg member
        cases.append((argen.render(ms[:3]), role, str(key))); tags.append("no-signature-member")
    for fbuf, role, key in forged_pkgs:
        cases.append((fbuf, role, str(key))); tags.append("signature-over-other-debian-binary")
    bufs = [c[0] for c in cases]
    tables, mem = oracle_args(chk, bufs)
    # the signature oracle on debian-binary ++ control ++ data of the unique members
    oreq, oidx = [], []
    for k, (c, m) in enumerate(zip(cases, mem)):
        ms = dict(members_of(m)) if m != "notar" else {}
        ctl = [v for n, v in members_of(m) if n.startswith(b"control.")] if m != "notar" else []
        dat = [v for n, v in members_of(m) if n.startswith(b"data.")] if m != "notar" else []
        sig = ms.get(b"_gpg" + c[1]); bn = ms.get(b"debian-binary")
        if sig is not None and bn is not None and len(ctl) == 1 and len(dat) == 1:
            oreq.append(("sigoracle", [c[2].encode(), bn + ctl[0] + dat[0], sig])); oidx.append(k)
    oans = dict(zip(oidx, chk.run_impl(oreq)))
    icases = [("debsig", [c[0], c[1], c[2].encode()]) for c in cases]
    mcases = []
    for k, (c, t) in enumerate(zip(cases, tables)):
        a = oans.get(k, "-")
        mcases.append(("debsig", [c[0], c[1], b"0" if a == "-" else b"1", b"" if a == "-" else bytes.fromhex(a[1:])] + t))
    impl = chk.run_impl(icases); model = chk.run_model(mcases)
    chk.compare("debsig", mcases, impl, model, nontrivial=lambda c, r: r.startswith("ok"),
                project=lambda r: r if r.startswith("ok") else "fail",   # loading or verification failed: one observable
                classify=lambda c, i, m: None if (not i.startswith("ok") and m.startswith("ok")) else {})
    # (a verification that fails where the model's succeeds is not a violation of "succeeds only if": it is noted)
    counts = {}
    for k, (c, i, tag) in enumerate(zip(cases, impl, tags)):
        counts[tag] = counts.get(tag, 0) + 1
        why = None
        if i.startswith("ok"):
            a = oans.get(k, "-")
            if i.startswith("ok-nil"):
                why = "CheckDebsig returned neither an error nor a signer (a caller testing the error alone takes it for success)"
            elif a == "-":
                why = "verification succeeded although _gpg%s is not a valid signature by a key of the keyring over debian-binary, control and data" % c[1].decode()
            elif not i.startswith("ok " + a + " "):
                why = "the reported signer is not the verifying entity"
            elif i.endswith("payload-broken"):
                why = "after a successful verification the payload stream exposed by the loader is no longer readable"
            if tag in ("decoy-members", "no-signature-member", "signature-over-other-debian-binary"):   # (a corrupted byte may leave the signature packet valid: the oracle decides)
                why = why or "verification succeeded on a package with %s" % tag
        if why:
            chk.violate({"kind": "property", "case": lib.show_case(("debsig", [b"<%d bytes>" % len(c[0]), c[1], c[2].encode()])), "impl": i, "tag": tag, "explanation": why})
    ok = sum(1 for i in impl if i.startswith("ok"))
    if ok == 0:
        raise lib.Infra("no signed package verified at all: harness signing is broken")
    # repeated loads (Go map order is randomised per iteration)
    rep = chk.run_impl(icases[::3] * 3)
    n = len(icases[::3])
    for j, c in enumerate(icases[::3]):
        if len({rep[j], rep[j + n], rep[j + 2 * n], impl[::3][j]}) != 1:
            chk.violate({"kind": "property", "case": lib.show_case(("debsig", [b"<%d bytes>" % len(c[1][0])] + c[1][1:])), "outcomes": sorted({rep[j], rep[j + n], rep[j + 2 * n]}),
                         "explanation": "loading and verifying the same bytes repeatedly gives different outcomes"})
    # histories on ONE loaded package: a check's outcome depends on its own role and keyring only, never on the
    # checks made before it (a success must not be remembered for another keyring or role)
    fresh = {}
    for (b, r, kr), i in zip(cases, impl):
        fresh[(b, r, kr)] = "ok-nil" if i.startswith("ok-nil") else (("ok:" + i.split(" ")[1]) if i.startswith("ok") else "err")
    scases, sexp = [], []
    for buf, ms, role, key in base:
        other = (key + 1) % 3
        steps = [(role, str(key)), (role, str(other)), (role, "e"), (role, str(key) + str(other))] + [(r, str(key)) for r in roles if r != role]
        for _ in range(chk.n(6, 60)):
            seq = [rng.choice(steps) for _ in range(rng.randrange(2, 6))]
            if rng.random() < 0.7:
                seq[0] = (role, str(key))          # start with a success
            args = [buf]
            for r, kr in seq:
                args += [r, kr.encode()]
            scases.append(("debsigseq", args)); sexp.append("[ " + " ".join(fresh[(buf, r, kr)] for r, kr in seq) + " ]")
    si = chk.run_impl(scases)
    chk.record("check-histories-on-one-package", scases, si, lambda c, r: "ok:" in r)
    for c, got, want in zip(scases, si, sexp):
        if got != want:
            chk.violate({"kind": "property", "case": lib.show_case(("debsigseq", [b"<%d bytes>" % len(c[1][0])] + c[1][1:])), "impl": got, "expected": want,
                         "explanation": "a check made after other checks on the same loaded package gives another outcome than the same check on a fresh load "
                                        "(expected = fresh-load outcomes, each judged against the signature oracle above)"})
    # extra members with the special spellings of GNU / BSD ar (a "//" string table, "/0" references into it, "#1/20"): to this
    # loader they are ordinary extra members - the package still verifies, and the control data exposed is still that of
    # the signed control member (a long-name table that names a decoy "control.tar" must not change what is loaded)
    gc, gw = [], []
    for buf, ms, role, key in base[:4]:
        ref = chk.run_impl([("debload", [buf])])[0].split(" | ")[0]
        dctl = debpkg.compress(chk, "", debpkg.make_tar([(b"./control", b"Package: evil\nVersion: 6.6\nArchitecture: all\nMaintainer: E <e@e>\n")]))
        for extra in ([debpkg.member(b"/0", dctl), debpkg.member(b"//", b"control.tar/\n")],
                      [debpkg.member(b"//", b"control.tar/\n"), debpkg.member(b"/0", dctl)],
                      [debpkg.member(b"/0", dctl), debpkg.member(b"//", b"data.tar/\n")],
                      [debpkg.member(b"#1/12", b"control.tar\x00" + dctl)]):
            for where in (1, 3, len(ms)):
                pk = argen.render(ms[:where] + extra + ms[where:])
                for _ in range(4):
                    gc.append(("debload", [pk])); gw.append(ref)
                    gc.append(("debsig", [pk, role, str(key).encode()])); gw.append("ok")
    gi = chk.run_impl(gc)
    chk.record("special-member-names", gc, gi, lambda c, r: r.startswith("ok"))
    for c, got, want in zip(gc, gi, gw):
        bad = (c[0] == "debload" and got.split(" | ")[0] != want) or (c[0] == "debsig" and not got.startswith("ok x"))
        if bad:
            chk.violate({"kind": "property", "case": lib.show_case((c[0], [b"<%d bytes>" % len(c[1][0])] + c[1][1:])), "impl": got[:600], "expected": want[:600],
                         "explanation": "a signed package with extra members named like ar long-name tables no longer verifies, or exposes control data that does not come from its signed control member"})
    # LIFETIME HISTORIES over several signed packages: load (from memory or from a file), observe the payload, check the
    # signature, close (once or twice, through Deb.Close or the function LoadFile returned), load again ... in any
    # order, several packages alive at once.  Every observation must be the package's own content and every check must
    # be the fresh-load outcome: verification covers the content the loader exposes for THAT package, whatever
    # happened to other handles before.
    signedp = []
    for denc in (".zst", ".zst", ".zst", ".gz", ".xz", ""):
        key = rng.randrange(2); role = rng.choice(roles)
        buf, info = debpkg.build(chk, rng, rng.choice(["", ".gz", ".zst"]), denc)
        ms = info["ms"]
        sig = bytes.fromhex(chk.run_impl([("sigmake", [str(key).encode(), ms[0]["data"] + ms[1]["data"] + ms[2]["data"]])])[0][1:])
        signedp.append((argen.render(ms + [debpkg.member(b"_gpg" + role, sig)]), role, key))
    single_o = chk.run_impl([("debload", [b]) for b, _, _ in signedp])
    single_s = chk.run_impl([("debsigseq", [b, r, str(k).encode()]) for b, r, k in signedp])
    def rand_script(npk):
        state = {i: "new" for i in range(npk)}      # new | open | seen (payload read) | closed
        toks, want = [], []
        for _ in range(rng.randrange(4, 14)):
            i = rng.randrange(npk)
            st = state[i]
            if st in ("new", "closed"):
                toks.append(rng.choice("LF") + str(i)); state[i] = "open"
            else:
                act = rng.choice(["O", "S", "C", "X", "CC", "XC", "S"])
                if act == "O" and st == "open":
                    toks.append("O%d" % i); want.append("( " + single_o[i] + " )"); state[i] = "seen"
                elif act == "S":
                    b, r, k = signedp[i]
                    toks.append("S%d:%s:%d" % (i, r.decode(), k)); want.append(single_s[i].strip("[] "))
                elif act in ("C", "X", "CC", "XC"):
                    for ch in act:
                        toks.append(ch + str(i))
                    state[i] = "closed"
        # in the end every package still open is observed (content read only now, after everything else happened)
        for i in range(npk):
            if state[i] == "open":
                toks.append("O%d" % i); want.append("( " + single_o[i] + " )")
        return " ".join(toks), want
    hc, hw = [], []
    fixed = ["F0 X0 C0 L1 L2 O1 O2", "F0 X0 C0 F1 F2 S1:%s:%d O2 O1" % (signedp[1][1].decode(), signedp[1][2]), "L0 C0 C0 L1 L2 O2 O1", "F0 O0 X0 X0 F1 O1 X1 L2 O2",
             "L0 L1 L2 C1 O0 O2", "F0 F1 X0 C0 F0 F2 O1 O0 O2"]
    for sc in fixed:
        want = []
        for t in sc.split():
            if t[0] == "O":
                want.append("( " + single_o[int(t[1:])] + " )")
            elif t[0] == "S":
                want.append(single_s[int(t[1:].split(":")[0])].strip("[] "))
        hc.append(("debhist", [sc.encode()] + [b for b, _, _ in signedp[:3]])); hw.append(want)
    for _ in range(chk.n(60, 1200)):
        pk = rng.sample(range(len(signedp)), 3)
        trio = [signedp[i] for i in pk]
        saved = (signedp, single_o, single_s)
        signedp_, single_o_, single_s_ = trio, [single_o[i] for i in pk], [single_s[i] for i in pk]
        signedp, single_o, single_s = signedp_, single_o_, single_s_
        sc, want = rand_script(3)
        signedp, single_o, single_s = saved
        hc.append(("debhist", [sc.encode()] + [b for b, _, _ in trio])); hw.append(want)
    # the FILE behind a LoadFile'd package is replaced on disk (a genuine, signed package renamed over a tampered one that
    # was loaded): what was loaded stays what it was, so the check on that handle - before or after Close - never succeeds,
    # and the exposed content stays the tampered one
    for denc in (".gz", ".xz", ".zst", "", "same-layout", "same-layout"):
        key = rng.randrange(2); role = rng.choice(roles)
        same = denc == "same-layout"
        if same:
            denc = rng.choice([".gz", ""])
        gbuf, ginfo = debpkg.build(chk, rng, "" if same else ".gz", denc)
        gms = ginfo["ms"]
        sig = bytes.fromhex(chk.run_impl([("sigmake", [str(key).encode(), gms[0]["data"] + gms[1]["data"] + gms[2]["data"]])])[0][1:])
        genuine = argen.render(gms + [debpkg.member(b"_gpg" + role, sig)])
        tbuf, tinfo = debpkg.build(chk, rng, ".gz", denc)          # another control and payload under the genuine signature
        tampered = argen.render(tinfo["ms"] + [debpkg.member(b"_gpg" + role, sig)])
        if same:
            # the tampered package has EXACTLY the layout of the genuine one (an uncompressed control.tar in which one letter
            # of the package name differs): member offsets and sizes recorded at load time fit the other file too
            d = gms[1]["data"]; at = d.index(ginfo["ctext"]) + ginfo["ctext"].index(b"Package: ") + 9
            d2 = d[:at] + (b"z" if d[at:at + 1] != b"z" else b"y") + d[at + 1:]
            tampered = argen.render([gms[0], dict(gms[1], data=d2), gms[2], debpkg.member(b"_gpg" + role, sig)])
        to, go = chk.run_impl([("debload", [tampered]), ("debload", [genuine])])
        st = "S0:%s:%d" % (role.decode(), key)
        for sc, want in (("F0 O0 X0 W0:1 " + st, ["( " + to + " )", "err"]), ("F0 W0:1 " + st + " O0", ["err", "( " + to + " )"]),
                         ("F0 O0 C0 W0:1 " + st + " " + st, ["( " + to + " )", "err", "err"]), ("F0 X0 W0:1 F1 " + st + " O1", ["err", "( " + go + " )"])):
            hc.append(("debhist", [sc.encode(), tampered, genuine])); hw.append(want)
    hi = chk.run_impl(hc)
    if os.environ.get("VERIF_DEBUG16"):
        for c, g in zip(hc, hi):
            if b"W0:1" in c[1][0]:
                print("DBG", c[1][0], len(c[1][1]), len(c[1][2]), g[-120:])
    chk.record("lifetime-histories", hc, hi, lambda c, r: r.startswith("["))
    for c, got, want in zip(hc, hi, hw):
        w = "[ " + " ".join(want) + " ]" if want else "[]"
        if got != w:
            chk.violate({"kind": "property", "case": lib.show_case(("debhist", [c[1][0]] + [b"<%d bytes>" % len(x) for x in c[1][1:]])), "impl": got[:1200], "expected": w[:1200],
                         "explanation": "in a history of loads, checks and closes over several packages, a package exposed content that is not its own or a check "
                                        "gave another outcome than on a fresh load (the signature then does not cover the content that was exposed)"})
    chk.extra["stream_sizes"] = counts
    chk.extra["verified_ok"] = ok
    chk.trusted.append("signature oracle: openpgp.CheckDetachedSignature called directly (op sigoracle); signatures made with openpgp.DetachSign")
    chk.assumptions += ["OpenPGP, tar and the decompressors are oracles; the theorems and the tie are about which bytes are loaded and which are verified"]


def replay(chk, d):
    print("replay the package bytes of the case with: ./check C16 (the case is regenerated from the seed)")
    return 0
