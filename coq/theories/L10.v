(* C10 core: decodeStructValueSlice on a delimiter-separated list, folded or not *)
From Coq Require Import List Ascii String Bool Arith Lia.
Require Import GS.
Import ListNotations.

Section Trim.
  Variable P : ascii -> bool.              (* membership in the cutset of strings.Trim *)
  Fixpoint ltrim (x : str) : str := match x with c :: r => if P c then ltrim r else x | [] => [] end.
  Definition rtrim (x : str) : str := rev (ltrim (rev x)).
  Definition trim (x : str) : str := rtrim (ltrim x).
  Definition allP (w : str) : Prop := Forall (fun c => P c = true) w.
  Definition nolead (x : str) : Prop := match x with c :: _ => P c = false | [] => True end.
  Definition notrail (x : str) : Prop := nolead (rev x).

  Lemma ltrim_ws w x : allP w -> ltrim (w ++ x) = ltrim x.
  Proof. induction 1 as [|c w Hc Hw IH]; [reflexivity|]. cbn. now rewrite Hc. Qed.
  Lemma ltrim_id x : nolead x -> ltrim x = x.
  Proof. destruct x as [|c r]; cbn; [auto|]. now intros ->. Qed.
  Lemma ltrim_all w : allP w -> ltrim w = [].
  Proof. intros H. rewrite <- (app_nil_r w). now rewrite ltrim_ws. Qed.
  Lemma allP_rev w : allP w -> allP (rev w). Proof. unfold allP. apply Forall_rev. Qed.
  Lemma rtrim_ws w x : allP w -> rtrim (x ++ w) = rtrim x.
  Proof. intros H. unfold rtrim. rewrite rev_app_distr, ltrim_ws; [reflexivity|now apply allP_rev]. Qed.
  Lemma rtrim_id x : notrail x -> rtrim x = x.
  Proof. intros H. unfold rtrim. rewrite ltrim_id by exact H. apply rev_involutive. Qed.

  Lemma trim_pad w1 x w2 : allP w1 -> allP w2 -> nolead x -> notrail x -> trim (w1 ++ x ++ w2) = x.
  Proof.
    intros H1 H2 Hl Ht. unfold trim. rewrite ltrim_ws by exact H1. destruct x as [|c r].
    - cbn [app]. rewrite ltrim_all by exact H2. reflexivity.
    - rewrite (ltrim_id ((c :: r) ++ w2)) by exact Hl. rewrite rtrim_ws by exact H2. now apply rtrim_id.
  Qed.
End Trim.

Section ListField.
  Variable d : ascii.                       (* the delim tag (one byte: "," or "\n" or " ") *)
  Variable strip : ascii -> bool.           (* the strip tag as a predicate *)

  (* decodeStructValueSlice for []string: Trim, Split, Trim each *)
  (* an empty (or all-stripped) value has no elements *)
  Definition decode_list (v : str) : list str :=
    match trim strip v with [] => [] | t => map (trim strip) (split d t) end.

  (* an element as it may appear in the file: blanks, the element, blanks *)
  Record elt_ok (e : str) : Prop := { e_free : free d e; e_lead : nolead strip e; e_trail : notrail strip e }.
  Definition padded (w1 e w2 : str) : str := w1 ++ e ++ w2.
  Definition pad_free (w : str) : Prop := allP strip w /\ free d w.

  Fixpoint render_list (items : list (str * str * str)) : str :=     (* (blanks, element, blanks) joined by the delimiter *)
    match items with
    | [] => []
    | [(w1, e, w2)] => padded w1 e w2
    | (w1, e, w2) :: r => padded w1 e w2 ++ d :: render_list r
    end.
  Definition item_ok (it : str * str * str) : Prop :=
    let '(w1, e, w2) := it in pad_free w1 /\ pad_free w2 /\ elt_ok e.

  Lemma free_app' a b : free d a -> free d b -> free d (a ++ b).
  Proof. unfold free. intros. apply Forall_app. auto. Qed.

  Lemma split_render : forall items, items <> [] -> Forall item_ok items ->
    split d (render_list items) = map (fun it => let '(w1, e, w2) := it in padded w1 e w2) items.
  Proof.
    induction items as [|[[w1 e] w2] r IH]; [congruence|]. intros _ W. inversion W as [|? ? Hit Wr]; subst.
    unfold item_ok in Hit. destruct Hit as (P1&P2&E).
    assert (F : free d (padded w1 e w2)).
    { unfold padded. apply free_app'; [apply P1|]. apply free_app'; [apply E|apply P2]. }
    destruct r as [|it r'].
    - cbn [render_list map]. now apply split_one.
    - change (render_list ((w1, e, w2) :: it :: r')) with (padded w1 e w2 ++ d :: render_list (it :: r')).
      rewrite (split_cons d _ _ F). cbn [map]. f_equal. apply IH; [discriminate|exact Wr].
  Qed.

  (* the delimiter itself is not stripped *)
  Hypothesis d_not_strip : strip d = false.

  Lemma allP_free w : allP strip w -> free d w.
  Proof. unfold allP, free. intros H. eapply Forall_impl; [|exact H]. intros c Hc E. subst. congruence. Qed.

  (* trimming only removes stripped characters at both ends *)
  Lemma ltrim_decomp x : exists p, x = p ++ ltrim strip x /\ allP strip p.
  Proof.
    induction x as [|c r (p&E&A)]; [exists []; split; [reflexivity|constructor]|]. cbn [ltrim]. destruct (strip c) eqn:S.
    - exists (c :: p). split; [cbn; now rewrite <- E|constructor; auto].
    - exists []. split; [reflexivity|constructor].
  Qed.
  Lemma trim_decomp x : exists p q, x = p ++ trim strip x ++ q /\ allP strip p /\ allP strip q.
  Proof.
    destruct (ltrim_decomp x) as (p&E&A). destruct (ltrim_decomp (rev (ltrim strip x))) as (q&E2&A2).
    exists p, (rev q). split; [|split; [exact A|now apply allP_rev]].
    unfold trim, rtrim. rewrite E at 1. f_equal. rewrite <- (rev_involutive (ltrim strip x)) at 1. rewrite E2 at 1.
    now rewrite rev_app_distr.
  Qed.

  Lemma trim_app_l p x : allP strip p -> trim strip (p ++ x) = trim strip x.
  Proof. intros H. unfold trim. now rewrite ltrim_ws. Qed.
  Lemma trim_app_r x q : allP strip q -> trim strip (x ++ q) = trim strip x.
  Proof.
    intros H. unfold trim. destruct (ltrim_decomp x) as (p&E&A). rewrite E at 1. rewrite <- app_assoc, ltrim_ws by exact A.
    destruct (ltrim strip x) as [|c r] eqn:L.
    - cbn [app]. rewrite ltrim_all by exact H. reflexivity.
    - assert (NL : nolead strip (c :: r)).
      { clear -L. revert L. induction x as [|a x IH]; cbn; [discriminate|]. destruct (strip a) eqn:S; [exact IH|].
        intros E. inversion E; subst. exact S. }
      rewrite (ltrim_id strip ((c :: r) ++ q)) by exact NL. now apply rtrim_ws.
  Qed.

  (* padding in front of / behind the whole text only pads the first / last piece *)
  Lemma split_pad_l p m : free d p -> split d (p ++ m) = match split d m with f :: r => (p ++ f) :: r | [] => [] end.
  Proof.
    intros F. unfold split. rewrite split_on_word by exact F. rewrite app_nil_r.
    assert (G : forall cur, split_on d cur m = match split_on d [] m with f :: r => (rev cur ++ f) :: r | [] => [] end).
    { induction m as [|c m IH]; intros cur; cbn [split_on].
      - now rewrite app_nil_r.
      - destruct (ceq c d).
        + now rewrite app_nil_r.
        + rewrite (IH (c :: cur)), (IH [c]). destruct (split_on d [] m); [reflexivity|]. cbn [rev app]. now rewrite <- app_assoc. }
    rewrite (G (rev p)). now rewrite rev_involutive.
  Qed.
  Lemma map_trim_pad_l p m : allP strip p -> map (trim strip) (split d (p ++ m)) = map (trim strip) (split d m).
  Proof.
    intros A. rewrite (split_pad_l p m (allP_free p A)). destruct (split d m) as [|f r]; [reflexivity|].
    cbn [map]. now rewrite trim_app_l.
  Qed.
  Lemma split_pad_r : forall m q, free d q -> split d (m ++ q) =
    match rev (split d m) with l :: r => rev r ++ [l ++ q] | [] => [] end.
  Proof.
    intros m q F. unfold split.
    assert (G : forall cur, split_on d cur (m ++ q) = match rev (split_on d cur m) with l :: r => rev r ++ [l ++ q] | [] => [] end).
    { induction m as [|c m IH]; intros cur; cbn [app split_on].
      - rewrite <- (app_nil_r q) at 1. rewrite split_on_word by exact F. cbn. now rewrite rev_app_distr, rev_involutive.
      - destruct (ceq c d).
        + rewrite (IH []). cbn [rev]. destruct (rev (split_on d [] m)) as [|l r] eqn:E.
          * exfalso. apply (split_nonempty d m). unfold split. apply (f_equal (@rev str)) in E. now rewrite rev_involutive in E.
          * cbn [app]. rewrite rev_app_distr. reflexivity.
        + apply IH. }
    apply G.
  Qed.
  Lemma map_trim_pad_r m q : allP strip q -> map (trim strip) (split d (m ++ q)) = map (trim strip) (split d m).
  Proof.
    intros A. rewrite (split_pad_r m q (allP_free q A)). destruct (rev (split d m)) as [|l r] eqn:E.
    - exfalso. apply (split_nonempty d m). apply (f_equal (@rev str)) in E. now rewrite rev_involutive in E.
    - assert (E2 : split d m = rev r ++ [l]) by (rewrite <- (rev_involutive (split d m)), E; reflexivity).
      rewrite E2, !map_app. cbn [map]. now rewrite trim_app_r.
  Qed.

  (* a text holding a byte that is not stripped does not trim to nothing *)
  Lemma trim_ne_of_mem v c : In c v -> strip c = false -> trim strip v <> [].
  Proof.
    intros Hin Hc E. destruct (trim_decomp v) as (p&q&Ev&A&B). rewrite E in Ev. cbn [app] in Ev.
    assert (Al : allP strip v) by (rewrite Ev; apply Forall_app; split; assumption).
    unfold allP in Al. rewrite Forall_forall in Al. specialize (Al c Hin). congruence.
  Qed.

  (* so the outer Trim of decodeStructValueSlice does not change the decoded elements *)
  Lemma decode_list_outer v : trim strip v <> [] -> decode_list v = map (trim strip) (split d v).
  Proof.
    intros NE. unfold decode_list. destruct (trim strip v) as [|c0 t0] eqn:T; [congruence|]. rewrite <- T.
    destruct (trim_decomp v) as (p&q&E&A&B). rewrite E at 2.
    rewrite map_trim_pad_l by exact A. now rewrite map_trim_pad_r.
  Qed.
  (* an empty value - nothing, or nothing but stripped bytes - has no elements *)
  Lemma decode_list_empty v : trim strip v = [] -> decode_list v = [].
  Proof. intros E. unfold decode_list. now rewrite E. Qed.

  (* C10 core: a list field, however padded and folded, decodes to its elements *)
  Theorem C10_list_field items : items <> [] -> Forall item_ok items -> trim strip (render_list items) <> [] ->
    decode_list (render_list items) = map (fun it => snd (fst it)) items.
  Proof.
    intros NE W NT. rewrite decode_list_outer by exact NT. rewrite (split_render items NE W), map_map. apply map_ext_in.
    intros [[w1 e] w2] Hin. rewrite Forall_forall in W. specialize (W _ Hin). unfold item_ok in W. destruct W as (P1&P2&E).
    cbn [fst snd]. unfold padded. apply trim_pad; [apply P1|apply P2|apply E|apply E].
  Qed.

  (* when is the rendered list "not an empty value"?  as soon as it has two items (the delimiter is not stripped) or one
     element that is not empty (its first byte is not stripped) *)
  Lemma render_mem : forall items w1 e w2 c, In (w1, e, w2) items -> In c e -> In c (render_list items).
  Proof.
    induction items as [|[[a1 b] a2] r IH]; intros w1 e w2 c Hin Hc; [contradiction|].
    destruct r as [|it2 r'].
    - destruct Hin as [E|[]]. inversion E; subst. cbn [render_list]. unfold padded. apply in_or_app. right. apply in_or_app. now left.
    - change (render_list ((a1, b, a2) :: it2 :: r')) with (padded a1 b a2 ++ d :: render_list (it2 :: r')).
      destruct Hin as [E|Hin].
      + inversion E; subst. apply in_or_app. left. unfold padded. apply in_or_app. right. apply in_or_app. now left.
      + apply in_or_app. right. right. eapply IH; eauto.
  Qed.
  Lemma render_not_empty items : Forall item_ok items ->
    (exists w1 e w2, In (w1, e, w2) items /\ e <> []) \/ (2 <= List.length items)%nat -> trim strip (render_list items) <> [].
  Proof.
    intros W [(w1&e&w2&Hin&Hne)|H2].
    - destruct e as [|c t]; [congruence|]. rewrite Forall_forall in W. specialize (W _ Hin). cbn in W. destruct W as (_&_&[_ Hl _]).
      apply (trim_ne_of_mem _ c); [|exact Hl]. eapply render_mem; [exact Hin|now left].
    - destruct items as [|[[a1 b] a2] [|it2 r']]; cbn [List.length] in H2; try lia.
      change (render_list ((a1, b, a2) :: it2 :: r')) with (padded a1 b a2 ++ d :: render_list (it2 :: r')).
      apply (trim_ne_of_mem _ d); [|exact d_not_strip]. apply in_or_app. right. now left.
  Qed.
End ListField.
Print Assumptions C10_list_field.
