(* C14 / C16: loadDeb, loadDeb2Control/Data, CheckDebsig glue (after repair #27) *)
From Coq Require Import List Ascii String Bool Arith Lia.
Require Import GS.
Import ListNotations.

Section Deb.
  Variables keyring entity ctl : Type.
  (* ORACLES *)
  Variable pgp_verify : keyring -> str -> str -> option entity.
  Variable untar : str -> option (list (str * str)).             (* archive/tar: (name, content) in order *)
  Variable decompress : str -> str -> option str.                (* DecompressorFor(ext) applied to the data *)
  Variable path_clean : str -> str.                              (* path.Clean *)
  Variable decode_control : str -> option ctl.                   (* control.Unmarshal into deb.Control (C10 model) *)
  Variable ext_of : str -> str.                                  (* filepath.Ext *)
  Variable is_tarfile : str -> bool.

  Definition member := (str * str)%type.                         (* name, bytes; as returned by the ar iterator (C13) *)
  Fixpoint lookup (k : str) (ms : list member) : option str :=
    match ms with (n, d) :: r => if str_eqb n k then Some d else lookup k r | [] => None end.
  Definition has_prefix_s (p x : str) : bool := str_eqb (firstn (List.length p) x) p.
  Definition with_prefix (p : str) (ms : list member) : list member := filter (fun m => has_prefix_s p (fst m)) ms.
  Fixpoint dup_names (ms : list member) : bool :=
    match ms with [] => false | (n, _) :: r => existsb (fun m => str_eqb (fst m) n) r || dup_names r end.

  Record deb := { d_control : ctl; d_control_bytes : str; d_data_bytes : str; d_control_ext : str; d_data_ext : str;
                  d_members : list member; d_data_files : list (str * str) }.

  Definition binary_name := s "debian-binary".
  Definition ver20 : str := s "2.0" ++ [nl].
  Fixpoint upto_nl (x : str) : option str :=          (* bufio ReadString('\n'): error if no newline *)
    match x with [] => None | c :: r => if ceq c nl then Some [c] else option_map (cons c) (upto_nl r) end.

  (* Go map iteration order: pick is an arbitrary choice among the candidates *)
  (* two independent scans of the Go map: the loader's and CheckDebsig's *)
  Variables pick pickS : list member -> option member.
  Hypothesis pick_in : forall l m, pick l = Some m -> In m l.
  Hypothesis pickS_in : forall l m, pickS l = Some m -> In m l.

  Definition find_control_entry (files : list (str * str)) : option str :=
    option_map snd (find (fun f => str_eqb (path_clean (fst f)) (s "control")) files).

  Definition load_deb (ms : list member) : option deb :=
    if dup_names ms then None else
    match lookup binary_name ms with
    | None => None
    | Some b =>
        if negb (match upto_nl b with Some l => str_eqb l ver20 | None => false end) then None else
        let cs := with_prefix (s "control.") ms in let ds := with_prefix (s "data.") ms in
        if (1 <? List.length cs) || (1 <? List.length ds) then None else
        match pick cs, pick ds with
        | Some (cn, cb), Some (dn, db) =>
            if negb (is_tarfile cn) || negb (is_tarfile dn) then None else
            match decompress (ext_of cn) cb, decompress (ext_of dn) db with
            | Some ctar, Some dtar =>
                match untar ctar, untar dtar with
                | Some cfiles, Some dfiles =>
                    match find_control_entry cfiles with
                    | Some text => option_map (fun c =>
                        {| d_control := c; d_control_bytes := cb; d_data_bytes := db;
                           d_control_ext := skipn 8 cn; d_data_ext := skipn 5 dn;
                           d_members := ms; d_data_files := dfiles |}) (decode_control text)
                    | None => None end
                | _, _ => None end
            | _, _ => None end
        | _, _ => None
        end
    end.

  Definition check_debsig (kr : keyring) (role : str) (d : deb) : option entity :=
    match lookup (s "_gpg" ++ role) (d_members d), lookup binary_name (d_members d) with
    | Some sg, Some b =>
        match pickS (with_prefix (s "control.") (d_members d)), pickS (with_prefix (s "data.") (d_members d)) with
        | Some (_, cb), Some (_, db) => pgp_verify kr (b ++ cb ++ db) sg
        | _, _ => None end
    | _, _ => None
    end.

  Lemma single l (m m' : member) : List.length l <= 1 -> In m l -> In m' l -> m = m'.
  Proof. destruct l as [|a [|b l]]; cbn; intros H; try lia; intros [->|[]] [->|[]]; reflexivity. Qed.

  (* what is verified is what was parsed and exposed *)
  Theorem C16_sound ms d kr role e : load_deb ms = Some d -> check_debsig kr role d = Some e ->
    exists sg b, lookup (s "_gpg" ++ role) ms = Some sg /\ lookup binary_name ms = Some b /\
      pgp_verify kr (b ++ d_control_bytes d ++ d_data_bytes d) sg = Some e /\
      (exists cn ctar cfiles text, In (cn, d_control_bytes d) ms /\ decompress (ext_of cn) (d_control_bytes d) = Some ctar /\
         untar ctar = Some cfiles /\ find_control_entry cfiles = Some text /\ decode_control text = Some (d_control d)) /\
      (exists dn dtar, In (dn, d_data_bytes d) ms /\ decompress (ext_of dn) (d_data_bytes d) = Some dtar /\
         untar dtar = Some (d_data_files d)).
  Proof.
    unfold load_deb. destruct (dup_names ms); [discriminate|].
    destruct (lookup binary_name ms) as [b|] eqn:LB; [|discriminate].
    destruct (negb (match upto_nl b with Some l => str_eqb l ver20 | None => false end)); [discriminate|].
    set (cs := with_prefix (s "control.") ms). set (ds := with_prefix (s "data.") ms).
    destruct ((1 <? List.length cs) || (1 <? List.length ds)) eqn:U; [discriminate|].
    apply orb_false_iff in U as [U1 U2]. apply Nat.ltb_ge in U1. apply Nat.ltb_ge in U2.
    destruct (pick cs) as [[cn cb]|] eqn:PC; [|discriminate]. destruct (pick ds) as [[dn db]|] eqn:PD; [|discriminate].
    destruct (negb (is_tarfile cn) || negb (is_tarfile dn)); [discriminate|].
    destruct (decompress (ext_of cn) cb) as [ctar|] eqn:DC; [|discriminate].
    destruct (decompress (ext_of dn) db) as [dtar|] eqn:DD; [|discriminate].
    destruct (untar ctar) as [cfiles|] eqn:UC; [|discriminate]. destruct (untar dtar) as [dfiles|] eqn:UD; [|discriminate].
    destruct (find_control_entry cfiles) as [text|] eqn:FC; [|discriminate].
    destruct (decode_control text) as [c|] eqn:DCo; [|discriminate]. cbn [option_map]. intros E. inversion E; subst d. clear E.
    unfold check_debsig. cbn [d_members d_control_bytes d_data_bytes d_control d_data_files].
    destruct (lookup (s "_gpg" ++ role) ms) as [sg|] eqn:LS; [|discriminate]. rewrite LB.
    fold cs ds.
    destruct (pickS cs) as [[cn' cb']|] eqn:PC'; [|discriminate]. destruct (pickS ds) as [[dn' db']|] eqn:PD'; [|discriminate].
    (* uniqueness makes the second, independent pick the same member *)
    assert (E1 : (cn', cb') = (cn, cb)) by (apply (single cs); [exact U1|now apply pickS_in|now apply pick_in]).
    assert (E2 : (dn', db') = (dn, db)) by (apply (single ds); [exact U2|now apply pickS_in|now apply pick_in]).
    inversion E1; inversion E2; subst. intros V.
    assert (InC : In (cn, cb) ms) by (apply pick_in in PC; unfold cs, with_prefix in PC; now apply filter_In in PC as [? _]).
    assert (InD : In (dn, db) ms) by (apply pick_in in PD; unfold ds, with_prefix in PD; now apply filter_In in PD as [? _]).
    exists sg, b. repeat split; auto.
    - exists cn, ctar, cfiles, text. auto.
    - exists dn, dtar. auto.
  Qed.

  (* a decoy control.* or data.* member, or a repeated name, makes loading fail *)
  Theorem C16_decoy_rejected ms : 1 < List.length (with_prefix (s "control.") ms) \/ 1 < List.length (with_prefix (s "data.") ms)
    \/ dup_names ms = true -> load_deb ms = None.
  Proof.
    unfold load_deb. intros [H|[H|H]].
    - destruct (dup_names ms); [reflexivity|]. destruct (lookup binary_name ms) as [s0|]; [|reflexivity].
      destruct (negb (match upto_nl s0 with Some l => str_eqb l ver20 | None => false end)); [reflexivity|]. apply Nat.ltb_lt in H. now rewrite H.
    - destruct (dup_names ms); [reflexivity|]. destruct (lookup binary_name ms) as [s0|]; [|reflexivity].
      destruct (negb (match upto_nl s0 with Some l => str_eqb l ver20 | None => false end)); [reflexivity|]. apply Nat.ltb_lt in H. rewrite H. now rewrite orb_true_r.
    - now rewrite H.
  Qed.
  (* a role that is not present, or a signature the keyring does not verify, makes verification fail *)
  Theorem C16_no_role kr role d : lookup (s "_gpg" ++ role) (d_members d) = None -> check_debsig kr role d = None.
  Proof. intros H. unfold check_debsig. now rewrite H. Qed.
  Theorem C16_not_verified kr role d : (forall x sg, pgp_verify kr x sg = None) -> check_debsig kr role d = None.
  Proof.
    intros H. unfold check_debsig. destruct (lookup _ _); [|reflexivity]. destruct (lookup _ _); [|reflexivity].
    destruct (pickS _) as [[? ?]|]; [|reflexivity]. destruct (pickS _) as [[? ?]|]; [|reflexivity]. apply H.
  Qed.
End Deb.

(* the outcome of loading does not depend on the map iteration order *)
Theorem C14_deterministic ctl untar decompress path_clean decode_control ext_of is_tarfile pick1 pick2 ms :
  (forall l m, pick1 l = Some m -> In m l) -> (forall l m, pick2 l = Some m -> In m l) ->
  (forall l, l <> [] -> pick1 l <> None) -> (forall l, l <> [] -> pick2 l <> None) ->
  load_deb ctl untar decompress path_clean decode_control ext_of is_tarfile pick1 ms =
  load_deb ctl untar decompress path_clean decode_control ext_of is_tarfile pick2 ms.
Proof.
  intros I1 I2 S1 S2. unfold load_deb. destruct (dup_names ms); [reflexivity|].
  destruct (lookup binary_name ms) as [s0|]; [|reflexivity].
  destruct (negb (match upto_nl s0 with Some l => str_eqb l ver20 | None => false end)); [reflexivity|].
  set (cs := with_prefix (s "control.") ms). set (ds := with_prefix (s "data.") ms).
  destruct ((1 <? List.length cs) || (1 <? List.length ds)) eqn:U; [reflexivity|].
  apply orb_false_iff in U as [U1 U2]. apply Nat.ltb_ge in U1. apply Nat.ltb_ge in U2.
  assert (P : forall l, List.length l <= 1 -> pick1 l = pick2 l).
  { intros l Hl. destruct l as [|a [|b l]]; cbn in Hl; try lia.
    - destruct (pick1 []) eqn:E1; [apply I1 in E1; contradiction|]. destruct (pick2 []) eqn:E2; [apply I2 in E2; contradiction|]. reflexivity.
    - destruct (pick1 [a]) eqn:E1; [|exfalso; apply (S1 [a]); [discriminate|exact E1]].
      destruct (pick2 [a]) eqn:E2; [|exfalso; apply (S2 [a]); [discriminate|exact E2]].
      apply I1 in E1 as [->|[]]. apply I2 in E2 as [->|[]]. reflexivity. }
  now rewrite (P cs U1), (P ds U2).
Qed.
Print Assumptions C16_sound.
Print Assumptions C14_deterministic.
